"""Named program shapes taken from the property texts (wire-form ASTs)."""
from __future__ import annotations

from core import A
from lang import P_c, P_i, P_s


def op(name: str, *ps: list) -> list:
    return [A("op"), None, name, *ps]


def ctrl(k: str) -> list:
    return [A("ctrl"), A(k)]


def dbg(neg: bool = False) -> list:
    return [A("neg"), neg, A("debug")]


def cmp_(v: str, o: str, x: int) -> list:
    return [A("cop"), P_c(v), A(o), False, P_i(x)]


def if_(neg: bool, cs: list, body: list, elifs: list | None = None, els: list | None = None) -> list:
    return [A("if"), neg, cs, body, elifs or [], [els] if els is not None else None]


def sw(cases: list, hdr: list | None = None) -> list:
    return [A("switch"), hdr or [A("var"), P_c("$VAR_A")], cases]


def case(v: int, body: list) -> list:
    return [A("case"), [A("int"), P_i(v)], body]


def gen(i: int, body: list) -> list:
    return [A("routine"), i, A("generic"), None, None, False, body]


def prog(*routines: list) -> list:
    return [A("prog"), [], list(routines)]


def c01_shapes() -> list[tuple[str, list]]:
    L = lambda l: [A("label"), l]  # noqa: E731
    J = lambda l: [A("jump"), l]  # noqa: E731
    out = []
    out.append(("neg_if_lone_jump", prog(gen(0, [if_(True, [dbg()], [J("x")]), op("a"), L("x"), op("b"), ctrl("end")]))))
    out.append(("pos_if_lone_jump", prog(gen(0, [if_(False, [dbg()], [J("x")]), op("a"), L("x"), op("b"), ctrl("end")]))))
    out.append(("neg_if_or_lone_jump", prog(gen(0, [if_(True, [dbg(), cmp_("$A", "gt", 1)], [J("x")]), op("a"), L("x"), op("b")]))))
    out.append(("elif_lone_jump", prog(gen(0, [if_(False, [dbg()], [op("a")], [[True, [cmp_("$A", "eq", 1)], [J("x")]]], [op("c")]), op("d"), L("x"), op("b")]))))
    out.append(("case_only_break", prog(gen(0, [sw([case(1, [op("a")]), case(2, [ctrl("break")]), case(3, [op("c")])]), op("d"), ctrl("end")]))))
    out.append(("case_only_jump", prog(gen(0, [sw([case(1, [op("a")]), case(2, [J("x")]), case(3, [op("c")])]), op("d"), L("x"), op("e"), ctrl("end")]))))
    out.append(("default_only_break", prog(gen(0, [sw([case(1, [op("a")]), [A("default"), [ctrl("break")]], case(3, [op("c")])]), op("d")]))))
    out.append(("default_first_fallthrough", prog(gen(0, [sw([[A("default"), [op("a")]], case(1, [op("b"), ctrl("break")]), case(2, [op("c")])]), op("d")]))))
    out.append(("default_waits", prog(gen(0, [sw([case(1, [op("a"), ctrl("break")]), [A("default"), []], case(2, [op("c")])]), op("d")]))))
    out.append(("loop_at_end", prog(gen(0, [op("a"), [A("while"), False, dbg(), [op("b")]]]))))
    out.append(("while_not_at_end", prog(gen(0, [op("a"), [A("while"), True, dbg(), [op("b")]]]))))
    out.append(("forever_break_loop_at_end", prog(gen(0, [[A("forever"), [op("a"), if_(False, [dbg()], [ctrl("break_loop")])]]]))))
    out.append(("for_continue", prog(gen(0, [[A("for"), [A("assign"), [A("clear"), P_c("$I")]], cmp_("$I", "lt", 3),
                                              [A("assign"), [A("regular"), P_c("$I"), None, A("plus"), False, P_i(1)]],
                                              [op("a"), if_(False, [dbg()], [ctrl("continue")]), op("b")]], ctrl("end")]))))
    out.append(("label_at_routine_end", prog(gen(0, [op("a"), if_(False, [dbg()], [J("x")]), op("b"), L("x")]))))
    out.append(("label_at_end_after_terminator", prog(gen(0, [if_(False, [dbg()], [J("x")]), op("b"), ctrl("end"), L("x")]))))
    out.append(("two_labels_at_end", prog(gen(0, [if_(False, [dbg()], [J("x")]), if_(False, [dbg(True)], [J("y")]), op("b"), L("x"), L("y")]))))
    out.append(("jump_other_routine", prog(gen(0, [op("a"), J("y")]), gen(1, [op("b"), L("y"), op("c"), ctrl("end")]))))
    out.append(("call_label", prog(gen(0, [op("a"), [A("call"), "y"], op("b"), ctrl("end"), L("y"), op("c"), ctrl("return")]))))
    out.append(("if_ends_routine", prog(gen(0, [op("a"), if_(False, [dbg()], [op("b")], None, [op("c")])]))))
    out.append(("if_return_in_body_then_op", prog(gen(0, [if_(False, [dbg()], [ctrl("return")]), op("a")]))))
    out.append(("with_end", prog(gen(0, [[A("with"), "actor", P_i(1), ctrl("end")], op("a"), ctrl("end")]))))
    out.append(("inline_ctx_end_name", prog(gen(0, [[A("op"), ["actor", P_i(1)], "End"], op("a"), ctrl("end")]))))
    out.append(("nested_switch_in_loop_break_continue", prog(gen(0, [[A("while"), False, dbg(), [sw([case(1, [ctrl("continue")]), case(2, [ctrl("break")]), case(3, [ctrl("break_loop")])]), op("a")]], op("b"), ctrl("end")]))))
    out.append(("break_in_loop_in_case", prog(gen(0, [sw([case(1, [[A("forever"), [op("a"), ctrl("break")]], op("x")]), case(2, [op("c")])]), op("d"), ctrl("end")]))))
    out.append(("switch_scn_case_op", prog(gen(0, [[A("switch"), [A("scn"), P_c("$S"), 0], [[A("case"), [A("op"), A("gt"), False, P_i(3)], [op("a"), ctrl("break")]], [A("case"), [A("op"), A("eq"), True, P_c("$V")], [op("b")]]]], ctrl("end")]))))
    out.append(("empty_if_else", prog(gen(0, [if_(False, [dbg()], [], None, []), op("a")]))))
    out.append(("empty_if_with_else_body", prog(gen(0, [if_(False, [dbg()], [], None, [op("b")]), op("a")]))))
    out.append(("msg_switch", prog(gen(0, [[A("msgswitch"), False, P_c("$V"), [[P_i(1), P_s("a")], [P_i(2), P_s("b")]], [P_s("d")]], ctrl("end")]))))
    out.append(("coro_and_alias", [A("prog"), [], [[A("routine"), 0, A("coroutine"), None, ["C_A"], False, [op("a"), ctrl("return")]],
                                                 [A("routine"), 1, A("coroutine"), None, ["C_B"], True, []]]]))
    out.append(("targets", [A("prog"), [], [[A("routine"), 0, A("actor"), [P_c("ACTOR_X")], None, False, [op("a"), ctrl("hold")]],
                                          [A("routine"), 1, A("object"), [P_i(5)], None, False, [op("b"), ctrl("end")]],
                                          [A("routine"), 2, A("performer"), [P_i(0)], None, False, [op("c")]]]]))
    return out
