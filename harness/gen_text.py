"""G_text: structured strings and literal spellings for C04 / C16 / C17."""
from __future__ import annotations

import itertools
import random

ALPHABET = ["a", " ", "\n", "'", '"', "\\"]


def structured_strings(r: random.Random, n: int) -> list[str]:
    out = []
    atoms = ["a", "b c", " ", "  ", "'", '"', "'''", '"""', "\\", "\\n", "\\'", '\\"', "n", "ü", "日本", "\t", "{", "}", ",", "//", "/*", "*/", "@x;", "Position<'a', 1, 2>"]
    for _ in range(n):
        nlines = r.choice([1, 1, 2, 2, 3, 4])
        lines = []
        for _ in range(nlines):
            k = r.choice([0, 1, 1, 2, 3])
            line = "".join(r.choice(atoms) for _ in range(k))
            if r.random() < 0.3:
                line = " " * r.randint(1, 5) + line
            if r.random() < 0.15:
                line = line + " " * r.randint(1, 3)
            lines.append(line)
        s = "\n".join(lines)
        if r.random() < 0.05:
            s = s.replace("\n", r.choice(["\r", "\r\n", "\x0b", "\x0c", "\x1c", "\x85", " "]), 1)
        out.append(s)
    return out


def exhaustive_strings(maxlen: int) -> list[str]:
    out = [""]
    for n in range(1, maxlen + 1):
        for t in itertools.product(ALPHABET, repeat=n):
            out.append("".join(t))
    return out


def classify_string(s: str) -> str:
    """coarse class of a string value (used to name findings, never to hide them by itself)"""
    tags = []
    if any(c in s for c in "\r\x0b\x0c\x1c\x1d\x1e\x85  "):
        tags.append("linesep")
    multi = "\n" in s
    if "\\" in s:
        i = 0
        kinds = set()
        while True:
            i = s.find("\\", i)
            if i < 0:
                break
            nxt = s[i + 1] if i + 1 < len(s) else "END"
            kinds.add("bs+n" if nxt == "n" else "bs+quote" if nxt in "'\"" else "bs+end" if nxt == "END" else
                      "bs+nl" if nxt == "\n" else "bs+other")
            i += 1
        tags.extend(sorted(kinds))
    if multi:
        lines = s.split("\n")
        if "'''" in s and '"""' in s:
            tags.append("both-triple")
        if all(x.startswith(" ") for x in lines[1:] if True) and len(lines) > 1:
            tags.append("all-rest-lines-indented")
        if lines[-1].strip(" ") == "":
            tags.append("last-line-blank")
        if lines[0] == "":
            tags.append("first-line-empty")
        if lines[0].strip(" ") == "" and lines[0] != "":
            tags.append("first-line-blank")
        if s.endswith("'") or s.endswith('"'):
            tags.append("ends-with-quote")
    return "+".join(tags) if tags else "plain"


def int_spellings(r: random.Random, n: int) -> list[tuple[str, int]]:
    out = []
    for _ in range(n):
        v = r.choice([0, 1, 7, 8, 9, 10, 15, 16, 255, 256, 1000, 32767, 2 ** 40, 10 ** 25])
        neg = r.random() < 0.4
        base = r.choice(["d", "x", "X", "o", "O", "b", "B", "zeros"])
        if base == "d":
            body = str(v)
        elif base in "xX":
            body = "0" + base + (format(v, "x") if r.random() < 0.5 else format(v, "X"))
        elif base in "oO":
            body = "0" + base + format(v, "o")
        elif base in "bB":
            body = "0" + base + format(v, "b")
        else:
            body, v = "0" * r.randint(1, 4), 0
        out.append((("-" if neg else "") + body, -v if neg else v))
    return out


def decimal_spellings(r: random.Random, n: int) -> list[str]:
    out = []
    for _ in range(n):
        whole = r.choice(["", "0", "00", "1", "12", "007", "120", "0000"])
        frac = r.choice(["0", "5", "50", "05", "0034", "000", "125", "9"])
        neg = r.choice(["", "-"])
        out.append(neg + whole + "." + frac)
    return out
