"""G_ssb: well-formed SSB routine sets (as a binary reader would deliver them).

Classes: (a) real compiler outputs of G_prog programs, (b) re-layouts of (a) (blocks permuted,
Jump glue inserted), (c) random op lists with arbitrary jumps, (d) named shapes.
Ops are dicts {off, code, params} with tagged params (see core.py).
"""
from __future__ import annotations

import copy
import random
from typing import Any

from core import PERF, DM_CONSTS
from lang import KEYWORDS

JUMP_IDX = {
    "Case": 1, "CaseMenu": 1, "CaseMenu2": 1, "CaseScenario": 2, "CaseValue": 2, "CaseVariable": 2, "Jump": 0,
    "Call": 0, "Branch": 2, "BranchBit": 2, "BranchDebug": 1, "BranchEdit": 1, "BranchExecuteSub": 1,
    "BranchPerformance": 2, "BranchScenarioNow": 3, "BranchScenarioNowAfter": 3, "BranchScenarioNowBefore": 3,
    "BranchScenarioAfter": 3, "BranchScenarioBefore": 3, "BranchSum": 3, "BranchValue": 3, "BranchVariable": 3,
    "BranchVariation": 1,
}
FLOW_END = {"Jump", "JumpCommon", "Return", "End", "Hold", "Destroy"}
CTX = {"lives", "object", "performer"}
REGULAR_CASES = {"Case", "CaseValue", "CaseVariable", "CaseScenario"}
MENU_CASES = {"CaseMenu", "CaseMenu2"}
SWITCH_CASES = {
    "message_SwitchMenu": MENU_CASES, "message_SwitchMenu2": MENU_CASES, "Switch": REGULAR_CASES,
    "SwitchSector": REGULAR_CASES, "ProcessSpecial": REGULAR_CASES, "message_Menu": REGULAR_CASES,
    "SwitchScenario": REGULAR_CASES, "SwitchRandom": REGULAR_CASES, "SwitchScenarioLevel": REGULAR_CASES,
    "SwitchDungeonMode": REGULAR_CASES, "main_EnterAdventure": REGULAR_CASES, "main_EnterRescueUser": REGULAR_CASES,
    "main_EnterTraining": REGULAR_CASES, "main_EnterTraining2": REGULAR_CASES,
}
TEXT_SWITCHES = {"message_SwitchTalk", "message_SwitchMonologue"}
FLAG_ARITY = {"flag_CalcBit": 3, "flag_CalcValue": 3, "flag_CalcVariable": 3, "flag_Clear": 1, "flag_Initial": 1, "flag_Set": 2,
              "flag_ResetDungeonResult": 0, "flag_ResetScenario": 1, "flag_SetAdventureLog": 1, "flag_SetDungeonMode": 2,
              "flag_SetPerformance": 2, "flag_SetScenario": 3}
ALL_CASES = REGULAR_CASES | MENU_CASES


def is_identifier(s: str) -> bool:
    return bool(s) and s.isascii() and (s[0].isalpha() or s[0] == "_") and all(c.isalnum() or c == "_" for c in s)


def target_of(op: dict) -> int | None:
    idx = JUMP_IDX.get(op["code"])
    if idx is None:
        return None
    if len(op["params"]) <= idx or op["params"][idx][0] != "i":
        return None
    return op["params"][idx][1]


def wf_ssb(routines: list[list[dict]]) -> str | None:
    """None if the routine set is well-formed in the sense of C02/C06/C09 (DESIGN 3.2a); else the reason."""
    flat: list[tuple[int, int, dict]] = []
    last = -1
    for ri, r in enumerate(routines):
        for oi, op in enumerate(r):
            if not isinstance(op["off"], int) or op["off"] <= last:
                return "offsets not strictly increasing"
            last = op["off"]
            flat.append((ri, oi, op))
    offs = {op["off"]: (ri, oi) for ri, oi, op in flat}
    for ri, r in enumerate(routines):
        for oi, op in enumerate(r):
            c = op["code"]
            if not is_identifier(c) or (c in KEYWORDS and c not in TEXT_SWITCHES):
                return f"opcode name {c!r}"
            if c in JUMP_IDX:
                if len(op["params"]) != JUMP_IDX[c] + 1:
                    return f"arity of {c}"
                t = target_of(op)
                if t is None or t not in offs:
                    return f"target of {c}"
                tr, to = offs[t]
                if to > 0 and routines[tr][to - 1]["code"] in CTX:
                    return "jump to the operand of a context op"
            if c in CTX:
                if len(op["params"]) != 1 or op["params"][0][0] not in ("i", "c"):
                    return "context op parameters"
                if oi + 1 >= len(r):
                    return "context op without operand"
                nxt = r[oi + 1]["code"]
                if nxt in JUMP_IDX or nxt in CTX or nxt in SWITCH_CASES or nxt in TEXT_SWITCHES or nxt in ("CaseText", "DefaultText"):
                    return "context op before a special op"
            if c in ALL_CASES:
                # must be in the run of cases directly after a switch op that admits it
                j = oi - 1
                while j >= 0 and r[j]["code"] in ALL_CASES:
                    j -= 1
                if j < 0 or r[j]["code"] not in SWITCH_CASES or c not in SWITCH_CASES[r[j]["code"]]:
                    return f"stray {c}"
                if j > 0 and r[j - 1]["code"] in CTX:
                    return "switch as operand of a context op"
                sw = r[j]["code"]
                if c == "CaseScenario" and sw != "SwitchScenario":
                    return "CaseScenario outside SwitchScenario"
                if c == "CaseValue" and sw == "SwitchScenario":
                    return "CaseValue under SwitchScenario"
            if c in ("CaseText", "DefaultText"):
                j = oi - 1
                while j >= 0 and r[j]["code"] == "CaseText":
                    j -= 1
                if c == "DefaultText" and oi > 0 and r[oi - 1]["code"] == "DefaultText":
                    return "two DefaultText"
                if j < 0 or r[j]["code"] not in TEXT_SWITCHES:
                    return f"stray {c}"
                if c == "CaseText" and (len(op["params"]) != 2 or op["params"][1][0] not in ("s", "l")):
                    return "CaseText parameters"
                if c == "DefaultText" and (len(op["params"]) != 1 or op["params"][0][0] not in ("s", "l")):
                    return "DefaultText parameters"
            if c in TEXT_SWITCHES and len(op["params"]) != 1:
                return "message switch parameters"
            if c in ("Return", "End", "Hold") and op["params"]:
                return "keyword op with parameters"
            if c in FLAG_ARITY and (len(op["params"]) != FLAG_ARITY[c] or any(p[0] not in ("i", "c", "f") for p in op["params"])):
                return "flag op parameters"
    # every path from an entry ends in a flow-ending op; no cycle of Jump only
    for ri, r in enumerate(routines):
        if not r:
            continue
        seen = set()
        todo = [(ri, 0)]
        while todo:
            cr, ci = todo.pop()
            if (cr, ci) in seen:
                continue
            seen.add((cr, ci))
            rr = routines[cr]
            if ci >= len(rr):
                return "a path runs off the end of a routine"
            op = rr[ci]
            c = op["code"]
            prev_ctx = ci > 0 and rr[ci - 1]["code"] in CTX
            if c in JUMP_IDX:
                t = offs[target_of(op)]
                todo.append(t)
                if c != "Jump":
                    todo.append((cr, ci + 1))
            elif c in FLOW_END and not prev_ctx:
                pass
            else:
                todo.append((cr, ci + 1))
    for ri, oi, op in flat:
        if op["code"] == "Jump":
            seen_j = set()
            cur = (ri, oi)
            while True:
                o = routines[cur[0]][cur[1]]
                if o["code"] != "Jump":
                    break
                if cur in seen_j:
                    return "cycle of Jump ops"
                seen_j.add(cur)
                cur = offs[target_of(o)]
    return None


# ----------------------------------------------------------------------------- (b) re-layout
def _blocks(r: list[dict], targets: set[int]) -> list[list[dict]]:
    blocks: list[list[dict]] = []
    cur: list[dict] = []
    for i, op in enumerate(r):
        glued = i > 0 and (r[i - 1]["code"] in CTX or op["code"] in ALL_CASES or op["code"] in ("CaseText", "DefaultText"))
        if cur and not glued and (op["off"] in targets or r[i - 1]["code"] in JUMP_IDX or r[i - 1]["code"] in FLOW_END
                                  or random_split(op)):
            blocks.append(cur)
            cur = []
        cur.append(op)
    if cur:
        blocks.append(cur)
    return blocks


_split_rng = random.Random(0)


def random_split(op: dict) -> bool:
    return _split_rng.random() < 0.15


def relayout(routines: list[list[dict]], rng: random.Random, leading_jump: bool = False) -> list[list[dict]]:
    """Permute the basic blocks of every routine, keeping the flow graph (Jump glue for fall-through)."""
    global _split_rng
    _split_rng = random.Random(rng.random())
    routines = copy.deepcopy(routines)
    targets = {target_of(op) for r in routines for op in r if target_of(op) is not None}
    fresh = -1
    new_routines: list[list[dict]] = []
    glue_targets: list[tuple[dict, int]] = []
    for r in routines:
        if not r:
            new_routines.append([])
            continue
        blocks = _blocks(r, targets)  # type: ignore
        order = list(range(len(blocks)))
        head = order[:1]
        tail = order[1:]
        rng.shuffle(tail)
        if leading_jump and len(blocks) > 1:
            order = tail + head
            rng.shuffle(order)
        else:
            order = head + tail
        out: list[dict] = []
        if leading_jump and order[0] != 0:
            j = {"off": fresh, "code": "Jump", "params": [["i", blocks[0][0]["off"]]]}
            fresh -= 1
            out.append(j)
        for pos, bi in enumerate(order):
            b = blocks[bi]
            out.extend(b)
            lastop = b[-1]
            prev_ctx = len(b) > 1 and b[-2]["code"] in CTX
            falls = not ((lastop["code"] in FLOW_END and not prev_ctx) or lastop["code"] == "Jump")
            if falls and bi + 1 < len(blocks):
                nxt_in_new = order[pos + 1] if pos + 1 < len(order) else None
                if nxt_in_new != bi + 1:
                    out.append({"off": fresh, "code": "Jump", "params": [["i", blocks[bi + 1][0]["off"]]]})
                    fresh -= 1
            elif falls and bi + 1 >= len(blocks) and pos + 1 < len(order):
                # the original ran off the end of the routine here: keep that by an explicit Return
                out.append({"off": fresh, "code": "Return", "params": []})
                fresh -= 1
        new_routines.append(out)
    # renumber
    mapping: dict[int, int] = {}
    n = 0
    for r in new_routines:
        for op in r:
            mapping[op["off"]] = n
            n += rng.choice([1, 1, 1, 2, 3])
    for r in new_routines:
        for op in r:
            idx = JUMP_IDX.get(op["code"])
            if idx is not None and len(op["params"]) > idx and op["params"][idx][0] == "i":
                op["params"][idx] = ["i", mapping.get(op["params"][idx][1], op["params"][idx][1])]
            op["off"] = mapping[op["off"]]
    return new_routines


def renumber_dense(routines: list[list[dict]], start: int = 0) -> list[list[dict]]:
    routines = copy.deepcopy(routines)
    mapping = {}
    n = start
    for r in routines:
        for op in r:
            mapping[op["off"]] = n
            n += 1
    for r in routines:
        for op in r:
            idx = JUMP_IDX.get(op["code"])
            if idx is not None and len(op["params"]) > idx and op["params"][idx][0] == "i":
                op["params"][idx] = ["i", mapping.get(op["params"][idx][1], op["params"][idx][1])]
            op["off"] = mapping[op["off"]]
    return routines


# ----------------------------------------------------------------------------- (c) random op lists
PLAIN = ["op_a", "op_b", "Wait", "message_Talk", "se_Play", "camera_SetMyself"]
CONSTS = ["$SCENARIO_MAIN", "$VAR_A", "ACTOR_PLAYER", "$LOCAL0"]
STRS = ["Hello", "it's", "two\nlines", 'q"q', " lead", ""]


def rparam(rng: random.Random) -> list:
    x = rng.random()
    if x < 0.45:
        return ["i", rng.choice([0, 1, 2, 5, -1, 300])]
    if x < 0.7:
        return ["c", rng.choice(CONSTS)]
    if x < 0.8:
        return ["f", rng.choice(["1.5", "-0.25", "3.0"])]
    if x < 0.92:
        return ["s", rng.choice(STRS)]
    if x < 0.97:
        return ["l", [[k, rng.choice(STRS)] for k in rng.sample(["english", "french", "german"], rng.randint(1, 2))]]
    return ["p", rng.choice(["m", "mark x"]), rng.choice([0, 2]), rng.choice([0, 2]), rng.randrange(0, 40), rng.randrange(0, 40)]


def ivar(rng: random.Random) -> list:
    return ["c", rng.choice(CONSTS)] if rng.random() < 0.7 else ["i", rng.randrange(0, 30)]


def branch_op(rng: random.Random) -> tuple[str, list]:
    k = rng.randrange(9)
    if k == 0:
        return "Branch", [ivar(rng), ["i", rng.randrange(5)]]
    if k == 1:
        return "BranchBit", [ivar(rng), ["i", rng.randrange(8)]]
    if k == 2:
        return rng.choice(["BranchDebug", "BranchEdit", "BranchVariation"]), [["i", rng.choice([0, 1])]]
    if k == 3:
        return "BranchPerformance", [["i", rng.randrange(8)], ["i", rng.choice([0, 1])]]
    if k == 4:
        return rng.choice(["BranchScenarioNow", "BranchScenarioNowAfter", "BranchScenarioNowBefore",
                           "BranchScenarioAfter", "BranchScenarioBefore"]), [ivar(rng), ["i", rng.randrange(50)], ["i", rng.randrange(8)]]
    if k == 5:
        return "BranchValue", [ivar(rng), ["i", rng.choice([0, 1, 3, 4, 5, 6, 7, 8, 9, 10])], ["i", rng.randrange(9)]]
    if k == 6:
        return "BranchVariable", [ivar(rng), ["i", rng.randrange(11)], ivar(rng)]
    if k == 7:
        return "BranchSum", [ivar(rng), ["i", rng.randrange(11)], ["i", rng.randrange(4)]]
    return "BranchExecuteSub", [["i", rng.randrange(4)]]


def flag_op(rng: random.Random) -> tuple[str, list]:
    k = rng.randrange(12)
    v = ivar(rng)
    if k == 0:
        return "flag_CalcBit", [v, ["i", rng.randrange(8)], ["i", rng.choice([0, 1])]]
    if k == 1:
        return "flag_CalcValue", [v, ["i", rng.randrange(1, 5)], ["i", rng.randrange(9)]]
    if k == 2:
        return "flag_CalcVariable", [v, ["i", rng.randrange(0, 5)], ivar(rng)]
    if k == 3:
        return "flag_Clear", [v]
    if k == 4:
        return "flag_Initial", [v]
    if k == 5:
        return "flag_Set", [v, ["i", rng.randrange(9)]]
    if k == 6:
        return "flag_ResetDungeonResult", []
    if k == 7:
        return "flag_ResetScenario", [v]
    if k == 8:
        return "flag_SetAdventureLog", [["i", rng.randrange(9)]]
    if k == 9:
        return "flag_SetDungeonMode", [["i", rng.randrange(9)], rng.choice([["i", rng.randrange(0, 4)], ["c", rng.choice(DM_CONSTS)]])]
    if k == 10:
        return "flag_SetPerformance", [["i", rng.randrange(8)], ["i", rng.choice([0, 1])]]
    return "flag_SetScenario", [v, ["i", rng.randrange(50)], ["i", rng.randrange(8)]]


def random_routines(rng: random.Random, max_routines: int = 2, max_ops: int = 10) -> list[list[dict]]:
    nr = rng.randint(1, max_routines)
    sizes = [rng.randint(1, max_ops) for _ in range(nr)]
    # first lay out kinds, then fill targets
    skeleton: list[list[dict]] = []
    off = 0
    for n in sizes:
        r: list[dict] = []
        i = 0
        while i < n:
            x = rng.random()
            if i == n - 1:
                code = rng.choice(["Return", "End", "Hold", "Jump", "Return"])
                r.append({"off": off, "code": code, "params": [["i", None]] if code == "Jump" else []})
            elif x < 0.45:
                r.append({"off": off, "code": rng.choice(PLAIN), "params": [rparam(rng) for _ in range(rng.choice([0, 1, 2]))]})
            elif x < 0.55:
                c, ps = flag_op(rng)
                r.append({"off": off, "code": c, "params": ps})
            elif x < 0.72:
                c, ps = branch_op(rng)
                r.append({"off": off, "code": c, "params": ps + [["i", None]]})
            elif x < 0.79:
                r.append({"off": off, "code": "Jump", "params": [["i", None]]})
            elif x < 0.82:
                r.append({"off": off, "code": "Call", "params": [["i", None]]})
            elif x < 0.86 and i + 2 < n:
                r.append({"off": off, "code": rng.choice(["lives", "object", "performer"]), "params": [ivar(rng)]})
                off += 1
                i += 1
                r.append({"off": off, "code": rng.choice(PLAIN + ["End", "Hold"]), "params": [rparam(rng) for _ in range(rng.choice([0, 1]))]})
            elif x < 0.93 and i + 3 < n:
                sw = rng.choice(["Switch", "SwitchScenario", "SwitchRandom", "SwitchDungeonMode", "SwitchSector",
                                 "SwitchScenarioLevel", "message_Menu", "message_SwitchMenu"])
                ps = [] if sw == "SwitchSector" else [ivar(rng)]
                r.append({"off": off, "code": sw, "params": ps})
                for _ in range(rng.randint(1, 3)):
                    off += 1
                    i += 1
                    if sw == "message_SwitchMenu":
                        c = rng.choice(["CaseMenu", "CaseMenu2"])
                        cps = [["s", rng.choice(STRS)]] if c == "CaseMenu" else [["i", rng.randrange(5)]]
                    else:
                        c = rng.choice(["Case", "Case", "CaseScenario" if sw == "SwitchScenario" else "CaseValue", "CaseVariable"])
                        cps = [["i", rng.randrange(6)]] if c == "Case" else [["i", rng.randrange(11)], ivar(rng) if c == "CaseVariable" else ["i", rng.randrange(6)]]
                    r.append({"off": off, "code": c, "params": cps + [["i", None]]})
            elif x < 0.96 and i + 2 < n:
                r.append({"off": off, "code": rng.choice(sorted(TEXT_SWITCHES)), "params": [ivar(rng)]})
                for _ in range(rng.randint(0, 2)):
                    off += 1
                    i += 1
                    r.append({"off": off, "code": "CaseText", "params": [["i", rng.randrange(5)], ["s", rng.choice(STRS)]]})
                if rng.random() < 0.6:
                    off += 1
                    i += 1
                    r.append({"off": off, "code": "DefaultText", "params": [["s", rng.choice(STRS)]]})
            else:
                r.append({"off": off, "code": rng.choice(["Return", "End", "Hold"]), "params": []})
            off += rng.choice([1, 1, 2])
            i += 1
        last = r[-1]
        if not (last["code"] in ("Return", "End", "Hold", "Jump")) or (len(r) > 1 and r[-2]["code"] in CTX):
            r.append({"off": off, "code": "Return", "params": []})
            off += 1
        skeleton.append(r)
    all_offs = [op["off"] for r in skeleton for op in r]
    for ri, r in enumerate(skeleton):
        own = [op["off"] for op in r]
        for op in r:
            for p in op["params"]:
                if p[0] == "i" and p[1] is None:
                    p[1] = rng.choice(own if rng.random() < 0.85 else all_offs)
    return skeleton


def default_infos(routines: list[list[dict]], rng: random.Random) -> tuple[list, list]:
    if rng.random() < 0.12:
        infos = [{"type": "COROUTINE", "linked_to": 0, "linked_to_name": None} for _ in routines]
        return infos, [f"CORO_{i}" for i in range(len(routines))]
    infos = []
    for _ in routines:
        k = rng.random()
        if k < 0.6:
            infos.append({"type": "GENERIC", "linked_to": 0, "linked_to_name": None})
        elif k < 0.8:
            infos.append({"type": rng.choice(["ACTOR", "OBJECT", "PERFORMER"]), "linked_to": rng.randrange(0, 50), "linked_to_name": None})
        else:
            infos.append({"type": rng.choice(["ACTOR", "OBJECT", "PERFORMER"]), "linked_to": -1, "linked_to_name": rng.choice(["ACTOR_PLAYER", "OBJ_X"])})
    return infos, [None for _ in routines]


# ----------------------------------------------------------------------------- shrinking and skeletons
def ssb_candidates(case: dict):
    """smaller variants of {'ops','infos','coros'} (jumps to a removed op are retargeted to its successor)"""
    ops, infos, coros = case["ops"], case["infos"], case["coros"]
    if len(ops) > 1:
        for i in range(len(ops)):
            yield {"ops": ops[:i] + ops[i + 1:], "infos": infos[:i] + infos[i + 1:], "coros": coros[:i] + coros[i + 1:]}
    for ri, r in enumerate(ops):
        n = len(r)
        spans = []
        if n > 4:
            spans += [(0, n // 2), (n // 2, n)]
        spans += [(i, i + 1) for i in range(n)]
        for a, b in spans:
            removed = {op["off"] for op in r[a:b]}
            succ = r[b]["off"] if b < n else None
            newr = copy.deepcopy(r[:a] + r[b:])
            if not newr:
                continue
            newops = copy.deepcopy(ops[:ri]) + [newr] + copy.deepcopy(ops[ri + 1:])
            ok = True
            for rr in newops:
                for op in rr:
                    idx = JUMP_IDX.get(op["code"])
                    if idx is not None and len(op["params"]) > idx and op["params"][idx][1] in removed:
                        if succ is None:
                            ok = False
                        else:
                            op["params"][idx] = ["i", succ]
            if ok:
                yield {"ops": newops, "infos": infos, "coros": coros}
    for ri, r in enumerate(ops):
        for oi, op in enumerate(r):
            c = op["code"]
            if c in JUMP_IDX and c not in ("Jump",):
                newops = copy.deepcopy(ops)
                newops[ri][oi] = {"off": op["off"], "code": "op_a", "params": []}
                yield {"ops": newops, "infos": infos, "coros": coros}
            idx = JUMP_IDX.get(c)
            plain_params = op["params"][:idx] if idx is not None else op["params"]
            if c not in JUMP_IDX and c not in CTX and c not in SWITCH_CASES and c not in TEXT_SWITCHES \
                    and c not in ("CaseText", "DefaultText") and not c.startswith("flag_") and plain_params:
                newops = copy.deepcopy(ops)
                newops[ri][oi]["params"] = []
                yield {"ops": newops, "infos": infos, "coros": coros}
    for i, info in enumerate(infos):
        if info and info["type"] != "GENERIC":
            ninfos = copy.deepcopy(infos)
            ninfos[i] = {"type": "GENERIC", "linked_to": 0, "linked_to_name": None}
            yield {"ops": ops, "infos": ninfos, "coros": [None if j == i else cc for j, cc in enumerate(coros)]}


def ssb_skeleton(ops: list[list[dict]]) -> str:
    pos = {}
    for ri, r in enumerate(ops):
        for oi, op in enumerate(r):
            pos[op["off"]] = (ri, oi)
    out = []
    for ri, r in enumerate(ops):
        items = []
        for oi, op in enumerate(r):
            c = op["code"]
            t = target_of(op)
            if t is not None and t in pos:
                tr, to = pos[t]
                rel = (f"r{tr}:{to}" if tr != ri else (f"+{to - oi}" if to >= oi else f"{to - oi}"))
                items.append(f"{c}({rel})")
            elif c in FLOW_END or c in CTX or c in SWITCH_CASES or c in TEXT_SWITCHES or c in ("CaseText", "DefaultText") \
                    or c.startswith("flag_"):
                items.append(c)
            else:
                items.append("o")
        out.append("[" + " ".join(items) + "]")
    return " ".join(out)


def has_test_only_cycle(routines: list[list[dict]]) -> bool:
    """a cycle of the flow graph on which no operation is performed: only Branch/Case/Call tests and Jumps"""
    offs = {}
    for ri, r in enumerate(routines):
        for oi, op in enumerate(r):
            offs[op["off"]] = (ri, oi)
    nodes = [(ri, oi) for ri, r in enumerate(routines) for oi, op in enumerate(r) if op["code"] in JUMP_IDX]
    succ: dict = {}
    for (ri, oi) in nodes:
        op = routines[ri][oi]
        out = []
        t = target_of(op)
        if t in offs:
            out.append(offs[t])
        if op["code"] != "Jump" and oi + 1 < len(routines[ri]):
            out.append((ri, oi + 1))
        succ[(ri, oi)] = [x for x in out if x in set(nodes)]
    state: dict = {}

    def dfs(n) -> bool:
        state[n] = 1
        for m in succ[n]:
            if state.get(m) == 1 or (state.get(m) is None and dfs(m)):
                return True
        state[n] = 2
        return False

    return any(state.get(n) is None and dfs(n) for n in nodes)
