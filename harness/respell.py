"""Token-level re-spelling and layout of ExplorerScript sources (C16, C18).

A canonical source is tokenised with the real ANTLR lexer; every token can be re-spelled in an
equivalent way (integer base, decimal leading zeros, quote style, label sigil, legacy routine
header, trailing comma) and the tokens are joined with random skip text (blanks, newlines, line
and block comments, line joining). Positions of every token are recorded while joining."""
from __future__ import annotations

import random
from typing import Any

import lang


def lex(text: str) -> list[tuple[str, str]]:
    from antlr4 import InputStream, Token
    from explorerscript.antlr.ExplorerScriptLexer import ExplorerScriptLexer

    lx = ExplorerScriptLexer(InputStream(text))
    lx.removeErrorListeners()
    names = {v: k for k, v in vars(ExplorerScriptLexer).items() if isinstance(v, int) and k.isupper() or (isinstance(v, int) and k.startswith("T__"))}
    out = []
    while True:
        t = lx.nextToken()
        if t.type == Token.EOF:
            break
        out.append((names.get(t.type, str(t.type)), t.text))
    return out


def respell_int(r: random.Random, tok: str) -> str:
    v = int(tok, 0)
    neg = v < 0
    a = abs(v)
    k = r.randrange(6)
    if k == 0:
        body = str(a)
    elif k == 1:
        body = r.choice(["0x", "0X"]) + format(a, r.choice(["x", "X"]))
    elif k == 2:
        body = r.choice(["0o", "0O"]) + format(a, "o")
    elif k == 3:
        body = r.choice(["0b", "0B"]) + format(a, "b")
    elif k == 4 and a == 0:
        body = "0" * r.randint(1, 3)
    else:
        body = str(a)
    return ("-" if neg else "") + body


def respell_decimal(r: random.Random, tok: str) -> str:
    neg = tok.startswith("-")
    body = tok[1:] if neg else tok
    whole, frac = body.split(".", 1)
    k = r.randrange(3)
    if k == 0:
        whole = "0" * r.randint(1, 3) + whole
    elif k == 1 and whole.strip("0") == "":
        whole = ""
    return ("-" if neg else "") + whole + "." + frac


def respell_string(r: random.Random, tok: str, allow_multi: bool = True) -> str:
    if tok.startswith("'''") or tok.startswith('"""'):
        return tok
    v = lang.spec_single_line(tok)
    if "\\" in v:
        return tok
    if allow_multi and r.random() < 0.3:
        # the multi-line form, when it denotes the same string by the specification's dedent rules
        q3 = r.choice(["'''", '"""'])
        cand = q3 + v + q3
        if q3 not in v and not v.endswith(q3[0]) and "\r" not in v and lang.spec_multi_line(cand) == v:
            return cand
    q = r.choice(["'", '"'])
    return q + v.replace(q, "\\" + q).replace("\n", "\\n") + q


def respell(tokens: list[tuple[str, str]], r: random.Random) -> list[tuple[str, str]]:
    out: list[tuple[str, str]] = []
    i = 0
    n = len(tokens)
    while i < n:
        ty, tx = tokens[i]
        if ty == "INTEGER" and r.random() < 0.6:
            out.append((ty, respell_int(r, tx)))
        elif ty == "DECIMAL" and r.random() < 0.6:
            out.append((ty, respell_decimal(r, tx)))
        elif ty == "STRING_LITERAL" and r.random() < 0.6 and not (i > 0 and tokens[i - 1][0] == "IMPORT"):
            # (the name of a position mark is a STRING_LITERAL in the grammar: no multi-line form there)
            out.append((ty, respell_string(r, tx, allow_multi=not (i > 0 and tokens[i - 1][0] == "OPEN_SHARP"))))
        elif ty == "AT" and i + 2 < n and tokens[i + 2][0] != "CLOSE_PAREN" and r.random() < 0.5 \
                and (i == 0 or tokens[i - 1][0] not in ("JUMP", "CALL")):
            out.append(("PARAGRAPH", "§"))
        elif ty == "FOR" and i + 1 < n and tokens[i + 1] in (("IDENTIFIER", "actor"), ("IDENTIFIER", "object"), ("IDENTIFIER", "performer")) \
                and i >= 2 and tokens[i - 2][0] == "DEF" and r.random() < 0.5:
            # def N for actor X {   ->   def N for_actor(X) {
            out.append(("FOR_TARGET", "for_" + tokens[i + 1][1]))
            out.append(("OPEN_PAREN", "("))
            out.append(tokens[i + 2])
            out.append(("CLOSE_PAREN", ")"))
            i += 3
            continue
        elif ty == "CLOSE_PAREN" and out and out[-1][0] not in ("OPEN_PAREN", "COMMA") and _in_arglist(out) and r.random() < 0.3:
            out.append(("COMMA", ","))
            out.append((ty, tx))
        else:
            out.append((ty, tx))
        i += 1
    return out


def _in_arglist(out: list[tuple[str, str]]) -> bool:
    """is the ')' about to be written the end of an operation / macro call argument list?"""
    depth = 0
    for j in range(len(out) - 1, -1, -1):
        ty = out[j][0]
        if ty == "CLOSE_PAREN":
            depth += 1
        elif ty == "OPEN_PAREN":
            if depth == 0:
                if j == 0:
                    return False
                prev = out[j - 1][0]
                if prev == "MACRO_CALL":
                    return True
                if prev == "IDENTIFIER":
                    return not (j >= 2 and out[j - 2][0] in ("MACRO", "WITH", "FOR"))
                if prev == "CLOSE_SHARP":
                    return True   # op<actor X>( ... )
                return False
            depth -= 1
    return False


SKIPS = [" ", " ", " ", "\n", "\n    ", "\t", "  ", " /* c */ ", "/**/", " // line comment\n", " \\\n ", "\n\n", " /* multi\n line */ ",
         "\r\n", " // comment ended by CR LF\r\n", "\r", " // comment ended by a lone CR\r ", " \\\r\n ", " \\\r ", " \\ \f"]


def layout(tokens: list[tuple[str, str]], r: random.Random | None, wild: float = 0.5) -> tuple[str, list[tuple[int, int]]]:
    """join tokens; returns the text and the (0-based line, column) of every token"""
    parts: list[str] = []
    pos: list[tuple[int, int]] = []
    line, col = 0, 0

    def emit(s: str) -> None:
        nonlocal line, col
        parts.append(s)
        nl = s.count("\n")
        if nl:
            line += nl
            col = len(s) - s.rfind("\n") - 1
        else:
            col += len(s)

    if r is not None and wild > 0 and r.random() < 0.4:
        # text before the first token: blank lines, indentation, a comment
        emit(r.choice(["\n", "\n\n  ", "    ", "// head\n", "/* head */ ", "\r\n \t"]))
    for i, (ty, tx) in enumerate(tokens):
        if i > 0:
            if r is not None and r.random() < wild:
                emit(r.choice(SKIPS))
            else:
                emit(" " if ty not in ("OPEN_BRACE",) and tokens[i - 1][1] not in (";", "{", "}") else "\n" if tokens[i - 1][1] in (";", "{", "}") else " ")
        pos.append((line, col))
        emit(tx)
    emit("\n")
    return "".join(parts), pos


def position_literals(tokens: list[tuple[str, str]], pos: list[tuple[int, int]]) -> list[dict]:
    out = []
    i = 0
    while i < len(tokens):
        if tokens[i][0] == "POSITION":
            j = i
            while tokens[j][0] != "CLOSE_SHARP":
                j += 1
            name_tok = tokens[i + 2][1]
            args = [t[1] for t in tokens[i + 3:j] if t[0] in ("INTEGER", "DECIMAL")]
            (xr, xo), (yr, yo) = lang.spec_pos_arg(args[0]), lang.spec_pos_arg(args[1])
            out.append({"start": list(pos[i]), "end": list(pos[j]), "name": lang.spec_single_line(name_tok),
                        "xo": xo, "yo": yo, "xr": xr, "yr": yr, "tok_i": i, "tok_j": j})
            i = j
        i += 1
    return out
