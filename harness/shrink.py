"""Greedy shrinking of wire-form program ASTs and structural signatures (skeletons)."""
from __future__ import annotations

from typing import Any, Callable, Iterator

from core import A


def shrink(obj: Any, candidates: Callable[[Any], Iterator[Any]], still_fails: Callable[[Any], bool],
           budget: int = 600) -> Any:
    used = 0
    progress = True
    while progress and used < budget:
        progress = False
        for cand in candidates(obj):
            used += 1
            if used > budget:
                break
            if still_fails(cand):
                obj = cand
                progress = True
                break
    return obj


def _params_variants(ps: list) -> Iterator[list]:
    if ps:
        yield []
        for i in range(len(ps)):
            yield ps[:i] + ps[i + 1:]
        for i, p in enumerate(ps):
            if p != [A("i"), 0]:
                yield ps[:i] + [[A("i"), 0]] + ps[i + 1:]


def _conds_variants(cs: list) -> Iterator[list]:
    if len(cs) > 1:
        for j in range(len(cs)):
            yield cs[:j] + cs[j + 1:]
    for j, c in enumerate(cs):
        simple = [A("neg"), False, A("debug")]
        if c != simple:
            yield cs[:j] + [simple] + cs[j + 1:]


def stmt_replacements(s: list) -> Iterator[list]:
    """lists of statements that may replace statement s"""
    k = s[0]
    if k == "op":
        if s[1]:
            yield [[s[0], None, *s[2:]]]
        for v in _params_variants(s[3:]):
            yield [[s[0], s[1], s[2], *v]]
    elif k == "with":
        yield [s[3]]
    elif k == "if":
        yield s[3]
        for e in s[4]:
            yield e[2]
        if s[5]:
            yield s[5][0]
        if s[4]:
            yield [[k, s[1], s[2], s[3], [], s[5]]]
            for j in range(len(s[4])):
                yield [[k, s[1], s[2], s[3], s[4][:j] + s[4][j + 1:], s[5]]]
        if s[5]:
            yield [[k, s[1], s[2], s[3], s[4], None]]
        if s[1]:
            yield [[k, False, s[2], s[3], s[4], s[5]]]
        for v in _conds_variants(s[2]):
            yield [[k, s[1], v, s[3], s[4], s[5]]]
        for v in stmts_variants(s[3]):
            yield [[k, s[1], s[2], v, s[4], s[5]]]
        for j, e in enumerate(s[4]):
            if e[0]:
                yield [[k, s[1], s[2], s[3], s[4][:j] + [[False, e[1], e[2]]] + s[4][j + 1:], s[5]]]
            for v in _conds_variants(e[1]):
                yield [[k, s[1], s[2], s[3], s[4][:j] + [[e[0], v, e[2]]] + s[4][j + 1:], s[5]]]
            for v in stmts_variants(e[2]):
                yield [[k, s[1], s[2], s[3], s[4][:j] + [[e[0], e[1], v]] + s[4][j + 1:], s[5]]]
        if s[5]:
            for v in stmts_variants(s[5][0]):
                yield [[k, s[1], s[2], s[3], s[4], [v]]]
    elif k == "switch":
        for c in s[2]:
            if c[-1]:
                yield c[-1]
        for j in range(len(s[2])):
            yield [[k, s[1], s[2][:j] + s[2][j + 1:]]]
        if s[1] != [A("var"), [A("i"), 0]]:
            yield [[k, [A("var"), [A("i"), 0]], s[2]]]
        for j, c in enumerate(s[2]):
            if c[0] == "case" and c[1] != [A("int"), [A("i"), 0]]:
                yield [[k, s[1], s[2][:j] + [[c[0], [A("int"), [A("i"), 0]], c[2]]] + s[2][j + 1:]]]
            for v in stmts_variants(c[-1]):
                yield [[k, s[1], s[2][:j] + [c[:-1] + [v]] + s[2][j + 1:]]]
    elif k == "msgswitch":
        if s[3]:
            yield [[k, s[1], s[2], [], s[4]]]
        if s[4]:
            yield [[k, s[1], s[2], s[3], None]]
    elif k == "forever":
        yield s[1]
        for v in stmts_variants(s[1]):
            yield [[k, v]]
    elif k == "while":
        yield s[3]
        if s[1]:
            yield [[k, False, s[2], s[3]]]
        for v in _conds_variants([s[2]]):
            if len(v) == 1:
                yield [[k, s[1], v[0], s[3]]]
        for v in stmts_variants(s[3]):
            yield [[k, s[1], s[2], v]]
    elif k == "for":
        yield s[4]
        yield [s[1]] + s[4] + [s[3]]
        for v in _conds_variants([s[2]]):
            if len(v) == 1:
                yield [[k, s[1], v[0], s[3], s[4]]]
        for v in stmts_variants(s[4]):
            yield [[k, s[1], s[2], s[3], v]]
    elif k == "macrocall":
        for v in _params_variants(s[2:]):
            yield [[s[0], s[1], *v]]
    elif k == "assign":
        simple = [A("assign"), [A("clear"), [A("i"), 0]]]
        if s != simple:
            yield [simple]


def stmts_variants(ss: list) -> Iterator[list]:
    n = len(ss)
    if n > 3:
        yield ss[: n // 2]
        yield ss[n // 2:]
    for i in range(n):
        yield ss[:i] + ss[i + 1:]
    for i, s in enumerate(ss):
        for rep in stmt_replacements(s):
            yield ss[:i] + rep + ss[i + 1:]


def prog_candidates(p: list) -> Iterator[list]:
    _, macros, routines = p
    if len(routines) > 1:
        for i in range(len(routines)):
            rs = routines[:i] + routines[i + 1:]
            rs = [[r[0], j, *r[2:]] for j, r in enumerate(rs)]
            yield [p[0], macros, rs]
    for i in range(len(macros)):
        yield [p[0], macros[:i] + macros[i + 1:], routines]
    for i, m in enumerate(macros):
        for v in stmts_variants(m[3]):
            if v:
                yield [p[0], macros[:i] + [[m[0], m[1], m[2], v]] + macros[i + 1:], routines]
    for i, r in enumerate(routines):
        if r[2] != "generic":
            yield [p[0], macros, routines[:i] + [[r[0], r[1], A("generic"), None, None, r[5], r[6]]] + routines[i + 1:]]
        for v in stmts_variants(r[6]):
            if v or r[5]:
                yield [p[0], macros, routines[:i] + [[*r[:6], v]] + routines[i + 1:]]


# ----------------------------------------------------------------------------- skeletons
FLOW_NAMES = {"Return", "End", "Hold", "Destroy", "JumpCommon"}


class _Sk:
    def __init__(self) -> None:
        self.labels: dict[str, str] = {}

    def lab(self, l: str) -> str:
        if l not in self.labels:
            self.labels[l] = f"L{len(self.labels)}"
        return self.labels[l]

    def cond(self, c: list) -> str:
        return {"neg": "n", "cop": "c", "bit": "b", "scn": "s", "operation": "O"}[str(c[0])] + \
            ("!" if c[0] in ("neg", "bit") and c[1] else "")

    def conds(self, neg: Any, cs: list) -> str:
        return ("!" if neg else "") + "(" + "|".join(self.cond(c) for c in cs) + ")"

    def stmts(self, ss: list) -> str:
        return ";".join(self.stmt(s) for s in ss)

    def stmt(self, s: list) -> str:
        k = s[0]
        if k == "op":
            nm = s[2] if s[2] in FLOW_NAMES else "o"
            return nm + ("<x>" if s[1] else "")
        if k == "label":
            return self.lab(s[1]) + ":"
        if k == "jump":
            return "jump " + self.lab(s[1])
        if k == "call":
            return "call " + self.lab(s[1])
        if k == "ctrl":
            return str(s[1])
        if k == "assign":
            return "a"
        if k == "with":
            return "with{" + self.stmt(s[3]) + "}"
        if k == "if":
            out = "if" + self.conds(s[1], s[2]) + "{" + self.stmts(s[3]) + "}"
            for e in s[4]:
                out += "elif" + self.conds(e[0], e[1]) + "{" + self.stmts(e[2]) + "}"
            if s[5]:
                out += "else{" + self.stmts(s[5][0]) + "}"
            return out
        if k == "switch":
            hs = str(s[1][0])
            out = f"switch[{hs}]" + "{"
            for c in s[2]:
                out += ("case " + str(c[1][0]) if c[0] == "case" else "default") + ":" + self.stmts(c[-1]) + ";"
            return out + "}"
        if k == "msgswitch":
            return f"msw[{len(s[3])}{'d' if s[4] else ''}]"
        if k == "forever":
            return "forever{" + self.stmts(s[1]) + "}"
        if k == "while":
            return "while" + ("!" if s[1] else "") + "(" + self.cond(s[2]) + "){" + self.stmts(s[3]) + "}"
        if k == "for":
            return "for(" + self.stmt(s[1]) + ";" + self.cond(s[2]) + ";" + self.stmt(s[3]) + "){" + self.stmts(s[4]) + "}"
        if k == "macrocall":
            return f"~{s[1]}[{len(s) - 2}]"
        return "?"


def skeleton(p: list) -> str:
    sk = _Sk()
    out = []
    for m in p[1]:
        out.append(f"macro {m[1]}[{len(m[2])}]" + "{" + sk.stmts(m[3]) + "}")
    for r in p[2]:
        kind = "coro" if r[2] == "coroutine" else ("def" if r[2] == "generic" else "deft")
        out.append(kind + ("{alias}" if r[5] else "{" + sk.stmts(r[6]) + "}"))
    return " ".join(out)
