"""K-num: correspondence of Text/Num.v (token rules INTEGER / DECIMAL, int(tok, 0), position-mark arguments, fixed-point
values, and the printers) with the real lexer, readers and printers.  Shared by C04, C16 and C18."""
from __future__ import annotations

import random

from core import A, run_driver, run_impl


def num_impl(tok: str, z: int, off: int, b: int, neg: bool, upp: bool, upd: bool, k: int, n: int) -> dict:
    """the real token rules, number readers and printers, for the correspondence with Text/Num.v"""
    from antlr4 import InputStream, Token
    from explorerscript.antlr.ExplorerScriptLexer import ExplorerScriptLexer
    from explorerscript.common_syntax import parse_position_marker_arg
    from explorerscript.ssb_converting.ssb_data_types import SsbOpParamFixedPoint, SsbOpParamPositionMarker
    from explorerscript.util import exps_int

    errors = []

    class L:
        def syntaxError(self, *a):  # noqa
            errors.append(1)
    lx = ExplorerScriptLexer(InputStream(tok))
    lx.removeErrorListeners()
    lx.addErrorListener(L())
    toks = []
    while len(toks) < 3:
        t = lx.nextToken()
        if t.type == Token.EOF:
            break
        toks.append((t.type, t.text))
    kind = None
    if not errors and len(toks) == 1 and toks[0][1] == tok:
        kind = {ExplorerScriptLexer.INTEGER: "INTEGER", ExplorerScriptLexer.DECIMAL: "DECIMAL"}.get(toks[0][0])
    out: dict = {"ok": True, "kind": kind}
    try:
        out["int"] = str(exps_int(tok))
    except ValueError:
        out["int"] = None

    class Ctx:
        def INTEGER(self):  # noqa
            return None if "." in tok else tok

        def DECIMAL(self):  # noqa
            return tok if "." in tok else None
    try:
        p = parse_position_marker_arg(Ctx())  # type: ignore
        out["pos"] = [str(p[0]), p[1]]
    except BaseException:  # noqa
        out["pos"] = None
    try:
        out["fixed"] = str(SsbOpParamFixedPoint.from_str(tok))
    except BaseException:  # noqa
        out["fixed"] = None
    out["dec"] = str(z)
    out["posprint"] = SsbOpParamPositionMarker("m", off, 0, z, 0).x_final
    fmt = {16: "X" if upd else "x", 8: "o", 2: "b"}[b]
    letter = {16: "x", 8: "o", 2: "b"}[b]
    out["radix"] = ("-" if neg else "") + "0" + (letter.upper() if upp else letter) + "0" * k + format(n, fmt)
    out["zero"] = ("-" if neg else "") + "0" * (k + 1)
    return out


def num_cases(r: random.Random, n: int) -> list[tuple]:
    big = "-0123456789abcdefABCDEFxXoObB."
    small = "-0123456789."
    out = []
    for _ in range(n):
        style = r.randrange(6)
        if style == 0:
            tok = "".join(r.choice(big) for _ in range(r.randint(0, 7)))
        elif style == 1:
            tok = "".join(r.choice(small) for _ in range(r.randint(0, 7)))
        elif style == 2:   # integer-shaped
            tok = r.choice(["", "-"]) + r.choice(["", "0x", "0X", "0o", "0b", "0B", "0O", "0"]) + "".join(r.choice("0011234567899aAfF") for _ in range(r.randint(0, 6)))
        elif style == 3:   # decimal-shaped
            tok = r.choice(["", "-"]) + "".join(r.choice("00123459") for _ in range(r.randint(0, 4))) + "." + "".join(r.choice("005123") for _ in range(r.randint(0, 4)))
        elif style == 4:   # position-mark fractions
            tok = r.choice(["", "-"]) + r.choice(["", "0", "00", "3", "12", "007"]) + "." + r.choice(["5", "50", "500", "0", "00", "05", "25", "", "55"])
        else:
            tok = r.choice(["", "-"]) + "0" * r.randint(0, 3) + r.choice(["", ".", ".0", "0.", "-", "x", "b1", "o8", "x1G"[:2]])
        z = r.choice([0, 1, -1, 9, 10, -10, 255, -256, 1050, r.randint(-10**6, 10**6), r.randint(-2**70, 2**70)])
        out.append((tok, z, r.choice([0, 0, 1, 2, 2, 3, 7]), r.choice([2, 8, 16]), r.random() < 0.4, r.random() < 0.5, r.random() < 0.5,
                    r.choice([0, 0, 1, 3]), abs(r.choice([0, 1, 7, 8, 255, 4096, r.randint(0, 10**6), r.randint(0, 2**70)]))))
    return out


def check_knum(run, r: random.Random, n: int) -> None:
    # ... and of the number literals (Text/Num.v): token rules INTEGER / DECIMAL, int(tok, 0), position-mark arguments,
    # fixed-point values, and the printers
    nc = num_cases(r, n)
    nimpl = run_impl([("knum:num_impl", *c) for c in nc])
    B = lambda b: A("true" if b else "false")  # noqa: E731
    nmod = run_driver([[A("num"), [ord(c) for c in c[0]]] for c in nc])
    nprt = run_driver([[A("numprint"), c[1], c[2], c[3], B(c[4]), B(c[5]), B(c[6]), c[7], c[8]] for c in nc])
    nfirst = None
    t = lambda cps: None if cps is None else "".join(chr(x) for x in cps)  # noqa: E731
    for c, im, mo, pr in zip(nc, nimpl, nmod, nprt):
        run.case(["num", list(c)], nontrivial=len(c[0]) > 1)
        diff = None
        if not im.get("ok") or mo.get("r") != "ok" or pr.get("r") != "ok":
            diff = "failed"
        elif im["int"] != mo["int"]:
            diff = "read_int vs exps_int"
        elif (im["kind"] == "INTEGER") != (mo["int"] is not None):
            diff = "read_int vs the token rule INTEGER"
        elif (im["kind"] == "DECIMAL") != mo["dectok"]:
            diff = "is_decimal_token vs the token rule DECIMAL"
        elif all(ch in "-0123456789." for ch in c[0]) and "." in c[0] and im["pos"] != mo["pos"]:
            diff = "read_pos_arg vs parse_position_marker_arg"
        elif im["kind"] in ("INTEGER", "DECIMAL") and im["pos"] != mo["pos"]:
            diff = "read_pos_arg vs parse_position_marker_arg (token)"
        elif all(ch in "-0123456789." for ch in c[0]) and im["fixed"] != t(mo["fixed"]):
            diff = "read_fixed vs SsbOpParamFixedPoint.from_str"
        elif im["dec"] != t(pr["dec"]):
            diff = "spell_dec vs str(int)"
        elif im["posprint"] != t(pr["pos"]):
            diff = "print_pos_arg vs x_final"
        elif im["radix"] != t(pr["radix"]) or im["zero"] != t(pr["zero"]):
            diff = "spell_radix / spell_zero vs the spelling"
        run.count("K-num:" + ("ok" if diff is None else "DIFF"))
        run.count("K-num kind:" + str(im.get("kind")))
        if diff and nfirst is None:
            nfirst = (diff, {"case": list(c), "impl": im, "model": mo, "model_print": pr})
    if nfirst is not None:
        run.correspondence_broken("K-num (Text/Num.v)", nfirst[0], nfirst[1])
