"""Check framework: obligations (Coq), evidence, known findings, replays, exit protocol."""
from __future__ import annotations

import json
import os
import random
import re
import subprocess
import sys
import time
from typing import Any, Callable

from core import VERIF, REPO, digest

COQ = os.path.join(VERIF, "coq")
TRUSTED_BASE = [
    "Coq 8.16.1 kernel (coqc; vm_compute inside Example/refuted witnesses and finite-table lemmas; no native_compute)",
    "no Axiom/Parameter/Admitted in the development (grep-checked every run); Print Assumptions output recorded per theorem",
    "extraction: Extraction Language OCaml + ExtrOcamlBasic + ExtrOcamlString (bool, option, list, prod, unit, sumbool, "
    "ascii->char, string->char list); nat/N/Z/positive stay the extracted inductives; OCaml 4.13.1 ocamlfind ocamlopt",
    "ocaml/wire.ml + ocaml/driver.ml + ocaml/more.ml (S-expression reader, JSON writer, dispatch): trusted glue",
    "harness/translate_tables.py (tables regenerated from the loaded modules of /repo on every run, fail-closed)",
    "harness (Python): generators, ANTLR parse-tree elaboration (lang.py), canonicalisation, worker timeouts",
    "ANTLR runtime + generated parser as front end for reading texts (not modelled)",
]

FORBIDDEN = re.compile(r"\b(Admitted|admit|Axiom|Axioms|Parameter|Parameters|Conjecture|Hypothesis|Variable)\b|"
                       r"Unset Guard|bypass_check|type-in-type|impredicative-set|Admit Obligations")


def tier_seed() -> tuple[str, int]:
    tier = os.environ.get("VERIF_TIER", "quick")
    for i, a in enumerate(sys.argv):
        if a == "--tier" and i + 1 < len(sys.argv):
            tier = sys.argv[i + 1]
    if tier not in ("quick", "thorough"):
        tier = "quick"
    try:
        seed = int(os.environ.get("VERIF_SEED", "0"))
    except ValueError:
        seed = 0
    return tier, seed


def scan_forbidden() -> list[str]:
    """No Admitted/admit/Axiom/Parameter/... anywhere in the development (comments excluded)."""
    hits = []
    for root, _, files in os.walk(COQ):
        for f in files:
            if not f.endswith(".v"):
                continue
            path = os.path.join(root, f)
            txt = open(path).read()
            txt = re.sub(r"\(\*.*?\*\)", "", txt, flags=re.S)
            in_section = 0
            for ln, line in enumerate(txt.splitlines(), 1):
                if re.match(r"\s*Section\b", line):
                    in_section += 1
                if re.match(r"\s*End\b", line) and in_section:
                    in_section -= 1
                line_ns = re.sub(r'"(?:[^"]|"")*"', '""', line)     # string literals are data, not vernacular
                m = FORBIDDEN.search(line_ns)
                if m:
                    if m.group(1) in ("Hypothesis", "Variable", "Variables") and in_section:
                        continue
                    hits.append(f"{os.path.relpath(path, VERIF)}:{ln}: {line.strip()[:80]}")
    return hits


def vo_ok(rel_v: str) -> bool:
    v = os.path.join(COQ, rel_v)
    vo = v[:-2] + ".vo"
    return os.path.exists(vo) and os.path.getmtime(vo) >= os.path.getmtime(v)


def compile_props(rel_v: str, timeout: int = 900) -> dict:
    """Compile a Props file (theorems closed by `exact`, each followed by Print Assumptions)."""
    path = os.path.join(COQ, rel_v)
    t0 = time.time()
    try:
        # compiled into a private output file: several checks may compile the same Props file at the same time
        outdir = os.path.join(VERIF, "build", "props", str(os.getpid()))
        os.makedirs(outdir, exist_ok=True)
        vo = os.path.join(outdir, os.path.basename(rel_v) + "o")
        r = subprocess.run(["coqc", "-Q", COQ, "ES", "-noglob", "-o", vo, path], capture_output=True, text=True, timeout=timeout, cwd=COQ)
        import shutil
        shutil.rmtree(outdir, ignore_errors=True)
        out = r.stdout + r.stderr
        ok = r.returncode == 0
    except subprocess.TimeoutExpired:
        out, ok = "timeout", False
    src = open(path).read()
    src_nc = re.sub(r"\(\*.*?\*\)", "", src, flags=re.S)
    theorems = re.findall(r"^\s*(?:Theorem|Lemma|Corollary)\s+([A-Za-z0-9_']+)", src_nc, flags=re.M)
    printed = re.findall(r"Print Assumptions\s+([A-Za-z0-9_'.]+)\s*\.", src_nc)
    closed = out.count("Closed under the global context")
    axioms = re.findall(r"^([A-Za-z0-9_.']+)\s*:", out.split("Axioms:", 1)[1], flags=re.M) if "Axioms:" in out else []
    return {"file": rel_v, "ok": ok, "theorems": theorems, "printed": printed, "closed": closed, "axioms": axioms,
            "wall_s": round(time.time() - t0, 2), "log": out[-1500:] if not ok else ""}


def load_known_findings() -> dict:
    p = os.path.join(VERIF, "known_findings.json")
    if not os.path.exists(p):
        return {"findings": [], "fixed": []}
    return json.load(open(p))


class Run:
    def __init__(self, prop: str, level: str):
        self.prop = prop
        self.level = level
        self.tier, self.seed = tier_seed()
        self.rng = random.Random(f"{prop}-{self.seed}")
        self.t0 = time.time()
        self.obligations: list[dict] = []
        self.failures: list[dict] = []       # genuine property failures with a concrete input
        self.broken: list[dict] = []         # broken obligations / correspondences
        self.coverage: dict[str, Any] = {"samples": []}
        self.assumptions: list[str] = []
        self.counts: dict[str, int] = {}
        self.distinct: set[str] = set()
        self.evaluations = 0
        self.known = load_known_findings()
        self.known_hits: dict[str, int] = {}

    # ---- bookkeeping
    def count(self, key: str, n: int = 1) -> None:
        self.counts[key] = self.counts.get(key, 0) + n

    def case(self, obj: Any, nontrivial: bool = True) -> None:
        self.evaluations += 1
        if nontrivial:
            self.distinct.add(digest(obj))

    def sample(self, obj: Any, limit: int = 4) -> None:
        if len(self.coverage["samples"]) < limit:
            self.coverage["samples"].append(obj)

    def assume(self, s: str) -> None:
        if s not in self.assumptions:
            self.assumptions.append(s)

    # ---- obligations
    def require_vo(self, files: list[str]) -> None:
        for f in files:
            ok = vo_ok(f)
            self.obligations.append({"name": f"compiled:{f}", "discharged": ok})
            if not ok:
                self.broken.append({"kind": "broken-obligation", "what": f"{f} does not compile (see build/coq.log)"})

    def props(self, rel_v: str) -> None:
        res = compile_props(rel_v)
        allowed = set()
        bad_axioms = [a for a in res["axioms"] if a not in allowed]
        n = max(1, len(res["printed"]))
        ok = res["ok"] and not bad_axioms and res["closed"] + (1 if res["axioms"] else 0) >= len(res["printed"])
        for th in res["printed"] or [rel_v]:
            self.obligations.append({"name": f"{rel_v}:{th}", "discharged": bool(ok),
                                     "assumptions": "Closed under the global context" if not res["axioms"] else res["axioms"]})
        if not ok:
            self.broken.append({"kind": "broken-obligation", "what": f"{rel_v} no longer checks", "log": res["log"],
                                "axioms": bad_axioms})
        self.coverage.setdefault("props_files", []).append(
            {"file": rel_v, "theorems": res["theorems"], "print_assumptions": res["printed"], "closed": res["closed"],
             "axioms": res["axioms"], "wall_s": res["wall_s"]})

    def forbid(self) -> None:
        hits = scan_forbidden()
        self.obligations.append({"name": "no Admitted/admit/Axiom/Parameter/unset checks in coq/", "discharged": not hits})
        if hits:
            self.broken.append({"kind": "broken-obligation", "what": "forbidden vernacular", "hits": hits[:10]})

    # ---- failures
    def fail(self, signature: str, what: str, replay: dict) -> None:
        """A concrete input on which the property fails on the implementation."""
        for kf in self.known.get("findings", []):
            if kf.get("property") == self.prop and kf.get("signature") == signature:
                self.known_hits[signature] = self.known_hits.get(signature, 0) + 1
                self.known_hits.setdefault("what:" + signature, kf.get("what", what))  # type: ignore
                return
        self.failures.append({"signature": signature, "what": what, "replay": replay})

    def correspondence_broken(self, component: str, what: str, first_input: Any) -> None:
        self.broken.append({"kind": "broken-correspondence", "component": component, "what": what,
                            "first_input": first_input})

    # ---- finish
    def write_replay(self, kind: str, body: dict) -> str:
        d = os.path.join(VERIF, "replays", self.prop)
        os.makedirs(d, exist_ok=True)
        body = dict(body)
        body.update({"property": self.prop, "kind": kind, "seed": self.seed, "tier": self.tier,
                     "command": f"cd /verif && VERIF_SEED={self.seed} ./check {self.prop} --tier {self.tier}"})
        path = os.path.join(d, digest(body) + ".json")
        with open(path, "w") as fh:
            json.dump(body, fh, indent=1, default=str)
        return os.path.relpath(path, VERIF)

    def finish(self, rule: str, explanation: str = "") -> None:
        nob = len(self.obligations)
        ndis = sum(1 for o in self.obligations if o["discharged"])
        cov = self.coverage
        cov.update({
            "evaluations": max(self.evaluations, 1),
            "distinct_nontrivial": len(self.distinct),
            "rule": rule,
            "obligations": nob, "discharged": ndis,
            "obligation_list": self.obligations,
            "checker_cmd": "coqc -Q coq ES <file> (full .vo build by coq_makefile/make; Props files re-checked every run)",
            "trusted_base": TRUSTED_BASE,
            "programs": max(self.evaluations, 1),
            "disagreements_checked": len(self.failures) + len(self.broken) + sum(
                v for k, v in self.known_hits.items() if not k.startswith("what:")),
            "counts": self.counts,
            "explanation": explanation or rule,
        })
        if not cov["samples"]:
            cov["samples"] = [o["name"] for o in self.obligations[:3]] or ["(none)"]
        lines = []
        exit_code = 0
        for sig, n in self.known_hits.items():
            if sig.startswith("what:"):
                continue
            what = self.known_hits.get("what:" + sig, "")
            lines.append(f"KNOWN-FINDING: property={self.prop} {what} [{sig}] ({n} inputs)")
        seen = set()
        for f in self.failures:
            if f["signature"] in seen:
                continue
            seen.add(f["signature"])
            path = self.write_replay("failing-input", {"signature": f["signature"], "what": f["what"], **f["replay"]})
            lines.append(f"VIOLATION property={self.prop} replay={path}")
            exit_code = 1
        if self.broken and not self.failures:
            path = self.write_replay("broken-obligation", {"broken": self.broken})
            lines.append(f"VIOLATION property={self.prop} replay={path} no-failing-input-found")
            exit_code = 1
        ev = {
            "property_id": self.prop, "tier": self.tier, "seed": self.seed, "level": self.level,
            "coverage": cov, "assumptions": self.assumptions, "wall_s": round(time.time() - self.t0, 2),
            "violations": len(seen) + (1 if (self.broken and not self.failures) else 0),
        }
        os.makedirs(os.path.join(VERIF, "evidence"), exist_ok=True)
        with open(os.path.join(VERIF, "evidence", f"{self.prop}.json"), "w") as fh:
            json.dump(ev, fh, indent=1, default=str)
        for ln in lines:
            print(ln)
        print(f"{self.prop} {self.tier}: {self.evaluations} cases, {ndis}/{nob} obligations, "
              f"{len(seen)} violation classes, {len(self.broken)} broken, {ev['wall_s']} s")
        sys.stdout.flush()
        from core import close_pool
        close_pool()
        sys.exit(exit_code)
