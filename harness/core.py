"""Harness core: paths, wire encoding, OCaml driver access, implementation worker pool.

Run with /venv/bin/python.  The implementation (/repo) is imported only inside worker functions,
with sys.path forced to /repo.
"""
from __future__ import annotations

import hashlib
import json
import multiprocessing as mp
import os
import signal
import subprocess
import sys
import time
from typing import Any, Callable, Iterable

VERIF = os.path.dirname(os.path.dirname(os.path.abspath(__file__)))
REPO = os.environ.get("VERIF_REPO", "/repo")
DRIVER = os.path.join(VERIF, "ocaml", "driver")
NPROC = int(os.environ.get("VERIF_NPROC", "16"))
PERF = "$PERFORMANCE_PROGRESS_LIST"
DM_CONSTS = ("DMODE_CLOSED", "DMODE_OPEN", "DMODE_REQUEST", "DMODE_OPEN_AND_REQUEST")

if REPO not in sys.path:
    sys.path.insert(0, REPO)
os.environ["PYTHONHASHSEED"] = os.environ.get("PYTHONHASHSEED", "0")


# ----------------------------------------------------------------------------- wire encoding
class A(str):
    """An S-expression atom (plain str = quoted name)."""

    __slots__ = ()

    def __repr__(self) -> str:
        return f"A({str.__repr__(self)})"


def sexp(x: Any) -> str:
    if isinstance(x, A):
        return str(x)
    if isinstance(x, bool):
        return "1" if x else "0"
    if isinstance(x, int):
        return str(x)
    if isinstance(x, str):
        assert '"' not in x and "\n" not in x, x
        return '"' + x + '"'
    if isinstance(x, (list, tuple)):
        return "(" + " ".join(sexp(y) for y in x) + ")"
    if x is None:
        return "()"
    raise TypeError(f"cannot encode {x!r}")


def cps(s: str) -> list[int]:
    return [ord(c) for c in s]


# tagged params: ["i", n] ["f", "1.5"] ["c", "NAME"] ["s", "text"] ["l", [[k, text], ...]] ["p", name, xo, yo, xr, yr]
def param_sexp(p: list) -> list:
    t = p[0]
    if t == "i":
        return [A("i"), int(p[1])]
    if t == "f":
        return [A("f"), str(p[1])]
    if t == "c":
        return [A("c"), str(p[1])]
    if t == "s":
        return [A("s"), *cps(p[1])]
    if t == "l":
        return [A("l"), *[[k, *cps(v)] for k, v in p[1]]]
    if t == "p":
        return [A("p"), cps(p[1]), int(p[2]), int(p[3]), int(p[4]), int(p[5])]
    raise ValueError(p)


def op_sexp(op: dict) -> list:
    return [A("op"), int(op["off"]), op["code"], *[param_sexp(p) for p in op["params"]]]


def program_sexp(routines: list[list[dict]]) -> list:
    return [A("prog"), *[[A("r"), *[op_sexp(o) for o in r]] for r in routines]]


def ssb_side(routines: list[list[dict]]) -> list:
    return [A("ssb"), program_sexp(routines)]


def src_side(prog_ast: list, perf: str = PERF) -> list:
    return [A("src"), perf, prog_ast]


def wire_param_name_ok(s: str) -> bool:
    return s.isascii() and '"' not in s and "\n" not in s and "\\" not in s


# ----------------------------------------------------------------------------- OCaml driver
def run_driver(cmds: list[Any], nproc: int | None = None, timeout: int = 1800) -> list[dict]:
    """Evaluate commands (S-expression objects or pre-rendered strings) with the extracted code."""
    if not cmds:
        return []
    lines = [c if isinstance(c, str) else sexp(c) for c in cmds]
    nproc = nproc or NPROC
    nchunks = max(1, min(nproc, len(lines) // 8 or 1))
    chunks: list[list[str]] = [lines[i::nchunks] for i in range(nchunks)]
    procs = []
    for ch in chunks:
        p = subprocess.Popen([DRIVER], stdin=subprocess.PIPE, stdout=subprocess.PIPE, text=True,
                             preexec_fn=lambda: __import__("resource").setrlimit(
                                 __import__("resource").RLIMIT_STACK,
                                 (__import__("resource").RLIM_INFINITY, __import__("resource").RLIM_INFINITY)))
        procs.append(p)
    import threading

    outs: list[list[str]] = [[] for _ in chunks]

    def feed(i: int) -> None:
        out, _ = procs[i].communicate("\n".join(chunks[i]) + "\n", timeout=timeout)
        outs[i] = out.splitlines()

    ths = [threading.Thread(target=feed, args=(i,)) for i in range(len(chunks))]
    for t in ths:
        t.start()
    for t in ths:
        t.join()
    res: list[dict | None] = [None] * len(lines)
    for ci in range(nchunks):
        idxs = list(range(ci, len(lines), nchunks))
        if len(outs[ci]) != len(idxs):
            raise RuntimeError(f"driver chunk {ci}: {len(outs[ci])} answers for {len(idxs)} commands "
                               f"(rc={procs[ci].returncode})")
        for i, line in zip(idxs, outs[ci]):
            res[i] = json.loads(line)
    return res  # type: ignore


# ----------------------------------------------------------------------------- implementation side
class CaseTimeout(Exception):
    pass


def _alarm(signum: int, frame: Any) -> None:
    raise CaseTimeout()


def classify_exc(e: BaseException) -> str:
    from explorerscript.error import ParseError, SsbCompilerError

    if isinstance(e, CaseTimeout):
        return "Timeout"
    if isinstance(e, ParseError):
        return "Parse"
    if isinstance(e, SsbCompilerError):
        return "Compiler"
    if isinstance(e, ValueError):
        return "Value"
    return "Other:" + type(e).__name__


def exc_where(e: BaseException) -> str:
    """innermost frame inside the explorerscript package: file:function"""
    import traceback

    frames = traceback.extract_tb(e.__traceback__)
    for fr in reversed(frames):
        if "/explorerscript/" in fr.filename and "/antlr/" not in fr.filename:
            return fr.filename.split("/explorerscript/", 1)[1] + ":" + fr.name
    return "?"


def p_from_impl(p: Any) -> list:
    from explorerscript.ssb_converting import ssb_data_types as dt

    if isinstance(p, bool):
        return ["x", repr(p)]
    if isinstance(p, int):
        return ["i", p]
    if isinstance(p, dt.SsbOpParamFixedPoint):
        return ["f", p.value]
    if isinstance(p, dt.SsbOpParamConstant):
        return ["c", p.name]
    if isinstance(p, dt.SsbOpParamConstString):
        return ["s", p.name]
    if isinstance(p, dt.SsbOpParamLanguageString):
        return ["l", [[k, v] for k, v in p.strings.items()]]
    if isinstance(p, dt.SsbOpParamPositionMarker):
        return ["p", p.name, p.x_offset, p.y_offset, p.x_relative, p.y_relative]
    return ["x", repr(p)]


def p_to_impl(p: list) -> Any:
    from explorerscript.ssb_converting import ssb_data_types as dt

    t = p[0]
    if t == "i":
        return int(p[1])
    if t == "f":
        x = dt.SsbOpParamFixedPoint(0, "0")
        x.value = p[1]
        return x
    if t == "c":
        return dt.SsbOpParamConstant(p[1])
    if t == "s":
        return dt.SsbOpParamConstString(p[1])
    if t == "l":
        return dt.SsbOpParamLanguageString({k: v for k, v in p[1]})
    if t == "p":
        return dt.SsbOpParamPositionMarker(p[1], p[2], p[3], p[4], p[5])
    raise ValueError(p)


def ops_from_impl(routine_ops: Any) -> list[list[dict]]:
    return [[{"off": op.offset, "code": op.op_code.name, "params": [p_from_impl(p) for p in op.params]}
             for op in r] for r in routine_ops]


def ops_to_impl(routines: list[list[dict]]) -> list:
    from explorerscript.ssb_converting import ssb_data_types as dt

    return [[dt.SsbOperation(o["off"], dt.SsbOpCode(-1, o["code"]), [p_to_impl(p) for p in o["params"]])
             for o in r] for r in routines]


def infos_from_impl(infos: Any) -> list:
    out = []
    for i in infos:
        if i is None:
            out.append(None)
        else:
            out.append({"type": i.type.name, "linked_to": i.linked_to, "linked_to_name": i.linked_to_name})
    return out


def infos_to_impl(infos: list) -> list:
    from explorerscript.ssb_converting import ssb_data_types as dt

    return [dt.SsbRoutineInfo(dt.SsbRoutineType[i["type"]], i["linked_to"], i.get("linked_to_name")) for i in infos]


def sm_to_json(sm: Any) -> Any:
    return json.loads(sm.serialize()) if sm is not None else None


def impl_compile(src: str, file_name: str = "/nonexistent/verif_main.exps", lookup_paths: list[str] | None = None,
                 perf: str = PERF) -> dict:
    from explorerscript.ssb_converting.ssb_compiler import ExplorerScriptSsbCompiler

    try:
        c = ExplorerScriptSsbCompiler(perf, lookup_paths)
        c.compile(src, file_name)
        return {"ok": True, "ops": ops_from_impl(c.routine_ops), "infos": infos_from_impl(c.routine_infos),
                "coros": [x if isinstance(x, str) else None for x in c.named_coroutines],
                "coros_raw": [x if isinstance(x, str) else repr(x) for x in c.named_coroutines],
                "sm": sm_to_json(c.source_map), "imports": list(c.imports)}
    except BaseException as e:  # noqa
        if isinstance(e, (KeyboardInterrupt, SystemExit)):
            raise
        return {"ok": False, "err": classify_exc(e), "msg": str(e)[:300], "where": exc_where(e)}


def coroutines_for(infos: list, coros: list) -> list:
    from explorerscript.ssb_converting import ssb_data_types as dt

    out = []
    for i, (info, name) in enumerate(zip(infos, coros)):
        if info is not None and info["type"] == "COROUTINE" and name is not None:
            out.append(dt.SsbCoroutine(i, name))
    return out


def impl_decompile(routines: list[list[dict]], infos: list, coros: list, perf: str = PERF) -> dict:
    from explorerscript.ssb_converting.ssb_decompiler import ExplorerScriptSsbDecompiler
    from explorerscript.ssb_converting import ssb_data_types as dt

    try:
        d = ExplorerScriptSsbDecompiler(infos_to_impl(infos), ops_to_impl(routines), coroutines_for(infos, coros), perf,
                                        dt.DungeonModeConstants(*DM_CONSTS))
        text, sm = d.convert()
        return {"ok": True, "text": text, "sm": sm_to_json(sm), "line_number": d._line_number}
    except BaseException as e:  # noqa
        if isinstance(e, (KeyboardInterrupt, SystemExit)):
            raise
        return {"ok": False, "err": classify_exc(e), "msg": str(e)[:300], "where": exc_where(e)}


def impl_ssbs_decompile(routines: list[list[dict]], infos: list, coros: list) -> dict:
    from explorerscript.ssb_script.ssb_converting.ssb_decompiler import SsbScriptSsbDecompiler

    try:
        d = SsbScriptSsbDecompiler(infos_to_impl(infos), ops_to_impl(routines), coroutines_for(infos, coros))
        text, sm = d.convert()
        return {"ok": True, "text": text, "sm": sm_to_json(sm)}
    except BaseException as e:  # noqa
        if isinstance(e, (KeyboardInterrupt, SystemExit)):
            raise
        return {"ok": False, "err": classify_exc(e), "msg": str(e)[:300], "where": exc_where(e)}


def impl_ssbs_compile(src: str) -> dict:
    from explorerscript.ssb_script.ssb_converting.ssb_compiler import SsbScriptSsbCompiler

    try:
        c = SsbScriptSsbCompiler()
        c.compile(src)
        return {"ok": True, "ops": ops_from_impl(c.routine_ops), "infos": infos_from_impl(c.routine_infos),
                "coros": [x if isinstance(x, str) else None for x in c.named_coroutines],
                "sm": sm_to_json(c.source_map)}
    except BaseException as e:  # noqa
        if isinstance(e, (KeyboardInterrupt, SystemExit)):
            raise
        return {"ok": False, "err": classify_exc(e), "msg": str(e)[:300], "where": exc_where(e)}


IMPL_FUNCS: dict[str, Callable[..., Any]] = {
    "compile": impl_compile,
    "decompile": impl_decompile,
    "ssbs_decompile": impl_ssbs_decompile,
    "ssbs_compile": impl_ssbs_compile,
}


def register_impl(name: str, fn: Callable[..., Any]) -> None:
    IMPL_FUNCS[name] = fn


CASE_TIMEOUT = int(os.environ.get("VERIF_CASE_TIMEOUT", "20"))


def set_case_timeout(seconds: int) -> None:
    """call before the first run_impl (the workers are forked at pool creation)"""
    global CASE_TIMEOUT
    CASE_TIMEOUT = seconds


def _run_task(task: tuple) -> Any:
    fn, args = task[0], task[1:]
    # the limit is on CPU time of the case (independent of the load of the machine); wall-clock time is only a
    # generous backstop for a case that blocks without computing
    signal.signal(signal.SIGALRM, _alarm)
    signal.signal(signal.SIGVTALRM, _alarm)
    signal.setitimer(signal.ITIMER_VIRTUAL, CASE_TIMEOUT)
    signal.alarm(CASE_TIMEOUT * 15)
    try:
        if fn in IMPL_FUNCS:
            f = IMPL_FUNCS[fn]
        else:  # "module:function", resolved in the worker
            mod, name = fn.split(":")
            f = getattr(__import__("importlib").import_module(mod), name)
        return f(*args)
    except CaseTimeout:
        return {"ok": False, "err": "Timeout", "msg": ""}
    except RecursionError:
        return {"ok": False, "err": "Other:RecursionError", "msg": ""}
    except Exception as e:  # noqa - a harness-side function failed
        import traceback
        return {"ok": False, "err": "Harness:" + type(e).__name__, "msg": traceback.format_exc()[-600:]}
    finally:
        signal.setitimer(signal.ITIMER_VIRTUAL, 0)
        signal.alarm(0)


def _init_worker() -> None:
    import logging
    import warnings

    logging.disable(logging.CRITICAL)
    warnings.simplefilter("ignore")
    # (not the value the package itself sets when it is imported: a change of the limit by the package stays visible)
    sys.setrecursionlimit(9000)
    # a case that allocates without end (a loop that appends) ends in MemoryError instead of taking the machine down
    try:
        import resource
        lim = int(os.environ.get("VERIF_WORKER_MEM_GB", "6")) << 30
        resource.setrlimit(resource.RLIMIT_AS, (lim, lim))
    except (ImportError, ValueError, OSError):
        pass
    # ANTLR's ConsoleErrorListener writes every syntax error to stderr
    try:
        devnull = os.open(os.devnull, os.O_WRONLY)
        os.dup2(devnull, 2)
    except OSError:
        pass


_POOL: Any = None


def pool() -> Any:
    global _POOL
    if _POOL is None:
        ctx = mp.get_context("fork")
        _POOL = ctx.Pool(NPROC, initializer=_init_worker, maxtasksperchild=2000)
    return _POOL


def run_impl(tasks: list[tuple], chunksize: int | None = None) -> list[Any]:
    """Run implementation tasks (fn_name, *args) in the worker pool, each under an alarm timeout."""
    if not tasks:
        return []
    if chunksize is None:
        chunksize = max(1, min(32, len(tasks) // (NPROC * 4) or 1))
    res = pool().map(_run_task, tasks, chunksize=chunksize)
    # a case that ran into its limit is run once more, alone: on a machine loaded by other checks the backstop (or a
    # first import inside the case) may have hit a case that terminates quickly; a case that does not terminate runs
    # into the limit again
    late = [i for i, r in enumerate(res) if isinstance(r, dict) and r.get("ok") is False
            and r.get("err") in ("Timeout", "Other:CaseTimeout")]
    for i in late[:200]:
        res[i] = pool().apply(_run_task, (tasks[i],))
    return res


def close_pool() -> None:
    global _POOL
    if _POOL is not None:
        _POOL.close()
        _POOL.join()
        _POOL = None


def digest(obj: Any) -> str:
    return hashlib.sha1(json.dumps(obj, sort_keys=True, default=str).encode()).hexdigest()[:12]


class Timer:
    def __init__(self) -> None:
        self.t0 = time.time()

    def s(self) -> float:
        return round(time.time() - self.t0, 2)
