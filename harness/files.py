"""Compilation of multi-file programs in real temporary directories (for imports)."""
from __future__ import annotations

import os
import shutil
import tempfile
from typing import Any


def compile_files(files: dict[str, str], main: str, lookup_paths: list[str], absolute_placeholders: bool = True) -> dict:
    """files: relative path -> text ('@ROOT@' in a text is replaced by the temp root). Compiles `main`."""
    from core import impl_compile

    root = tempfile.mkdtemp(prefix="verif_files_")
    try:
        for rel, text in files.items():
            p = os.path.join(root, rel)
            os.makedirs(os.path.dirname(p), exist_ok=True)
            with open(p, "w", encoding="utf-8") as fh:
                fh.write(text.replace("@ROOT@", root))
        with open(os.path.join(root, main), encoding="utf-8") as fh:
            src = fh.read()
        lps = [lp.replace("@ROOT@", root) for lp in lookup_paths]
        res = impl_compile(src, os.path.join(root, main), lps)
        if res.get("msg"):
            res["msg"] = res["msg"].replace(root, "@ROOT@")
        return res
    finally:
        shutil.rmtree(root, ignore_errors=True)


def compile_files_history(steps: list) -> dict:
    """steps: ["write", {rel: text}] | ["compile", main]; one compiler object is reused for all compile steps. Every compile
    step is also done with a new compiler object on the same file state: [reused result, fresh result] per compile step."""
    from core import PERF, ops_from_impl, classify_exc
    from explorerscript.ssb_converting.ssb_compiler import ExplorerScriptSsbCompiler

    root = tempfile.mkdtemp(prefix="verif_hist_")
    out = []
    import audit
    audit.import_all()
    base = audit.snapshot()

    def run(c: Any, main: str) -> dict:
        p = os.path.join(root, main)
        try:
            with open(p, encoding="utf-8") as fh:
                src = fh.read()
            c.compile(src, p)
            from core import sm_to_json
            return {"ok": True, "ops": ops_from_impl(c.routine_ops), "macro_files": sorted({str(v[0]) for v in sm_to_json(c.source_map)["macros"]["map"].values()})}
        except BaseException as e:  # noqa
            if isinstance(e, (KeyboardInterrupt, SystemExit)):
                raise
            return {"ok": False, "err": classify_exc(e), "msg": str(e)[:200].replace(root, "@ROOT@")}
    try:
        reused = ExplorerScriptSsbCompiler(PERF)
        for st in steps:
            if st[0] == "write":
                for rel, text in st[1].items():
                    p = os.path.join(root, rel)
                    os.makedirs(os.path.dirname(p), exist_ok=True)
                    with open(p, "w", encoding="utf-8") as fh:
                        fh.write(text)
            else:
                out.append([run(reused, st[1]), run(ExplorerScriptSsbCompiler(PERF), st[1])])
        del reused
        return {"ok": True, "results": out, "residue": audit.residue(base)}
    finally:
        shutil.rmtree(root, ignore_errors=True)
