"""Compilation of multi-file programs in real temporary directories (for imports)."""
from __future__ import annotations

import os
import shutil
import tempfile
from typing import Any


def compile_files(files: dict[str, str], main: str, lookup_paths: list[str], absolute_placeholders: bool = True) -> dict:
    """files: relative path -> text ('@ROOT@' in a text is replaced by the temp root). Compiles `main`."""
    from core import impl_compile

    root = tempfile.mkdtemp(prefix="verif_files_")
    try:
        for rel, text in files.items():
            p = os.path.join(root, rel)
            os.makedirs(os.path.dirname(p), exist_ok=True)
            with open(p, "w", encoding="utf-8") as fh:
                fh.write(text.replace("@ROOT@", root))
        with open(os.path.join(root, main), encoding="utf-8") as fh:
            src = fh.read()
        lps = [lp.replace("@ROOT@", root) for lp in lookup_paths]
        res = impl_compile(src, os.path.join(root, main), lps)
        if res.get("msg"):
            res["msg"] = res["msg"].replace(root, "@ROOT@")
        return res
    finally:
        shutil.rmtree(root, ignore_errors=True)
