#!/venv/bin/python
"""C03 - compiled output is a closed, uniquely addressed op list.

Proof: Comp/Closed.v passes_closed (the three label passes yield a Closed program for every input
with distinct offsets), closed_b_sound. Tie: the pass models are compared, pass by pass, with the
real strip_last_label / LabelFinalizer / OpsLabelJumpToRemover on the op lists captured from real
compilations; closed_b is evaluated on every real compilation result (ExplorerScript and SsbScript).
"""
from __future__ import annotations

import os
import random
import sys

sys.path.insert(0, os.path.join(os.path.dirname(os.path.abspath(__file__)), ".."))
from capture import canon_op, canon_pops, pops_sexp  # noqa: E402
from core import A, program_sexp, run_driver, run_impl  # noqa: E402
from framework import Run
from gen_ssb import JUMP_IDX  # noqa: E402
from gen_prog import Cfg, Gen, prog_size  # noqa: E402
from lang import print_prog  # noqa: E402
import shapes  # noqa: E402
from shrink import prog_candidates, shrink, skeleton  # noqa: E402


def tables_len_ok(r: dict) -> bool:
    return len(r["infos"]) == len(r["ops"]) == len(r["coros_raw"])


def compare(res: dict, model: dict) -> str | None:
    cap = res["cap"]
    if "strip_in" not in cap:
        return None
    if canon_pops(model["strip"]) != cap.get("strip_out"):
        return "strip_last_label: model and implementation differ"
    if "fin_out" in cap:
        if canon_pops(model["fin"]) != cap["fin_out"]:
            return "LabelFinalizer: routines differ"
        if sorted([a, int(b)] for a, b in model["table"]) != cap["fin_table"]:
            return "LabelFinalizer: label offsets differ"
    if "rem_out" in cap:
        if not model["remove"]["ok"] or [[canon_op(o) for o in r] for r in model["remove"]["ops"]] != cap["rem_out"]:
            return "OpsLabelJumpToRemover: ops differ"
    elif "rem_err" in cap:
        if model["remove"]["ok"]:
            return "OpsLabelJumpToRemover: implementation raised, model did not"
    return None


def main() -> None:
    run = Run("C03", "proof")
    run.forbid()
    run.require_vo(["Comp/Passes.v", "Comp/Closed.v", "Comp/StripShape.v"])
    run.props("Props/TablesAgree.v")
    run.props("Props/C03.v")
    q = run.tier == "quick"
    progs = [("shape:" + n, p) for n, p in shapes.c01_shapes()]
    for i in range(1200 if q else 15000):
        r = random.Random(f"C03-{run.seed}-{i}")
        small = r.random() < 0.6
        progs.append((f"random:{run.seed}:{i}", Gen(r, Cfg(max_depth=2 if small else 3, max_block=2 if small else 4,
                                                        max_routines=3, terminator_prob=0.5)).program()))
    # programs with macros: several expansions of one macro, nested calls, macros with and without parameters
    from gen_prog import MacroGen
    for i in range(300 if q else 4000):
        r = random.Random(f"C03-macro-{run.seed}-{i}")
        g = MacroGen(r, Cfg(max_depth=2, max_block=2, max_routines=2, loops=r.random() < 0.5, terminator_prob=0.6))
        progs.append((f"macro:{run.seed}:{i}", g.macro_program(1)["flat"]))
    # jumps, calls, terminators and loop / case control as the statement of a with-block: a context op in front of label
    # jumps, of jumps to the label that follows, of jumps to the end of the routine (closedness and the pass models do not
    # depend on what such a program means)
    for i in range(300 if q else 4000):
        r = random.Random(f"C03-withctrl-{run.seed}-{i}")
        progs.append((f"with-ctrl:{run.seed}:{i}", Gen(r, Cfg(max_depth=2, max_block=3, max_routines=2, terminator_prob=0.5, ctx_ctrl=True)).program()))
    texts = [print_prog(p) for _, p in progs]
    # in portions: the captured op lists of all passes and the model's answers are dropped once compared
    results: list = []
    diverged = None
    bad: list[tuple[int, str]] = []
    PORTION = 2000
    for a in range(0, len(texts), PORTION):
        part = run_impl([("capture:compile_capture", t) for t in texts[a:a + PORTION]])
        idx = [j for j, r in enumerate(part) if "strip_in" in r.get("cap", {})]
        models = run_driver([[A("passes"), pops_sexp(part[j]["cap"]["strip_in"])] for j in idx])
        for j, m in zip(idx, models):
            i = a + j
            run.case(progs[i][1], nontrivial=prog_size(progs[i][1]) >= 2)
            why = compare(part[j], m)
            run.count("pass-correspondence:" + ("ok" if why is None else "DIFF"))
            if why is not None and diverged is None:
                diverged = (i, why)
        for r in part:
            r.pop("cap", None)
            r.pop("sm", None)
        del models
        results.extend(part)
    ok_idx = [i for i, r in enumerate(results) if r["ok"]]
    closed = run_driver([[A("closed"), program_sexp(results[i]["ops"])] for i in ok_idx])
    for i, c in zip(ok_idx, closed):
        if not c.get("closed"):
            bad.append((i, "result is not closed (duplicate offset, dangling or missing jump target, or pseudo op)"))
        elif not tables_len_ok(results[i]):
            bad.append((i, "routine info / coroutine name / op tables differ in length"))
        else:
            # the target is the last parameter AND stands where the opcode table says the machine reads it
            for op in (o for rt in results[i]["ops"] for o in rt):
                if op["code"] in JUMP_IDX and len(op["params"]) != JUMP_IDX[op["code"]] + 1:
                    bad.append((i, f"{op['code']} at offset {op['off']} has {len(op['params'])} parameters; its target "
                                   f"is not the last parameter at index {JUMP_IDX[op['code']]}"))
                    break
        run.count("closed:" + str(bool(c.get("closed"))))
    # SsbScript path: the same programs' compiled ops printed as SsbScript and compiled by the SsbScript compiler
    sub = ok_idx[: (300 if q else 3000)]
    from decomp import infos_of_ast
    ssbs = run_impl([("ssbs_decompile", results[i]["ops"], *infos_of_ast(progs[i][1])) for i in sub])
    sidx = [i for i, s in zip(sub, ssbs) if s["ok"]]
    scomp = run_impl([("ssbs_compile", s["text"]) for s in ssbs if s["ok"]])
    sok = [(i, c) for i, c in zip(sidx, scomp) if c["ok"]]
    sclosed = run_driver([[A("closed"), program_sexp(c["ops"])] for _, c in sok])
    for (i, c), cl in zip(sok, sclosed):
        run.count("ssbscript-closed:" + str(bool(cl.get("closed"))))
        if not cl.get("closed"):
            bad.append((i, "SsbScript compilation result is not closed"))
        elif not (len(c["infos"]) == len(c["ops"]) == len(c["coros"])):
            bad.append((i, "SsbScript: tables differ in length"))
    # sources at the edge of validity, in both languages: whatever is accepted must be closed as well (unused labels at
    # the end of a routine or file, labels nobody defines, jump markers in odd places, no labels at all)
    edge_es = ["def 0 {\n    jump @nowhere;\n}\n", "def 0 {\n    a();\n    call @nowhere;\n    end;\n}\n",
               "def 0 {\n    a();\n    @unused;\n}\n", "def 0 {\n    a();\n    end;\n    @u1;\n    @u2;\n}\ndef 1 {\n    b();\n    @u3;\n}\n",
               "def 0 {\n    if (debug) {\n        jump @nowhere;\n    }\n    end;\n}\n",
               "def 0 {\n    a();\n}\ndef 1 {\n    jump @other;\n}\n", "def 0 {\n    @x;\n    jump @x;\n}\n"]
    edge_ss = ["def 0 {\n    a();\n    @unused;\n}\n", "def 0 {\n    a();\n    Jump(@nowhere);\n}\n", "def 0 {\n    Jump(@a, 5);\n    @a;\n    b();\n}\n",
               "def 0 {\n    a(@l);\n}\ndef 1 {\n    @l;\n    b();\n    @end;\n}\n", "def 0 {\n    @only;\n}\n",
               "def 0 {\n    a(1, @x);\n    @x;\n    @y;\n    End();\n    @z;\n}\n", "def 0 {\n    Branch(1, 2, @z);\n    End();\n}\ndef 1 {\n    @z;\n}\n"]
    eres = run_impl([("compile", t) for t in edge_es] + [("ssbs_compile", "//?: is-ssb-script: true\n" + t) for t in edge_ss] +
                    [("ssbs_compile", t) for t in edge_ss])
    etexts = edge_es + edge_ss + edge_ss
    eok = [(t, r) for t, r in zip(etexts, eres) if r["ok"]]
    ecl = run_driver([[A("closed"), program_sexp(r["ops"])] for _, r in eok])
    for (t, r), cl in zip(eok, ecl):
        run.case(["edge", t], nontrivial=True)
        run.count("edge sources accepted and closed:" + str(bool(cl.get("closed"))))
        if not cl.get("closed"):
            run.fail("edge-source-not-closed", "an accepted source at the edge of validity compiles to a result that is not closed "
                     "(pseudo op left, dangling or missing target)", {"source": t, "ops": r["ops"]})
    run.count("edge sources rejected", len(etexts) - len(eok))
    if ok_idx:
        i0 = ok_idx[0]
        run.sample({"case": progs[i0][0], "source": texts[i0], "ops": results[i0]["ops"]})
    if diverged is not None:
        i, why = diverged
        run.correspondence_broken("K-strip/K-final/K-remove", why, {"case": progs[i][0], "source": texts[i]})
    seen = set()
    for i, why in bad[:20]:
        sig = skeleton(progs[i][1])
        if sig in seen:
            continue
        seen.add(sig)
        run.fail(sig, why, {"case": progs[i][0], "source": texts[i], "ops": results[i].get("ops")})
    run.assume("plain operations never use a jump-carrying or ES_ pseudo opcode name (reserved names, pop_ok)")
    run.finish(rule="G_prog programs incl. labels at routine/file end, cross-routine jumps, alias routines, dropped jumps; "
                    "pass inputs captured from the real compiler and replayed on the Coq pass models; closed_b on every result")


if __name__ == "__main__":
    main()
