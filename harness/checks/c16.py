#!/venv/bin/python
"""C16 - layout, comments and alternative spellings do not change the compiled ops."""
from __future__ import annotations

import os
import random
import sys

sys.path.insert(0, os.path.join(os.path.dirname(os.path.abspath(__file__)), ".."))
from core import run_impl  # noqa: E402
from framework import Run  # noqa: E402
from gen_prog import Cfg, Gen, MacroGen  # noqa: E402
from lang import print_prog  # noqa: E402
import respell  # noqa: E402


def variants(text: str, seed: str, k: int) -> dict:
    toks = respell.lex(text)
    out = []
    for j in range(k):
        r = random.Random(f"{seed}-{j}")
        t2 = respell.respell(toks, r) if j % 2 == 0 else toks
        txt, _ = respell.layout(t2, r, wild=0.5 if j else 0.0)
        out.append(txt)
    # the same file with the other line break convention: every LF (those inside multi-line literals included) as CR LF
    for base in ([text] + out[:1]):     # the text as given, and its first re-spelling (which may hold multi-line literals)
        out.append(base.replace("\r\n", "\n").replace("\n", "\r\n"))
    return {"ok": True, "variants": out}


def marks_of(sm: dict | None) -> list:
    if not sm:
        return []
    return [m[4:] for m in sm["pos_marks"]] + [[y[0], y[1]] + y[2][4:] for y in sm["macros"]["pos_marks"]]


def essence(res: dict) -> dict:
    return {"ops": res["ops"], "infos": res["infos"], "coros": res["coros_raw"], "marks": marks_of(res["sm"])}


def main() -> None:
    run = Run("C16", "exploration")
    run.forbid()
    q = run.tier == "quick"
    # the number-literal part of the property is a theorem over Text/Num.v, tied to the real readers and printers by K-num
    run.require_vo(["Text/Num.v", "Text/NumProofs.v"])
    run.props("Props/C16.v")
    from knum import check_knum
    check_knum(run, random.Random(f"C16-num-{run.seed}"), 1200 if q else 15000)
    k = 4 if q else 8
    texts = []
    for i in range(250 if q else 3000):
        r = random.Random(f"C16-{run.seed}-{i}")
        if r.random() < 0.3:
            p = MacroGen(r, Cfg(max_depth=2, max_block=3, max_routines=2)).macro_program(1)["flat"]
        else:
            p = Gen(r, Cfg(max_depth=2, max_block=3, max_routines=3, terminator_prob=0.6)).program()
        texts.append(print_prog(p))
    base = run_impl([("compile", t) for t in texts])
    keep = [i for i, b in enumerate(base) if b["ok"]]
    vs = run_impl([("checks.c16:variants", texts[i], f"C16-{run.seed}-{i}", k) for i in keep])
    tasks, meta = [], []
    for i, v in zip(keep, vs):
        for j, txt in enumerate(v["variants"]):
            tasks.append(("compile", txt))
            meta.append((i, j, txt))
    res = run_impl(tasks)
    for (i, j, txt), o in zip(meta, res):
        run.case(txt, nontrivial=True)
        if not o["ok"]:
            run.count("variant:rejected")
            run.fail("respelling-rejected:" + o["err"], f"a re-spelling of an accepted program is rejected ({o['err']}: {o['msg'][:100]})",
                     {"original": texts[i], "respelled": txt})
            continue
        a, b = essence(base[i]), essence(o)
        if a == b:
            run.count("variant:identical")
            continue
        part = next(kk for kk in ("ops", "infos", "coros", "marks") if a[kk] != b[kk])
        run.count("variant:DIFFERENT")
        run.fail("respelling-changes:" + part, f"a re-spelling changes the compiled {part}", {"original": texts[i], "respelled": txt,
                                                                                               "expected": a[part], "observed": b[part]})
    if meta:
        run.sample({"original": texts[meta[1][0]], "respelled": meta[1][2]})
    run.assume("ANTLR lexer used as tokeniser of the canonical text; the ATN that runs is trusted to implement the .g4")
    run.finish(rule="G_prog and macro programs accepted by the compiler x k re-spellings each: random skip text (blanks, newlines, "
                    "line/block comments, line joining) at every token boundary, integer bases, decimal leading zeros, quote styles, "
                    "§ labels, for_actor(X) headers, trailing commas")


if __name__ == "__main__":
    main()
