#!/venv/bin/python
"""C06 - the decompiler always answers; its SsbScript fallback is marked and exact."""
from __future__ import annotations

import os
import random
import sys

sys.path.insert(0, os.path.join(os.path.dirname(os.path.abspath(__file__)), ".."))
from core import run_impl  # noqa: E402
from decomp import MARKER, Case, gen_cases, infos_equal  # noqa: E402
from framework import Run  # noqa: E402
from gen_ssb import ssb_candidates, ssb_skeleton, wf_ssb  # noqa: E402
from shrink import shrink  # noqa: E402
from checks.c07 import py_renumber  # noqa: E402


def hard_shapes() -> list[Case]:
    """flow graphs the structuring passes do not handle"""
    def o(off, code, *ps):
        return {"off": off, "code": code, "params": [["i", p] if isinstance(p, int) else p for p in ps]}

    g = [{"type": "GENERIC", "linked_to": 0, "linked_to_name": None}]
    out = []
    # irreducible loop: two entries into a cycle
    out.append(Case("irreducible", [[o(0, "BranchDebug", 1, 3), o(1, "a"), o(2, "BranchEdit", 1, 4), o(3, "b"), o(4, "c"), o(5, "BranchVariation", 1, 3), o(6, "End")]], g, [None]))
    # jump into the middle of an if block
    out.append(Case("jump_into_block", [[o(0, "BranchDebug", 1, 4), o(1, "a"), o(2, "Jump", 5), o(4, "b"), o(5, "c"), o(6, "BranchEdit", 1, 5), o(7, "End")]], g, [None]))
    # routine that is only a jump into another routine
    out.append(Case("only_cross_jump", [[o(0, "Jump", 2)], [o(1, "a"), o(2, "b"), o(3, "End")]], g * 2, [None, None]))
    out.append(Case("cross_jump_backwards", [[o(0, "a"), o(1, "End")], [o(2, "Jump", 0)]], g * 2, [None, None]))
    # shared case bodies
    out.append(Case("shared_case_bodies", [[o(0, "Switch", ["c", "$V"]), o(1, "Case", 1, 5), o(2, "Case", 2, 5), o(3, "Case", 3, 7), o(4, "Jump", 9),
                                            o(5, "a"), o(6, "Jump", 9), o(7, "b"), o(8, "Jump", 5), o(9, "End")]], g, [None]))
    out.append(Case("case_into_other_switch", [[o(0, "Switch", ["c", "$V"]), o(1, "Case", 1, 6), o(2, "Jump", 3), o(3, "Switch", ["c", "$W"]), o(4, "Case", 1, 6), o(5, "Jump", 7),
                                                o(6, "a"), o(7, "End")]], g, [None]))
    out.append(Case("empty_message_switch", [[o(0, "message_SwitchTalk", ["c", "$V"]), o(1, "End")]], g, [None]))
    out.append(Case("call_chain", [[o(0, "Call", 2), o(1, "End"), o(2, "a"), o(3, "Call", 5), o(4, "Return"), o(5, "b"), o(6, "Return")]], g, [None]))
    out.append(Case("self_loop", [[o(0, "a"), o(1, "Jump", 0)]], g, [None]))
    out.append(Case("loop_two_exits", [[o(0, "a"), o(1, "BranchDebug", 1, 5), o(2, "b"), o(3, "BranchEdit", 1, 6), o(4, "Jump", 0), o(5, "End"), o(6, "Hold")]], g, [None]))
    out.append(Case("hold_then_op", [[o(0, "Hold"), o(1, "a"), o(2, "End")]], g, [None]))
    return out


def pipeline(cases: list[Case]) -> list[dict]:
    dec = run_impl([("decompile", c.ops, c.infos, c.coros) for c in cases])
    todo = [i for i, d in enumerate(dec) if d["ok"] and d["text"].startswith(MARKER)]
    comp = dict(zip(todo, run_impl([("compile", dec[i]["text"]) for i in todo])))
    return [{"dec": d, "comp": comp.get(i)} for i, d in enumerate(dec)]


def judge(c: Case, rec: dict) -> str | None:
    d = rec["dec"]
    if not d["ok"]:
        return f"decompilation raises {d['err']} ({d.get('where')}): {d['msg'][:120]}"
    if rec["comp"] is None:
        if MARKER in d["text"] and not d["text"].startswith(MARKER):
            return "the is-ssb-script marker is not the first line"
        return None
    comp = rec["comp"]
    if not comp["ok"]:
        return f"the fallback text is rejected by the compiler: {comp['err']}: {comp['msg'][:120]}"
    want = py_renumber(c.ops)
    if comp["ops"] != want:
        return "compiling the fallback text does not reproduce the input op for op"
    if not infos_equal(comp["infos"], c.infos) or comp["coros"] != c.coros:
        return f"routine kinds/targets/names differ after compiling the fallback: {comp['infos']} {comp['coros']}"
    return None


def fails_now(x: dict) -> bool:
    if wf_ssb(x["ops"]) is not None:
        return False
    c = Case("shrink", x["ops"], x["infos"], x["coros"])
    return judge(c, pipeline([c])[0]) is not None


def meta_impl(text: str) -> dict:
    """the real attribute parser, and whether compile() hands the text to the SsbScript compiler"""
    from explorerscript.ssb_converting.compiler.meta_attributes import parse_exps_meta_attributes, ExpsMetaAttributes
    import explorerscript.ssb_converting.ssb_compiler as sc
    from core import PERF

    attrs = parse_exps_meta_attributes(text)
    used = []
    orig = sc.SsbScriptSsbCompiler

    class Spy(orig):  # type: ignore
        def compile(self, *a, **k):  # noqa
            used.append(1)
            return super().compile(*a, **k)
    sc.SsbScriptSsbCompiler = Spy  # type: ignore
    try:
        try:
            sc.ExplorerScriptSsbCompiler(PERF).compile(text, "/nonexistent/meta.exps")
        except BaseException as e:  # noqa
            if isinstance(e, (KeyboardInterrupt, SystemExit)):
                raise
    finally:
        sc.SsbScriptSsbCompiler = orig  # type: ignore
    return {"ok": True, "attrs": {k: v for k, v in attrs.items()}, "dispatch": bool(used),
            "key": ExpsMetaAttributes.IsSsbScript}


def meta_cases(r, n: int) -> list[str]:
    ws = [" ", " ", "", "\t", "\xa0", "\u2003", "  "]
    brk = ["\n", "\n", "\r\n", "\r", "\x0b", "\x0c", "\x1c", "\x85", "\u2028"]
    keys = ["is-ssb-script", "is-ssb-script", "other", "is ssb script", "", "a:b", "//?", "is-ssb-script "]
    vals = ["true", "1", "false", "0", "True", " true ", "", "true:", "yes // x", "1 "]
    out = []
    for _ in range(n):
        lines = []
        for _ in range(r.randint(0, 4)):
            k = r.random()
            if k < 0.6:
                lines.append(r.choice(ws) + r.choice(["//?:", "//?:", "// ?:", "//?", "x //?:", "//?://?:"]) + r.choice(ws) + r.choice(keys) + r.choice(ws)
                             + r.choice([":", ":", "", "::"]) + r.choice(ws) + r.choice(vals) + r.choice(ws))
            elif k < 0.75:
                lines.append("// WARNING:")
            elif k < 0.85:
                lines.append("")
            else:
                lines.append("def 0 { a(); }")
        txt = "".join(ln + r.choice(brk) for ln in lines) + r.choice(["", "def 0 {\n    end;\n}\n", "def 0 {\n    Return();\n}\n", "x"])
        out.append(txt)
    return out


def main() -> None:
    run = Run("C06", "translation_validation")
    run.forbid()
    run.require_vo(["Script/Model.v", "Text/Meta.v", "Text/MetaProofs.v"])
    run.props("Props/C07.v")
    run.props("Props/C06.v")
    q = run.tier == "quick"
    import core
    core.set_case_timeout(6)
    cases, stats = gen_cases(run.seed, 300 if q else 4000, 300 if q else 4000, 900 if q else 12000, "C06")
    hs = hard_shapes()
    for h in hs:
        why = wf_ssb(h.ops)
        if why is not None:
            run.count("hard-shape-not-wf:" + h.name)
    cases = [h for h in hs if wf_ssb(h.ops) is None] + cases
    for k, v in stats.items():
        run.count("gen:" + k, v)
    recs = pipeline(cases)
    failing = []
    for c, rec in zip(cases, recs):
        n = sum(len(r) for r in c.ops)
        run.case(c.ops, nontrivial=n >= 3)
        why = judge(c, rec)
        kind = "raised" if not rec["dec"]["ok"] else ("fallback" if rec["comp"] is not None else "structured")
        run.count(f"{kind}:" + ("ok" if why is None else "FAIL"))
        if why is not None:
            failing.append((n, c, why, rec))
    for c, rec in zip(cases, recs):
        if rec["comp"] is not None:
            run.sample({"case": c.name, "input_ops": c.ops, "fallback_text": rec["dec"]["text"][-400:]})
            break
    failing.sort(key=lambda t: t[0])
    seen = set()
    for n, (_, c, why, rec) in enumerate(failing):
        cur = {"ops": c.ops, "infos": c.infos, "coros": c.coros}
        if n < (10 if q else 40):
            cur = shrink(cur, ssb_candidates, fails_now, budget=200)
        cc = Case("shrunk", cur["ops"], cur["infos"], cur["coros"])
        srec = pipeline([cc])[0]
        swhy = judge(cc, srec) or why
        d = srec["dec"]
        sig = ("raises:" + d["err"] + "@" + str(d.get("where"))) if not d["ok"] else ("fallback-inexact:" + ssb_skeleton(cur["ops"]))
        if sig in seen:
            continue
        seen.add(sig)
        run.fail(sig, swhy, {"case": c.name, "input": cur, "text": d.get("text"), "original_input": {"ops": c.ops, "infos": c.infos, "coros": c.coros}})
    # the marker: every fallback text starts with the two lines the theorem C06_fallback_is_dispatched is about, and the
    # model of the attribute parser / the dispatch (Text/Meta.v) agrees with the real ones (K-meta)
    from core import A, run_driver
    import random as _random
    mr = _random.Random(f"C06-meta-{run.seed}")
    mc = meta_cases(mr, 500 if q else 8000) + [rec["dec"]["text"] for rec in recs if rec["comp"] is not None and rec["dec"]["ok"]][:50]
    mimpl = run_impl([("checks.c06:meta_impl", t) for t in mc])
    mmod = run_driver([[A("meta"), [ord(ch) for ch in t]] for t in mc])
    t2s = lambda cps: "".join(chr(x) for x in cps)  # noqa: E731
    mfirst = None
    head = None
    for t, im, mo in zip(mc, mimpl, mmod):
        diff = None
        if not im.get("ok") or mo.get("r") != "ok":
            diff = "failed"
        else:
            head = t2s(mo["head"])
            mattrs = {}
            for k, v in reversed(mo["attrs"]):
                mattrs[t2s(k)] = t2s(v)
            if mattrs != im["attrs"]:
                diff = "parse_meta vs parse_exps_meta_attributes"
            elif mo["dispatch"] != im["dispatch"]:
                diff = "dispatches_to_ssbscript vs the compiler actually used by compile()"
        run.count("K-meta:" + ("ok" if diff is None else "DIFF"))
        run.count("K-meta dispatch:" + str(im.get("dispatch")))
        if diff and mfirst is None:
            mfirst = (diff, {"text": t, "impl": im, "model": mo})
    if mfirst is not None:
        run.correspondence_broken("K-meta (Text/Meta.v)", mfirst[0], mfirst[1])
    nfb = 0
    for c, rec in zip(cases, recs):
        if rec["comp"] is not None and rec["dec"]["ok"] and head is not None:
            nfb += 1
            if not rec["dec"]["text"].startswith(head):
                run.correspondence_broken("K-meta (Text/Meta.v FALLBACK_HEAD)", "a fallback text does not start with the two lines the theorem is about",
                                          {"input": c.ops, "text": rec["dec"]["text"][:200]})
                break
    run.count("fallback texts starting with FALLBACK_HEAD", nfb)
    run.assume("'never raises' is established by execution on generated inputs only (the structuring passes are not modelled)")
    run.finish(rule="G_ssb (compiler outputs, re-layouts, random op lists) plus hand-written hard flow graphs (irreducible loops, jumps "
                    "into blocks, cross-routine-only routines, shared case bodies); every input under a timeout")


if __name__ == "__main__":
    main()
