#!/venv/bin/python
"""C07 - SsbScript is a lossless spelling of SSB ops.

Model: Script/Model.v (print_script, compile_script, renumber). Tie: statement lists of the model vs
the real SsbScript text (parsed with the real ANTLR SsbScript parser), compiled ops of the model vs the
real SsbScript compiler. Property predicate on the real code: compile(decompile(x)) == renumber(x),
same routine kinds/targets/coroutine names.
"""
from __future__ import annotations

import copy
import os
import random
import sys

sys.path.insert(0, os.path.join(os.path.dirname(os.path.abspath(__file__)), ".."))
from capture import canon_op  # noqa: E402
from core import A, program_sexp, run_driver, run_impl  # noqa: E402
from decomp import gen_cases, infos_equal  # noqa: E402
from framework import Run  # noqa: E402
from gen_ssb import JUMP_IDX, default_infos, random_routines, ssb_candidates, ssb_skeleton, target_of  # noqa: E402
from lang import KEYWORDS  # noqa: E402
from shrink import shrink  # noqa: E402


def wf_script(routines: list[list[dict]]) -> bool:
    offs = [op["off"] for r in routines for op in r]
    if len(set(offs)) != len(offs) or offs != sorted(offs):
        return False
    s = set(offs)
    for r in routines:
        for op in r:
            c = op["code"]
            if c in KEYWORDS or not (c.isascii() and c.replace("_", "a").isalnum() and not c[0].isdigit()):
                return False
            if c in JUMP_IDX:
                if len(op["params"]) != JUMP_IDX[c] + 1:
                    return False
                if target_of(op) not in s:
                    return False
    return True


def py_renumber(routines: list[list[dict]]) -> list[list[dict]]:
    pos = {}
    k = 0
    for r in routines:
        for op in r:
            pos[op["off"]] = k
            k += 1
    out = []
    k = 0
    for r in routines:
        rr = []
        for op in r:
            ps = copy.deepcopy(op["params"])
            if op["code"] in JUMP_IDX:
                ps[JUMP_IDX[op["code"]]] = ["i", pos[ps[JUMP_IDX[op["code"]]][1]]]
            rr.append({"off": k, "code": op["code"], "params": ps})
            k += 1
        out.append(rr)
    return out


def stmts_of_text(text: str) -> dict:
    """statement skeleton of an SsbScript text: per routine [("L", id) | ("O", code, jump label or None)]"""
    from antlr4 import InputStream, CommonTokenStream
    from explorerscript.antlr.SsbScriptLexer import SsbScriptLexer
    from explorerscript.antlr.SsbScriptParser import SsbScriptParser
    from explorerscript.syntax_error_listener import SyntaxErrorListener

    try:
        parser = SsbScriptParser(CommonTokenStream(SsbScriptLexer(InputStream(text))))
        parser.removeErrorListeners()
        el = SyntaxErrorListener()
        parser.addErrorListener(el)
        tree = parser.start()
        if el.syntax_errors:
            return {"ok": False, "msg": str(el.syntax_errors[0])}
        out = []
        for fd in tree.funcdef():
            d = fd.coro_def() or fd.simple_def() or fd.for_target_def()
            suite = d.func_suite()
            rr = []
            for st in suite.stmt():
                if st.label():
                    name = str(st.label().IDENTIFIER())
                    rr.append(["L", int(name[6:]) if name.startswith("label_") else name])
                else:
                    o = st.operation()
                    j = None
                    if o.arglist():
                        args = o.arglist().pos_argument()
                        if args and args[-1].jump_marker():
                            nm = str(args[-1].jump_marker().IDENTIFIER())
                            j = int(nm[6:]) if nm.startswith("label_") else nm
                    rr.append(["O", str(o.IDENTIFIER()), j])
            out.append(rr)
        return {"ok": True, "stmts": out}
    except Exception as e:  # noqa
        return {"ok": False, "msg": f"{type(e).__name__}: {e}"}


def pipeline(cases: list[dict]) -> list[dict]:
    dec = run_impl([("ssbs_decompile", c["ops"], c["infos"], c["coros"]) for c in cases])
    comp = run_impl([("ssbs_compile", d["text"]) if d["ok"] else ("ssbs_compile", "") for d in dec])
    sk = run_impl([("checks.c07:stmts_of_text", d["text"]) if d["ok"] else ("checks.c07:stmts_of_text", "") for d in dec])
    return [{"dec": d, "comp": c, "stmts": s} for d, c, s in zip(dec, comp, sk)]


def judge(c: dict, rec: dict) -> str | None:
    d, comp = rec["dec"], rec["comp"]
    if not d["ok"]:
        return f"SsbScript decompiler raised {d['err']}: {d['msg']}"
    if not comp["ok"]:
        return f"SsbScript compiler rejects the text: {comp['err']}: {comp['msg']}"
    want = py_renumber(c["ops"])
    if comp["ops"] != want:
        if [len(r) for r in comp["ops"]] != [len(r) for r in want]:
            return "number of routines / ops differs"
        for rg, rw in zip(comp["ops"], want):
            for og, ow in zip(rg, rw):
                if og != ow:
                    return f"op differs: got {og} expected {ow}"
    if not infos_equal(comp["infos"], c["infos"]):
        return f"routine kinds/targets differ: {comp['infos']}"
    if comp["coros"] != c["coros"]:
        return f"coroutine names differ: {comp['coros']} vs {c['coros']}"
    return None


def fails_now(c: dict) -> bool:
    if not wf_script(c["ops"]):
        return False
    return judge(c, pipeline([c])[0]) is not None


def main() -> None:
    run = Run("C07", "proof")
    run.forbid()
    run.require_vo(["Script/Model.v", "Script/Proofs.v", "Script/Renumber.v"])
    run.props("Props/TablesAgree.v")
    run.props("Props/C07.v")
    q = run.tier == "quick"
    base, stats = gen_cases(run.seed, 300 if q else 4000, 200 if q else 3000, 0, "C07")
    cases = [{"ops": c.ops, "infos": c.infos, "coros": c.coros, "name": c.name} for c in base]
    for k in range(700 if q else 10000):
        r = random.Random(f"C07-random-{run.seed}-{k}")
        ops = random_routines(r, max_routines=3, max_ops=8)
        if r.random() < 0.2:
            ops.insert(r.randrange(1, len(ops) + 1), [])   # empty (alias) routine
        if r.random() < 0.3:   # arbitrary opcode names
            for rr in ops:
                for op in rr:
                    if op["code"] not in JUMP_IDX and r.random() < 0.3:
                        op["code"] = r.choice(["Zz9", "_under", "x", "CamelCaseOp_1", "lives", "Switch", "flag_Set"])
        infos, coros = default_infos(ops, r)
        cases.append({"ops": ops, "infos": infos, "coros": coros, "name": f"random:{run.seed}:{k}"})
    cases = [c for c in cases if wf_script(c["ops"])]
    recs = pipeline(cases)
    models = run_driver([[A("script"), program_sexp(c["ops"])] for c in cases])
    failing = []
    first_div = None
    for c, rec, m in zip(cases, recs, models):
        n = sum(len(r) for r in c["ops"])
        run.case(c["ops"], nontrivial=n >= 2)
        why = judge(c, rec)
        run.count("roundtrip:" + ("ok" if why is None else "FAIL"))
        if why is not None:
            failing.append((n, c, why))
        if first_div is None and rec["dec"]["ok"]:
            mp = m["print"]
            if not mp["ok"]:
                first_div = (c, "model printing fails: " + mp["msg"])
            else:
                mst = [[["L", s[1]] if s[0] == "L" else ["O", s[1], s[3]] for s in r] for r in mp["stmts"]]
                if not rec["stmts"]["ok"] or rec["stmts"]["stmts"] != mst:
                    first_div = (c, "statement list of the model differs from the real SsbScript text")
                elif rec["comp"]["ok"] and (not mp["compiled"]["ok"] or
                                            [[canon_op(o) for o in r] for r in mp["compiled"]["ops"]] != rec["comp"]["ops"]):
                    first_div = (c, "compiled ops of the model differ from the real SsbScript compiler")
                elif [[canon_op(o) for o in r] for r in m["renumber"]] != py_renumber(c["ops"]):
                    first_div = (c, "renumber: model differs from the harness")
    if cases:
        run.sample({"case": cases[0]["name"], "ops": cases[0]["ops"], "text": recs[0]["dec"].get("text", "")[:500]})
    if first_div is not None:
        run.correspondence_broken("K-script", first_div[1], {"input": first_div[0]})
    failing.sort(key=lambda t: t[0])
    seen = set()
    for n, (_, c, why) in enumerate(failing):
        cur = {"ops": c["ops"], "infos": c["infos"], "coros": c["coros"]}
        if n < (8 if q else 30):
            cur = shrink(cur, ssb_candidates, fails_now, budget=200)
        sig = ssb_skeleton(cur["ops"]) + "|" + ",".join(i["type"] if i else "None" for i in cur["infos"])
        if sig in seen:
            continue
        seen.add(sig)
        rec = pipeline([cur])[0]
        run.fail(sig, judge(cur, rec) or why, {"input": cur, "text": rec["dec"].get("text"), "compiled": rec["comp"].get("ops")})
    run.assume("parameters inside statements are compared after the real print/parse (their round trip is C04's subject)")
    run.finish(rule="G_ssb (compiler outputs, re-layouts, random op lists incl. unreachable ops, empty routines, arbitrary opcode "
                    "names, cross-routine jumps, all routine kinds); inputs restricted to in-range targets and table arity")


if __name__ == "__main__":
    main()
