#!/venv/bin/python
"""C14 - source maps survive storage and offset rewriting.

Proof: SM/Proofs.v (deserialize_serialize, reserialize, rewrite_* theorems) about SM/Model.v.
Tie: the model's serialised value and rewrite result are compared with the real SourceMap on generated maps
(arbitrary well-typed ones and maps produced by the real compiler/decompilers) x injective mappings.
The property's own predicates (== after reload, identical fields, stable text, entries moved) are
evaluated on the real code for every case.
"""
from __future__ import annotations

import json
import os
import random
import sys

sys.path.insert(0, os.path.join(os.path.dirname(os.path.abspath(__file__)), ".."))
from core import A, cps, run_driver, run_impl  # noqa: E402
from framework import Run  # noqa: E402

NAMES = ["m", "mark one", "it's", "ü", ""]
FILES = [None, "lib.exps", "sub/dir/x.exps", "../y.exps"]


def gen_map(r: random.Random, with_zero: bool) -> dict:
    keys = r.sample(range(0 if with_zero else 1, 40), r.randint(0, 10))
    r.shuffle(keys)
    nmac = r.randint(0, len(keys))
    mkeys, okeys = keys[:nmac], keys[nmac:]

    def mark() -> list:
        return [r.randrange(0, 50), r.randrange(0, 80), r.randrange(0, 50), r.randrange(0, 80), r.choice(NAMES),
                r.choice([0, 2, 4]), r.choice([0, 2]), r.randrange(-5, 60), r.randrange(0, 60)]

    # entries of one macro share their position (the same macro expanded several times), the rest differs
    pool = [[r.choice(FILES), r.choice(["mac", "other_macro"]), r.randrange(0, 50), r.randrange(0, 80)]
            for _ in range(r.randint(1, 3))]

    def dup(marks: list) -> list:
        # a macro with a position mark that is expanded several times is recorded once per expansion
        return marks + [list(x) for x in marks if r.random() < 0.4]

    def mm() -> list:
        called = r.choice([None, None, [r.choice(FILES), r.randrange(0, 30), r.randrange(0, 20)]])
        ret = r.choice([None, r.randrange(0 if with_zero else 1, 45), r.randrange(1, 45)])
        params = {k: (r.choice(["3", "'str'", "$V", "Position<'a', 1, 2>"]) if r.random() < 0.8 else r.randrange(0, 9))
                  for k in r.sample(["$a", "$b", "$long_name"], r.randint(0, 3))}
        if r.random() < 0.5:
            return [*r.choice(pool), called, ret, params]
        return [r.choice(FILES), r.choice(["mac", "other_macro"]), r.randrange(0, 50), r.randrange(0, 80), called, ret, params]

    return {"map": {k: [r.randrange(0, 50), r.randrange(0, 80)] for k in okeys},
            "pos_marks": dup([mark() for _ in range(r.randint(0, 3))]),
            "mmap": {k: mm() for k in mkeys},
            "mpos_marks": dup([[r.choice(FILES), "mac", mark()] for _ in range(r.randint(0, 2))])}


def gen_f(r: random.Random, m: dict) -> dict:
    keys = sorted(set(list(m["map"]) + list(m["mmap"]) + list(range(0, 46))))
    kind = r.random()
    if kind < 0.1:
        return {}
    dom = [k for k in keys if r.random() < (0.75 if kind < 0.8 else 0.3)]
    if r.random() < 0.35:
        # what the compiler itself does: ops are dropped and the rest is numbered 0, 1, 2, ... (from a random start):
        # new offsets smaller than the old ones, the largest new offset below the largest old one
        start = r.choice([0, 0, 1, 3])
        return dict(zip(dom, range(start, start + len(dom))))
    targets = r.sample(range(0, max(200, 2 * len(dom) + 10)), len(dom))
    if kind < 0.5:
        targets.sort()
    return dict(zip(dom, targets))


def build_sm(m: dict):  # runs in worker: real objects
    from explorerscript.source_map import SourceMap, SourceMapping, MacroSourceMapping, SourceMapPositionMark

    def mk_mm(v: list):
        return MacroSourceMapping(v[0], v[1], v[2], v[3], tuple(v[4]) if v[4] is not None else None, v[5], dict(v[6]))

    return SourceMap({int(k): SourceMapping(v[0], v[1]) for k, v in m["map"].items()},
                     [SourceMapPositionMark(*x) for x in m["pos_marks"]],
                     {int(k): mk_mm(v) for k, v in m["mmap"].items()},
                     [(y[0], y[1], SourceMapPositionMark(*y[2])) for y in m["mpos_marks"]])


def deep(sm) -> dict:
    """strict field-by-field view (types included: a tuple stays distinguishable from a list)"""
    def t(x):
        if isinstance(x, tuple):
            return ["tuple", [t(y) for y in x]]
        if isinstance(x, list):
            return ["list", [t(y) for y in x]]
        if isinstance(x, dict):
            return ["dict", sorted([[repr(k), t(v)] for k, v in x.items()])]
        return [type(x).__name__, x]

    def pm(p):
        return [p.line_number, p.column_number, p.end_line_number, p.end_column_number, p.name, p.x_offset, p.y_offset,
                p.x_relative, p.y_relative]

    return {"map": sorted([k, type(k).__name__, v.line, v.column] for k, v in sm._mappings.items()),
            "marks": [pm(p) for p in sm._position_marks],
            "mmap": sorted([k, type(k).__name__, v.relpath_included_file, v.macro_name, v.line, v.column, t(v.called_in),
                            v.return_addr, t(v.parameter_mapping)] for k, v in sm._mappings_macros.items()),
            "mmarks": [[t(y[0]), y[1], pm(y[2])] for y in sm._position_marks_macro]}


def impl_case(m: dict, f: dict) -> dict:
    from explorerscript.source_map import SourceMap

    out: dict = {}
    try:
        sm = build_sm(m)
        text = sm.serialize()
        out["json"] = json.loads(text)
        sm2 = SourceMap.deserialize(text)
        out["eq"] = bool(sm2 == sm) and bool(sm == sm2)
        out["deep_eq"] = deep(sm2) == deep(sm)
        out["deep_a"], out["deep_b"] = deep(sm), deep(sm2)
        out["text_stable"] = sm2.serialize() == text
        # __eq__ must also tell different maps apart
        other = build_sm(m)
        if other._mappings_macros:
            k = next(iter(other._mappings_macros))
            other._mappings_macros[k].macro_name += "_x"
            out["neq_detects_macro_change"] = not (other == sm)
        sm3 = build_sm(m)
        sm3.rewrite_offsets({int(k): v for k, v in f.items()})
        out["rewritten"] = json.loads(sm3.serialize())
        # the same on an object that was stored before (and compared, iterated, asked for entries): storing is a view of
        # the current state, not of an earlier one
        sm4 = build_sm(m)
        sm4.serialize()
        sm4.serialize(pretty=True)
        bool(sm4 == build_sm(m))
        list(sm4)
        sm4.rewrite_offsets({int(k): v for k, v in f.items()})
        out["rewritten_after_store"] = json.loads(sm4.serialize())
        out["rewritten_after_store_pretty"] = json.loads(sm4.serialize(pretty=True))
        out["ok"] = True
    except BaseException as e:  # noqa
        if isinstance(e, (KeyboardInterrupt, SystemExit)):
            raise
        out = {"ok": False, "err": type(e).__name__, "msg": str(e)[:200]}
    return out


def compile_rewrite(text: str, seed: str) -> dict:
    """rewrite_offsets applied to the source map object the real compiler built (not to a reloaded copy)"""
    from core import PERF
    from explorerscript.ssb_converting.ssb_compiler import ExplorerScriptSsbCompiler

    def view(sm) -> dict:
        return {"map": {int(k): [v.line, v.column] for k, v in sm._mappings.items()},
                "mmap": {int(k): [v.relpath_included_file, v.macro_name, v.line, v.column,
                                  list(v.called_in) if v.called_in is not None else None, v.return_addr, dict(v.parameter_mapping)]
                         for k, v in sm._mappings_macros.items()}}
    try:
        c = ExplorerScriptSsbCompiler(PERF)
        c.compile(text, "/nonexistent/verif_main.exps")
        sm = c.source_map
        before = view(sm)
        f = gen_f(random.Random(seed), {"map": before["map"], "mmap": before["mmap"]})
        sm.rewrite_offsets({int(k): v for k, v in f.items()})
        return {"ok": True, "before": before, "mapping": f, "after": view(sm)}
    except BaseException as e:  # noqa
        if isinstance(e, (KeyboardInterrupt, SystemExit)):
            raise
        return {"ok": False, "err": type(e).__name__, "msg": str(e)[:200]}


def otext(x) -> list:
    return [A("none")] if x is None else [A("some"), *cps(x)]


def sm_sexp(m: dict) -> list:
    def mark(x: list) -> list:
        return [x[0], x[1], x[2], x[3], cps(x[4]), x[5], x[6], x[7], x[8]]

    def pv(v) -> list:
        return [A("i"), v] if isinstance(v, int) else [A("s"), *cps(v)]

    return [A("sm"),
            [[int(k), v[0], v[1]] for k, v in m["map"].items()],
            [mark(x) for x in m["pos_marks"]],
            [[int(k), otext(v[0]), cps(v[1]), v[2], v[3],
              ([otext(v[4][0]), v[4][1], v[4][2]] if v[4] is not None else []),
              ([v[5]] if v[5] is not None else []),
              [[k2, pv(v2)] for k2, v2 in v[6].items()]] for k, v in m["mmap"].items()],
            [[otext(y[0]), cps(y[1]), mark(y[2])] for y in m["mpos_marks"]]]


def unwrap(j):
    """driver JSON -> plain JSON value"""
    if isinstance(j, dict):
        if set(j.keys()) == {"$t"}:
            return "".join(chr(c) for c in j["$t"])
        return {k: unwrap(v) for k, v in j.items()}
    if isinstance(j, list):
        return [unwrap(x) for x in j]
    return j


def expected_rewrite(m: dict, f: dict) -> dict:
    """the property's statement, computed directly"""
    out_map = {f[k]: v for k, v in m["map"].items() if k in f}
    out_mm = {}
    mx = max(f) if f else None
    for k, v in m["mmap"].items():
        if k in f:
            v = list(v)
            r = v[5]
            if r is not None and f:
                a = r
                while a not in f and a <= mx:
                    a += 1
                if a in f:
                    v[5] = f[a]
            out_mm[f[k]] = v
    return {"map": out_map, "mmap": out_mm}


def main() -> None:
    run = Run("C14", "proof")
    run.forbid()
    run.require_vo(["Text/Dec.v", "SM/Model.v", "SM/Proofs.v"])
    run.props("Props/C14.v")
    q = run.tier == "quick"
    cases = []
    for i in range(1500 if q else 20000):
        r = random.Random(f"C14-{run.seed}-{i}")
        m = gen_map(r, with_zero=r.random() < 0.4)
        cases.append((m, gen_f(r, m)))
    # maps produced by the real compiler and decompilers
    from decomp import gen_cases
    real_cases, _ = gen_cases(run.seed, 60 if q else 400, 0, 0, "C14", cfg_kw={"macros": False})
    dec = run_impl([("decompile", c.ops, c.infos, c.coros) for c in real_cases])
    for c, d in zip(real_cases, dec):
        if d["ok"] and d["sm"]:
            sm = d["sm"]
            m = {"map": {int(k): v for k, v in sm["map"].items()}, "pos_marks": sm["pos_marks"],
                 "mmap": {int(k): v for k, v in sm["macros"]["map"].items()}, "mpos_marks": sm["macros"]["pos_marks"]}
            r = random.Random(f"C14-real-{c.name}")
            cases.append((m, gen_f(r, m)))
    # ... and by the real compiler for programs with macros (several expansions of one macro)
    from gen_prog import Cfg, MacroGen
    from lang import print_prog
    mtexts = []
    for i in range(60 if q else 400):
        r = random.Random(f"C14-macro-{run.seed}-{i}")
        g = MacroGen(r, Cfg(max_depth=2, max_block=2, max_routines=2, loops=r.random() < 0.5, terminator_prob=0.6))
        g.posmark_boost = True
        mtexts.append(print_prog(g.macro_program(1)["flat"]))
    for i, c in enumerate(run_impl([("compile", t) for t in mtexts])):
        if c["ok"] and c["sm"]:
            sm = c["sm"]
            m = {"map": {int(k): v for k, v in sm["map"].items()}, "pos_marks": sm["pos_marks"],
                 "mmap": {int(k): v for k, v in sm["macros"]["map"].items()}, "mpos_marks": sm["macros"]["pos_marks"]}
            r = random.Random(f"C14-realc-{run.seed}-{i}")
            cases.append((m, gen_f(r, m)))
            run.count("compile-time maps", 1)
            if len(m["mmap"]) > 1:
                run.count("compile-time maps with several macro entries", 1)
    # rewriting the very object the compiler built (entries may share structure there)
    crs = run_impl([("checks.c14:compile_rewrite", t, f"C14-cr-{run.seed}-{i}") for i, t in enumerate(mtexts)])
    for t, o in zip(mtexts, crs):
        if not o.get("ok"):
            continue
        run.case(["compile-rewrite", t], nontrivial=bool(o["before"]["mmap"]))
        conv = lambda d: {int(k): v for k, v in d.items()}  # noqa: E731
        m0 = {"map": conv(o["before"]["map"]), "mmap": conv(o["before"]["mmap"])}
        f0 = conv(o["mapping"])
        exp = expected_rewrite(m0, f0)
        got = {"map": conv(o["after"]["map"]), "mmap": conv(o["after"]["mmap"])}
        good = got["map"] == exp["map"] and got["mmap"] == exp["mmap"]
        run.count("rewrite of the compiler's own map:" + ("ok" if good else "FAIL"))
        if not good:
            run.fail("rewrite-compiler-map", "rewrite_offsets on the source map object built by the compiler: entries are not moved as "
                     "the property states", {"source": t, "mapping": f0, "expected": exp, "observed": got})
    res = run_impl([("checks.c14:impl_case", m, f) for m, f in cases])
    ser = run_driver([[A("sm_ser"), sm_sexp(m)] for m, _ in cases])
    rew = run_driver([[A("sm_rewrite"), [[int(a), int(b)] for a, b in f.items()], sm_sexp(m)] for m, f in cases])
    first_div = None
    for (m, f), r, s, w in zip(cases, res, ser, rew):
        run.case([m, f], nontrivial=bool(m["map"] or m["mmap"]))
        if not r["ok"]:
            run.fail("exception:" + r["err"], f"SourceMap raised {r['err']}: {r['msg']}", {"map": m, "mapping": f})
            continue
        for key, what in [("eq", "deserialize(serialize(m)) != m"), ("deep_eq", "fields differ after reload"),
                          ("text_stable", "serialising again gives a different text")]:
            if not r[key]:
                detail = ""
                if key == "deep_eq":
                    for part in ("map", "marks", "mmap", "mmarks"):
                        if r["deep_a"][part] != r["deep_b"][part]:
                            detail = part
                            break
                run.fail(f"{key}:{detail}" if detail else key, what + (f" ({detail})" if detail else ""),
                         {"map": m, "observed": r.get("deep_b"), "expected": r.get("deep_a")})
        if r.get("neq_detects_macro_change") is False:
            run.fail("eq-ignores-macros", "== does not compare macro entries", {"map": m})
        exp = expected_rewrite(m, f)
        got = r["rewritten"]
        got_map = {int(k): v for k, v in got["map"].items()}
        got_mm = {int(k): v for k, v in got["macros"]["map"].items()}
        if got_map != exp["map"] or got_mm != exp["mmap"]:
            kind = "rewrite-map" if got_map != exp["map"] else "rewrite-macros"
            # classify: return address 0 / entries / other
            if got_map == exp["map"] and {k: v[:5] + v[6:] for k, v in got_mm.items()} == {k: v[:5] + v[6:] for k, v in exp["mmap"].items()}:
                zero = any(v[5] == 0 for v in m["mmap"].values())
                kind = "rewrite-return-address" + (":zero" if zero else "")
            run.fail(kind, "rewrite_offsets: entries are not moved as the property states",
                     {"map": m, "mapping": f, "expected": exp, "observed": {"map": got_map, "mmap": got_mm}})
        if r.get("rewritten_after_store") != r["rewritten"] or r.get("rewritten_after_store_pretty") != r["rewritten"]:
            run.fail("stored-state-is-stale", "a map that was stored, compared and iterated before rewrite_offsets is stored differently "
                     "afterwards than a fresh map rewritten in the same way", {"map": m, "mapping": f, "fresh": r["rewritten"],
                                                                               "after_store": r.get("rewritten_after_store")})
        # correspondence model <-> implementation
        if first_div is None:
            if unwrap(s["json"]) != r["json"] or not s["roundtrip"]:
                first_div = ("K-sm serialize", m, f)
            elif unwrap(w["json"]) != r["rewritten"]:
                first_div = ("K-sm rewrite_offsets", m, f)
        run.count("corr:" + ("ok" if first_div is None else "after-divergence"))
    run.sample({"map": cases[0][0], "mapping": cases[0][1]})
    if first_div is not None:
        run.correspondence_broken(first_div[0], "model and implementation differ", {"map": first_div[1], "mapping": first_div[2]})
    run.assume("JSON text layer (json.dumps/json.loads) trusted; the model works on the JSON value shape")
    run.finish(rule="arbitrary well-typed source maps (offset 0 included in 40%) x injective mappings (dropping, non-monotone, "
                    "empty) + maps produced by the real decompiler; non-trivial = at least one entry")


if __name__ == "__main__":
    main()
