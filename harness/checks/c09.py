#!/venv/bin/python
"""C09 - decompile-time source map points at the statement printed for each op.

Inputs carry a unique integer tag in every op that is printed as its own statement; the decompiled text is
read back with the real compiler, whose compile-time source map (checked by C08) places the op with the same
tag; both maps must name the same line, the decompile-time entry must point at the first token of the
statement, every key must be an input offset, and every tagged op must have an entry.
"""
from __future__ import annotations

import os
import random
import re
import sys

sys.path.insert(0, os.path.join(os.path.dirname(os.path.abspath(__file__)), ".."))
from core import run_impl  # noqa: E402
from decomp import MARKER, gen_cases  # noqa: E402
from framework import Run  # noqa: E402
from gen_ssb import CTX, FLOW_END, JUMP_IDX, SWITCH_CASES, TEXT_SWITCHES, ssb_skeleton  # noqa: E402

TAG0 = 100000
STARTS = {
    "Return": ["return"], "End": ["end"], "Hold": ["hold"],
    "flag_Clear": ["clear"], "flag_Initial": ["init"], "flag_ResetDungeonResult": ["reset"], "flag_ResetScenario": ["reset"],
    "flag_SetAdventureLog": ["adventure_log"], "flag_SetDungeonMode": ["dungeon_mode"],
    "CaseText": ["case"], "DefaultText": ["default"], "message_SwitchTalk": ["message_SwitchTalk"],
    "message_SwitchMonologue": ["message_SwitchMonologue"],
}


def tag_ops(routines: list[list[dict]]) -> tuple[list[list[dict]], dict[int, int]]:
    """put a unique tag into the first integer slot of every plain op (ops without special syntax)"""
    import copy

    out = copy.deepcopy(routines)
    tags: dict[int, int] = {}
    n = TAG0
    for r in out:
        for i, op in enumerate(r):
            c = op["code"]
            special = c in JUMP_IDX or c in CTX or c in SWITCH_CASES or c in TEXT_SWITCHES or c in FLOW_END or \
                c in ("CaseText", "DefaultText") or c.startswith("flag_")
            if not special:
                n += 1
                op["params"] = [["i", n]] + [p for p in op["params"] if p[0] != "p"][:2]
                tags[op["off"]] = n
    return out, tags


def tag_of(op: dict) -> int | None:
    for p in op["params"]:
        if p[0] == "i" and isinstance(p[1], int) and p[1] > TAG0:
            return p[1]
    return None


def check_case(ops: list[list[dict]], tags: dict[int, int], dec: dict, comp: dict | None, ssbs: bool = False) -> list[tuple[str, str]]:
    out = []
    text = dec["text"]
    ssbs = ssbs or text.startswith(MARKER)
    lines = text.split("\n")
    sm = dec["sm"]
    entries = {int(k): v for k, v in sm["map"].items()}
    all_offs = {op["off"]: op for r in ops for op in r}
    if sm["macros"]["map"]:
        out.append(("macro-entries", "a decompile-time map has macro entries"))
    for off, (line, col) in entries.items():
        if off not in all_offs:
            out.append(("key-not-an-input-offset", f"entry {off} -> ({line}, {col}) is not keyed by an input op offset"))
            continue
        if not (0 <= line < len(lines)) or col > len(lines[line]):
            out.append(("position-outside-text", f"op {all_offs[off]['code']}@{off}: entry ({line}, {col}) lies outside the text"))
            continue
        rest = lines[line][col:]
        before = lines[line][:col]
        code = all_offs[off]["code"]
        if rest[:1] in (" ", "") or (before.strip() not in ("", "}") and not before.rstrip().endswith("}")):
            kind = "elseif" if rest.startswith("elseif") or before.strip().startswith("}") else code
            out.append(("not-at-statement-start:" + ("Branch" if code.startswith("Branch") else kind if code in STARTS else "op"),
                        f"op {code}@{off}: entry ({line}, {col}) does not point at the beginning of a statement: {lines[line]!r}"))
            continue
        if ssbs:
            if not rest.startswith(code + "("):
                out.append(("wrong-statement:ssbscript", f"op {code}@{off}: entry ({line}, {col}) points at {rest[:40]!r}"))
        elif off in tags:
            if not re.match(r"[A-Za-z_][A-Za-z0-9_]*\s*(<[^>]*>)?\(\s*%d\b" % tags[off], rest):
                out.append(("wrong-statement", f"op {code}@{off} (tag {tags[off]}): entry ({line}, {col}) points at {rest[:40]!r}"))
        elif code in STARTS and not any(rest.startswith(s) for s in STARTS[code]):
            out.append(("wrong-statement:" + code, f"op {code}@{off}: entry ({line}, {col}) points at {rest[:40]!r}"))
        elif code.startswith("Branch") and not re.match(r"(if|elseif|while|for)\b", rest):
            out.append(("wrong-statement:Branch", f"op {code}@{off}: entry ({line}, {col}) points at {rest[:40]!r}"))
        elif code in SWITCH_CASES and not re.match(r"switch\b|[A-Za-z_]", rest):
            out.append(("wrong-statement:Switch", f"op {code}@{off}: entry ({line}, {col}) points at {rest[:40]!r}"))
        elif code.startswith("Case") and code != "CaseText" and not rest.startswith("case"):
            out.append(("wrong-statement:Case", f"op {code}@{off}: entry ({line}, {col}) points at {rest[:40]!r}"))
    if not ssbs:
        # every case header is a statement of its own: each "case ...:" line of the text (and each "default:" of a message
        # switch, which is an op - it is followed by a string) is the place of the entry of one Case op / DefaultText op,
        # and no two such ops share a place
        seen_at: dict = {}
        case_at, default_at = set(), set()
        for r0 in ops:
            for op in r0:
                c = op["code"]
                if not (c.startswith("Case") or c == "DefaultText") or op["off"] not in entries:
                    continue
                at = tuple(entries[op["off"]])
                if at in seen_at:
                    out.append(("case-headers-share-an-entry", f"ops {seen_at[at]} and {c}@{op['off']} are both mapped to {at}: "
                                                              f"{lines[at[0]] if 0 <= at[0] < len(lines) else ''!r}"))
                seen_at[at] = f"{c}@{op['off']}"
                (default_at if c == "DefaultText" else case_at).add(at)
        in_string = False
        for ln, tx in enumerate(lines):
            # skip the inside of multi-line string literals
            if in_string:
                if tx.count("\"\"\"") % 2 == 1 or tx.count("'''") % 2 == 1:
                    in_string = False
                continue
            if tx.count("\"\"\"") % 2 == 1 or tx.count("'''") % 2 == 1:
                in_string = True
            st = tx.lstrip(" ")
            col = len(tx) - len(st)
            if re.match(r"case\b.*:\s*$", st) and (ln, col) not in case_at:
                out.append(("case-header-without-entry", f"the case header on line {ln} ({st!r}) is not the place of any Case op's entry"))
            elif st.rstrip() == "default:" and ln + 1 < len(lines) and lines[ln + 1].lstrip(" ")[:1] in ("'", '"', "{") \
                    and (ln, col) not in default_at:
                out.append(("message-default-without-entry", f"the default of a message switch on line {ln} is not the place of any DefaultText op's entry"))
    printed = {}
    for m in re.finditer(r"\(\s*(\d{6,})\b", text):
        printed[int(m.group(1))] = text.count("\n", 0, m.start())
    for off, tag in tags.items():
        if tag in printed and off not in entries:
            out.append(("no-entry-for-printed-op", f"op {all_offs[off]['code']}@{off} (tag {tag}) is printed on line {printed[tag]} but has no entry"))
    if comp is not None and comp.get("ok") and comp.get("sm"):
        cmap = {int(k): v for k, v in comp["sm"]["map"].items()}
        by_tag = {}
        for r in comp["ops"]:
            for op in r:
                t = tag_of(op)
                if t is not None and op["off"] in cmap:
                    by_tag[t] = cmap[op["off"]][0]
        for off, tag in tags.items():
            if off in entries and tag in by_tag and entries[off][0] != by_tag[tag]:
                out.append(("compile-map-disagrees", f"op tagged {tag}: decompile-time line {entries[off][0]}, compile-time line {by_tag[tag]}"))
    return out


def writer_impl(which: str, prefix: str, ops: list) -> dict:
    """drive the real writer methods with a sequence of writer operations (correspondence with Dec/Writer.v)"""
    from core import PERF, DM_CONSTS
    from explorerscript.source_map import SourceMapBuilder
    from explorerscript.ssb_converting import ssb_data_types as dt

    if which == "exps":
        from explorerscript.ssb_converting.ssb_decompiler import ExplorerScriptSsbDecompiler
        d = ExplorerScriptSsbDecompiler([], [], [], PERF, dt.DungeonModeConstants(*DM_CONSTS))
        d._output, d.indent, d._line_number, d.smb = prefix, 0, prefix.count("\n") + 1, SourceMapBuilder()
        line, smb = d.write_line, d.smb
    else:
        from explorerscript.ssb_script.ssb_converting.ssb_decompiler import SsbScriptSsbDecompiler
        d = SsbScriptSsbDecompiler([], [], [])
        d._output, d.indent, d._line_number, d._source_map_builder = prefix, 0, prefix.count("\n") + 1, SourceMapBuilder()
        line, smb = d._write_line, d._source_map_builder
    for o in ops:
        if o[0] == "line":
            line()
        elif o[0] == "stmnt":
            d.write_stmnt(o[1], o[2])
        elif o[0] == "indent":
            d.indent += 1
        elif o[0] == "dedent":
            d.indent -= 1
        elif which == "exps":
            d.source_map_add_opcode(o[1], o[2])
        else:   # the SsbScript decompiler records entries inline in _read_op, with exactly this call
            smb.add_opcode(o[1], d._line_number, d.indent * 4)
    sm = smb.build()
    return {"ok": True, "out": d._output, "line": d._line_number,
            "entries": [[k, v.line, v.column] for k, v in sm._mappings.items()]}


PIECES = ["a();", "if ( x ) {", "}", " {", "'''\n    two\n    lines\n'''", "op('x\\ny', {\n    english=\"e\",\n});", "", " ", "\n", "é"]


def writer_cases(r: random.Random, n: int) -> list[tuple[str, str, list]]:
    out = []
    for _ in range(n):
        which = r.choice(["exps", "exps", "ssbs"])
        prefix = r.choice(["", "", "// head\n// er\n", "x"]) if which == "ssbs" else ""
        ops, ind, off = [], 0, 0
        for _ in range(r.randint(1, 14)):
            k = r.random()
            if k < 0.15:
                ops.append(["line"])
            elif k < 0.55:
                ops.append(["stmnt", r.choice(PIECES), r.random() < 0.7])
            elif k < 0.65:
                ops.append(["indent"])
                ind += 1
            elif k < 0.75 and ind > 0:
                ops.append(["dedent"])
                ind -= 1
            else:
                off += r.randint(1, 3)
                ops.append(["add", off, which == "exps" and r.random() < 0.2])
        out.append((which, prefix, ops))
    return out


def writer_correspondence(run) -> None:
    """correspondence of the writer model with the real writer methods of both decompilers"""
    from core import A, cps, run_driver
    wc = writer_cases(random.Random(f"C09-writer-{run.seed}"), 400 if run.tier == "quick" else 5000)
    wimpl = run_impl([("checks.c09:writer_impl", w, pre, ops) for w, pre, ops in wc])

    def wop(o: list) -> list:
        if o[0] == "stmnt":
            return [A("stmnt"), cps(o[1]), o[2]]
        if o[0] == "add":
            return [A("add"), o[1], o[2]]
        return [A(o[0])]
    wmod = run_driver([[A("writer"), cps(pre), [wop(o) for o in ops]] for _, pre, ops in wc])
    wfirst = None
    for (w, pre, ops), im, mo in zip(wc, wimpl, wmod):
        run.case(["writer", w, pre, ops], nontrivial=len(ops) > 2)
        same = bool(im.get("ok")) and mo.get("r") == "ok" and [ord(c) for c in im["out"]] == mo["out"] \
            and im["line"] == mo["line"] and sorted(im["entries"]) == sorted(mo["entries"])
        run.count("K-writer:" + ("ok" if same else "DIFF"))
        if not same and wfirst is None:
            wfirst = {"decompiler": w, "prefix": pre, "ops": ops, "impl": im, "model": mo}
    if wfirst is not None:
        run.correspondence_broken("K-writer (Dec/Writer.v vs write_stmnt/write_line/source_map_add_opcode)",
                                  "text, line counter or entries differ", wfirst)


def main() -> None:
    run = Run("C09", "proof")
    run.forbid()
    run.require_vo(["Dec/Writer.v", "Dec/WriterProofs.v"])
    run.props("Props/C09.v")
    writer_correspondence(run)
    q = run.tier == "quick"
    import core
    core.set_case_timeout(6)
    cases, stats = gen_cases(run.seed, 500 if q else 6000, 300 if q else 4000, 300 if q else 4000, "C09",
                             cfg_kw={"forward_jumps_only": True})
    tagged = [(c, *tag_ops(c.ops)) for c in cases]
    # strings with characters at which str.splitlines breaks although they are no line feeds (written raw into one-line
    # literals): the line of every later entry depends on counting line feeds only
    xr = random.Random(f"C09-strings-{run.seed}")
    for _, ops, _ in tagged[::7]:
        strs = [p for r0 in ops for op in r0 for p in op["params"] if p[0] == "s" and "\n" not in p[1]]
        if strs:
            xr.choice(strs)[1] = xr.choice(["a\x0bb", "x\u2028y", "\x85", "p\x1cq\x1dr", "tab\there"])
    dec = run_impl([("decompile", ops, c.infos, c.coros) for c, ops, _ in tagged])
    sdec = run_impl([("ssbs_decompile", ops, c.infos, c.coros) for c, ops, _ in tagged[: (200 if q else 2000)]])
    comp = run_impl([("compile", d["text"]) if d["ok"] else ("compile", "") for d in dec])
    seen: set[str] = set()
    for (c, ops, tags), d, cp in zip(tagged, dec, comp):
        run.case(ops, nontrivial=len(tags) > 0)
        if not d["ok"]:
            run.count("decompile:" + d["err"])
            continue
        kind = "fallback" if d["text"].startswith(MARKER) else "structured"
        probs = check_case(ops, tags, d, cp)
        run.count(f"{kind}:" + ("ok" if not probs else "FAIL"))
        if d.get("line_number") is not None and d["line_number"] != 1 + d["text"].count("\n") and kind == "structured":
            probs.append(("line-counter", f"_line_number {d['line_number']} != 1 + number of newlines {1 + d['text'].count(chr(10))}"))
        for sig, what in probs:
            if sig in seen:
                continue
            seen.add(sig)
            run.fail(sig, what, {"ops": ops, "text": d["text"], "source_map": d["sm"]})
    for (c, ops, tags), d in zip(tagged, sdec):
        if d["ok"]:
            for sig, what in check_case(ops, tags, d, None, ssbs=True):
                if "ssbs:" + sig in seen:
                    continue
                seen.add("ssbs:" + sig)
                run.fail("ssbs:" + sig, "SsbScript decompiler: " + what, {"ops": ops, "text": d["text"], "source_map": d["sm"]})
            run.count("ssbscript-maps")
    if tagged:
        run.sample({"ops": tagged[0][1], "text": dec[0].get("text", "")[:500]})
    run.finish(rule="G_ssb inputs with a unique tag in every plain op (multi-line string and language-string parameters included), "
                    "decompiled by both decompilers; entries checked against the text and against the compile-time map of the "
                    "recompiled text")


if __name__ == "__main__":
    main()
