#!/venv/bin/python
"""C04 - every parameter value survives print -> parse; every literal spelling parses to its value."""
from __future__ import annotations

import os
import random
import sys

sys.path.insert(0, os.path.join(os.path.dirname(os.path.abspath(__file__)), ".."))
from core import run_impl  # noqa: E402
from framework import Run  # noqa: E402
from gen_text import classify_string, decimal_spellings, exhaustive_strings, int_spellings, structured_strings  # noqa: E402
import lang  # noqa: E402

CONTEXTS = ["arg", "arg_ssbs", "menu", "msgcase", "msgdefault", "lang", "lang_ssbs"]
LB = "\n\r\x0b\x0c\x1c\x1d\x1e\x85\u2028\u2029"


def single_exact(s: str) -> bool:
    return not ("\r" in s or "\f" in s or "\\n" in s or "\\'" in s or '\\"' in s or "\\\n" in s or s.endswith("\\"))


def raw_exact(s: str, d: str) -> bool:
    return d not in s and not s.endswith(d[0]) and not any(c in s for c in LB)


def multi_exact(s: str, d: str) -> bool:
    return d not in s and not any(c in s for c in LB if c != "\n") and any(not ln.startswith(" ") for ln in s.split("\n"))


def has_exact_form(s: str) -> bool:
    """the `printable` predicate: some literal form of the language spells this string exactly (harness model of the
    conditions under which the round trip is claimed; mirrored by Text/StrModel.v)"""
    if "\n" not in s:
        return single_exact(s) or raw_exact(s, "'''") or raw_exact(s, '"""')
    return multi_exact(s, "'''") or multi_exact(s, '"""') or single_exact(s)


def print_param_real(p: list, indent: int) -> str:
    from core import p_to_impl

    obj = p_to_impl(p)
    if hasattr(obj, "indent"):
        obj.indent = indent
    return str(obj)


def roundtrip_case(p: list, indent: int, ctx: str) -> dict:
    """print with the real printer, embed in a minimal program of that context, compile with the real compiler"""
    from core import impl_compile, impl_ssbs_compile

    try:
        text = print_param_real(p, indent)
    except BaseException as e:  # noqa
        return {"ok": False, "stage": "print", "err": type(e).__name__}
    pad = "    " * indent
    if ctx in ("arg", "lang"):
        src = f"def 0 {{\n{pad}op({text});\n}}\n"
        res = impl_compile(src)
        pick = lambda ops: ops[0][0]["params"][0]  # noqa: E731
    elif ctx in ("arg_ssbs", "lang_ssbs"):
        # (further ops with language strings and position marks of their own follow: a parameter is not what the last
        # literal of the file says)
        src = f"def 0 {{\n{pad}op({text});\n{pad}other({{english=\"later\", german=\"spaeter\"}}, Position<'later', 9, 9.5>);\n" \
              f"{pad}third({{english=\"last\"}});\n}}\n"
        res = impl_ssbs_compile(src)
        pick = lambda ops: ops[0][0]["params"][0]  # noqa: E731
    elif ctx == "menu":
        src = f"def 0 {{\n{pad}switch (message_SwitchMenu(1)) {{\n{pad}case menu({text}):\n{pad}    a();\n{pad}}}\n}}\n"
        res = impl_compile(src)
        pick = lambda ops: ops[0][1]["params"][0]  # noqa: E731
    elif ctx == "msgcase":
        src = f"def 0 {{\n{pad}message_SwitchTalk (1) {{\n{pad}case 1:\n{pad}{text}\n{pad}}}\n}}\n"
        res = impl_compile(src)
        pick = lambda ops: ops[0][1]["params"][1]  # noqa: E731
    else:
        src = f"def 0 {{\n{pad}message_SwitchTalk (1) {{\n{pad}default:\n{pad}{text}\n{pad}}}\n}}\n"
        res = impl_compile(src)
        pick = lambda ops: ops[0][1]["params"][0]  # noqa: E731
    if not res["ok"]:
        return {"ok": False, "stage": "compile", "err": res["err"], "msg": res["msg"][:120], "text": text}
    try:
        back = pick(res["ops"])
    except Exception:  # noqa
        return {"ok": False, "stage": "shape", "err": "shape", "text": text}
    return {"ok": True, "back": back, "text": text}


def dmode_case(n: int, form: str) -> dict:
    """a dungeon-mode number where the ExplorerScript decompiler prints it (assignment, case header): decompile, compile"""
    from core import impl_compile, impl_decompile

    if form == "assign":
        ops = [[{"off": 0, "code": "flag_SetDungeonMode", "params": [["i", 7], ["i", n]]}, {"off": 1, "code": "Return", "params": []}]]
        pick = lambda o: o[0][0]["params"][1]  # noqa: E731
    else:
        ops = [[{"off": 0, "code": "SwitchDungeonMode", "params": [["i", 7]]}, {"off": 1, "code": "Case", "params": [["i", n], ["i", 3]]},
                {"off": 2, "code": "Jump", "params": [["i", 4]]}, {"off": 3, "code": "a", "params": []}, {"off": 4, "code": "End", "params": []}]]
        pick = lambda o: o[0][1]["params"][0]  # noqa: E731
    d = impl_decompile(ops, [{"type": "GENERIC", "linked_to": 0, "linked_to_name": None}], [None])
    if not d["ok"]:
        return {"ok": False, "stage": "decompile", "err": d["err"]}
    c = impl_compile(d["text"])
    if not c["ok"]:
        return {"ok": False, "stage": "compile", "err": c["err"], "text": d["text"]}
    try:
        return {"ok": True, "back": pick(c["ops"]), "text": d["text"]}
    except Exception:  # noqa
        return {"ok": False, "stage": "shape", "err": "shape", "text": d["text"]}


def spelling_case(kind: str, tok: str) -> dict:
    from core import impl_compile, impl_ssbs_compile

    out = {}
    for name, fn in (("exps", impl_compile), ("ssbs", impl_ssbs_compile)):
        res = fn(f"def 0 {{ op({tok}); }}")
        if not res["ok"]:
            out[name] = {"ok": False, "err": res["err"]}
        else:
            out[name] = {"ok": True, "back": res["ops"][0][0]["params"][0] if res["ops"][0][0]["params"] else None}
    return out


def str1_impl(q: str, s: str, lit: str) -> dict:
    """the real single-line printer / reader / lexer, for the correspondence with Text/Str.v"""
    from explorerscript.ssb_converting.ssb_data_types import repr_string, _single_line_literal_is_exact
    from explorerscript.ssb_converting.compiler.utils import singleline_string_literal
    from antlr4 import InputStream, Token
    from explorerscript.antlr.ExplorerScriptLexer import ExplorerScriptLexer

    exact = _single_line_literal_is_exact(s)
    out = {"ok": True, "exact": exact, "read_lit": singleline_string_literal(lit)}
    if exact and "\n" not in s:
        out["printed"] = repr_string(s, 0, prefer_single_qoute=(q == "'"))
    errors = []

    class L:
        def syntaxError(self, *a):  # noqa
            errors.append(1)
    lx = ExplorerScriptLexer(InputStream(lit))
    lx.removeErrorListeners()
    lx.addErrorListener(L())
    toks = []
    while True:
        t = lx.nextToken()
        if t.type == Token.EOF:
            break
        toks.append((t.type, t.text))
    out["lit_lexes"] = (not errors and len(toks) == 1 and toks[0][0] == ExplorerScriptLexer.STRING_LITERAL and toks[0][1] == lit)
    return out


def str1_cases(r: random.Random, n: int) -> list[tuple[str, str, str]]:
    alpha = ["a", "n", " ", "\\", "'", '"', "\n", "\r", "\f", "é", "\t"]
    out = []
    for s in exhaustive_strings(3):
        q = r.choice("'\"")
        out.append((q, s, q + s + q))
    for _ in range(n):
        s = "".join(r.choice(alpha) for _ in range(r.randint(0, 8)))
        q = r.choice("'\"")
        body = "".join(r.choice(alpha) for _ in range(r.randint(0, 8)))
        out.append((q, s, q + body + q))
    return out


def mstr_impl(q: str, indent: int, s: str, lit: str) -> dict:
    """the real multi-line printer / reader / exactness test, for the correspondence with Text/MStr.v"""
    from explorerscript.ssb_converting.ssb_data_types import _repr_multiline_string, _multiline_literal_is_exact
    from explorerscript.ssb_converting.compiler.utils import multiline_string_literal

    d = q * 3
    return {"ok": True, "exact": _multiline_literal_is_exact(s, indent, d), "printed": _repr_multiline_string(s, indent, d),
            "read_lit": multiline_string_literal(lit)}


def mstr_cases(r: random.Random, n: int) -> list[tuple[str, int, str, str]]:
    alpha = ["a", "b", " ", " ", "\n", "\n", "\r", "\r\n", "\x0b", "\x0c", "\x1c", "\x85", " ", " ", "'", '"', "\\", "é", "\t"]
    out = []
    for _ in range(n):
        q = r.choice("'\"")
        s = "".join(r.choice(alpha) for _ in range(r.randint(0, 12)))
        body = "".join(r.choice(alpha) for _ in range(r.randint(0, 14)))
        out.append((q, r.choice([0, 0, 1, 2, 5]), s, q * 3 + body + q * 3))
    # literals the printer itself would write, and near misses of them
    for _ in range(n // 2):
        q = r.choice("'\"")
        lines = ["".join(r.choice(["a", " ", "b", "'"]) for _ in range(r.randint(0, 5))) for _ in range(r.randint(1, 4))]
        ind = r.choice([0, 1, 3])
        pad = " " * (4 * ind + r.choice([0, 4, 4, 4, 2]))
        lit = q * 3 + r.choice(["\n", "", "x\n"]) + "\n".join(pad + ln for ln in lines) + r.choice(["\n", "", "\n  ", "\ny"]) + " " * r.choice([0, 4 * ind]) + q * 3
        out.append((q, ind, "\n".join(lines), lit))
    return out


def mlex_impl(q: str, text: str, s: str) -> dict:
    """the real lexer on a text that starts with a triple quote: the first token if it is a multi-line literal"""
    from antlr4 import InputStream, Token
    from explorerscript.antlr.ExplorerScriptLexer import ExplorerScriptLexer
    from explorerscript.ssb_converting.ssb_data_types import _multiline_literal_is_exact

    lx = ExplorerScriptLexer(InputStream(text))
    lx.removeErrorListeners()
    t = lx.nextToken()
    tok = t.text if t.type == ExplorerScriptLexer.MULTILINE_STRING_LITERAL else None
    return {"ok": True, "token": tok, "exact": _multiline_literal_is_exact(s, 0, q * 3)}


def mlex_cases(r: random.Random, n: int) -> list[tuple[str, str, str]]:
    out = []
    for _ in range(n):
        q = r.choice("'\"")
        o = "'" if q == '"' else '"'
        alpha = [q, q, q, o, "a", " ", "\n", "\\", "b"]
        body = "".join(r.choice(alpha) for _ in range(r.randint(0, 12)))
        tail = r.choice(["", "", q * 3, " x", q, q * 2, q * 4, ";\n" + q * 3 + "z" + q * 3])
        text = q * 3 + body + r.choice([q * 3, q * 3, q * 3, "", q * 2]) + tail
        s = "".join(r.choice(alpha) for _ in range(r.randint(0, 9)))
        out.append((q, text, s))
    return out


def main() -> None:
    run = Run("C04", "proof")
    run.forbid()
    run.require_vo(["Text/Dec.v", "Text/Str.v", "Text/StrProofs.v", "Text/MStr.v", "Text/MStrProofs.v", "Text/MLex.v", "Text/MLexProofs.v", "Text/Num.v", "Text/NumProofs.v"])
    run.props("Props/C04.v")
    q = run.tier == "quick"
    r = random.Random(f"C04-{run.seed}")
    # correspondence of the single-line string model (Text/Str.v) with the real printer, reader and lexer
    from core import A, run_driver
    sc = str1_cases(r, 600 if q else 8000)
    simpl = run_impl([("checks.c04:str1_impl", qq, s, lit) for qq, s, lit in sc])
    smod = run_driver([[A("str1"), ord(qq), [ord(c) for c in s], [ord(c) for c in lit]] for qq, s, lit in sc])
    first = None
    for (qq, s, lit), im, mo in zip(sc, simpl, smod):
        run.case(["str1", qq, s, lit], nontrivial=len(s) > 0)
        if not im.get("ok") or mo.get("r") != "ok":
            diff = "failed"
        else:
            t = lambda cps: "".join(chr(c) for c in cps)  # noqa: E731
            diff = None
            if im["exact"] != mo["exact"]:
                diff = "single_exact vs _single_line_literal_is_exact"
            elif "printed" in im and im["printed"] != t(mo["printed"]):
                diff = "print_single vs repr_string"
            elif im["read_lit"] != t(mo["read_lit"]):
                diff = "read_single vs singleline_string_literal"
            elif im["lit_lexes"] != mo["lit_lexes"]:
                diff = "lex_body vs the STRING_LITERAL rule of the real lexer"
        run.count("K-str1:" + ("ok" if diff is None else "DIFF"))
        if diff and first is None:
            first = (diff, {"quote": qq, "string": s, "literal": lit, "impl": im, "model": mo})
    if first is not None:
        run.correspondence_broken("K-str1 (Text/Str.v)", first[0], first[1])
    # ... and of the multi-line string model (Text/MStr.v): printer, reader (all line separators), exactness test
    mc = mstr_cases(r, 600 if q else 8000)
    mimpl = run_impl([("checks.c04:mstr_impl", qq, ind, s, lit) for qq, ind, s, lit in mc])
    mmod = run_driver([[A("mstr"), ord(qq), ind, [ord(c) for c in s], [ord(c) for c in lit]] for qq, ind, s, lit in mc])
    mfirst = None
    for (qq, ind, s, lit), im, mo in zip(mc, mimpl, mmod):
        run.case(["mstr", qq, ind, s, lit], nontrivial=len(s) > 0)
        t = lambda cps: "".join(chr(c) for c in cps)  # noqa: E731
        diff = None
        if not im.get("ok") or mo.get("r") != "ok":
            diff = "failed"
        elif im["exact"] != (mo["exact"] and (qq * 3) not in s):
            diff = "multi_exact vs _multiline_literal_is_exact"
        elif im["printed"] != t(mo["printed"]):
            diff = "print_multi vs _repr_multiline_string"
        elif im["read_lit"] != t(mo["read_lit"]):
            diff = "read_multi vs multiline_string_literal"
        run.count("K-mstr:" + ("ok" if diff is None else "DIFF"))
        if diff and mfirst is None:
            mfirst = (diff, {"quote": qq, "indent": ind, "string": s, "literal": lit, "impl": im, "model": mo})
    if mfirst is not None:
        run.correspondence_broken("K-mstr (Text/MStr.v)", mfirst[0], mfirst[1])
    # ... and of the lexer rule for multi-line literals (Text/MLex.v): the first token of texts that start with a triple quote
    lc = mlex_cases(r, 800 if q else 10000)
    limpl = run_impl([("checks.c04:mlex_impl", *c) for c in lc])
    lmod = run_driver([[A("mlex"), ord(c[0]), [ord(x) for x in c[1]], [ord(x) for x in c[2]]] for c in lc])
    lms = run_driver([[A("mstr"), ord(c[0]), 0, [ord(x) for x in c[2]], [ord(x) for x in c[0] * 6]] for c in lc])
    lfirst = None
    for c, im, mo, ms in zip(lc, limpl, lmod, lms):
        run.case(["mlex", *c], nontrivial=len(c[1]) > 6)
        diff = None
        tk = None if mo.get("token") is None else "".join(chr(x) for x in mo["token"])
        if not im.get("ok") or mo.get("r") != "ok" or ms.get("r") != "ok":
            diff = "failed"
        elif im["token"] != tk:
            diff = "lex_multi vs the MULTILINE_STRING_LITERAL rule of the real lexer"
        elif mo["occurs"] != (c[0] * 3 in c[2]):
            diff = "occurs3"
        elif im["exact"] != (ms["exact"] and not mo["occurs"]):
            diff = "multi_exact and occurs3 vs _multiline_literal_is_exact"
        run.count("K-mlex:" + ("ok" if diff is None else "DIFF"))
        run.count("K-mlex token:" + ("none" if tk is None else "literal"))
        if diff and lfirst is None:
            lfirst = (diff, {"quote": c[0], "text": c[1], "string": c[2], "impl": im, "model": mo})
    if lfirst is not None:
        run.correspondence_broken("K-mlex (Text/MLex.v)", lfirst[0], lfirst[1])
    # ... and of the number literals (Text/Num.v)
    from knum import check_knum
    check_knum(run, r, 1500 if q else 20000)
    strings = structured_strings(r, 400 if q else 5000) + exhaustive_strings(3 if q else 5)
    tasks, meta = [], []
    for s in strings:
        for indent in ([0, 1, 3] if q else [0, 1, 2, 5]):
            for ctx in CONTEXTS:
                if ctx.startswith("lang"):
                    p = ["l", [["english", s], ["german", "x"]]]
                else:
                    p = ["s", s]
                tasks.append(("checks.c04:roundtrip_case", p, indent, ctx))
                meta.append((p, indent, ctx, s))
    # other parameter kinds
    others = [["i", v] for v in [0, 1, -1, 255, -32768, 2 ** 70, -(10 ** 30)]] + \
             [["f", v] for v in ["1.5", "-0.5", "0.0", "12.0034", "-12.34", "100.10", "-0.0034"]] + \
             [["c", v] for v in ["CONST", "$VAR", "_x9", "$a_B"]] + \
             [["p", n, xo, yo, xr, yr] for n in ["m", "mark one", "it's", 'q"', "a\\b", "", "two\nlines", "back\\n", "both ' and \""] for xo in [0, 1, 2, 3, 4] for yo in [0, 2]
              for xr, yr in [(0, 0), (5, 12), (-3, 7)]]
    for p in others:
        for ctx in ("arg", "arg_ssbs"):
            tasks.append(("checks.c04:roundtrip_case", p, 1, ctx))
            meta.append((p, 1, ctx, None))
    # dungeon-mode numbers where the decompiler prints them: 0..3 may come back as the configured constant that
    # stands for that number - for that number, not for another one
    from core import DM_CONSTS
    dm = [(n, form) for n in (0, 1, 2, 3, 4, 7, -1) for form in ("assign", "case")]
    for (n, form), out in zip(dm, run_impl([("checks.c04:dmode_case", n, form) for n, form in dm])):
        run.case(["dmode", n, form], nontrivial=True)
        allowed = [["i", n]] + ([["c", DM_CONSTS[n]]] if 0 <= n <= 3 else [])
        good = out.get("ok") and out["back"] in allowed
        run.count("dungeon-mode:" + ("ok" if good else "FAIL"))
        if not good:
            run.fail(f"dungeon-mode:{form}", f"dungeon mode {n} printed in a {form} comes back as {out.get('back')!r} "
                     f"(allowed: {allowed})", {"number": n, "form": form, "observed": out})
    res = run_impl(tasks)
    for (p, indent, ctx, s), out in zip(meta, res):
        run.case([p, indent, ctx], nontrivial=True)
        if out["ok"] and out["back"] == p:
            run.count("print-parse:ok")
            continue
        run.count("print-parse:FAIL")
        if p[0] in ("s", "l"):
            cls = classify_string(s)
            if not has_exact_form(s):
                sig = "string without an exact literal form"
            else:
                sig = f"string:{cls}:" + ("indent0" if indent == 0 else "indentN") + ":" + ("ok-different" if out["ok"] else out["stage"] + ":" + out["err"])
            what = f"string {s!r} printed at indent {indent} in context {ctx} " + \
                   (f"comes back as {out['back']!r}" if out["ok"] else f"is rejected ({out['err']})")
        elif p[0] == "p":
            okname = all(c not in p[1] for c in "'\"\\\n")
            if p[2] not in (0, 2) or p[3] not in (0, 2):
                sig = "position mark offset other than 0 and 2"
            elif not single_exact(p[1]):
                # the name of a mark is a one-line literal: a name without an exact one-line form is the recorded finding
                sig = "string without an exact literal form"
            else:
                sig = f"posmark:name-" + ("plain" if okname else "special")
            what = f"position mark {p!r} " + (f"comes back as {out['back']!r}" if out["ok"] else f"is rejected ({out.get('err')})")
        else:
            sig = f"{p[0]}:{p[1]!r}"
            what = f"parameter {p!r} " + (f"comes back as {out['back']!r}" if out["ok"] else f"is rejected ({out.get('err')})")
        run.fail(sig, what, {"param": p, "indent": indent, "context": ctx, "printed": out.get("text"), "observed": out})
    # literal spellings -> documented value
    sp_tasks, sp_meta = [], []
    for tok, v in int_spellings(r, 200 if q else 2000):
        sp_tasks.append(("checks.c04:spelling_case", "int", tok))
        sp_meta.append(("int", tok, ["i", v]))
    for tok in decimal_spellings(r, 200 if q else 2000):
        sp_tasks.append(("checks.c04:spelling_case", "dec", tok))
        sp_meta.append(("dec", tok, ["f", lang.spec_fixed(tok)]))
    lits = []
    for s in strings[: (300 if q else 3000)]:
        for qch in ("'", '"'):
            if "\r" in s or "\x0c" in s:
                continue
            body = s.replace("\\", "\\\\") if False else s
            if "\n" not in body and qch not in body and "\\" not in body:
                lits.append(qch + body + qch)
            esc = body.replace(qch, "\\" + qch).replace("\n", "\\n")
            if "\\\\" not in esc and not esc.endswith("\\"):
                lits.append(qch + esc + qch)
            tq = qch * 3
            if tq not in body and not body.endswith(qch) and "\\" not in body:
                for ind in (0, 2, 6):
                    pad = " " * ind
                    lits.append(tq + "\n" + "\n".join(pad + ln for ln in body.split("\n")) + "\n" + " " * r.choice([0, ind, ind + 3]) + tq)
                lits.append(tq + body + tq)
    lits += ["'''\n\x1c  a\n   '''", '"""a\x0bb"""', "'''\n  x\x85y\n'''"]
    for tok in lits:
        try:
            want = lang.spec_string_value(tok)
        except Exception:  # noqa
            continue
        sp_tasks.append(("checks.c04:spelling_case", "str", tok))
        sp_meta.append(("str", tok, ["s", want]))
    sres = run_impl(sp_tasks)
    for (kind, tok, want), out in zip(sp_meta, sres):
        run.case([kind, tok], nontrivial=True)
        for comp in ("exps", "ssbs"):
            o = out[comp]
            if o["ok"] and o["back"] == want:
                run.count("spelling:ok")
                continue
            run.count("spelling:FAIL")
            if kind == "str":
                cls = classify_string(want[1])
                multi = tok[:3] in (chr(39) * 3, chr(34) * 3) and len(tok) >= 6
                if multi and any(c in tok for c in LB if c != "\n"):
                    sig = "multi line literal with a line separator other than LF"
                else:
                    sig = f"spelling:str:{'multi' if multi else 'single'}:{cls}"
            else:
                sig = f"spelling:{kind}:{tok}"
            run.fail(sig, f"literal {tok!r} ({comp}) should denote {want!r}, got {o}", {"literal": tok, "expected": want, "observed": out})
    run.sample({"param": meta[0][0], "indent": meta[0][1], "context": meta[0][2], "printed": res[0].get("text")})
    run.finish(rule="G_text structured strings + all strings over {a, space, newline, ', \", backslash} up to length 3 (quick) / 5 "
                    "(thorough) x indents x 7 printing contexts, printed by the real printers and read by the real compilers; "
                    "integer / decimal / string literal spellings against the documented values")


if __name__ == "__main__":
    main()
