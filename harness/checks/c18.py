#!/venv/bin/python
"""C18 - the position-mark listing delimits every Position literal exactly."""
from __future__ import annotations

import os
import random
import sys

sys.path.insert(0, os.path.join(os.path.dirname(os.path.abspath(__file__)), ".."))
from core import run_impl  # noqa: E402
from framework import Run  # noqa: E402
from gen_prog import Cfg, MacroGen  # noqa: E402
from lang import print_prog  # noqa: E402
import respell  # noqa: E402


def listing(text: str) -> dict:
    """the real position-mark listing of a source text"""
    from explorerscript.explorerscript_reader import ExplorerScriptReader
    from explorerscript.ssb_converting.compiler.compiler_visitor.position_mark_visitor import PositionMarkVisitor

    tree = ExplorerScriptReader(text).read()
    marks = PositionMarkVisitor().visit(tree)
    return {"ok": True, "marks": [m.serialize() for m in marks]}


def prepare(text: str, seed: str, j: int) -> dict:
    """a layout variant of text with the expected literal spans"""
    toks = respell.lex(text)
    r = random.Random(f"{seed}-{j}")
    t2 = respell.respell(toks, r) if j % 2 else toks
    txt, pos = respell.layout(t2, r, wild=0.0 if j == 0 else 0.5)
    return {"ok": True, "text": txt, "literals": respell.position_literals(t2, pos)}


def splice(text: str, lit: dict, new_mark: list) -> dict:
    """replace exactly the delimited span by the printed form of an edited mark"""
    from core import p_to_impl

    lines = text.split("\n")
    (l0, c0), (l1, c1) = lit["start"], lit["end"]
    start = sum(len(x) + 1 for x in lines[:l0]) + c0
    end = sum(len(x) + 1 for x in lines[:l1]) + c1 + 1     # the closing '>' is part of the span
    return {"ok": True, "text": text[:start] + str(p_to_impl(new_mark)) + text[end:]}


def all_marks_in_ops(ops: list) -> list:
    out = []
    for ri, r in enumerate(ops):
        for oi, op in enumerate(r):
            for pi, p in enumerate(op["params"]):
                if p[0] == "p":
                    out.append((ri, oi, pi))
    return out


def main() -> None:
    run = Run("C18", "exploration")
    run.forbid()
    q = run.tier == "quick"
    # the number-literal part of the property is a theorem over Text/Num.v, tied to the real readers and printers by K-num
    run.require_vo(["Text/Num.v", "Text/NumProofs.v"])
    run.props("Props/C18.v")
    from knum import check_knum
    check_knum(run, random.Random(f"C18-num-{run.seed}"), 1200 if q else 15000)
    texts = []
    for i in range(200 if q else 3000):
        r = random.Random(f"C18-{run.seed}-{i}")
        g = MacroGen(r, Cfg(max_depth=2, max_block=3, max_routines=2))
        # more position marks
        g.posmark_boost = True
        p = g.macro_program(1)["flat"]
        t = print_prog(p, mix=r if i % 2 else None)     # every other program: macros and routines interleaved
        if "Position<" in t:
            texts.append(t)
    texts += ["def 0 {\n    a(Position<'m', 1, 2>, Position<\"n\", 3.5, 4>); b(Position<'o', 5, 6.5>);\n}\n",
              "def 0 {\n    a(Position<'first', 1, 1>);\n}\nmacro late() {\n    b(Position<'second', 2, 2>);\n}\ndef 1 {\n    ~late();\n    c(Position<'third', 3, 3>);\n}\n",
              # names with escapes: the listed name is the name of the compiled parameter, whatever the quote style
              "def 0 {\n    a(Position<'a \\\"b\\\" c', 1, 2>, Position<\"don\\'t\", 3, 4.5>);\n    b(Position<'two\\nlines', 5, 6>, Position<\"it's \\\"q\\\"\", 7.5, 8>);\n"
              "    c(Position<'it\\'s', 9, 10>, Position<'back\\\\slash', 11, 12>);\n}\n",
              "macro m($a) {\n    x($a, Position<'in macro', 7, 8>);\n}\ndef 0 {\n    ~m(Position<'arg', 1.5, 2.5>);\n"
              "    switch (ProcessSpecial(Position<'hdr', 9, 9>)) {\n        case 1:\n            y();\n    }\n}\n"]
    preps = run_impl([("checks.c18:prepare", t, f"C18-{run.seed}-{i}", j) for i, t in enumerate(texts) for j in range(3 if q else 6)])
    preps = [p for p in preps if p["ok"]]
    lists = run_impl([("checks.c18:listing", p["text"]) for p in preps])
    comps = run_impl([("compile", p["text"]) for p in preps])
    for c0 in comps:
        c0.pop("sm", None)      # source maps are not looked at here (C08)
    splice_jobs = []
    for p, l, c in zip(preps, lists, comps):
        run.case(p["text"], nontrivial=len(p["literals"]) > 0)
        if not l["ok"]:
            if c["ok"]:
                run.fail("listing-raises:" + l["err"], f"the listing raises {l['err']} on a source the compiler accepts", {"source": p["text"]})
            continue
        want = [[x["start"][0], x["start"][1], x["end"][0], x["end"][1], x["name"], x["xo"], x["yo"], x["xr"], x["yr"]] for x in p["literals"]]
        if l["marks"] != want:
            if len(l["marks"]) != len(want):
                sig, what = "listing-count", f"{len(l['marks'])} entries for {len(want)} Position literals"
            else:
                k = next(i for i in range(len(want)) if l["marks"][i] != want[i])
                a, b = l["marks"][k], want[k]
                part = "start" if a[:2] != b[:2] else "end" if a[2:4] != b[2:4] else "values"
                multi = "multi-line" if b[0] != b[2] else "single-line"
                sig, what = f"listing-{part}:{multi}", f"entry {k}: got {a}, expected {b}"
            run.fail(sig, what, {"source": p["text"], "expected": want, "observed": l["marks"]})
            run.count("listing:FAIL")
            continue
        run.count("listing:ok")
        if c["ok"] and p["literals"]:
            # values equal those of the compiled parameters (as a multiset; macro bodies may be expanded several times)
            compiled = [tuple(op_p[1:]) for r in c["ops"] for op in r for op_p in op["params"] if op_p[0] == "p"]
            listed = {(x["name"], x["xo"], x["yo"], x["xr"], x["yr"]) for x in p["literals"]}
            if not set(compiled) <= listed:
                run.fail("values-differ-from-compiled", "a compiled position mark is not among the listed ones",
                         {"source": p["text"], "compiled": compiled, "listed": sorted(listed)})
            rr = random.Random(p["text"])
            k = rr.randrange(len(p["literals"]))
            tile = lambda: rr.choice([rr.randrange(-200, -1), -1, 0, rr.randrange(100, 200)])  # noqa: E731
            new = ["p", rr.choice(["edited mark", "it's", 'say "x"', "two\nlines"]), rr.choice([0, 2]), rr.choice([0, 2]), tile(), tile()]
            splice_jobs.append((p, k, new, c))
    sp = run_impl([("checks.c18:splice", p["text"], p["literals"][k], new) for p, k, new, _ in splice_jobs])
    recs = run_impl([("compile", s["text"]) for s in sp])
    for (p, k, new, c), s, rc in zip(splice_jobs, sp, recs):
        lit = p["literals"][k]
        old = (lit["name"], lit["xo"], lit["yo"], lit["xr"], lit["yr"])
        if not rc["ok"]:
            run.fail("splice-breaks-source", f"replacing the delimited span makes the source invalid ({rc['err']})", {"source": p["text"], "spliced": s["text"]})
            continue
        # every occurrence of the old value that stems from this literal becomes the new value; everything else is unchanged
        def norm(ops, frm, to):
            return [[{**op, "params": [(["p", *to] if (pp[0] == "p" and tuple(pp[1:]) == frm) else pp) for pp in op["params"]]} for op in r] for r in ops]
        same_elsewhere = sum(1 for x in p["literals"] if (x["name"], x["xo"], x["yo"], x["xr"], x["yr"]) == old) > 1
        if same_elsewhere:
            run.count("splice:skipped (value occurs twice)")
            continue
        if norm(c["ops"], old, tuple(new[1:])) != rc["ops"]:
            run.fail("splice-changes-more", "replacing the delimited span changes more than that one parameter (or not that parameter)",
                     {"source": p["text"], "spliced": s["text"]})
        run.count("splice:ok")
    if preps:
        run.sample({"source": preps[-1]["text"], "literals": preps[-1]["literals"]})
    run.finish(rule="macro programs with Position literals in routines, macro bodies, macro-call arguments and switch headers; layout "
                    "variants (several per line, spread over lines, any quote style and number spelling); the expected spans come from "
                    "the harness's own token placement")


if __name__ == "__main__":
    main()
