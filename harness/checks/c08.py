#!/venv/bin/python
"""C08 - compile-time source map: every emitted op maps to where it was written.

Programs are generated with a unique integer tag in every construct that emits an op, and printed
by a printer that records where each construct (statement, condition, switch/case header, macro
call) starts. Every compiled op is then matched to its construct by tag and its source-map entry
is compared with the recorded position.
"""
from __future__ import annotations

import os
import random
import sys

sys.path.insert(0, os.path.join(os.path.dirname(os.path.abspath(__file__)), ".."))
from core import run_impl  # noqa: E402
from framework import Run  # noqa: E402


# keyword statements whose op is never dropped where the generator writes them (break_loop only as last
# statement of a forever body: the loop's back jump follows it)
KW_OPS = {"break_loop;": "Jump", "continue;": "Jump", "end;": "End", "return;": "Return", "hold;": "Hold"}


class TaggedGen:
    def __init__(self, r: random.Random, file: str | None = None, tag0: int = 100000):
        self.r = r
        self.lines: list[str] = []
        self.sites: dict[int, dict] = {}      # tag -> {"pos": [(line, col), ...] acceptable positions, "kind": ..}
        self.stmt_starts: set[tuple[int, int]] = set()
        self.tag = tag0
        self.file = file
        self.labels: list[str] = []
        self.in_macro = False
        self.kw_sites: list[tuple[int, int, str]] = []   # keyword statements written directly in routines

    def block_start(self, off: int) -> None:
        """the keyword at offset off of the line just written begins a block (elseif / else)"""
        ln = self.lines[-1]
        self.stmt_starts.add((len(self.lines) - 1, len(ln) - len(ln.lstrip(" ")) + off))

    def t(self) -> int:
        self.tag += 1
        return self.tag

    def emit(self, ind: int, text: str, tagcols: list[tuple[int, int, str]] = (), stmt: bool = True) -> None:
        """text with the recorded constructs: (tag, offset of the construct inside text, kind)"""
        pad = " " * (4 * ind) if self.r.random() < 0.85 else " " * self.r.randint(0, 9)
        line = len(self.lines)
        if stmt:
            self.stmt_starts.add((line, len(pad)))
        if not self.in_macro and text in KW_OPS:
            self.kw_sites.append((line, len(pad), KW_OPS[text]))
        for tag, off, kind in tagcols:
            self.sites.setdefault(tag, {"pos": [], "kind": kind, "file": self.file})["pos"].append((line, len(pad) + off))
        self.lines.append(pad + text)

    def emit_same_line(self, text: str, tagcols: list[tuple[int, int, str]], stmt: bool = True) -> None:
        """append to the current line (several statements per line)"""
        line = len(self.lines) - 1
        base = len(self.lines[-1]) + 1
        if stmt:
            self.stmt_starts.add((line, base))
        for tag, off, kind in tagcols:
            self.sites.setdefault(tag, {"pos": [], "kind": kind, "file": self.file})["pos"].append((line, base + off))
        self.lines[-1] += " " + text

    def plain(self, ind: int, same_line: bool = False) -> None:
        k = self.r.randrange(6)
        tag = self.t()
        if k == 0:
            text = f"op_x({tag}, 'str', CONST);"
        elif k == 1:
            text = f"{tag} = 5;"
        elif k == 2:
            text = f"clear {tag};"
        elif k == 3:
            text = f"adventure_log = {tag};"
        elif k == 4:
            tag2 = self.t()
            text = f"op_y<actor {tag}>({tag2});"
            (self.emit_same_line if same_line else lambda tx, tc: self.emit(ind, tx, tc))(text, [(tag, 0, "ctx"), (tag2, 0, "op")])
            return
        else:
            text = f"op_z({tag}, Position<'m{tag}', {tag}, 2.5>);"
        (self.emit_same_line if same_line else lambda tx, tc: self.emit(ind, tx, tc))(text, [(tag, 0, "stmt")])

    def cond(self) -> tuple[str, int, int]:
        """(text, tag, offset of the condition start inside text)"""
        tag = self.t()
        k = self.r.randrange(4)
        if k == 0:
            return f"{tag} == 3", tag, 0
        if k == 1:
            return f"{tag} > value($V)", tag, 0
        if k == 2:
            return f"{tag}[4]", tag, 0
        return f"scn({tag}) >= [1, 2]", tag, 0

    def conds(self) -> tuple[str, list[tuple[int, int, str]]]:
        n = self.r.choice([1, 1, 2, 3])
        text, tcs = "", []
        for i in range(n):
            c, tag, _ = self.cond()
            if i:
                text += " || "
            tcs.append((tag, len(text), "cond"))
            text += c
        return text, tcs

    def block(self, ind: int, depth: int, in_loop: bool, in_case: bool, macros: list) -> None:
        for _ in range(self.r.randint(0, 3)):
            self.stmt(ind, depth, in_loop, in_case, macros)

    def stmt(self, ind: int, depth: int, in_loop: bool, in_case: bool, macros: list) -> None:
        x = self.r.random()
        if depth <= 0 or x < 0.45:
            self.plain(ind)
            if self.r.random() < 0.2:
                self.plain(ind, same_line=True)
            return
        if x < 0.52:
            tag, tag2 = self.t(), self.t()
            self.emit(ind, f"with (actor {tag}) {{", [(tag, 0, "ctx")])
            self.emit(ind + 1, f"op_w({tag2});", [(tag2, 0, "stmt")])
            self.emit(ind, "}", stmt=False)
            return
        if x < 0.60 and macros:
            name, nv = self.r.choice(macros)
            tag = self.t()
            args = ", ".join([str(tag)] + [self.r.choice(["5", "'s'", "CONST", "Position<'arg', 1, 2>"]) for _ in range(nv - 1)])
            self.emit(ind, f"~{name}({args});", [(tag, 0, "call")])
            return
        if x < 0.75:
            neg = "not " if self.r.random() < 0.3 else ""
            c, tcs = self.conds()
            pre = f"if {neg}("
            self.emit(ind, pre + c + ") {", [(t_, len(pre) + o, k) for t_, o, k in tcs])
            self.block(ind + 1, depth - 1, in_loop, in_case, macros)
            for _ in range(self.r.choice([0, 0, 1])):
                c, tcs = self.conds()
                pre = "} elseif ("
                self.emit(ind, pre + c + ") {", [(t_, len(pre) + o, k) for t_, o, k in tcs], stmt=False)
                self.block_start(2)
                self.block(ind + 1, depth - 1, in_loop, in_case, macros)
            if self.r.random() < 0.5:
                self.emit(ind, "} else {", stmt=False)
                self.block_start(2)
                self.block(ind + 1, depth - 1, in_loop, in_case, macros)
            self.emit(ind, "}", stmt=False)
            return
        if x < 0.87:
            tag = self.t()
            hdr = self.r.choice([f"{tag}", f"scn({tag})[0]", f"random({tag})", f"dungeon_mode({tag})"])
            pre = "switch ("
            self.emit(ind, pre + hdr + ") {", [(tag, len(pre), "swhdr")])
            n = self.r.randint(1, 3)
            for i in range(n):
                ctag = self.t()
                ch = self.r.choice([f"{ctag}", f"> {ctag}", f"== value({ctag})"])
                line = len(self.lines)
                self.emit(ind + 1, "case " + ch + ":", [(ctag, 5, "casehdr")], stmt=True)
                # the `case` keyword itself is accepted as "where the case header begins" as well
                self.sites[ctag]["pos"].append((line, self.sites[ctag]["pos"][0][1] - 5))
                if i == n - 1 or self.r.random() < 0.7:
                    self.plain(ind + 2)
                    if self.r.random() < 0.5:
                        self.emit(ind + 2, "break;")
            if self.r.random() < 0.4:
                self.emit(ind + 1, "default:", stmt=True)
                self.plain(ind + 2)
            self.emit(ind, "}", stmt=False)
            return
        if x < 0.93:
            tag, c1, c2 = self.t(), self.t(), self.t()
            line = len(self.lines)
            self.emit(ind, f"message_SwitchTalk ({tag}) {{", [(tag, 0, "stmt")])
            stmt_pos = self.sites[tag]["pos"][0]
            self.emit(ind + 1, f"case {c1}:", [(c1, 5, "casehdr")], stmt=False)
            self.sites[c1]["pos"] += [stmt_pos, (line + 1, self.sites[c1]["pos"][0][1] - 5)]
            self.emit(ind + 2, "'text'", stmt=False)
            self.emit(ind, "}", stmt=False)
            return
        tag = self.t()
        kind = self.r.randrange(3)
        if kind == 0:
            self.emit(ind, "forever {")
            self.plain(ind + 1)
            self.block(ind + 1, depth - 1, True, in_case, macros)
            if self.r.random() < 0.5:
                self.emit(ind + 1, "break_loop;")
        elif kind == 1:
            neg = "not " if self.r.random() < 0.3 else ""
            pre = f"while {neg}("
            self.emit(ind, pre + f"{tag} < 9" + ") {", [(tag, len(pre), "cond")])
            self.block(ind + 1, depth - 1, True, in_case, macros)
            if self.r.random() < 0.3:
                self.emit(ind + 1, self.r.choice(["continue;", "break_loop;"]))
        else:
            i1, i2 = self.t(), self.t()
            pre = f"for ({i1} = 0; "
            mid = f"{tag} < 9"
            post = f"; {i2} += 1;) {{"
            self.emit(ind, pre + mid + post, [(i1, 5, "stmt"), (tag, len(pre), "cond"), (i2, len(pre) + len(mid) + 2, "stmt")])
            self.stmt_starts.add((len(self.lines) - 1, len(self.lines[-1]) - len(self.lines[-1].lstrip()) + 5))
            self.block(ind + 1, depth - 1, True, in_case, macros)
            if self.r.random() < 0.3:
                # (a `continue;` here would be a jump to the label right after it, which the compiler drops)
                self.emit(ind + 1, "break_loop;")
        self.emit(ind, "}", stmt=False)

    def text(self) -> str:
        return "\n".join(self.lines) + "\n"


def gen_program(seed: str) -> dict:
    r = random.Random(seed)
    nlib = r.choice([0, 0, 1, 2])
    files: dict[str, str] = {}
    sites: dict[int, dict] = {}
    stmt_starts: dict[str | None, set] = {}
    macros: list[tuple[str, int, str | None]] = []
    tag0 = 100000
    used_libs = []
    # library files (deepest first so that callers may use callees)
    for li in reversed(range(nlib)):
        path = r.choice([f"lib{li}.exps", f"sub/lib{li}.exps"])
        g = TaggedGen(r, file=path, tag0=tag0)
        g.in_macro = True
        for imp in used_libs:
            rel = os.path.relpath(imp, os.path.dirname(path) or ".")
            g.emit(0, f'import "./{rel}";', stmt=False)
        nm = r.randint(1, 2)
        mine = []
        for mi in range(nm):
            name = f"lib{li}_m{mi}"
            nv = r.randint(1, 2)
            g.emit(0, f"macro {name}({', '.join('$p%d' % k for k in range(nv))}) {{", stmt=False)
            tagx = g.t()
            g.emit(1, f"op_m({tagx}, {', '.join('$p%d' % k for k in range(nv))});", [(tagx, 0, "stmt")])
            callable_ = [(n, v) for n, v, _ in macros]
            for _ in range(r.randint(0, 2)):
                g.stmt(1, 1, False, False, callable_)
            if r.random() < 0.3:
                g.emit(1, "return;")
                g.plain(1)
            g.emit(0, "}", stmt=False)
            mine.append((name, nv, path))
        macros += mine
        files[path] = g.text()
        sites.update(g.sites)
        stmt_starts[path] = g.stmt_starts
        tag0 = g.tag + 1000
        used_libs.append(path)
    g = TaggedGen(r, file=None, tag0=tag0)
    for imp in used_libs:
        g.emit(0, f'import "./{imp}";', stmt=False)
    local = []
    g.in_macro = True
    for mi in range(r.randint(0, 2)):
        name = f"main_m{mi}"
        nv = r.randint(1, 2)
        g.emit(0, f"macro {name}({', '.join('$p%d' % k for k in range(nv))}) {{", stmt=False)
        tagx = g.t()
        g.emit(1, f"op_m({tagx}, {', '.join('$p%d' % k for k in range(nv))});", [(tagx, 0, "stmt")])
        callable_ = [(n, v) for n, v, _ in macros]
        for _ in range(r.randint(0, 2)):
            g.stmt(1, 1, False, False, callable_)
        g.emit(0, "}", stmt=False)
        local.append((name, nv, None))
    macros += local
    g.in_macro = False
    for ri in range(r.randint(1, 2)):
        g.emit(0, f"def {ri} {{", stmt=True)
        for _ in range(r.randint(1, 4)):
            g.stmt(1, 2, False, False, [(n, v) for n, v, _ in macros])
        if r.random() < 0.7:
            g.emit(1, r.choice(["end;", "return;", "hold;"]))
        g.emit(0, "}", stmt=False)
    files["main.exps"] = g.text()
    sites.update(g.sites)
    stmt_starts[None] = g.stmt_starts
    return {"files": files, "sites": {str(k): v for k, v in sites.items()},
            "stmt_starts": {str(k): sorted(v) for k, v in stmt_starts.items()},
            "macro_files": {n: f for n, _, f in macros}, "kw_sites": g.kw_sites}


def tag_of_op(op: dict) -> int | None:
    for p in op["params"]:
        if p[0] == "i" and isinstance(p[1], int) and p[1] >= 100000:
            return p[1]
    return None


def check_case(case: dict, res: dict) -> list[tuple[str, str]]:
    """list of (signature, description) of violations"""
    out: list[tuple[str, str]] = []
    sm = res["sm"]
    direct = {int(k): v for k, v in sm["map"].items()}
    macro = {int(k): v for k, v in sm["macros"]["map"].items()}
    sites = {int(k): v for k, v in case["sites"].items()}
    all_ops = [op for r in res["ops"] for op in r]
    offsets = [op["off"] for op in all_ops]
    main_starts = {tuple(x) for x in case["stmt_starts"]["None"]}
    files_with_ops: set = set()
    for op in all_ops:
        o = op["off"]
        if o not in direct and o not in macro:
            out.append(("no-entry:" + ("tagged" if tag_of_op(op) else op["code"]), f"op {op} has no source-map entry"))
            continue
        tag = tag_of_op(op)
        if o in direct:
            ent = direct[o]
            if tag is not None and tag in sites:
                site = sites[tag]
                if site["file"] is not None:
                    out.append(("macro-op-mapped-as-direct", f"op {op} stems from a macro in {site['file']} but has a direct entry"))
                elif tuple(ent) not in {tuple(p) for p in site["pos"]}:
                    out.append((f"position:{site['kind']}", f"op {op}: entry {ent}, its {site['kind']} begins at {site['pos']}"))
            elif tag is None and tuple(ent) not in main_starts:
                out.append(("position:untagged:" + op["code"], f"op {op}: entry {ent} is not the beginning of any statement of the file"))
        else:
            ent = macro[o]
            fpath, mname, line, col, called_in, ret, params = ent
            files_with_ops.add(fpath)
            if tag is not None and tag in sites:
                site = sites[tag]
                if site["kind"] == "call":
                    pass
                elif (site["file"] or None) != fpath and not (site["file"] is None and fpath is None):
                    out.append(("macro-file", f"op {op}: entry names file {fpath!r}, the macro is defined in {site['file']!r}"))
                elif (line, col) not in {tuple(p) for p in site["pos"]}:
                    out.append((f"macro-position:{site['kind']}", f"op {op}: entry ({line}, {col}), its {site['kind']} begins at {site['pos']}"))
            if case["macro_files"].get(mname, "?") != fpath:
                out.append(("macro-name-file", f"op {op}: macro {mname!r} is defined in {case['macro_files'].get(mname)!r}, entry says {fpath!r}"))
            if ret is None:
                out.append(("no-return-address", f"op {op}: no return address"))
    # keyword statements written directly in a routine: an op of their opcode is mapped to exactly that place
    for line, col, code in case.get("kw_sites", []):
        # (a jump to the end of the routine is emitted as Return)
        codes = {code, "Return"} if code == "Jump" else {code}
        if not any(op["code"] in codes and direct.get(op["off"]) == [line, col] for op in all_ops):
            out.append(("keyword-statement:" + code, f"no {code} op is mapped to the keyword statement at ({line}, {col})"))
    # expansions: maximal runs of ops sharing (return address) - check the return address bounds
    for o, ent in macro.items():
        ret = ent[5]
        if ret is None or o not in offsets:
            continue
        if not ret > o:
            out.append(("return-address-not-after-op", f"macro op {o}: return address {ret} does not lie after it"))
        following = [x for x in offsets if x >= ret]
        # ops of the same expansion = ops with the same return address: the first op after them must not be before ret
        same = [x for x, e in macro.items() if e[5] == ret and x in offsets]
        after_exp = [x for x in offsets if x > max(same)]
        if after_exp and ret > min(after_exp):
            out.append(("return-address-too-far", f"return address {ret} of the expansion {sorted(same)} lies after the next op {min(after_exp)}"))
    # first op of an expansion carries the call position
    for tag, site in sites.items():
        if site["kind"] != "call":
            continue
        # the expansion started by this call: the op carrying the tag as macro argument is the first op of the macro (op_m(TAG, $p0))
        hits = [op for op in all_ops if op["code"] == "op_m" and len(op["params"]) > 1 and op["params"][1] == ["i", tag]]
        for op in hits:
            ent = macro.get(op["off"])
            if ent is None:
                continue
            ci = ent[4]
            if ci is None:
                out.append(("no-call-site", f"first op {op} of the expansion of the call tagged {tag} has no call position"))
            elif (ci[1], ci[2]) not in {tuple(p) for p in site["pos"]} or (ci[0] or None) != (site["file"] or None):
                out.append(("call-site", f"first op {op}: call position {ci}, the call begins at {site['pos']} in {site['file']!r}"))
    # files named = imported files that contributed ops
    contributed = {sites[t]["file"] for t in (tag_of_op(op) for op in all_ops) if t in sites and sites[t]["kind"] != "call" and sites[t]["file"] is not None}
    named = {f for f in files_with_ops if f is not None}
    if named != contributed:
        out.append(("macro-files-set", f"files named by macro entries {sorted(named)} != imported files that contributed ops {sorted(contributed)}"))
    # position marks = those in the emitted parameters
    emitted = sorted(tuple(p[1:]) for op in all_ops for p in op["params"] if p[0] == "p")
    recorded = sorted([tuple(m[4:]) for m in sm["pos_marks"]] + [tuple(y[2][4:]) for y in sm["macros"]["pos_marks"]])
    if emitted != recorded:
        out.append(("position-marks", f"recorded position marks {recorded} != marks in the emitted parameters {emitted}"))
    return out


def gen_chain(seed: str) -> dict:
    """macros calling each other in a chain m1 -> m2 -> .. -> mk (k = 2..4), each expanded once, with ops before and after
    the inner call; spread over the main file and imported files"""
    r = random.Random(seed)
    k = r.randint(2, 4)
    where = [r.choice([None, "lib.exps", "sub/deep.exps"]) for _ in range(k)]
    # a file may only call macros of files it imports: keep the chain's files in import order main -> lib -> deep
    rank = {None: 0, "lib.exps": 1, "sub/deep.exps": 2}
    where.sort(key=lambda f: rank[f])
    texts: dict = {None: [], "lib.exps": [], "sub/deep.exps": []}
    tag = 200000
    for i in range(k):
        pre = r.randint(0, 2)
        post = r.randint(0, 2)
        body = []
        for _ in range(pre):
            tag += 1
            body.append(f"    op_pre({tag});")
        if r.random() < 0.4:
            # leaving the expansion early: the jump to the end label of the expansion is how an outer blueprint first meets
            # that label
            body.append("    if (debug) {\n        return;\n    }")
        if i + 1 < k:
            body.append(f"    ~m{i + 1}();")
        if r.random() < 0.2:
            body.append("    if (edit) {\n        return;\n    }")
        for _ in range(post):
            tag += 1
            body.append(f"    op_post({tag});")
        if not body:
            tag += 1
            body.append(f"    op_only({tag});")
        texts[where[i]].append(f"macro m{i}() {{\n" + "\n".join(body) + "\n}")
    files = {}
    used = [f for f in ("lib.exps", "sub/deep.exps") if texts[f]]
    if texts["sub/deep.exps"]:
        files["sub/deep.exps"] = "\n".join(texts["sub/deep.exps"]) + "\n"
    if texts["lib.exps"]:
        imp = 'import "./sub/deep.exps";\n' if texts["sub/deep.exps"] else ""
        files["lib.exps"] = imp + "\n".join(texts["lib.exps"]) + "\n"
    imps = "".join(f'import "./{f}";\n' for f in used)
    before = r.randint(0, 2)
    after = r.randint(0, 2)
    main = imps + "\n".join(texts[None]) + ("\n" if texts[None] else "") + "def 0 {\n" + \
        "".join(f"    op_before({900000 + j});\n" for j in range(before)) + "    ~m0();\n" + \
        "".join(f"    op_after({910000 + j});\n" for j in range(after)) + ("    end;\n" if r.random() < 0.5 else "") + "}\n"
    files["main.exps"] = main
    return {"files": files, "k": k, "where": where}


def check_chain(case: dict, res: dict) -> list[tuple[str, str]]:
    """exact bounds of every return address: after every op of its expansion (nested ones included), not after the first
    op that follows it"""
    out = []
    macro = {int(o): v for o, v in res["sm"]["macros"]["map"].items()}
    offsets = sorted(op["off"] for rt in res["ops"] for op in rt)
    k = case["k"]
    for i in range(k):
        names = {f"m{j}" for j in range(i, k)}
        exp = sorted(o for o in offsets if o in macro and macro[o][1] in names)
        own = [o for o in exp if macro[o][1] == f"m{i}"]
        if not own:
            continue
        later = [o for o in offsets if o > exp[-1]]
        for o in own:
            ret = macro[o][5]
            if ret is None:
                out.append(("chain:no-return-address", f"op {o} of m{i} has no return address"))
            elif not ret > exp[-1]:
                out.append((f"chain:return-address-inside-expansion:depth{i}", f"op {o} of m{i}: return address {ret} does not lie after the "
                            f"last op {exp[-1]} of the expansion {exp}"))
            elif later and ret > later[0]:
                out.append((f"chain:return-address-too-far:depth{i}", f"op {o} of m{i}: return address {ret} lies after the op {later[0]} "
                            f"that follows the expansion {exp}"))
            if macro[o][0] != case["where"][i]:
                out.append(("chain:file", f"op {o} of m{i}: entry names file {macro[o][0]!r}, the macro is defined in {case['where'][i]!r}"))
    for o in offsets:
        if o not in macro and str(o) not in res["sm"]["map"] and o not in {int(x) for x in res["sm"]["map"]}:
            out.append(("chain:no-entry", f"op {o} has no entry"))
    return out


def build_trace(files: dict, main: str) -> dict:
    """compile with ExplorerScriptMacro.build wrapped (from outside): for every invocation the counter before and after,
    the kinds of the blueprint items (with the lengths stored in start labels), the length in the start label the build
    emits, and (number, return address) of every operation it registers"""
    import explorerscript.macro as mm
    from explorerscript.macro import MacroStartSsbLabel, MacroEndSsbLabel
    from explorerscript.ssb_converting.ssb_special_ops import SsbLabel
    from files import compile_files

    calls: list = []
    orig = mm.ExplorerScriptMacro.build

    def build(self, op_idx_counter, lbl_idx_counter, parameters, smb):  # type: ignore
        c0 = op_idx_counter.count
        depth0 = len(smb._macro_context__stack)
        items = []
        for o in self.blueprints:
            if isinstance(o, MacroStartSsbLabel):
                items.append(["start", o.length_of_macro])
            elif isinstance(o, MacroEndSsbLabel):
                items.append(["end"])
            elif isinstance(o, SsbLabel):
                items.append(["lab"])
            else:
                items.append(["op"])
        before = set(smb._mappings_macros.keys())
        out = orig(self, op_idx_counter, lbl_idx_counter, parameters, smb)
        new = sorted(k for k in smb._mappings_macros.keys() if k not in before or c0 < k <= op_idx_counter.count)
        calls.append({"macro": self.name, "count0": c0, "count1": op_idx_counter.count, "items": items,
                      "own_start": out[0].length_of_macro if isinstance(out[0], MacroStartSsbLabel) else None,
                      "own_end": isinstance(out[-1], MacroEndSsbLabel),
                      "stack_restored": len(smb._macro_context__stack) == depth0,
                      "ops": [[k, smb._mappings_macros[k].return_addr] for k in new]})
        return out

    mm.ExplorerScriptMacro.build = build  # type: ignore
    try:
        res = compile_files(files, main, [])
    finally:
        mm.ExplorerScriptMacro.build = orig  # type: ignore
    return {"ok": True, "compiled": res["ok"], "calls": calls}


def forest_of_items(items: list) -> list | None:
    """the nesting of a flat blueprint (None if start and end labels do not balance)"""
    from core import A
    stack: list = [[]]
    for it in items:
        if it[0] == "start":
            stack.append([])
        elif it[0] == "end":
            if len(stack) < 2:
                return None
            b = stack.pop()
            stack[-1].append([A("call"), b])
        else:
            stack[-1].append([A(it[0])])
    return stack[0] if len(stack) == 1 else None


def main() -> None:
    run = Run("C08", "exploration")
    run.forbid()
    run.require_vo(["Comp/MacroRA.v", "Comp/MacroRAProofs.v"])
    run.props("Props/C08.v")
    q = run.tier == "quick"
    cases = [gen_program(f"C08-{run.seed}-{i}") for i in range(400 if q else 6000)]
    res = run_impl([("files:compile_files", c["files"], "main.exps", []) for c in cases])
    for c, r in zip(cases, res):
        run.case(c["files"], nontrivial=True)
        if not r["ok"]:
            run.count("compile:" + r["err"])
            if r["err"] in ("Timeout",) or r["err"].startswith("Other"):
                run.fail("compile:" + r["err"], f"compilation of a valid program fails: {r['err']} {r['msg'][:100]}", {"files": c["files"]})
            continue
        run.count("compiled")
        probs = check_case(c, r)
        seen = set()
        for sig, what in probs:
            if sig in seen:
                continue
            seen.add(sig)
            run.fail(sig, what, {"files": c["files"], "source_map": r["sm"], "ops": r["ops"]})
    chains = [gen_chain(f"C08-chain-{run.seed}-{i}") for i in range(150 if q else 2000)]
    cres = run_impl([("files:compile_files", c["files"], "main.exps", []) for c in chains])
    for c, r in zip(chains, cres):
        run.case(["chain", c["files"]], nontrivial=True)
        if not r["ok"]:
            run.count("chain-compile:" + r["err"])
            run.fail("chain-compile:" + r["err"], f"compilation of a macro chain fails: {r['err']} {r.get('msg', '')[:100]}", {"files": c["files"]})
            continue
        run.count(f"chain depth {c['k']}")
        seen = set()
        for sig, what in check_chain(c, r):
            if sig not in seen:
                seen.add(sig)
                run.fail(sig, what, {"files": c["files"], "source_map": r["sm"], "ops": r["ops"]})
    # K-ra: Comp/MacroRA.v against every invocation of ExplorerScriptMacro.build in these compilations
    from core import A, run_driver
    tr_cases = [c for c in chains] + cases[: (150 if q else 1500)]
    traces = run_impl([("checks.c08:build_trace", c["files"], "main.exps") for c in tr_cases])
    calls = [(c, k) for c, t in zip(tr_cases, traces) if t.get("ok") for k in t["calls"]]
    bad = [t for t in traces if not t.get("ok")]
    if bad or not calls:
        run.correspondence_broken("K-ra (Comp/MacroRA.v)", "the invocations of build could not be recorded", {"first": bad[:1], "calls": len(calls)})
    forests = [forest_of_items(k["items"]) for _, k in calls]
    mods = run_driver([[A("macrora"), f if f is not None else [], k["count0"]] for (_, k), f in zip(calls, forests)])
    kfirst = None
    for (c, k), f, mo in zip(calls, forests, mods):
        diff = None
        if f is None:
            diff = "start and end labels of a blueprint do not balance"
        elif mo.get("r") != "ok":
            diff = "model failed"
        elif mo["flat"][1:-1] != k["items"] or mo["flat"][0] != ["start", k["own_start"]] or not k["own_end"]:
            diff = "flat (stored lengths / start and end labels) vs the blueprint and the labels build emits"
        elif [list(x) for x in mo["exec"]] != k["ops"]:
            diff = "exec vs the registered (number, return address) pairs"
        elif mo["exec"] != mo["spec"]:
            diff = "exec vs spec"
        elif k["count1"] != k["count0"] + mo["ops"] or not k["stack_restored"]:
            diff = "counter / context stack after the build"
        run.count("K-ra:" + ("ok" if diff is None else "DIFF"))
        depth = 0
        d = 0
        for it in k["items"]:
            d += 1 if it[0] == "start" else -1 if it[0] == "end" else 0
            depth = max(depth, d)
        run.count(f"K-ra nesting depth {depth}")
        if diff and kfirst is None:
            kfirst = (diff, {"files": c["files"], "call": k, "model": mo})
    if kfirst is not None:
        run.correspondence_broken("K-ra (Comp/MacroRA.v)", kfirst[0], kfirst[1])
    run.sample({"files": cases[0]["files"]})
    run.finish(rule="programs with a unique tag in every op-emitting construct, several statements per line, irregular indentation, "
                    "macros (local and in 0-2 imported files, nested calls); positions recorded by the generator's printer")


if __name__ == "__main__":
    main()
