#!/venv/bin/python
"""C10 - compilation fails only in documented ways and rejects meaningless programs."""
from __future__ import annotations

import os
import random
import sys

sys.path.insert(0, os.path.join(os.path.dirname(os.path.abspath(__file__)), ".."))
from core import A, PERF, run_impl  # noqa: E402
from framework import Run  # noqa: E402
from gen_prog import Cfg, Gen, MacroGen  # noqa: E402
from lang import P_c, P_i, print_prog  # noqa: E402

DOCUMENTED = {"Parse", "Compiler", "Value"}


def wrap(body: str, pre: str = "") -> str:
    return pre + "def 0 {\n" + body + "\n    end;\n}\n"


def static_invalid_texts(r: random.Random) -> list[tuple[str, str]]:
    """(class, source) - one statically meaningless construct each, embedded in otherwise valid code"""
    out = []
    fill = lambda: f"    op_{r.choice('ab')}({r.randrange(9)});"  # noqa: E731
    out.append(("break-outside-case", wrap(fill() + "\n    break;")))
    out.append(("break-outside-case", wrap("    if (debug) {\n        break;\n    }")))
    out.append(("break-outside-case", wrap("    forever {\n        a();\n        break;\n    }")))
    out.append(("continue-outside-loop", wrap(fill() + "\n    continue;")))
    out.append(("continue-outside-loop", wrap("    switch ($V) {\n        case 1:\n            continue;\n    }")))
    out.append(("break_loop-outside-loop", wrap("    if (debug) {\n        break_loop;\n    }")))
    out.append(("jump-undefined-label", wrap(fill() + "\n    jump @nowhere;")))
    out.append(("jump-undefined-label", wrap("    if (debug) {\n        jump @nowhere;\n    }\n    a();")))
    out.append(("call-undefined-label", wrap("    call @nowhere;\n" + fill())))
    out.append(("switch-ends-in-empty-case", wrap("    switch ($V) {\n        case 1:\n            a();\n        case 2:\n    }")))
    out.append(("switch-ends-in-empty-case", wrap("    switch ($V) {\n        case 1:\n            a();\n            break;\n        default:\n    }")))
    out.append(("switch-ends-in-empty-case", wrap("    switch ($V) {\n        case 1:\n    }")))
    out.append(("two-defaults", wrap("    switch ($V) {\n        default:\n            a();\n        default:\n            b();\n    }")))
    out.append(("two-defaults", wrap("    message_SwitchTalk ($V) {\n        default:\n            'a'\n        default:\n            'b'\n    }")))
    out.append(("statements-in-message-switch", wrap("    message_SwitchTalk ($V) {\n        case 1:\n            a();\n    }")))
    out.append(("statements-in-message-switch", wrap("    message_SwitchMonologue ($V) {\n        case 1:\n            'x'\n        default:\n            a();\n    }")))
    out.append(("label-in-with-block", wrap("    with (actor 1) {\n        @x;\n    }\n    jump @x;")))
    out.append(("label-in-with-block", wrap("    with (object $O) {\n        @x;\n    }")))
    out.append(("not-on-ordinary-bit", wrap("    if (not $VAR_A[3]) {\n        a();\n    }")))
    out.append(("not-on-ordinary-bit", wrap("    while (not 5[1]) {\n        a();\n    }")))
    out.append(("not-on-ordinary-bit", wrap("    if (debug || not $VAR_A[3]) {\n        a();\n    }")))
    out.append(("unknown-macro", wrap("    ~nope(1);")))
    out.append(("unknown-macro", wrap("    a();", "macro m() {\n    ~nope();\n}\n")))
    out.append(("recursive-macro", wrap("    ~m();", "macro m() {\n    a();\n    ~m();\n}\n")))
    out.append(("recursive-macro", wrap("    ~m();", "macro m() {\n    ~n();\n}\nmacro n() {\n    if (debug) {\n        ~m();\n    }\n}\n")))
    out.append(("recursive-macro", wrap("    a();", "macro x() {\n    ~y();\n}\nmacro y() {\n    ~z();\n}\nmacro z() {\n    ~x();\n}\n")))
    out.append(("too-few-macro-arguments", wrap("    ~m(1);", "macro m($a, $b) {\n    a($a, $b);\n}\n")))
    out.append(("too-few-macro-arguments", wrap("    ~m();", "macro m($a) {\n    a($a);\n}\n")))
    out.append(("too-few-macro-arguments", wrap("    ~o(1);", "macro i($a, $b) {\n    a($a, $b);\n}\nmacro o($a) {\n    ~i($a);\n}\n")))
    # the same constructs in the body of a macro - called or not: macro bodies are compiled on their own
    for cls, src in list(out):
        if src.startswith("def 0 {\n") and "~" not in src:
            body = src[len("def 0 {\n"):src.rindex("}")]
            if body.rstrip().endswith("end;"):
                body = body.rstrip()[:-len("end;")]
            out.append((cls, "macro bad() {\n" + body.rstrip("\n") + "\n}\ndef 0 {\n    ~bad();\n    end;\n}\n"))
            if cls not in ("jump-undefined-label", "call-undefined-label"):
                # (a label is looked up when the macro is expanded: an undefined one in a macro that nobody calls is not found out)
                out.append((cls, "macro bad() {\n" + body.rstrip("\n") + "\n}\ndef 0 {\n    a();\n    end;\n}\n"))
    return out


def import_invalid() -> list[dict]:
    main = "def 0 {\n    a();\n    end;\n}\n"
    lib = "macro f() {\n    x();\n}\n"
    return [
        {"cls": "missing-import", "files": {"m/main.exps": 'import "./nope.exps";\n' + main}, "lps": []},
        {"cls": "missing-import", "files": {"m/main.exps": 'import "nope.exps";\n' + main, "p/other.exps": lib}, "lps": ["@ROOT@/p"]},
        {"cls": "missing-import", "files": {"m/main.exps": 'import "@ROOT@/abs/nope.exps";\n' + main}, "lps": []},
        {"cls": "cyclic-import", "files": {"m/main.exps": 'import "./a.exps";\n' + main, "m/a.exps": 'import "./b.exps";\n' + lib,
                                           "m/b.exps": 'import "./a.exps";\nmacro g() {\n    y();\n}\n'}, "lps": []},
        {"cls": "cyclic-import", "files": {"m/main.exps": 'import "./a.exps";\n' + main, "m/a.exps": 'import "./a.exps";\n' + lib}, "lps": []},
        {"cls": "cyclic-import", "files": {"m/main.exps": 'import "./a.exps";\n' + main, "m/a.exps": 'import "./main.exps";\n' + lib}, "lps": []},
        {"cls": "routine-in-imported-file", "files": {"m/main.exps": 'import "./a.exps";\n' + main, "m/a.exps": lib + "def 0 {\n    z();\n}\n"}, "lps": []},
        {"cls": "routine-in-imported-file", "files": {"m/main.exps": 'import "./a.exps";\n' + main, "m/a.exps": "coro X {\n    z();\n}\n"}, "lps": []},
        {"cls": "routine-in-imported-file", "files": {"m/main.exps": 'import "./a.exps";\n' + main, "m/a.exps": 'import "./b.exps";\n' + lib,
                                                      "m/b.exps": "def 0 for actor 1 {\n    z();\n}\n"}, "lps": []},
    ]


def insertion_points(ss: list, in_case: bool, in_loop: bool, out: list) -> None:
    """every statement list of a routine body with its context (inside a switch case / inside a loop)"""
    out.append((ss, in_case, in_loop))
    for st in ss:
        k = st[0]
        if k == "if":
            insertion_points(st[3], in_case, in_loop, out)
            for e in st[4]:
                insertion_points(e[2], in_case, in_loop, out)
            if st[5]:
                insertion_points(st[5][0], in_case, in_loop, out)
        elif k == "switch":
            for c in st[2]:
                insertion_points(c[-1], True, in_loop, out)
        elif k == "forever":
            insertion_points(st[1], in_case, True, out)
        elif k == "while":
            insertion_points(st[3], in_case, True, out)
        elif k == "for":
            insertion_points(st[4], in_case, True, out)


def switches_of(ss: list, out: list) -> None:
    for st in ss:
        k = st[0]
        if k == "switch":
            out.append(st)
            for c in st[2]:
                switches_of(c[-1], out)
        elif k == "if":
            switches_of(st[3], out)
            for e in st[4]:
                switches_of(e[2], out)
            if st[5]:
                switches_of(st[5][0], out)
        elif k == "forever":
            switches_of(st[1], out)
        elif k == "while":
            switches_of(st[3], out)
        elif k == "for":
            switches_of(st[4], out)


def injected_invalid(r: random.Random) -> tuple[str, str, list] | None:
    """a random valid program with one statically meaningless construct put at a random place where it is meaningless"""
    import copy
    p = copy.deepcopy(Gen(r, Cfg(max_depth=3, max_block=3, max_routines=2, terminator_prob=0.5)).program())
    bodies = [rt[6] for rt in p[2] if not rt[5]]
    if not bodies:
        return None
    pts: list = []
    sws: list = []
    for b in bodies:
        insertion_points(b, False, False, pts)
        switches_of(b, sws)
    cls = r.choice(["break-outside-case", "continue-outside-loop", "break_loop-outside-loop", "jump-undefined-label",
                    "call-undefined-label", "two-defaults", "switch-ends-in-empty-case"])
    if cls in ("two-defaults", "switch-ends-in-empty-case"):
        if not sws:
            return None
        sw = r.choice(sws)
        if cls == "two-defaults":
            sw[2] = [c for c in sw[2] if c[0] != "default"]
            for _ in range(2):
                sw[2].insert(r.randint(0, len(sw[2])), [A("default"), [[A("op"), None, "op_d", [A("i"), 1]], [A("ctrl"), A("break")]]])
        else:
            if not sw[2]:
                return None
            sw[2][-1][-1] = []
        return cls, print_prog(p), p
    if cls == "break-outside-case":
        cand = [x for x in pts if not x[1]]
        st = [A("ctrl"), A("break")]
    elif cls == "continue-outside-loop":
        cand = [x for x in pts if not x[2]]
        st = [A("ctrl"), A("continue")]
    elif cls == "break_loop-outside-loop":
        cand = [x for x in pts if not x[2]]
        st = [A("ctrl"), A("break_loop")]
    elif cls == "jump-undefined-label":
        cand, st = pts, [A("jump"), "nowhere_at_all"]
    else:
        cand, st = pts, [A("call"), "nowhere_at_all"]
    if not cand:
        return None
    ss = r.choice(cand)[0]
    ss.insert(r.randint(0, len(ss)), st)
    return cls, print_prog(p), p


def injected_macro_invalid(r: random.Random) -> tuple[str, str, list, list] | None:
    """a random valid program with macros and one macro call that can not be expanded: class, text, AST, trap set"""
    import copy
    p = copy.deepcopy(MacroGen(r, Cfg(max_depth=2, max_block=3, max_routines=2, terminator_prob=0.5)).macro_program(1)["flat"])
    macros = p[1]
    bodies = [rt[6] for rt in p[2] if not rt[5]]
    if not bodies or not macros:
        return None
    pts: list = []
    for b in bodies:
        insertion_points(b, False, False, pts)
    if not pts:
        return None
    where = r.choice(pts)[0]
    arg = lambda: [A("i"), r.randint(0, 9)]  # noqa: E731
    call = lambda m, n=None: [A("macrocall"), m[1], *[arg() for _ in range(len(m[2]) if n is None else n)]]  # noqa: E731
    cls = r.choice(["unknown-macro", "too-few-macro-arguments", "recursive-macro", "macro-cycle"])
    trap: list = []
    if cls == "unknown-macro":
        where.insert(r.randint(0, len(where)), [A("macrocall"), "no_such_macro", *[arg() for _ in range(r.randint(0, 2))]])
    elif cls == "too-few-macro-arguments":
        cand = [m for m in macros if len(m[2]) >= 1]
        if not cand:
            return None
        m = r.choice(cand)
        where.insert(r.randint(0, len(where)), call(m, r.randrange(len(m[2]))))
    else:
        k = 1 if cls == "recursive-macro" else r.randint(2, min(3, len(macros)) if len(macros) >= 2 else 2)
        if len(macros) < k:
            return None
        cyc = r.sample(macros, k)
        for i, m in enumerate(cyc):
            # the call to the next member sits somewhere in the body, possibly nested
            mpts: list = []
            insertion_points(m[3], False, False, mpts)
            tgt = r.choice(mpts)[0] if mpts else m[3]
            tgt.insert(r.randint(0, len(tgt)), call(cyc[(i + 1) % k]))
        where.insert(r.randint(0, len(where)), call(cyc[0]))
        trap = [m[1] for m in cyc]
    return cls, print_prog(p), p, trap


def import_cycles(r: random.Random, n: int) -> list[dict]:
    """main -> f1 -> .. -> fk -> fj: cycles of every length, entered at any depth, files in several directories"""
    main = "def 0 {\n    a();\n    end;\n}\n"
    out = []
    for _ in range(n):
        k = r.randint(1, 6)
        j = r.randint(1, k)
        dirs = [r.choice(["m", "m/sub", "lib"]) for _ in range(k + 1)]
        dirs[0] = "m"
        names = ["m/main.exps"] + [f"{dirs[i]}/f{i}.exps" for i in range(1, k + 1)]
        files = {}
        for i in range(k + 1):
            nxt = names[i + 1] if i < k else names[j]
            rel = os.path.relpath(nxt, os.path.dirname(names[i]))
            imp = f'import "./{rel}";\n'
            files[names[i]] = imp + (main if i == 0 else f"macro g{i}() {{\n    y({i});\n}}\n")
        out.append({"cls": "cyclic-import", "files": files, "lps": [], "shape": f"chain {k} back to {j}"})
    return out


def degenerate() -> list[str]:
    return [
        "def 0 {\n    @x;\n}\n",
        "def 0 {\n    @x;\n    @y;\n}\n",
        "def 0 {\n    a();\n}\ndef 1 {\n    @x;\n}\ndef 2 {\n    jump @x;\n}\n",
        "def 1 {\n    a();\n}\ndef 0 {\n    b();\n}\n",
        "def 2 {\n    a();\n}\n",
        "def 0 {\n    a();\n}\ndef 0 {\n    b();\n}\n",
        "def 0 for actor 1.5 {\n    a();\n}\n",
        "def 0 for actor -1 {\n    a();\n}\n",
        "def 0 for wizard 1 {\n    a();\n}\n",
        "def 0x10 {\n    a();\n}\n",
        "def -1 {\n    a();\n}\n",
        "def 0 {\n    alias previous;\n}\n",
        "coro A {\n    a();\n}\ndef 0 {\n    b();\n}\n",
        "def 3 {\n    a();\n}\ncoro A {\n    b();\n}\n",
        "",
        "\n\n",
        "//?: is-ssb-script: true",
        "//?: is-ssb-script: true\n",
        "//?: foo: bar\n//?: baz\n",
        "//?: x: y",
        "//?:",
        "//?: is-ssb-script: 1\ndef 0 {\n    a(@l);\n}\n",
        "//?: is-ssb-script: true\ndef 0 {\n    @l;\n}\n",
        "//?: is-ssb-script: true\ndef 0 {\n    a<actor 1>();\n}\n",
        "macro m() {\n    a();\n}\n",
        "macro m($a, $a) {\n    a($a);\n}\ndef 0 {\n    ~m(1, 2);\n}\n",
        "macro m() {\n    alias previous;\n}\ndef 0 {\n    a();\n}\n",
        "def 0 {\n    switch (a<actor 1>(1)) {\n        case 1:\n            b();\n    }\n}\n",
        "def 0 {\n    with (actor 1) {\n        a<actor 2>();\n    }\n}\n",
        "def 0 {\n    with (wizard 1) {\n        a();\n    }\n}\n",
        "def 0 {\n    a<wizard 1>();\n}\n",
        "def 0 {\n    switch (scn($V)[2]) {\n        case 1:\n            a();\n    }\n}\n",
        "def 0 {\n    if (scn($V) != [1, 2]) {\n        a();\n    }\n}\n",
        "def 0 {\n    if (Wait(1)) {\n        a();\n    }\n}\n",
        "def 0 {\n    $V[1] = value(2);\n}\n",
        "def 0 {\n    a(Position<'x', 1.25, 2>);\n}\n",
        "def 0 {\n    a(Position<'x', 1, 2.50>);\n}\n",
        "def 0 {\n    for (@l; debug; jump @l;) {\n        a();\n    }\n}\n",
        "def 0 {\n    for (continue; debug; break_loop;) {\n        a();\n    }\n}\n",
        "def 0 {\n    @x;\n    @x;\n    a();\n}\n",
        "def 0 {\n    jump @x;\n    @x;\n}\n",
        "def 0 {\n    forever {\n    }\n}\n",
        "def 0 {\n    a(00);\n    b(-0);\n    c(0x);\n}\n",
        "def 0 {\n    a(1e5);\n}\n",
        "def 0 {\n    message_SwitchTalk ($V) {\n        case menu('x'):\n            'y'\n    }\n}\n",
        "def 0 {\n    message_SwitchTalk ($V) {\n        case > 1:\n            'y'\n    }\n}\n",
        "def 0 {\n    switch ($V) {\n        case 1:\n            'text'\n    }\n}\n",
        "import \"./x.exps\"\ndef 0 {\n    a();\n}\n",
    ]


def corrupt(r: random.Random, src: str) -> str:
    toks = list(src)
    k = r.random()
    if k < 0.3 and toks:
        i = r.randrange(len(toks))
        del toks[i:i + r.randint(1, 4)]
    elif k < 0.6:
        i = r.randrange(len(toks) + 1)
        toks.insert(i, r.choice(["{", "}", "(", ")", ";", "'", '"', "'''", "@", "~", "$", "<", ">", "\\", "/*", "//", "case", "default:", "0x", "-", ".", "§", "\x00", "é", "not", "||"]))
    elif k < 0.8 and toks:
        i = r.randrange(len(toks))
        j = r.randrange(len(toks))
        toks[i], toks[j] = toks[j], toks[i]
    else:
        i = r.randrange(len(toks) + 1)
        toks = toks[:i]
    return "".join(toks)


def main() -> None:
    run = Run("C10", "exploration")
    run.forbid()
    run.require_vo(["Lang/Static.v", "Lang/StaticProofs.v", "Lang/Domain.v", "Lang/DomainProofs.v", "Lang/MacroStatic.v", "Lang/MacroStaticProofs.v"])
    run.props("Props/C10.v")
    q = run.tier == "quick"
    r = random.Random(f"C10-{run.seed}")
    # 1. statically invalid programs must be rejected with a documented error
    inv = []
    for _ in range(3 if q else 20):
        inv += static_invalid_texts(r)
    n_inj = 0
    inj_asts: list = []
    for i in range(400 if q else 6000):
        x = injected_invalid(random.Random(f"C10-inject-{run.seed}-{i}"))
        if x is not None:
            inv.append(("injected:" + x[0], x[1]))
            inj_asts.append((x[0], x[1], x[2]))
            n_inj += 1
    run.count("injected invalid programs", n_inj)
    res = run_impl([("compile", s) for _, s in inv])
    for (cls, s), o in zip(inv, res):
        run.case(["static", cls, s], nontrivial=True)
        if o["ok"]:
            run.fail("accepted:" + cls, f"statically meaningless program ({cls}) is accepted and yields output", {"source": s, "ops": o["ops"]})
        elif o["err"] not in DOCUMENTED:
            run.fail("undocumented:" + cls + ":" + o["err"], f"statically meaningless program ({cls}) raises {o['err']}", {"source": s, "observed": o})
        run.count("static:" + ("rejected" if not o["ok"] else "ACCEPTED"))
    # the specification's own static checks (Lang/SrcSem.v cfg_of_prog returns Err) must reject what was injected:
    # the model of "statically meaningless" and the compiler agree
    from core import run_driver, src_side
    spec = run_driver([[A("cfg"), src_side(a)] for _, _, a in inj_asts])
    kfirst = None
    for (cls, txt, _), sp in zip(inj_asts, spec):
        agrees = sp.get("r") == "err"
        run.count("K-static (spec rejects injected construct):" + ("ok" if agrees else "DIFF"))
        if not agrees and kfirst is None:
            kfirst = (cls, txt, sp)
    if kfirst is not None:
        run.correspondence_broken("K-static (Lang/SrcSem.v static checks)", f"the specification model accepts an injected {kfirst[0]}",
                                  {"source": kfirst[1], "model": kfirst[2]})
    # the independent syntactic predicate of Lang/Static.v (theorem: a meaning only if well scoped) classifies every
    # injected construct as meaningless
    stat = run_driver([[A("static"), PERF, a, []] for _, _, a in inj_asts])
    sfirst = None
    for (cls, txt, _), sp in zip(inj_asts, stat):
        # (and the extracted predicates agree with the theorem C10_domain_exactly: meaning = scoped and events)
        good = sp.get("r") == "ok" and sp.get("scoped") is False and sp.get("meaning") is False and \
            sp.get("meaning") == (bool(sp.get("scoped")) and bool(sp.get("events")))
        run.count("K-static (well_scoped rejects injected construct):" + ("ok" if good else "DIFF"))
        if not good and sfirst is None:
            sfirst = (cls, txt, sp)
    if sfirst is not None:
        run.correspondence_broken("K-static (Lang/Static.v well_scoped)", f"well_scoped does not reject an injected {sfirst[0]}",
                                  {"source": sfirst[1], "model": sfirst[2]})
    # macro calls that can not be expanded: the compiler rejects them, and the predicates of Lang/MacroStatic.v (theorems:
    # inline fails) hold of them
    minj = [x for x in (injected_macro_invalid(random.Random(f"C10-minject-{run.seed}-{i}")) for i in range(200 if q else 3000)) if x]
    mres = run_impl([("compile", x[1]) for x in minj])
    mstat = run_driver([[A("static"), PERF, x[2], x[3]] for x in minj])
    FLAG = {"unknown-macro": "unknown", "too-few-macro-arguments": "few", "recursive-macro": "trap", "macro-cycle": "trap"}
    mfirst = None
    for (cls, txt, ast, trap), o, sp in zip(minj, mres, mstat):
        run.case(["static", cls, txt], nontrivial=True)
        if o["ok"]:
            run.fail("accepted:" + cls, f"statically meaningless program ({cls}) is accepted and yields output", {"source": txt, "ops": o["ops"]})
        elif o["err"] not in DOCUMENTED:
            run.fail("undocumented:" + cls + ":" + o["err"], f"statically meaningless program ({cls}) raises {o['err']}", {"source": txt, "observed": o})
        run.count("static:" + ("rejected" if not o["ok"] else "ACCEPTED"))
        good = sp.get("r") == "ok" and sp.get(FLAG[cls]) is True and sp.get("inline") != "ok" and \
            (cls != "recursive-macro" or sp.get("self_recursive") is True)
        run.count(f"K-static ({cls}: predicate holds, inline fails):" + ("ok" if good else "DIFF"))
        if not good and mfirst is None:
            mfirst = (cls, txt, sp)
    if mfirst is not None:
        run.correspondence_broken("K-static (Lang/MacroStatic.v)", f"the predicate for {mfirst[0]} does not hold of an injected one, or inline accepts it",
                                  {"source": mfirst[1], "model": mfirst[2]})
    imps = import_invalid() + import_cycles(r, 12 if q else 120)
    ires = run_impl([("files:compile_files", i["files"], "m/main.exps", i["lps"]) for i in imps])
    for i, o in zip(imps, ires):
        run.case(["import", i["cls"], i["files"]], nontrivial=True)
        if o["ok"]:
            run.fail("accepted:" + i["cls"], f"invalid import graph ({i['cls']}) is accepted", {"files": i["files"], "ops": o["ops"]})
        elif o["err"] not in DOCUMENTED:
            run.fail("undocumented:" + i["cls"] + ":" + o["err"], f"invalid import graph ({i['cls']}) raises {o['err']}", {"files": i["files"], "observed": o})
    # 2. every input: only documented exception classes, no hang
    texts: list[tuple[str, str]] = [("degenerate", d) for d in degenerate()]
    valid = []
    valid_asts: list = []
    for i in range(300 if q else 4000):
        rr = random.Random(f"C10-{run.seed}-{i}")
        g = (MacroGen if rr.random() < 0.4 else Gen)(rr, Cfg(max_depth=2, max_block=3, max_routines=3, terminator_prob=0.5))
        p = g.macro_program(1)["flat"] if isinstance(g, MacroGen) else g.program()
        valid.append(print_prog(p))
        valid_asts.append(None if isinstance(g, MacroGen) else p)
    texts += [("valid", v) for v in valid]
    for v in valid:
        for _ in range(2 if q else 6):
            texts.append(("corrupted", corrupt(r, v)))
    for _ in range(200 if q else 3000):
        n = r.randint(0, 40)
        texts.append(("noise", "".join(r.choice("def coro{}();@$~'\"\\/*\n 0123abcxyz<>=![],.:-§é\t") for _ in range(n))))
    res2 = run_impl([("compile", s) for _, s in texts])
    for (kind, s), o in zip(texts, res2):
        run.case([kind, s], nontrivial=len(s) > 0)
        cls = "ok" if o["ok"] else o["err"]
        run.count(f"{kind}:{cls}")
        if not o["ok"] and o["err"] not in DOCUMENTED:
            where = ""
            run.fail(f"escape:{o['err']}@{o.get('where')}", f"compile() raises {o['err']} ({o['msg'][:80]}) on a {kind} input", {"source": s, "observed": o})
    # generated programs without macros: what the compiler accepts, the specification model accepts too
    vres = {s: o for (kind, s), o in zip(texts, res2) if kind == "valid"}
    withast = [(t, a) for t, a in zip(valid, valid_asts) if a is not None]
    vspec = run_driver([[A("cfg"), src_side(a)] for _, a in withast])
    for (t, a), sp in zip(withast, vspec):
        acc = vres[t]["ok"]
        run.count(f"K-static valid programs: compiler {'accepts' if acc else 'rejects'}, spec {sp.get('r')}")
        if acc and sp.get("r") == "err":
            run.fail("accepted-but-meaningless-for-the-spec", f"the compiler accepts a program the specification model rejects: {sp.get('msg')}",
                     {"source": t, "model": sp})
    # ... and the two predicates of C10_domain_exactly hold of what the compiler accepts, evaluated directly
    vstat = run_driver([[A("static"), PERF, a, []] for _, a in withast])
    for (t, a), sp in zip(withast, vstat):
        if not vres[t]["ok"]:
            continue
        good = sp.get("r") == "ok" and sp.get("scoped") is True and sp.get("events") is True and sp.get("meaning") is True
        run.count("K-static accepted programs are well scoped and have events:" + ("ok" if good else "DIFF"))
        if not good:
            run.fail("accepted-but-not-well-scoped", f"the compiler accepts a program that is not well scoped or has a part without an event: {sp}",
                     {"source": t, "model": sp})
    run.sample({"kind": inv[0][0], "source": inv[0][1]})
    run.assume("the ANTLR front end is not modelled: 'for every input text' is explored, not proved")
    run.finish(rule="one statically meaningless construct of every class named by the property inside valid code; invalid import "
                    "graphs in real temporary directories; degenerate routines; valid G_prog programs, character/token level "
                    "corruptions of them, random noise: outcome must be success, ParseError, SsbCompilerError or ValueError")


if __name__ == "__main__":
    main()
