"""Import resolution part of C05: relative to the importing file, absolute, lookup paths in order."""
from __future__ import annotations

import random

from core import A, run_driver, run_impl, ssb_side, PERF
from lang import P_i, print_prog


def lib(name: str, tag: int) -> str:
    return f"macro {name}() {{\n    from_lib({tag});\n}}\n"


def layouts() -> list[dict]:
    """each: files, main, lookup paths, expected tag list of the compiled routine (or expected error)"""
    out = []
    main_body = "def 0 {\n    ~f();\n    end;\n}\n"
    out.append({"name": "relative_same_dir", "files": {"a/main.exps": 'import "./lib.exps";\n' + main_body, "a/lib.exps": lib("f", 1), "lib.exps": lib("f", 2)},
                "main": "a/main.exps", "lps": [], "expect": 1})
    out.append({"name": "relative_parent", "files": {"a/b/main.exps": 'import "../lib.exps";\n' + main_body, "a/lib.exps": lib("f", 1), "a/b/lib.exps": lib("f", 2)},
                "main": "a/b/main.exps", "lps": [], "expect": 1})
    out.append({"name": "relative_not_via_lookup", "files": {"a/main.exps": 'import "./lib.exps";\n' + main_body, "inc/lib.exps": lib("f", 2)},
                "main": "a/main.exps", "lps": ["@ROOT@/inc"], "expect": "Compiler"})
    out.append({"name": "absolute", "files": {"a/main.exps": 'import "@ROOT@/x/lib.exps";\n' + main_body, "x/lib.exps": lib("f", 3), "a/lib.exps": lib("f", 2)},
                "main": "a/main.exps", "lps": [], "expect": 3})
    out.append({"name": "lookup_first_match", "files": {"a/main.exps": 'import "lib.exps";\n' + main_body, "p1/lib.exps": lib("f", 1), "p2/lib.exps": lib("f", 2)},
                "main": "a/main.exps", "lps": ["@ROOT@/p1", "@ROOT@/p2"], "expect": 1})
    out.append({"name": "lookup_order_reversed", "files": {"a/main.exps": 'import "lib.exps";\n' + main_body, "p1/lib.exps": lib("f", 1), "p2/lib.exps": lib("f", 2)},
                "main": "a/main.exps", "lps": ["@ROOT@/p2", "@ROOT@/p1"], "expect": 2})
    out.append({"name": "lookup_second_has_it", "files": {"a/main.exps": 'import "sub/lib.exps";\n' + main_body, "p1/other.exps": lib("g", 1), "p2/sub/lib.exps": lib("f", 2)},
                "main": "a/main.exps", "lps": ["@ROOT@/p1", "@ROOT@/p2"], "expect": 2})
    out.append({"name": "lookup_not_relative_to_file", "files": {"a/main.exps": 'import "lib.exps";\n' + main_body, "a/lib.exps": lib("f", 9)},
                "main": "a/main.exps", "lps": [], "expect": "Compiler"})
    out.append({"name": "nested_import_relative_to_importing_file",
                "files": {"a/main.exps": 'import "./l/one.exps";\n' + main_body,
                          "a/l/one.exps": 'import "./two.exps";\nmacro f() {\n    ~g();\n}\n', "a/l/two.exps": lib("g", 4), "a/two.exps": lib("g", 5)},
                "main": "a/main.exps", "lps": [], "expect": 4})
    out.append({"name": "nested_import_through_lookup_path",
                "files": {"a/main.exps": 'import "./l/one.exps";\n' + main_body,
                          "a/l/one.exps": 'import "common.exps";\nmacro f() {\n    ~g();\n}\n', "p1/other.exps": lib("h", 1), "p2/common.exps": lib("g", 6),
                          "a/l/common.exps": lib("g", 7), "a/common.exps": lib("g", 8)},
                "main": "a/main.exps", "lps": ["@ROOT@/p1", "@ROOT@/p2"], "expect": 6})
    out.append({"name": "lookup_import_of_a_file_that_imports_through_lookup",
                "files": {"a/main.exps": 'import "one.exps";\n' + main_body,
                          "p2/one.exps": 'import "deep/two.exps";\nmacro f() {\n    ~g();\n}\n', "p1/deep/two.exps": lib("g", 9), "p2/two.exps": lib("g", 3)},
                "main": "a/main.exps", "lps": ["@ROOT@/p1", "@ROOT@/p2"], "expect": 9})
    out.append({"name": "missing", "files": {"a/main.exps": 'import "./nope.exps";\n' + main_body}, "main": "a/main.exps", "lps": [], "expect": "Compiler"})
    out.append({"name": "cycle", "files": {"a/main.exps": 'import "./x.exps";\n' + main_body, "a/x.exps": 'import "./y.exps";\n' + lib("f", 1), "a/y.exps": 'import "./x.exps";\n' + lib("g", 1)},
                "main": "a/main.exps", "lps": [], "expect": "Compiler"})
    out.append({"name": "dotdot_in_lookup_import", "files": {"a/main.exps": 'import "x/../lib.exps";\n' + main_body, "p1/lib.exps": lib("f", 1)},
                "main": "a/main.exps", "lps": ["@ROOT@/p1"], "expect": "Compiler"})
    out.append({"name": "two_imports_later_wins_not", "files": {"a/main.exps": 'import "./l1.exps";\nimport "./l2.exps";\ndef 0 {\n    ~f();\n    ~g();\n    end;\n}\n',
                                                                 "a/l1.exps": lib("f", 1), "a/l2.exps": lib("g", 2)},
                "main": "a/main.exps", "lps": [], "expect": [1, 2]})
    return out


def run_imports(run, quick: bool) -> None:
    ls = layouts()
    # random layouts: the same library name in several lookup directories
    for i in range(40 if quick else 400):
        r = random.Random(f"C05-imp-{run.seed}-{i}")
        n = r.randint(2, 4)
        have = [k for k in range(n) if r.random() < 0.6]
        files = {"m/main.exps": 'import "d/lib.exps";\ndef 0 {\n    ~f();\n    end;\n}\n'}
        for k in have:
            files[f"p{k}/d/lib.exps"] = lib("f", k)
        order = list(range(n))
        r.shuffle(order)
        first = next((k for k in order if k in have), None)
        ls.append({"name": f"random_lookup:{i}", "files": files, "main": "m/main.exps", "lps": [f"@ROOT@/p{k}" for k in order],
                   "expect": first if first is not None else "Compiler"})
    # acyclic import graphs: every file defines one macro that calls the macros of the files it imports (diamonds,
    # shared files that import further files, files in different directories); all of them compile, and the routine
    # performs the ops of all files in call order
    import os
    for i in range(30 if quick else 300):
        r = random.Random(f"C05-dag-{run.seed}-{i}")
        n = r.randint(3, 7)
        dirs = [r.choice(["m", "m/lib", "m/lib/shared", "base"]) for _ in range(n)]
        dirs[0] = "m"
        # some files live in a lookup directory and are imported by their bare name, from files at any depth
        via_lookup = {k for k in range(1, n) if r.random() < 0.3}
        for k in via_lookup:
            dirs[k] = r.choice(["lp1", "lp2"])
        names = [f"{dirs[k]}/f{k}.exps" for k in range(n)]
        deps = {k: sorted(r.sample(range(k + 1, n), r.randint(0 if k else 1, min(3, n - k - 1)))) for k in range(n)}
        files = {}

        def order(k: int) -> list[int]:
            out = [k]
            for d in deps[k]:
                out += order(d)
            return out
        for k in range(n):
            imps = "".join(('import "f%d.exps";\n' % d) if d in via_lookup else
                           ('import "./%s";\n' % os.path.relpath(names[d], os.path.dirname(names[k]))) for d in deps[k])
            body = f"    from_lib({k});\n" + "".join(f"    ~g{d}();\n" for d in deps[k])
            if k == 0:
                files["m/main.exps"] = imps + "def 0 {\n" + "".join(f"    ~g{d}();\n" for d in deps[0]) + "    end;\n}\n"
            else:
                files[names[k]] = imps + f"macro g{k}() {{\n{body}}}\n"
        expect = [x for d in deps[0] for x in order(d)]
        ls.append({"name": f"import_dag:{i}", "files": files, "main": "m/main.exps", "lps": ["@ROOT@/lp1", "@ROOT@/lp2"], "expect": expect})
    res = run_impl([("files:compile_files", l["files"], l["main"], l["lps"]) for l in ls])
    for l, r in zip(ls, res):
        run.case(["imports", l["name"], l["files"], l["lps"]], nontrivial=True)
        exp = l["expect"]
        if isinstance(exp, str):
            ok = (not r["ok"]) and r["err"] == exp
            got = r.get("err") if not r["ok"] else "compiled"
        else:
            want = exp if isinstance(exp, list) else [exp]
            got = [op["params"][0][1] for op in r["ops"][0] if op["code"] == "from_lib"] if r["ok"] else (r["err"] + ": " + r.get("msg", "")[:100])
            ok = r["ok"] and got == want
        run.count("imports:" + ("ok" if ok else "FAIL"))
        if not ok:
            run.fail("imports:" + l["name"].split(":")[0], f"import layout {l['name']}: expected {exp}, got {got}",
                     {"files": l["files"], "main": l["main"], "lookup_paths": l["lps"], "observed": {k: v for k, v in r.items() if k in ("ok", "err", "msg", "ops")}})
