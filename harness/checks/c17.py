#!/venv/bin/python
"""C17 - the highlighting lexer is total and loses no text."""
from __future__ import annotations

import os
import random
import sys

sys.path.insert(0, os.path.join(os.path.dirname(os.path.abspath(__file__)), ".."))
from core import A, run_driver, run_impl  # noqa: E402
from framework import Run  # noqa: E402
from gen_prog import Cfg, Gen  # noqa: E402
from gen_text import exhaustive_strings, structured_strings  # noqa: E402
from lang import print_prog  # noqa: E402


def lex_case(text: str, accepted: bool) -> dict:
    from explorerscript.pygments.expslexer import ExplorerScriptLexer
    from pygments.token import Error

    lx = ExplorerScriptLexer()
    # a token loop that makes no progress (an empty match at the end of the text, again and again) is recognised by the
    # number of tokens, long before it has eaten the memory of the machine
    cap = 50 * (len(text) + 10)
    toks = []
    for t0 in lx.get_tokens_unprocessed(text):
        toks.append(t0)
        if len(toks) > cap:
            return {"ok": False, "err": "NoProgress", "msg": f"more than {cap} tokens for {len(text)} characters; the last ones: {toks[-3:]!r}"}
    cat = "".join(t[2] for t in toks)
    pos_ok = all(t[0] == sum(len(u[2]) for u in toks[:i]) for i, t in enumerate(toks)) if len(toks) < 400 else True
    errs = [t[2] for t in toks if t[1] is Error or str(t[1]).startswith("Token.Error")]
    toks2 = []
    for t0 in lx.get_tokens(text):
        toks2.append(t0)
        if len(toks2) > cap:
            return {"ok": False, "err": "NoProgress", "msg": f"get_tokens: more than {cap} tokens for {len(text)} characters"}
    cat2 = "".join(t[1] for t in toks2)
    # Pygments' own input normalisation (Lexer._preprocess_lexer_input): BOM dropped, CRLF/CR -> LF,
    # leading/trailing newlines stripped (stripnl), one newline appended (ensurenl)
    norm = text[1:] if text.startswith("\ufeff") else text
    norm = norm.replace("\r\n", "\n").replace("\r", "\n").strip("\n") + "\n"
    errs2 = [t[1] for t in toks2 if str(t[0]).startswith("Token.Error")]
    return {"ok": True, "concat": cat == text, "positions": pos_ok, "errors": errs[:3], "concat_get_tokens": cat2 == norm,
            "errors2": errs2[:3], "empty_tokens": sum(1 for t in toks if t[2] == ""),
            "tokens": [[str(t[1]), t[2]] for t in toks]}


def oracle_case(text: str) -> dict:
    """what the real regular expressions answer at every position, for the model's matcher oracle, and the real token stream"""
    from explorerscript.pygments.expslexer import ExplorerScriptLexer

    lx = ExplorerScriptLexer()
    toks = lx._tokens
    reach, todo = set(), ["root"]
    while todo:
        st = todo.pop()
        if st in reach or st not in toks:
            continue
        reach.add(st)
        for _, _, ns in toks[st]:
            if isinstance(ns, tuple):
                todo += [x for x in ns if isinstance(x, str) and not x.startswith("#")]
    matches = []
    rid = 0
    for st in sorted(reach):           # the numbering of the translator
        for rexmatch, _, _ in toks[st]:
            for pos in range(len(text) + 1):
                m = rexmatch(text, pos)
                if m:
                    matches.append([rid, pos, m.end() - pos])
            rid += 1
    real = []
    for t in lx.get_tokens_unprocessed(text):
        real.append([str(t[1]), [ord(c) for c in t[2]]])
        if len(real) > 50 * (len(text) + 10):
            return {"ok": False, "err": "NoProgress", "msg": "the real token loop makes no progress"}
    return {"ok": True, "matches": matches, "real": real}


def unicode_strings(r: random.Random, n: int) -> list[str]:
    pools = ["abc_XYZ019 \n\t", "'\"\\/*@§$~.,;:{}[]()<>=!&^|+-", "äöüßñé日本語한글", "  \x85\x0b\x0c\x1c\r", "𝔘𝔫𝔦🎉\U0001F600", "\x00\x01\x7f﻿퟿"]
    out = []
    for _ in range(n):
        k = r.randint(0, 30)
        out.append("".join(r.choice(r.choice(pools)) for _ in range(k)))
    return out


def literal_sources(r: random.Random, n: int) -> list[str]:
    """programs around string literals spelled with every kind of escape the grammar admits (`\\` + any character),
    quotes of the other kind, both triple-quote forms, language strings, comments next to them"""
    esc_chars = "nrt\\'\"%dxu0 {}()/*#@$~äé日\U0001F600"
    plain = "abc XYZ 019 _,.;:!?-+=<>[]{}()/*@$~%&|^äé日"
    out = []
    for _ in range(n):
        parts = []
        for _ in range(r.randint(1, 3)):
            q = r.choice(["'", '"', "'''", '"""'])
            body = ""
            for _ in range(r.randint(0, 8)):
                x = r.random()
                if x < 0.35:
                    body += "\\" + r.choice(esc_chars)
                elif x < 0.45:
                    body += r.choice(["'", '"']) if len(q) == 3 else ("'" if q == '"' else '"')
                elif x < 0.5 and len(q) == 3:
                    body += "\n" + " " * r.randint(0, 4)
                else:
                    body += r.choice(plain)
            if len(q) == 3 and body.endswith(q[0]):
                body += " "
            parts.append(q + body + q)
        form = r.randrange(4)
        if form == 0:
            stmt = f"op({', '.join(parts)});"
        elif form == 1:
            stmt = f"op({{english={parts[0]}, german={parts[-1]}}});"
        elif form == 2:
            stmt = f"message_SwitchTalk ($V) {{\n        case 1:\n            {parts[0]}\n    }}"
        else:
            stmt = f"op({parts[0]}); /* {r.choice(plain)} */ op2({parts[-1]}); // tail {r.choice(plain)}"
        out.append("def 0 {\n    " + stmt + "\n    end;\n}\n")
    return out


def main() -> None:
    run = Run("C17", "proof")
    run.forbid()
    run.require_vo(["Pyg/Engine.v", "Gen/PygTable.v", "Pyg/Proofs.v"])
    run.props("Props/C17.v")
    q = run.tier == "quick"
    r = random.Random(f"C17-{run.seed}")
    texts: list[tuple[str, bool]] = [(s, False) for s in structured_strings(r, 300 if q else 4000)]
    texts += [(s, False) for s in unicode_strings(r, 500 if q else 8000)]
    texts += [(s, False) for s in exhaustive_strings(3 if q else 4)]
    texts += [(s, False) for s in ['"""a"b""c"""', "'''x''y'''z", "//c", "/* open", "0x1F 0b101 0o17 017 .5 5.5 a5", "§l @l $v ~m(1)",
                                    "for_actor(1) TRUEish not_a_kw", '"unterminated', "'''unterminated '' ' "]]
    progs = []
    for i in range(200 if q else 3000):
        g = Gen(random.Random(f"C17-{run.seed}-{i}"), Cfg(max_depth=2, max_block=3))
        progs.append(print_prog(g.program()))
    # re-spellings of the same programs (comments and line joining at token boundaries, quote styles, number bases, ..)
    var = run_impl([("checks.c16:variants", p, f"C17-{run.seed}-{i}", 2) for i, p in enumerate(progs[: (100 if q else 1500)])])
    for v in var:
        if v.get("ok"):
            progs += v["variants"]
    progs += literal_sources(r, 400 if q else 6000)
    texts += [(p, False) for p in progs]
    # whether the compiler accepts a text is asked of the compiler, for every text
    comp = run_impl([("compile", t) for t, _ in texts])
    texts = [(t, c["ok"]) for (t, _), c in zip(texts, comp)]
    res = run_impl([("checks.c17:lex_case", t, acc) for t, acc in texts])
    for (t, acc), o in zip(texts, res):
        run.case(t, nontrivial=len(t) > 0)
        if not o.get("ok"):
            run.fail("lexer:" + o.get("err", "?"), f"lexer fails ({o.get('err')}) on {t[:60]!r}", {"text": t, "observed": o})
            continue
        if not o["concat"] or not o["positions"]:
            run.fail("concat", f"token texts do not add up to the input {t[:60]!r}", {"text": t, "tokens": o["tokens"][:50]})
        if not o["concat_get_tokens"]:
            run.fail("concat-get_tokens", f"get_tokens() loses text on {t[:60]!r}", {"text": t})
        if acc and (o["errors"] or o["errors2"]):
            run.fail("error-token-on-accepted-source", f"error token {o['errors']!r} on a source the compiler accepts", {"text": t})
        if o["errors"]:
            run.count("error-tokens-on-arbitrary-text")
        run.count("accepted-sources" if acc else "arbitrary-texts")
    # correspondence: the extracted token loop (Pyg/Engine.v) on the regenerated table, with the real regular
    # expressions' answers as oracle, must give the real token stream
    sub = [t for t, _ in texts if len(t) <= 200][:: (3 if q else 2)]
    ora = run_impl([("checks.c17:oracle_case", t) for t in sub])
    okc = [(t, o) for t, o in zip(sub, ora) if o.get("ok")]
    mod = run_driver([[A("pyg"), [ord(c) for c in t], o["matches"]] for t, o in okc])
    first_div = None
    for (t, o), m in zip(okc, mod):
        same = m.get("r") == "ok" and m["tokens"] == o["real"]
        run.count("engine-correspondence:" + ("ok" if same else "DIFF"))
        if not same and first_div is None:
            first_div = (t, m, o["real"])
    if first_div is not None:
        run.correspondence_broken("K-pyg token loop (Pyg/Engine.v vs RegexLexer.get_tokens_unprocessed)",
                                  "the model's token stream differs from the real lexer's",
                                  {"text": first_div[0], "model": first_div[1], "real": first_div[2][:40]})
    run.sample({"text": texts[0][0], "tokens": res[0].get("tokens", [])[:8]})
    run.finish(rule="structured strings, random Unicode (astral planes, separators, controls), all strings over a 6-letter alphabet "
                    "up to length 3/4, G_prog sources (accepted ones must yield no error token); each under a timeout")


if __name__ == "__main__":
    main()
