#!/venv/bin/python
"""C12 - concurrent compilation and decompilation give the sequential results (stress exploration)."""
from __future__ import annotations

import json
import os
import random
import sys

sys.path.insert(0, os.path.join(os.path.dirname(os.path.abspath(__file__)), ".."))
from core import run_impl  # noqa: E402
from decomp import gen_cases  # noqa: E402
from framework import Run  # noqa: E402
from gen_prog import Cfg, Gen, MacroGen  # noqa: E402
from lang import print_prog  # noqa: E402


def threaded(calls: list, nthreads: int, seed: int) -> dict:
    """run the calls sequentially, then concurrently from nthreads threads (random assignment); compare"""
    import threading
    from checks.c11 import one_call

    import audit
    audit.import_all()
    memo = audit.install_memo()
    base = audit.snapshot()
    # ownership: a call writes nothing another thread could see.  While every third call of the sequential pass runs, the
    # shared state (module-level and class-level values, memo table excluded) is sampled every few hundred function calls
    # and compared with start-up: a shared container that is written during a call and restored before it ends (a
    # class-level stack, a module-level scratch list) shows up here and nowhere else without a lucky interleaving
    mid: list = []
    state = {"n": 0, "busy": False}

    def prof(frame, event, arg):  # noqa
        if event != "call" or state["busy"]:
            return
        state["n"] += 1
        if state["n"] % 400 == 0 and len(mid) < 5:
            state["busy"] = True
            try:
                d = audit.residue(base)
                if d:
                    mid.append([d[:5], frame.f_code.co_name])
            finally:
                state["busy"] = False

    seq = []
    for k, c in enumerate(calls):
        if k % 3 == 0:
            sys.setprofile(prof)
        try:
            seq.append(one_call(c, {"gc": False}))
        finally:
            sys.setprofile(None)
    memo.generation += 1          # what the sequential pass left in the memo table belongs to nobody now
    memo.foreign_reads.clear()
    sys.setswitchinterval(1e-6)
    r = random.Random(seed)
    assign = [r.randrange(nthreads) for _ in calls]
    results: list = [None] * len(calls)
    errors: list = []
    barrier = threading.Barrier(nthreads)

    def work(t: int) -> None:
        barrier.wait()
        for i, c in enumerate(calls):
            if assign[i] == t:
                try:
                    results[i] = one_call(c, {"gc": False})
                except BaseException as e:  # noqa
                    errors.append([i, type(e).__name__, str(e)[:200]])

    ths = [threading.Thread(target=work, args=(t,)) for t in range(nthreads)]
    for t in ths:
        t.start()
    for t in ths:
        t.join()
    sys.setswitchinterval(0.005)
    diffs = [i for i in range(len(calls)) if results[i] != seq[i]]
    return {"ok": True, "diffs": diffs, "errors": errors, "residue": audit.residue(base), "foreign": list(memo.foreign_reads[:3]),
            "mid": mid[:2],
            "detail": [{"call": calls[i][0], "seq": {k: v for k, v in seq[i].items() if k in ("ok", "err")},
                        "par": {k: v for k, v in (results[i] or {}).items() if k in ("ok", "err")},
                        "part": next((k for k in ("ok", "err", "ops", "text", "sm") if (results[i] or {}).get(k) != seq[i].get(k)), "?")}
                       for i in diffs[:3]]}


def main() -> None:
    run = Run("C12", "proof")
    run.forbid()
    run.require_vo(["Hist/Frame.v"])
    run.props("Props/C12.v")
    q = run.tier == "quick"
    r = random.Random(f"C12-{run.seed}")
    texts = []
    for i in range(80 if q else 600):
        rr = random.Random(f"C12-{run.seed}-p{i}")
        g = (MacroGen if rr.random() < 0.3 else Gen)(rr, Cfg(max_depth=2, max_block=3, max_routines=2))
        texts.append(print_prog(g.macro_program(1)["flat"] if isinstance(g, MacroGen) else g.program()))
    ssb_cases, _ = gen_cases(run.seed, 60 if q else 400, 40 if q else 300, 60 if q else 400, "C12")
    # sources with syntax errors and statically invalid ones run next to valid ones (a quarter of the compile calls)
    broken = []
    for j, t in enumerate(texts[: len(texts) // 3]):
        k = t.find(")")
        broken.append(t[:k] + t[k + 1:] if k >= 0 and j % 2 == 0 else t + "\n}")
    pool = [["compile", t] for t in texts] + [["compile", t] for t in broken] + \
        [["compile", "def 0 {\n    jump @nowhere;\n}\n"], ["compile", "def 0 {"]] + \
        [["decompile", c.ops, c.infos, c.coros] for c in ssb_cases]
    jobs = []
    for j in range(24 if q else 300):
        n = r.randint(8, 24)
        calls = [r.choice(pool) for _ in range(n)]
        jobs.append((calls, r.choice([2, 4, 8]), r.randrange(10 ** 6)))
    outs = run_impl([("checks.c12:threaded", c, n, s) for c, n, s in jobs], chunksize=1)
    owner_broken = None
    for (calls, n, s), o in zip(jobs, outs):
        run.case([n, s, [c[0] for c in calls]], nontrivial=True)
        if not o.get("ok"):
            run.fail("stress-crash:" + str(o.get("err")), f"stress run failed: {o.get('err')} {o.get('msg', '')[:200]}", {"calls": calls, "threads": n})
            continue
        if o["errors"]:
            run.fail("raises-under-concurrency:" + o["errors"][0][1], f"a call raises under concurrency: {o['errors'][0]}", {"calls": calls, "threads": n, "seed": s})
        if o["diffs"]:
            d = o["detail"][0]
            run.fail(f"differs-under-concurrency:{d['call']}:{d['part']}", f"{len(o['diffs'])} of {len(calls)} calls return something else than alone: {d}",
                     {"calls": calls, "threads": n, "seed": s})
        run.count("stress-runs:" + ("ok" if not o["diffs"] and not o["errors"] else "FAIL"))
        run.count("ownership-conditions:" + ("ok" if not o["residue"] and not o["foreign"] else "BROKEN"))
        if o["foreign"] and owner_broken is None:
            owner_broken = ("step_reads_own", f"a thread reads memo entries written by another thread or an earlier pass: {o['foreign'][:2]}",
                            {"calls": calls, "threads": n, "seed": s})
        run.count("ownership (sampled during calls):" + ("ok" if not o.get("mid") else "BROKEN"))
        if o.get("mid") and owner_broken is None:
            owner_broken = ("step_writes_own", f"shared values differ from start-up while a call runs (sampled in {o['mid'][0][1]}): {o['mid'][0][0]}",
                            {"calls": calls, "threads": n, "seed": s})
        if o["residue"] and owner_broken is None:
            owner_broken = ("step_writes_own", f"shared values differ from start-up after the threads finished: {o['residue'][:5]}",
                            {"calls": calls, "threads": n, "seed": s})
    if owner_broken is not None:
        run.correspondence_broken("ownership condition " + owner_broken[0] + " of Hist/Frame.v (Schedules)", owner_broken[1], owner_broken[2])
    run.sample({"threads": jobs[0][1], "calls": [c[0] for c in jobs[0][0]]})
    run.assume("CPython thread switches inside antlr4 / igraph internals can only be provoked (sys.setswitchinterval(1e-6)), not enumerated")
    run.finish(rule="2/4/8 threads, random assignment of 8-24 mixed compile/decompile calls (valid and failing inputs) to threads, switch "
                    "interval 1 microsecond; every result compared with the sequential run of the same call in the same process")


if __name__ == "__main__":
    main()
