#!/venv/bin/python
"""C05 - a macro call means its body inlined, in any definition order and file layout."""
from __future__ import annotations

import itertools
import os
import random
import sys

sys.path.insert(0, os.path.join(os.path.dirname(os.path.abspath(__file__)), ".."))
from core import A, run_driver, run_impl, ssb_side, PERF  # noqa: E402
from framework import Run  # noqa: E402
from gen_prog import Cfg, MacroGen, prog_size  # noqa: E402
from lang import P_c, P_i, P_s, print_prog  # noqa: E402
from shrink import prog_candidates, shrink, skeleton  # noqa: E402
from checks.c01 import tables_match  # noqa: E402


def srcm_side(p: list) -> list:
    return [A("srcm"), PERF, p]


def judge(prog: list, res: dict, eq: dict) -> str | None:
    if not res["ok"]:
        if "acro" in res["msg"] or res["err"] == "Timeout":
            return f"acyclic macro program is rejected: {res['err']}: {res['msg'][:150]}"
        return None   # rejected for another reason (C01/C10 decide about those)
    if eq["r"] in ("ok", "cycle"):
        return tables_match(prog, res)
    if eq["r"] == "err" and eq.get("side") == 1:
        return None   # outside the domain of the macro semantics (e.g. stray break in a macro body)
    if eq["r"] == "fail":
        return f"behaviour differs from the inlined program at {eq['pair']}: inlined {eq['o1']} vs compiled {eq['o2']}"
    return f"equivalence check: {eq['r']} {eq.get('msg', '')}"


def calls_in(ss: list) -> list:
    out = []
    for s in ss:
        k = s[0]
        if k == "macrocall":
            out.append((s[1], len(s) - 2))
        elif k == "if":
            out += calls_in(s[3]) + sum((calls_in(e[2]) for e in s[4]), []) + (calls_in(s[5][0]) if s[5] else [])
        elif k == "switch":
            out += sum((calls_in(c[-1]) for c in s[2]), [])
        elif k == "forever":
            out += calls_in(s[1])
        elif k == "while":
            out += calls_in(s[3])
        elif k == "for":
            out += calls_in(s[4])
    return out


def macros_static_ok(prog: list) -> bool:
    """every call (also inside never-called macros) names a defined macro with enough arguments; no cycle"""
    defs = {m[1]: len(m[2]) for m in prog[1]}
    if len(defs) != len(prog[1]):
        return False
    graph = {}
    for m in prog[1]:
        cs = calls_in(m[3])
        if any(n not in defs or a < defs[n] for n, a in cs):
            return False
        graph[m[1]] = {n for n, _ in cs}
    for r in prog[2]:
        if any(n not in defs or a < defs[n] for n, a in calls_in(r[6])):
            return False
    seen: dict = {}

    def dfs(n: str) -> bool:
        if seen.get(n) == 1:
            return False
        if seen.get(n) == 2:
            return True
        seen[n] = 1
        ok = all(dfs(x) for x in graph[n])
        seen[n] = 2
        return ok

    return all(dfs(n) for n in graph)


def domain_ok(prog: list) -> bool:
    if not macros_static_ok(prog):
        return False
    eq = run_driver([[A("cfg"), srcm_side(prog)]], nproc=1)[0]
    return eq["r"] == "ok"


def fails_now(prog: list) -> bool:
    if not domain_ok(prog):
        return False
    res = run_impl([("compile", print_prog(prog))])[0]
    eq = run_driver([[A("equiv"), srcm_side(prog), ssb_side(res["ops"])]], nproc=1)[0] if res["ok"] else {"r": "n/a"}
    return judge(prog, res, eq) is not None


def shapes() -> list[tuple[str, list]]:
    def op(n, *ps):
        return [A("op"), None, n, *ps]

    def mac(name, vars_, body):
        return [A("macro"), name, vars_, body]

    def call(name, *args):
        return [A("macrocall"), name, *args]

    def gen(i, body):
        return [A("routine"), i, A("generic"), None, None, False, body]

    out = []
    # diamond a -> {b, c}, b -> c in every definition order
    ms = {"a": mac("a", [], [call("b"), call("c"), op("in_a")]), "b": mac("b", [], [call("c"), op("in_b")]),
          "c": mac("c", [], [op("in_c")])}
    for perm in itertools.permutations("abc"):
        out.append(("diamond:" + "".join(perm), [A("prog"), [ms[k] for k in perm], [gen(0, [call("a"), [A("ctrl"), A("end")]])]]))
    # chain depth 4 in reverse and forward order
    chain = [mac(f"c{i}", ["$x"], [op(f"o{i}", P_c("$x")), call(f"c{i + 1}", P_c("$x"))] if i < 3 else [op("o3", P_c("$x"))]) for i in range(4)]
    for name, order in (("fwd", chain), ("rev", chain[::-1]), ("mixed", [chain[2], chain[0], chain[3], chain[1]])):
        out.append(("chain:" + name, [A("prog"), list(order), [gen(0, [call("c0", P_i(7)), [A("ctrl"), A("end")]])]]))
    # return at depth, last statement of a routine, called twice
    m = mac("r", ["$v"], [[A("if"), False, [[A("neg"), False, A("debug")]], [[A("ctrl"), A("return")]], [], None], op("after", P_c("$v"))])
    out.append(("return_in_if_last", [A("prog"), [m], [gen(0, [op("a"), call("r", P_s("s"))])]]))
    out.append(("return_twice", [A("prog"), [m], [gen(0, [call("r", P_i(1)), call("r", P_i(2)), [A("ctrl"), A("end")]])]]))
    # private labels, called twice
    m2 = mac("l", [], [[A("label"), "top"], op("x"), [A("if"), False, [[A("neg"), False, A("edit")]], [[A("jump"), "top"]], [], None]])
    out.append(("private_labels", [A("prog"), [m2], [gen(0, [call("l"), call("l"), [A("ctrl"), A("end")]])]]))
    # call inside blocks
    out.append(("call_in_switch", [A("prog"), [m], [gen(0, [[A("switch"), [A("var"), P_c("$V")], [[A("case"), [A("int"), P_i(1)], [call("r", P_i(1)), [A("ctrl"), A("break")]]], [A("default"), [call("r", P_i(2))]]]], op("z"), [A("ctrl"), A("end")]])]]))
    # control statements as the statement of a with-block inside macros: private labels, return leaves the expansion
    m3 = mac("wr", [], [[A("with"), "actor", P_i(1), [A("ctrl"), A("return")]], op("never")])
    out.append(("with_return_in_macro", [A("prog"), [m3], [gen(0, [call("wr"), op("z"), call("wr"), [A("ctrl"), A("end")]])]]))
    m4 = mac("wj", [], [[A("with"), "object", P_i(2), [A("jump"), "skip"]], op("skipped"), [A("label"), "skip"], op("after")])
    out.append(("with_jump_in_macro", [A("prog"), [m4], [gen(0, [call("wj"), call("wj"), [A("ctrl"), A("end")]])]]))
    return out


def share_label_names(x):  # type: ignore
    """the labels of different macro bodies get the same names (m3_l0 -> l0): a label is private to its macro and to each
    expansion, whatever other macros call theirs"""
    import re
    if isinstance(x, list):
        if len(x) == 2 and isinstance(x[0], A) and x[0] in ("label", "jump", "call") and isinstance(x[1], str) and not isinstance(x[1], A):
            m = re.fullmatch(r"m\d+_l(\d+)", x[1])
            return [x[0], "l" + m.group(1)] if m else x
        return [share_label_names(y) for y in x]
    return x


def main() -> None:
    run = Run("C05", "translation_validation")
    run.forbid()
    run.require_vo(["Ssb/EquivSound.v", "Lang/Inline.v", "Lang/InlineProofs.v", "Lang/MacroStatic.v", "Lang/InlineFree.v", "Lang/SrcSem.v", "Comp/MacroBuild.v", "Comp/MacroBuildProofs.v", "Comp/RenameSem.v", "Comp/ExpandSame.v", "Comp/ReturnSem.v", "Comp/DefsOnce.v"])
    run.props("Props/C05.v")
    run.props("Props/C01.v")
    q = run.tier == "quick"
    cases: list[tuple[str, list]] = shapes()
    for i in range(700 if q else 10000):
        r = random.Random(f"C05-{run.seed}-{i}")
        g = MacroGen(r, Cfg(max_depth=2, max_block=2, max_routines=2, loops=r.random() < 0.5, terminator_prob=0.6))
        mp = g.macro_program(1)
        flat = mp["flat"]
        # single file: definition order permuted
        ms = list(flat[1])
        r.shuffle(ms)
        if i % 3 == 0:
            ms = [share_label_names(m) for m in ms]
            run.count("label names shared between macros")
        cases.append((f"random:{run.seed}:{i}", [flat[0], ms, flat[2]]))
    doms = run_driver([[A("cfg"), srcm_side(p)] for _, p in cases])
    cases = [c for c, d in zip(cases, doms) if d["r"] == "ok"]
    run.count("in-domain", len(cases))
    # macro definitions before, between and after the routines (every other program: interleaved at random)
    texts = [print_prog(p, mix=random.Random(f"C05-mix-{run.seed}-{k}") if k % 2 else None) for k, (_, p) in enumerate(cases)]
    results = run_impl([("compile", t) for t in texts])
    idx = [i for i, r in enumerate(results) if r["ok"]]
    eqs = dict(zip(idx, run_driver([[A("equiv"), srcm_side(cases[i][1]), ssb_side(results[i]["ops"])] for i in idx])))
    failing = []
    for i, ((name, p), res) in enumerate(zip(cases, results)):
        run.case(p, nontrivial=len(p[1]) >= 1)
        if not res["ok"]:
            run.count("compile:" + res["err"])
        why = judge(p, res, eqs.get(i, {"r": "n/a"}))
        run.count("macro-semantics:" + ("ok" if why is None else "FAIL"))
        if why is not None:
            failing.append((prog_size(p) + 3 * len(p[1]), name, p, why))
    run.sample({"case": cases[0][0], "source": texts[0]})
    failing.sort(key=lambda t: t[0])
    seen = set()
    for n, (_, name, p, why) in enumerate(failing):
        small = shrink(p, prog_candidates, fails_now, budget=300) if n < (10 if q else 30) else p
        sig = skeleton(small)
        if sig in seen:
            continue
        seen.add(sig)
        st = print_prog(small)
        sres = run_impl([("compile", st)])[0]
        seq = run_driver([[A("equiv"), srcm_side(small), ssb_side(sres["ops"])]], nproc=1)[0] if sres["ok"] else {"r": "n/a"}
        why = judge(small, sres, seq) or why
        run.fail(sig, why, {"case": name, "source": st, "original_source": print_prog(p), "compile": {k: v for k, v in sres.items() if k in ("ok", "err", "msg", "ops")}})
    # K-build: Comp/MacroBuild.v against every invocation of ExplorerScriptMacro.build in these compilations
    from kbuild import check_kbuild
    check_kbuild(run, texts[: (260 if q else 3000)])
    # imports: directory layouts x lookup paths (see checks/c05_imports)
    from checks.c05_imports import run_imports
    run_imports(run, q)
    run.assume("K-build: the model Comp/MacroBuild.v is tied to ExplorerScriptMacro.build by comparing, for every invocation in these "
               "compilations, the emitted items and both counters (the length stored in start labels is left to C08's K-ra); the theorems "
               "about expansions (renaming, private labels, same code) are about that model; that blueprints mean the macro bodies is "
               "validated per program, not proved")
    run.assume("macro semantics = Lang/Inline.v (substitution, private labels, return -> end of expansion); macro arguments never "
               "name the PERFORMANCE_PROGRESS_LIST variable (its bit forms are chosen when the macro is defined)")
    run.finish(rule="macro programs: random acyclic call graphs (depth up to 5) in random definition order, all argument kinds, "
                    "return at any depth, labels in bodies, calls inside blocks; named shapes (diamond in all 6 orders, chains); "
                    "import layouts in real temporary directories")


if __name__ == "__main__":
    main()
