#!/venv/bin/python
"""C15 - the compile CLI prints what the decompile CLI (and the docs) expect."""
from __future__ import annotations

import json
import os
import random
import subprocess
import sys
import tempfile
from concurrent.futures import ThreadPoolExecutor

sys.path.insert(0, os.path.join(os.path.dirname(os.path.abspath(__file__)), ".."))
from core import A, PERF, DM_CONSTS, REPO, program_sexp, run_driver, run_impl, src_side, ssb_side  # noqa: E402
from framework import Run  # noqa: E402
from gen_prog import Cfg, Gen, prog_size  # noqa: E402
from gen_ssb import JUMP_IDX  # noqa: E402
from lang import print_prog  # noqa: E402
from shrink import prog_candidates, shrink, skeleton  # noqa: E402

SETTINGS = {"settings": {"performance_progress_list_var_name": PERF,
                         "dungeon_mode_constants": {"closed": DM_CONSTS[0], "open": DM_CONSTS[1], "request": DM_CONSTS[2],
                                                    "open_request": DM_CONSTS[3]}}}
ENV = dict(os.environ, PYTHONPATH=REPO, PYTHONHASHSEED="0", PYTHONWARNINGS="ignore")


def cli_compile(src: str, settings: dict | None = None) -> dict:
    with tempfile.TemporaryDirectory(prefix="verif_cli_") as d:
        sp, st = os.path.join(d, "main.exps"), os.path.join(d, "settings.json")
        open(sp, "w", encoding="utf-8").write(src)
        json.dump(SETTINGS if settings is None else settings, open(st, "w"))
        try:
            p = subprocess.run(["/venv/bin/python", "-m", "explorerscript.cli.compile", sp, "--settings", st], capture_output=True,
                               text=True, timeout=60, env=ENV, cwd=d)
            return {"rc": p.returncode, "out": p.stdout, "err": p.stderr[-400:]}
        except subprocess.TimeoutExpired:
            return {"rc": "timeout", "out": "", "err": ""}


def cli_decompile(doc: dict | str) -> dict:
    with tempfile.TemporaryDirectory(prefix="verif_cli_") as d:
        jp = os.path.join(d, "model.json")
        open(jp, "w", encoding="utf-8").write(doc if isinstance(doc, str) else json.dumps(doc))
        try:
            p = subprocess.run(["/venv/bin/python", "-m", "explorerscript.cli.decompile", jp], capture_output=True, text=True,
                               timeout=60, env=ENV, cwd=d)
            return {"rc": p.returncode, "out": p.stdout, "err": p.stderr[-400:]}
        except subprocess.TimeoutExpired:
            return {"rc": "timeout", "out": "", "err": ""}


def check_shape(doc: dict) -> str | None:
    if not isinstance(doc, dict) or set(doc.keys()) != {"settings", "routines"}:
        return "top-level keys"
    if doc["settings"] != SETTINGS["settings"]:
        return "settings are not echoed"
    for r in doc["routines"]:
        t = r.get("type")
        want = {"COROUTINE": {"type", "name", "ops"}, "GENERIC": {"type", "ops"}}.get(t, {"type", "target_id", "ops"})
        if t not in ("COROUTINE", "GENERIC", "ACTOR", "OBJECT", "PERFORMER") or set(r.keys()) != want:
            return f"routine keys {sorted(r.keys())} for type {t}"
        if t == "COROUTINE" and not isinstance(r["name"], str):
            return "coroutine name"
        if "target_id" in r and not isinstance(r["target_id"], (int, str)):
            return "target_id type"
        for op in r["ops"]:
            if set(op.keys()) != {"opcode", "params"} or not isinstance(op["opcode"], str):
                return "op keys"
            for p in op["params"]:
                if isinstance(p, bool):
                    return "bool param"
                if isinstance(p, int):
                    continue
                if not isinstance(p, dict) or set(p.keys()) != {"type", "value"}:
                    return "param shape"
                ty, v = p["type"], p["value"]
                ok = (ty in ("FIXED_POINT", "CONSTANT", "CONST_STRING") and isinstance(v, str)) or \
                     (ty == "LANG_STRING" and isinstance(v, dict) and all(isinstance(a, str) and isinstance(b, str) for a, b in v.items())) or \
                     (ty == "POSITION_MARK" and isinstance(v, dict) and set(v.keys()) == {"name", "x", "y"} and isinstance(v["name"], str))
                if not ok:
                    return f"param {p}"
    return None


def ops_of_doc(doc: dict) -> list[list[dict]]:
    """the routine set as a consumer following the docs reads it: ops numbered 1.. across all routines"""
    out, n = [], 0
    for r in doc["routines"]:
        rr = []
        for op in r["ops"]:
            n += 1
            ps = []
            for p in op["params"]:
                if isinstance(p, int):
                    ps.append(["i", p])
                elif p["type"] == "FIXED_POINT":
                    ps.append(["f", p["value"]])
                elif p["type"] == "CONSTANT":
                    ps.append(["c", p["value"]])
                elif p["type"] == "CONST_STRING":
                    ps.append(["s", p["value"]])
                elif p["type"] == "LANG_STRING":
                    ps.append(["l", [[k, v] for k, v in p["value"].items()]])
                else:
                    def co(v):
                        s = str(v)
                        return (int(s.split(".")[0]), 2) if "." in s else (int(s), 0)
                    (xr, xo), (yr, yo) = co(p["value"]["x"]), co(p["value"]["y"])
                    ps.append(["p", p["value"]["name"], xo, yo, xr, yr])
            rr.append({"off": n, "code": op["opcode"], "params": ps})
        out.append(rr)
    return out


def judge(prog: list, inproc: dict, cli: dict) -> tuple[str | None, dict | None]:
    if cli["rc"] == "timeout":
        return "compile CLI does not terminate", None
    if inproc["ok"] != (cli["rc"] == 0):
        return f"exit status {cli['rc']} although compilation {'succeeds' if inproc['ok'] else 'fails'}", None
    if not inproc["ok"]:
        return None, None
    try:
        doc = json.loads(cli["out"])
    except ValueError:
        return "stdout is not JSON", None
    sh = check_shape(doc)
    if sh:
        return "JSON structure: " + sh, doc
    return None, doc


def documented_docs() -> list[tuple[str, dict]]:
    def op(code, *ps):
        return {"opcode": code, "params": list(ps)}

    allp = [5, {"type": "FIXED_POINT", "value": "123.456"}, {"type": "CONSTANT", "value": "LEVEL_XYZ"},
            {"type": "CONST_STRING", "value": "Hello World"},
            {"type": "LANG_STRING", "value": {"english": "Hello World!", "german": "Hallo Welt!"}},
            {"type": "POSITION_MARK", "value": {"name": "Name of the mark", "x": 10, "y": 20}}]
    docs = []
    docs.append(("coroutine", {"routines": [{"type": "COROUTINE", "name": "NAME", "ops": [op("a"), op("Return")]}]}))
    docs.append(("two_coroutines", {"routines": [{"type": "COROUTINE", "name": "A", "ops": [op("a"), op("Return")]},
                                                {"type": "COROUTINE", "name": "B", "ops": [op("b"), op("End")]}]}))
    docs.append(("all_routine_types", {"routines": [{"type": "GENERIC", "ops": [op("a"), op("End")]},
                                                    {"type": "ACTOR", "target_id": 3, "ops": [op("b"), op("End")]},
                                                    {"type": "OBJECT", "target_id": "OBJECT_X", "ops": [op("c"), op("Hold")]},
                                                    {"type": "PERFORMER", "target_id": 0, "ops": [op("d"), op("End")]}]}))
    docs.append(("mixed_routine_types", {"routines": [{"type": "GENERIC", "ops": [op("a"), op("End")]},
                                                      {"type": "ACTOR", "target_id": 3, "ops": [op("b"), op("End")]},
                                                      {"type": "COROUTINE", "name": "LATE", "ops": [op("c"), op("Return")]},
                                                      {"type": "OBJECT", "target_id": 1, "ops": [op("d"), op("Hold")]},
                                                      {"type": "COROUTINE", "name": "LATER", "ops": [op("e"), op("Return")]}]}))
    docs.append(("all_argument_types", {"routines": [{"type": "GENERIC", "ops": [op("a", *allp), op("End")]}]}))
    docs.append(("posmark_string_coords", {"routines": [{"type": "GENERIC", "ops": [
        op("a", {"type": "POSITION_MARK", "value": {"name": "m", "x": "10", "y": "10.5"}}), op("End")]}]}))
    docs.append(("posmark_half_int", {"routines": [{"type": "GENERIC", "ops": [
        op("a", {"type": "POSITION_MARK", "value": {"name": "m", "x": 10.5, "y": 3}}), op("End")]}]}))
    docs.append(("jumps_1_based", {"routines": [{"type": "GENERIC", "ops": [op("BranchDebug", 1, 3), op("a"), op("b"), op("End")]},
                                                {"type": "GENERIC", "ops": [op("c"), op("Jump", 3)]}]}))
    return [(n, dict(d, **SETTINGS)) for n, d in docs]


def main() -> None:
    run = Run("C15", "translation_validation")
    run.forbid()
    run.require_vo(["Ssb/EquivSound.v", "Script/Renumber.v", "Script/Shift.v"])
    run.props("Props/C01.v")
    run.props("Props/C15.v")
    q = run.tier == "quick"
    progs = []
    for i in range(120 if q else 1500):
        r = random.Random(f"C15-{run.seed}-{i}")
        pr = Gen(r, Cfg(max_depth=2, max_block=3, max_routines=3, terminator_prob=0.8)).program()
        if r.random() < 0.3:
            # routine kinds mixed in one file (coroutines before, between and after other routines)
            pr = [pr[0], pr[1], [([rt[0], rt[1], A("coroutine"), None, [f"CORO_{rt[1]}"], rt[5], rt[6]] if r.random() < 0.5 else rt)
                                for rt in pr[2]]]
        progs.append(pr)
    # directed: routines that end in a call of an earlier label after a loop (the call closes a cycle and is the last op)
    directed = ["def 0 {\n    while (debug) {\n        z();\n    }\n    @l1;\n    if (edit) {\n        a();\n    }\n    b();\n    call @l1;\n}\n",
                "def 0 {\n    for (x(); debug; y();) {\n        z();\n    }\n    @l1;\n    b();\n    call @l1;\n}\n",
                "def 0 {\n    forever {\n        z();\n        if (debug) {\n            break_loop;\n        }\n    }\n    @l1;\n    b();\n    call @l1;\n}\n"
                "def 1 {\n    @l2;\n    while (edit) {\n        c();\n        call @l2;\n    }\n    call @l2;\n}\n"]
    for el in run_impl([("lang:parse_and_elab", t) for t in directed]):
        if el.get("ok"):
            progs.append(el["ast"])
    texts = [print_prog(p) for p in progs]
    texts_extra = ["def 0 {\n    jump @nowhere;\n}\n", "def 0 {", ""]
    inproc = run_impl([("compile", t) for t in texts + texts_extra])
    with ThreadPoolExecutor(16) as ex:
        clis = list(ex.map(cli_compile, texts + texts_extra))
    docs: list[dict | None] = []
    failing = []
    for i, t in enumerate(texts + texts_extra):
        p = progs[i] if i < len(progs) else None
        run.case(t, nontrivial=len(t) > 10)
        why, doc = judge(p, inproc[i], clis[i])
        docs.append(doc if why is None else None)
        run.count("compile-cli:" + ("ok" if why is None else "FAIL"))
        if why:
            run.fail("cli-compile:" + why.split(":")[0][:40], why, {"source": t, "cli": clis[i]})
    # K-cli: the document, numbered as documented, is the model's cli_number of what the compiler produced in process
    # (theorem C15_cli_numbering_preserves_flow: that numbering keeps the flow graph of every well-formed routine set)
    from capture import canon_op
    kidx = [i for i in range(len(progs)) if docs[i] is not None and inproc[i]["ok"]]
    kmod = run_driver([[A("clinum"), program_sexp(inproc[i]["ops"])] for i in kidx])
    kfirst = None
    for i, mo in zip(kidx, kmod):
        want = json.loads(json.dumps(ops_of_doc(docs[i])))
        got = json.loads(json.dumps([[canon_op(o) for o in r] for r in mo["ops"]])) if mo.get("r") == "ok" else None
        same = got == want
        run.count("K-cli:" + ("ok" if same else "DIFF"))
        if not same and kfirst is None:
            kfirst = {"source": texts[i], "document_as_numbered": want, "model": got, "compiled_in_process": inproc[i]["ops"]}
    if kfirst is not None:
        run.correspondence_broken("K-cli (Script/Shift.v cli_number)", "the compile command's JSON, numbered as documented, differs from cli_number of the compiled routines", kfirst)
    # jump parameters: the document, numbered as documented, must behave like the source
    idx = [i for i in range(len(progs)) if docs[i] is not None]
    eqs = run_driver([[A("equiv"), src_side(progs[i]), ssb_side(ops_of_doc(docs[i]))] for i in idx])
    bad = []
    for i, eq in zip(idx, eqs):
        if eq["r"] not in ("ok", "cycle") and not (eq["r"] == "err" and eq.get("side") == 1):
            bad.append((prog_size(progs[i]), i, eq))
        run.count("json-vs-source:" + eq["r"])

    def fails_now(p: list) -> bool:
        t = print_prog(p)
        c = cli_compile(t)
        if c["rc"] != 0:
            return False
        try:
            d = json.loads(c["out"])
            eq = run_driver([[A("equiv"), src_side(p), ssb_side(ops_of_doc(d))]], nproc=1)[0]
        except Exception:  # noqa
            return False
        return eq["r"] == "fail"

    bad.sort(key=lambda t: t[0])
    seen = set()
    for n, (_, i, eq) in enumerate(bad):
        small = shrink(progs[i], prog_candidates, fails_now, budget=60) if n < 2 else progs[i]
        sig = "jump-numbering:" + skeleton(small) if n < 2 else "jump-numbering"
        if sig in seen:
            continue
        seen.add(sig)
        st = print_prog(small)
        c = cli_compile(st)
        run.fail(sig, "the printed JSON, numbered as documented (1-based positions), does not behave like the source: "
                 f"{eq.get('o1')} vs {eq.get('o2')}", {"source": st, "stdout": c["out"]})
    # feed to the decompile CLI
    sub = idx[: (60 if q else 600)] + [i for i in idx[(60 if q else 600):] if i >= len(progs) - len(directed)]
    with ThreadPoolExecutor(16) as ex:
        decs = list(ex.map(cli_decompile, [clis[i]["out"] for i in sub]))
    back = run_impl([("compile", d["out"]) for d in decs])
    from decomp import infos_equal, infos_of_ast as _ioa, norm_dm_ops
    ok_back = [(i, b) for i, d, b in zip(sub, decs, back) if d["rc"] == 0]
    from decomp import norm_dm_ast
    beqs = run_driver([[A("equiv"), src_side(norm_dm_ast(progs[i])), ssb_side(norm_dm_ops(b["ops"]))] if b["ok"]
                       else [A("cfg"), src_side(progs[i])] for i, b in ok_back])
    from gen_ssb import wf_ssb
    # what the decompiler itself makes of a well-formed routine set is C02's and C06's business: where the CLI prints exactly
    # the text the decompiler gives in process for the document's routine set, the CLI has added nothing of its own
    inproc_dec = run_impl([("decompile", ops_of_doc(docs[i]), *_ioa(progs[i])) for i, _ in ok_back])
    cli_text = {i: d["out"] for i, d in zip(sub, decs)}
    for ((i, b), eq), ip in zip(zip(ok_back, beqs), inproc_dec):
        if ip["ok"] and ip["text"].strip() == cli_text[i].strip() and wf_ssb(ops_of_doc(docs[i])) is None:
            run.count("cli-round-trip: text equals the in-process decompiler's")
            if b["ok"] and eq["r"] == "ok":
                run.count("cli-round-trip:ok")
            continue
        if not b["ok"]:
            run.fail("decompile-cli-output-rejected", f"the text printed by the decompile CLI is rejected by the compiler ({b['err']})",
                     {"source": texts[i], "stdout": clis[i]["out"]})
            continue
        ai, ac = _ioa(progs[i])
        if eq["r"] == "fail":
            run.fail("decompile-cli-output-behaves-differently", "compile CLI -> decompile CLI gives a program that behaves differently "
                     f"from the source: {eq.get('o1')} vs {eq.get('o2')}", {"source": texts[i], "stdout": clis[i]["out"]})
        elif not infos_equal(b["infos"], ai) or list(b["coros"]) != list(ac):
            run.fail("decompile-cli-output-routine-table", f"compile CLI -> decompile CLI changes the routine table: {b['infos']} "
                     f"{b['coros']} vs {ai} {ac}", {"source": texts[i], "stdout": clis[i]["out"]})
        run.count("cli-round-trip:" + eq["r"])
    for i, d in zip(sub, decs):
        run.count("decompile-cli-on-compile-output:rc=" + str(d["rc"]))
        if d["rc"] != 0:
            # the decompiler itself may fail on this routine set (C06 decides about that): compare in process
            from decomp import infos_of_ast
            inp = run_impl([("decompile", ops_of_doc(docs[i]), *infos_of_ast(progs[i]))])[0]
            if not inp["ok"]:
                run.count("decompile-cli: decompiler itself fails (C06)")
                continue
            run.fail("decompile-rejects-compile-output", f"decompile CLI exits with {d['rc']} on the compile CLI's output: {d['err'][-150:]}",
                     {"source": texts[i], "stdout": clis[i]["out"], "stderr": d["err"]})
    with ThreadPoolExecutor(8) as ex:
        dd = list(ex.map(cli_decompile, [d for _, d in documented_docs()]))
    for (name, doc), d in zip(documented_docs(), dd):
        run.case(doc, nontrivial=True)
        run.count("documented-json:rc=" + str(d["rc"]))
        if d["rc"] != 0:
            run.fail("documented-json:" + name, f"decompile CLI rejects a document following docs/cli_api_usage.rst ({name}): {d['err'][-200:]}",
                     {"document": doc, "stderr": d["err"]})
        elif not d["out"].strip():
            run.fail("documented-json-empty:" + name, "decompile CLI prints nothing", {"document": doc})
        else:
            # the printed program must stand for the document: same behaviour, kinds, targets and names
            b = run_impl([("compile", d["out"])])[0]
            want_ops = ops_of_doc(doc)
            if not b["ok"]:
                run.fail("documented-json-output-rejected:" + name, f"the text printed for the document is rejected ({b['err']})", {"document": doc, "stdout": d["out"]})
                continue
            eq = run_driver([[A("equiv"), ssb_side(b["ops"]), ssb_side(want_ops)]], nproc=1)[0]
            kinds = [r["type"] for r in doc["routines"]]
            names = [r.get("name") for r in doc["routines"]]
            if eq["r"] == "fail" or [x["type"] for x in b["infos"]] != kinds or [c for c in b["coros"]] != names:
                run.fail("documented-json-output-differs:" + name, f"the program printed for the document differs from it: {eq} "
                         f"{[x['type'] for x in b['infos']]} {b['coros']}", {"document": doc, "stdout": d["out"]})
    for bad_doc, name in (("{", "not json"), (json.dumps({"routines": []}), "no settings"),
                          (json.dumps(dict({"routines": [{"type": "WIZARD", "ops": []}]}, **SETTINGS)), "bad routine type")):
        d = cli_decompile(bad_doc)
        if d["rc"] == 0:
            run.fail("decompile-exit-0-on-error", f"decompile CLI exits with 0 on an invalid document ({name})", {"document": bad_doc})
    # settings: a settings file that lacks documented fields is no success; whatever is printed with exit status 0 has the
    # documented structure (so that the decompile command accepts it)
    import copy
    simple = "def 0 {\n    a(1);\n    end;\n}\n"
    variants = []
    for drop in (["closed"], ["open", "request"], ["closed", "open", "request", "open_request"], ["open_request"]):
        st = copy.deepcopy(SETTINGS)
        for kx in drop:
            del st["settings"]["dungeon_mode_constants"][kx]
        variants.append(("dungeon_mode_constants without " + "/".join(drop), st))
    st = copy.deepcopy(SETTINGS)
    del st["settings"]["performance_progress_list_var_name"]
    variants.append(("no performance_progress_list_var_name", st))
    variants.append(("no settings", {}))
    for name, st in variants:
        c = cli_compile(simple, st)
        run.case(["settings", name], nontrivial=True)
        run.count("incomplete settings:rc=" + str(c["rc"]))
        if c["rc"] == 0:
            try:
                sh = check_shape(json.loads(c["out"]))
            except ValueError:
                sh = "stdout is not JSON"
            dd2 = cli_decompile(c["out"])
            if sh or dd2["rc"] != 0:
                run.fail("incomplete-settings-accepted", f"compile CLI exits with 0 for settings with {name}, but prints a document "
                         f"{'without the documented structure (' + sh + ')' if sh else 'the decompile CLI rejects'}",
                         {"settings": st, "stdout": c["out"], "decompile_stderr": dd2["err"]})
    run.sample({"source": texts[0], "stdout": clis[0]["out"][:600]})
    run.finish(rule="G_prog programs through real CLI subprocesses: exit status, JSON structure, the document renumbered as documented "
                    "decided against the source by the verified checker; compile output fed to the decompile CLI; documented JSON "
                    "documents (every routine and argument type)")


if __name__ == "__main__":
    main()
