#!/venv/bin/python
"""C02 - decompiled source denotes the input routines; recompiling preserves behaviour.

Translation validation with the Coq-verified bisimulation checker: for every generated well-formed
routine set x, t = decompile(x) must (a) compile, (b) read by the spec (Lang/SrcSem.v) behave like x,
(c) compile to something that behaves like x, with equal routine tables and coroutine names.
"""
from __future__ import annotations

import os
import sys

sys.path.insert(0, os.path.join(os.path.dirname(os.path.abspath(__file__)), ".."))
from decomp import Case, gen_cases, judge_c02, run_pipeline  # noqa: E402
from framework import Run  # noqa: E402
from gen_ssb import has_test_only_cycle, ssb_candidates, ssb_skeleton, wf_ssb  # noqa: E402
from shrink import shrink  # noqa: E402


LOOP_FINDING = "loop builder (SsbGraphMinimizer.build_loops) writes a wrong forever loop"


def fails_now(c: dict) -> bool:
    if wf_ssb(c["ops"]) is not None:
        return False
    rec = run_pipeline([Case("shrink", c["ops"], c["infos"], c["coros"])])[0]
    return judge_c02(rec) is not None


def main() -> None:
    run = Run("C02", "translation_validation")
    run.forbid()
    run.require_vo(["Ssb/EquivSound.v", "Ssb/Machine.v", "Lang/SrcSem.v"])
    run.props("Props/TablesAgree.v")
    run.props("Props/C01.v")
    q = run.tier == "quick"
    import core
    core.set_case_timeout(6)
    # compiler-shaped control flow (ifs, switches with fall-through, loops, shared tails = forward jumps to top-level
    # labels, cross-routine jumps, calls) and other layouts of the same flow graphs; arbitrary jump graphs are the
    # subject of C06 (the structuring passes are heuristics for compiler-shaped code)
    cases, stats = gen_cases(run.seed, 900 if q else 10000, 500 if q else 6000, 0, "C02", cfg_kw={"forward_jumps_only": True})
    import json
    corpus_path = os.path.join(os.path.dirname(os.path.abspath(__file__)), "..", "..", "corpus", "c02.json")
    if os.path.exists(corpus_path):
        for c in json.load(open(corpus_path)):
            cases.insert(0, Case("corpus:" + c["name"], c["ops"], c["infos"], c["coros"], cls="corpus"))
    for k, v in stats.items():
        run.count("gen:" + k, v)
    recs = run_pipeline(cases)
    failing = []
    for rec in recs:
        c = rec["case"]
        n_ops = sum(len(r) for r in c.ops)
        run.case(c.ops, nontrivial=n_ops >= 3)
        if not rec["dec"]["ok"]:
            run.count("decompile:" + rec["dec"]["err"])
            continue
        if rec["fallback"]:
            run.count("fallback")
            continue
        why = judge_c02(rec)
        run.count("structured:" + ("ok" if why is None else "FAIL"))
        if why is not None:
            failing.append((n_ops, rec, why))
    for rec in recs:
        if rec["dec"]["ok"] and not rec["fallback"]:
            run.sample({"case": rec["case"].name, "input_ops": rec["case"].ops, "text": rec["dec"]["text"][:600]})
            break
    failing.sort(key=lambda t: t[0])
    budget = 16 if q else 40
    seen: set[str] = set()
    loop_hits = 0
    for n, (_, rec, why) in enumerate(failing):
        c = rec["case"]
        cur = {"ops": c.ops, "infos": c.infos, "coros": c.coros}
        if n < budget:
            cur = shrink(cur, ssb_candidates, fails_now, budget=250)
        sig = ssb_skeleton(cur["ops"])
        srec0 = run_pipeline([Case("shrunk", cur["ops"], cur["infos"], cur["coros"])])[0]
        et = srec0.get("eq_text", {})
        # the recorded finding is tied to a call site: the text contains a `forever` loop, is wrong, and is right when the loop
        # builder is switched off (the witnesses of the corpus always count as what they are)
        text0 = srec0["dec"].get("text") or ""
        if "forever" in text0 and not c.name.startswith("corpus:"):
            nl = run_pipeline([Case("without-loop-builder", cur["ops"], cur["infos"], cur["coros"])],
                              dec_task="decomp:decompile_without_loop_builder")[0]
            if nl["dec"]["ok"] and not nl["fallback"] and judge_c02(nl) is None:
                sig = LOOP_FINDING
                loop_hits += 1
        if sig in seen and n >= budget:
            continue
        seen.add(sig)
        srec = run_pipeline([Case("shrunk", cur["ops"], cur["infos"], cur["coros"])])[0]
        swhy = judge_c02(srec) or why
        run.fail(sig, swhy, {"case": c.name, "input": cur, "text": srec["dec"].get("text"),
                             "original_input": {"ops": c.ops, "infos": c.infos, "coros": c.coros},
                             "recompiled": srec.get("recompiled", {}).get("ops")})
    # the recorded finding is rare (a handful of inputs in a thorough run); if the loop builder fails far more often than on
    # the tree on which it was recorded, something else has happened to it
    limit = 3 if q else 15
    if loop_hits > limit:
        run.fail("loop builder fails far more often than recorded", f"{loop_hits} generated routine sets are decompiled wrongly through "
                 f"SsbGraphMinimizer.build_loops (recorded extent: at most {limit} in a {run.tier} run)", {"count": loop_hits})
    run.assume("well-formedness of inputs = gen_ssb.wf_ssb (DESIGN 3.2a); dungeon-mode 0..3 <-> constant normalised on both sides")
    run.finish(rule="G_ssb: real compiler outputs of G_prog programs, block re-layouts of those (with and without a leading "
                    "Jump), random op lists with arbitrary in-range jumps; filtered by wf_ssb; non-trivial = at least 3 ops")


if __name__ == "__main__":
    main()
