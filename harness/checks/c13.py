#!/venv/bin/python
"""C13 - flat structured programs decompile back to structured, jump-free text."""
from __future__ import annotations

import os
import random
import sys

sys.path.insert(0, os.path.join(os.path.dirname(os.path.abspath(__file__)), ".."))
from core import A, run_impl  # noqa: E402
from decomp import Case, MARKER, infos_of_ast, judge_c02, norm_dm_ast, run_pipeline  # noqa: E402
from framework import Run  # noqa: E402
from gen_prog import Cfg, Gen  # noqa: E402
from gen_ssb import renumber_dense  # noqa: E402
from lang import print_prog  # noqa: E402
from shrink import prog_candidates, shrink, skeleton  # noqa: E402


class FlatGen(Gen):
    """the fragment of C13: plain statements, if chains and break-terminated switches whose blocks hold plain statements only"""

    def plain_block(self, lo: int = 0) -> list:
        return [self.plain() for _ in range(self.r.randint(lo, 3))]

    def flat_if(self) -> list:
        elifs = [[self.r.random() < 0.3, self.conds(), self.plain_block()] for _ in range(self.r.choice([0, 0, 1, 2]))]
        els = [self.plain_block()] if self.r.random() < 0.5 else None
        return [A("if"), self.r.random() < 0.3, self.conds(), self.plain_block(), elifs, els]

    def flat_switch(self) -> list:
        h = self.switch_header()
        menu = h[0] == "operation" and h[2] == "message_SwitchMenu"
        cases: list = []
        has_default = False
        n = self.r.randint(1, 5)
        for i in range(n):
            body_here = i == n - 1 or self.r.random() < 0.7
            # (an empty break-terminated case `case X: break;` is a block of zero plain statements)
            body = (([] if self.r.random() < 0.3 else self.plain_block(1)) + [[A("ctrl"), A("break")]]) if body_here else []
            if not has_default and self.r.random() < 0.25:
                has_default = True
                cases.append([A("default"), body])
            else:
                cases.append([A("case"), self.case_header(menu), body])
        return [A("switch"), h, cases]

    def flat_program(self) -> list:
        nr = self.r.randint(1, 3)
        routines = []
        for i in range(nr):
            body: list = []
            for _ in range(self.r.randint(1, 6)):
                x = self.r.random()
                if x < 0.45:
                    body.append(self.plain())
                elif x < 0.78:
                    body.append(self.flat_if())
                else:
                    body.append(self.flat_switch())
            body.append([A("ctrl"), A(self.r.choice(["return", "end", "hold"]))])
            kind = self.r.random()
            if kind < 0.7:
                routines.append([A("routine"), i, A("generic"), None, None, False, body])
            else:
                routines.append([A("routine"), i, A(self.r.choice(["actor", "object", "performer"])), [self.ilike_nofixed()], None, False, body])
        return [A("prog"), [], routines]


def plain_statements(ss: list) -> list:
    """all plain statements (operations, assignments, with-blocks, message switches) anywhere"""
    out = []
    for s in ss:
        k = s[0]
        if k == "with" and s[3][0] == "op" and not s[3][1]:
            # with (k X) { op(..); } and op<k X>(..); are the same statement
            out.append(repr([s[3][0], [s[1], s[2]], *s[3][2:]]))
        elif k in ("op", "assign", "with", "msgswitch"):
            out.append(repr(s))
        elif k == "if":
            out += plain_statements(s[3]) + sum((plain_statements(e[2]) for e in s[4]), []) + (plain_statements(s[5][0]) if s[5] else [])
        elif k == "switch":
            out += sum((plain_statements(c[-1]) for c in s[2]), [])
        elif k == "forever":
            out += plain_statements(s[1])
        elif k == "while":
            out += plain_statements(s[3])
        elif k == "for":
            out += plain_statements([s[1], s[3]]) + plain_statements(s[4])
    return out


def has_jump(ss: list) -> bool:
    for s in ss:
        k = s[0]
        if k in ("jump", "call"):
            return True
        if k == "if" and (has_jump(s[3]) or any(has_jump(e[2]) for e in s[4]) or (s[5] and has_jump(s[5][0]))):
            return True
        if k == "switch" and any(has_jump(c[-1]) for c in s[2]):
            return True
        if k == "forever" and has_jump(s[1]):
            return True
        if k == "while" and has_jump(s[3]):
            return True
        if k == "for" and has_jump(s[4]):
            return True
    return False


def judge(p: list, rec: dict) -> str | None:
    d = rec["dec"]
    if not d["ok"]:
        return f"decompilation raises {d['err']}"
    if rec["fallback"]:
        return "the decompiler falls back to SsbScript for a flat structured program"
    el = rec.get("elab")
    if el is None or not el["ok"]:
        return f"decompiled text can not be read: {el and el.get('msg')}"
    ast = norm_dm_ast(el["ast"])
    src = norm_dm_ast(p)
    if any(has_jump(r[6]) for r in ast[2]):
        return "the decompiled text contains a jump statement"
    a = sorted(sum((plain_statements(r[6]) for r in ast[2]), []))
    b = sorted(sum((plain_statements(r[6]) for r in src[2]), []))
    if a != b:
        extra = [x for x in a if a.count(x) > b.count(x)]
        missing = [x for x in b if b.count(x) > a.count(x)]
        return f"operations are not printed exactly once: {len(extra)} duplicated/extra, {len(missing)} missing"
    return judge_c02(rec)


def pipeline_for(progs: list[list]) -> list[dict | None]:
    texts = [print_prog(p) for p in progs]
    comp = run_impl([("compile", t) for t in texts])
    cases, idx = [], []
    for i, (p, c) in enumerate(zip(progs, comp)):
        if c["ok"]:
            infos, coros = infos_of_ast(p)
            cases.append(Case(f"flat:{i}", renumber_dense(c["ops"]), infos, coros, src=p))
            idx.append(i)
    recs = run_pipeline(cases)
    out: list[dict | None] = [None] * len(progs)
    for i, r in zip(idx, recs):
        out[i] = r
    return out


def in_fragment(p: list) -> bool:
    for r in p[2]:
        body = r[6]
        if not body or body[-1][0] != "ctrl" or body[-1][1] not in ("return", "end", "hold"):
            return False
        for s in body[:-1]:
            if s[0] == "switch":
                if not s[2] or not s[2][-1][-1] or any(c[-1] and c[-1][-1] != [A("ctrl"), A("break")] for c in s[2]):
                    return False
            elif s[0] not in ("op", "assign", "with", "msgswitch", "if"):
                return False
    return True


def fails_now(p: list) -> bool:
    if not in_fragment(p):
        return False
    rec = pipeline_for([p])[0]
    return rec is not None and judge(p, rec) is not None


def flat_candidates(p: list):
    for c in prog_candidates(p):
        yield c


def main() -> None:
    run = Run("C13", "translation_validation")
    run.forbid()
    run.require_vo(["Ssb/EquivSound.v", "Lang/SrcSem.v"])
    run.props("Props/C01.v")
    q = run.tier == "quick"
    import core
    core.set_case_timeout(6)
    progs = []
    for i in range(500 if q else 6000):
        r = random.Random(f"C13-{run.seed}-{i}")
        progs.append(FlatGen(r, Cfg()).flat_program())
    recs = pipeline_for(progs)
    failing = []
    for p, rec in zip(progs, recs):
        run.case(p, nontrivial=True)
        if rec is None:
            run.count("compile-rejected")
            continue
        why = judge(p, rec)
        run.count("flat:" + ("ok" if why is None else "FAIL"))
        if why is not None:
            failing.append((len(print_prog(p)), p, why))
    run.sample({"source": print_prog(progs[0]), "decompiled": (recs[0] or {}).get("dec", {}).get("text", "")[:800]})
    failing.sort(key=lambda t: t[0])
    seen = set()
    for n, (_, p, why) in enumerate(failing):
        small = shrink(p, flat_candidates, fails_now, budget=150) if n < (8 if q else 30) else p
        rec = pipeline_for([small])[0]
        swhy = (judge(small, rec) if rec else None) or why
        sig = swhy.split(":")[0][:50] + "|" + skeleton(small)
        if n >= (8 if q else 30):
            sig = swhy.split(":")[0][:50] + "|unshrunk"
        if sig in seen:
            continue
        seen.add(sig)
        run.fail(sig, swhy, {"source": print_prog(small), "decompiled": rec["dec"].get("text") if rec else None, "original_source": print_prog(p)})
    run.finish(rule="flat structured programs (plain statements, if/elseif/else chains with ||, not, empty blocks; break-terminated "
                    "switches with grouped cases and default; several routines; one terminator at the end), compiled by the real "
                    "compiler, renumbered by position, decompiled; no jump statement, every plain statement exactly once, plus C02")


if __name__ == "__main__":
    main()
