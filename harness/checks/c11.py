#!/venv/bin/python
"""C11 - results depend only on the input, not on what was processed before.

Differential over histories: every call of a generated call sequence, executed in one process after
arbitrary other calls (other inputs, failing inputs, repeats, a reused compiler object, forced id reuse),
must return exactly what the same call returns as the first call of a fresh process.
"""
from __future__ import annotations

import copy
import json
import multiprocessing as mp
import os
import random
import subprocess
import sys

sys.path.insert(0, os.path.join(os.path.dirname(os.path.abspath(__file__)), ".."))
from core import PERF, REPO, VERIF, _init_worker, run_impl  # noqa: E402
from decomp import gen_cases  # noqa: E402
from framework import Run  # noqa: E402
from gen_prog import Cfg, Gen, MacroGen  # noqa: E402
from lang import print_prog  # noqa: E402


def one_call(call: list, state: dict) -> dict:
    """call = ["compile", text] | ["compile_reuse", text] | ["decompile", ops, infos, coros] | ["ssbs", ops, infos, coros]"""
    import gc
    from core import impl_compile, impl_decompile, impl_ssbs_decompile, ops_from_impl, infos_from_impl, sm_to_json, classify_exc

    kind = call[0]
    if kind == "compile":
        r = impl_compile(call[1])
    elif kind == "compile_reuse":
        from explorerscript.ssb_converting.ssb_compiler import ExplorerScriptSsbCompiler
        c = state.setdefault("compiler", ExplorerScriptSsbCompiler(PERF))
        try:
            c.compile(call[1], "/nonexistent/verif_main.exps")
            r = {"ok": True, "ops": ops_from_impl(c.routine_ops), "infos": infos_from_impl(c.routine_infos),
                 "coros": [x if isinstance(x, str) else None for x in c.named_coroutines], "sm": sm_to_json(c.source_map)}
        except BaseException as e:  # noqa
            r = {"ok": False, "err": classify_exc(e)}
    elif kind == "decompile":
        r = impl_decompile(call[1], call[2], call[3])
    elif kind == "decompile_twice":
        # convert() called twice on one decompiler object: the second answer is the one observed
        from core import ops_to_impl, infos_to_impl, coroutines_for, DM_CONSTS
        from explorerscript.ssb_converting.ssb_decompiler import ExplorerScriptSsbDecompiler
        from explorerscript.ssb_converting import ssb_data_types as dt
        try:
            d = ExplorerScriptSsbDecompiler(infos_to_impl(call[2]), ops_to_impl(call[1]), coroutines_for(call[2], call[3]), PERF,
                                            dt.DungeonModeConstants(*DM_CONSTS))
            d.convert()
            text, sm = d.convert()
            r = {"ok": True, "text": text, "sm": sm_to_json(sm)}
        except BaseException as e:  # noqa
            if isinstance(e, (KeyboardInterrupt, SystemExit)):
                raise
            r = {"ok": False, "err": classify_exc(e)}
    elif kind == "cli_read":
        # the reader of the decompile command (explorerscript.cli.decompile.read_routines) on a JSON document
        try:
            from explorerscript.cli.decompile import read_routines
            infos, coros, rops = read_routines(call[1]["routines"])
            r = {"ok": True, "ops": ops_from_impl(rops), "infos": infos_from_impl(infos)}
        except BaseException as e:  # noqa
            if isinstance(e, (KeyboardInterrupt, SystemExit)):
                raise
            r = {"ok": False, "err": classify_exc(e)}
    else:
        r = impl_ssbs_decompile(call[1], call[2], call[3])
    if state.get("gc", True):
        gc.collect()
    keep = {k: v for k, v in r.items() if k in ("ok", "err", "ops", "infos", "coros", "sm", "text")}
    return keep


def run_history(calls: list) -> list:
    """results of the calls, each with the audit of the frame conditions (Hist/Frame.v) after it"""
    import audit
    audit.import_all()
    memo = audit.install_memo()
    base = audit.snapshot()
    state: dict = {}
    out = []
    for c in calls:
        memo.generation += 1
        memo.foreign_reads.clear()
        o = one_call(c, state)
        # (the compiler object the history itself keeps for reuse is not process state)
        o["_residue"] = audit.residue(base)
        o["_foreign_memo_reads"] = list(memo.foreign_reads[:3])
        out.append(o)
    return out


def decompile_keeps_input(ops: list, infos: list, coros: list) -> dict:
    """decompilation must not alter the meaning of the routine set it was given"""
    from core import ops_to_impl, infos_to_impl, coroutines_for, ops_from_impl, DM_CONSTS
    from explorerscript.ssb_converting.ssb_decompiler import ExplorerScriptSsbDecompiler
    from explorerscript.ssb_converting import ssb_data_types as dt

    impl_ops = ops_to_impl(ops)
    before = ops_from_impl(impl_ops)
    try:
        ExplorerScriptSsbDecompiler(infos_to_impl(infos), impl_ops, coroutines_for(infos, coros), PERF, dt.DungeonModeConstants(*DM_CONSTS)).convert()
    except BaseException as e:  # noqa
        if isinstance(e, (KeyboardInterrupt, SystemExit)):
            raise
    after = ops_from_impl(impl_ops)
    return {"ok": True, "same": before == after, "before": before, "after": after}


def _fresh(call: list) -> dict:
    return one_call(call, {})


def fresh_results(calls: list) -> list:
    ctx = mp.get_context("fork")
    with ctx.Pool(16, initializer=_init_worker, maxtasksperchild=1) as p:
        return p.map(_fresh, calls, chunksize=1)


def hashseed_result(call: list, seed: int) -> dict:
    code = ("import sys, json; sys.path.insert(0, %r); sys.path.insert(0, %r)\n"
            "from checks.c11 import one_call\n"
            "print(json.dumps(one_call(json.loads(sys.stdin.read()), {})))" % (os.path.join(VERIF, "harness"), REPO))
    p = subprocess.run(["/venv/bin/python", "-c", code], input=json.dumps(call), capture_output=True, text=True, timeout=120,
                       env=dict(os.environ, PYTHONHASHSEED=str(seed), PYTHONPATH=REPO))
    return json.loads(p.stdout) if p.returncode == 0 else {"ok": False, "err": "subprocess:" + p.stderr[-200:]}


def main() -> None:
    run = Run("C11", "proof")
    run.forbid()
    run.require_vo(["Hist/Frame.v"])
    run.props("Props/C11.v")
    q = run.tier == "quick"
    r = random.Random(f"C11-{run.seed}")
    texts = []
    for i in range(60 if q else 500):
        rr = random.Random(f"C11-{run.seed}-p{i}")
        if rr.random() < 0.4:
            texts.append(print_prog(MacroGen(rr, Cfg(max_depth=2, max_block=2, max_routines=2)).macro_program(1)["flat"]))
        else:
            texts.append(print_prog(Gen(rr, Cfg(max_depth=2, max_block=3, max_routines=2)).program()))
    bad_texts = ["def 0 {\n    jump @nowhere;\n}\n", "def 0 {", "def 0 {\n    ~nope();\n}\n", "macro a() {\n    ~a();\n}\ndef 0 {\n    end;\n}\n"]
    ssb_cases, _ = gen_cases(run.seed, 60 if q else 500, 40 if q else 300, 60 if q else 500, "C11")
    # inputs that make a call fail midway: compiled routine sets with a stray case op put into a loop body (the decompiler
    # gives up while a loop is open), and routine sets without any well-formedness filter
    from gen_ssb import random_routines, default_infos
    hostile: list[list] = []
    loopy = [c for c in ssb_cases if any(o["code"] == "Jump" and o["params"][0][1] < o["off"] for rt in c.ops for o in rt)]
    for j in range(40 if q else 300):
        rr = random.Random(f"C11-{run.seed}-hostile{j}")
        if loopy and rr.random() < 0.7:
            c = rr.choice(loopy)
            ops = copy.deepcopy(c.ops)
            backs = [(ri, oi) for ri, rt in enumerate(ops) for oi, o in enumerate(rt) if o["code"] == "Jump" and o["params"][0][1] < o["off"]]
            ri, oi = rr.choice(backs)
            tgt = ops[ri][oi]["params"][0][1]
            body = [k for k, o in enumerate(ops[ri]) if tgt <= o["off"] < ops[ri][oi]["off"] and o["code"] not in
                    ("Jump", "Call") and not o["code"].startswith(("Branch", "Case", "Switch", "Default"))]
            if not body:
                continue
            k = rr.choice(body)
            ops[ri][k] = {"off": ops[ri][k]["off"], "code": rr.choice(["CaseText", "DefaultText"]), "params": [["i", 1], ["s", "hi"]]}
            hostile.append(["decompile", ops, c.infos, c.coros])
        else:
            ops = random_routines(rr)
            infos, coros = default_infos(ops, rr)
            hostile.append(["decompile", ops, infos, coros])
    # a file that calls macros which only another file defines (the compiler object may be reused for both)
    stripped = []
    for t in texts:
        if t.lstrip().startswith("macro") and "\ndef " in t:
            stripped.append(t[t.index("\ndef ") + 1:])
    pool_calls: list[list] = [["compile", t] for t in stripped] + hostile + [["compile", t] for t in texts] + [["compile", t] for t in bad_texts] + \
        [["decompile", c.ops, c.infos, c.coros] for c in ssb_cases] + [["ssbs", c.ops, c.infos, c.coros] for c in ssb_cases[:40]]
    base = fresh_results(pool_calls)
    key = {json.dumps(c, sort_keys=True): b for c, b in zip(pool_calls, base)}
    histories = []
    for h in range(40 if q else 400):
        n = r.randint(3, 12)
        calls = []
        for _ in range(n):
            c = copy.deepcopy(r.choice(pool_calls))
            if c[0] == "compile" and r.random() < 0.4:
                c[0] = "compile_reuse"
            calls.append(c)
            if r.random() < 0.3:
                calls.append(copy.deepcopy(c))   # the same input repeated
        histories.append(calls)
    # directed histories: macro file then the file that lacks the definitions (and the other way round) on one compiler;
    # failing decompilations followed by arbitrary flow graphs
    for t in texts:
        if t.lstrip().startswith("macro") and "\ndef " in t:
            rest = t[t.index("\ndef ") + 1:]
            histories.append([["compile_reuse", t], ["compile_reuse", rest], ["compile_reuse", t]])
    # one decompiler object converting twice; the decompile command's reader used for several documents
    docs = [{"routines": [{"type": "GENERIC", "ops": [{"opcode": "BranchDebug", "params": [1, 3]}, {"opcode": "a", "params": []},
                                                        {"opcode": "b", "params": [5]}, {"opcode": "End", "params": []}]},
                          {"type": "COROUTINE", "name": "C", "ops": [{"opcode": "c", "params": []}, {"opcode": "Jump", "params": [3]}]}]},
            {"routines": [{"type": "ACTOR", "target_id": 2, "ops": [{"opcode": "x", "params": []}, {"opcode": "Return", "params": []}]}]}]
    for d in docs:
        key[json.dumps(["cli_read", d], sort_keys=True)] = _fresh(["cli_read", d])
    histories.append([["cli_read", docs[0]], ["cli_read", docs[0]], ["cli_read", docs[1]], ["cli_read", docs[0]]])
    for c in [c for c in pool_calls if c[0] == "decompile"][: (30 if q else 300)]:
        histories.append([["decompile_twice", *copy.deepcopy(c[1:])], copy.deepcopy(c)])
    webs = [c for c in pool_calls if c[0] == "decompile"]
    for h in range(30 if q else 300):
        hs = [copy.deepcopy(r.choice(hostile)) for _ in range(r.randint(1, 3))] if hostile else []
        histories.append(hs + [copy.deepcopy(r.choice(webs)) for _ in range(r.randint(3, 10))])
    outs = run_impl([("checks.c11:run_history", h) for h in histories], chunksize=1)
    frame_broken = None
    for h, out in zip(histories, outs):
        run.case(h, nontrivial=len(h) >= 3)
        if isinstance(out, dict):
            run.fail("history-crash", f"history run failed: {out}", {"history": h})
            continue
        for pos, (c, o) in enumerate(zip(h, out)):
            res, foreign = o.pop("_residue", []), o.pop("_foreign_memo_reads", [])
            run.count("frame-conditions:" + ("ok" if not res and not foreign else "BROKEN"))
            if res and frame_broken is None:
                frame_broken = ("restores_obs", f"after call {pos} ({c[0]}) these shared values differ from start-up: {res[:5]}", h[:pos + 1])
            if foreign and frame_broken is None:
                frame_broken = ("reads_only_obs", f"call {pos} ({c[0]}) reads memo entries written by an earlier call: {foreign[:2]}", h[:pos + 1])
            cc = copy.deepcopy(c)
            if cc[0] == "compile_reuse":
                cc[0] = "compile"
            if cc[0] == "decompile_twice":
                cc[0] = "decompile"
            want = key[json.dumps(cc, sort_keys=True)]
            want_cmp = {k: v for k, v in want.items() if k in o or k in ("ok",)}
            if c[0] in ("compile_reuse", "decompile_twice"):
                want_cmp = {k: v for k, v in want_cmp.items() if k in o}
            if o != want_cmp:
                part = next((k for k in ("ok", "err", "ops", "text", "sm", "infos", "coros") if o.get(k) != want_cmp.get(k)), "?")
                prev = [x[0] for x in h[:pos]]
                run.count("history:DIFFERENT")
                run.fail(f"history-dependence:{c[0]}:{part}", f"call {pos} ({c[0]}) returns a different {part} after {prev} than in a fresh process",
                         {"history": h[:pos + 1], "observed": o.get(part), "expected": want_cmp.get(part)})
                break
        else:
            run.count("history:ok")
    # hash seeds / process restarts
    sub = r.sample(pool_calls, 6 if q else 40)
    for c in sub:
        want = key[json.dumps(c, sort_keys=True)]
        for seed in ([1, 12345] if q else [1, 2, 3, 12345, 999]):
            got = hashseed_result(c, seed)
            run.case(["hashseed", seed, c], nontrivial=True)
            if got != json.loads(json.dumps(want)):
                part = next((k for k in ("ok", "err", "ops", "text", "sm") if got.get(k) != want.get(k)), "?")
                run.fail(f"hashseed-dependence:{c[0]}:{part}", f"PYTHONHASHSEED={seed}: different {part}", {"call": c, "observed": got.get(part), "expected": want.get(part)})
            run.count("hashseed")
    # decompilation does not alter its input
    keep = run_impl([("checks.c11:decompile_keeps_input", c.ops, c.infos, c.coros) for c in ssb_cases])
    for c, k in zip(ssb_cases, keep):
        run.case(["keeps-input", c.ops], nontrivial=True)
        if not k.get("same", True):
            diff = next(((a, b) for ra, rb in zip(k["before"], k["after"]) for a, b in zip(ra, rb) if a != b), None)
            kind = "op" if diff else "shape"
            run.fail("decompile-alters-input:" + (diff[0]["code"] if diff else kind), f"convert() changed the routine set it was given: {diff}",
                     {"ops": c.ops, "after": k["after"]})
        run.count("keeps-input")
    # a compiler object reused over files that change: a failing nested import, then the repaired files
    lib = 'import "./base.exps";\nmacro lib_m() {\n    ~base_m();\n    lib_op();\n}\n'
    base = "macro base_m() {\n    base_op();\n}\n"
    main = 'import "./lib/lib.exps";\ndef 0 {\n    ~lib_m();\n    end;\n}\n'
    other = "def 0 {\n    other();\n    end;\n}\n"
    fh = [
        [["write", {"main.exps": main, "lib/lib.exps": lib, "lib/base.exps": "macro base_m( {"}], ["compile", "main.exps"],
         ["write", {"lib/base.exps": base}], ["compile", "main.exps"], ["compile", "main.exps"]],
        [["write", {"main.exps": main, "lib/lib.exps": lib, "lib/base.exps": base, "o.exps": other}], ["compile", "main.exps"],
         ["write", {"lib/lib.exps": 'import "./nope.exps";\n' + lib}], ["compile", "main.exps"], ["compile", "o.exps"],
         ["write", {"lib/lib.exps": lib}], ["compile", "main.exps"]],
        [["write", {"main.exps": main, "lib/lib.exps": lib, "lib/base.exps": 'import "../main.exps";\n' + base}], ["compile", "main.exps"],
         ["write", {"lib/base.exps": base}], ["compile", "main.exps"]],
    ]
    # two scripts at different depths of the tree share an imported file: what one compilation learns about that file is
    # no business of the next
    shared = "macro shared_m() {\n    shared_op();\n}\n"
    fh.append([["write", {"a/main.exps": 'import "../common/macros.exps";\ndef 0 {\n    ~shared_m();\n    end;\n}\n',
                          "a/b/deep.exps": 'import "../../common/macros.exps";\ndef 0 {\n    ~shared_m();\n    ~shared_m();\n    end;\n}\n',
                          "common/macros.exps": shared}],
               ["compile", "a/main.exps"], ["compile", "a/b/deep.exps"], ["compile", "a/main.exps"],
               ["write", {"common/macros.exps": shared.replace("shared_op", "changed_op")}], ["compile", "a/b/deep.exps"]])
    # two directories whose scripts import the same relative path: each gets the file next to it (what the first
    # compilation resolved is no business of the second; a new compiler object in the same process would share a
    # process-wide table, so the expectation is stated outright: the op of the directory's own library)
    twin = 'import "./lib.exps";\ndef 0 {\n    ~greet();\n    end;\n}\n'
    fh.append([["write", {"dirA/main.exps": twin, "dirA/lib.exps": "macro greet() {\n    from_a();\n}\n",
                          "dirB/main.exps": twin, "dirB/lib.exps": "macro greet() {\n    from_b();\n    from_b2();\n}\n"}],
               ["compile", "dirA/main.exps"], ["compile", "dirB/main.exps"], ["compile", "dirA/main.exps"]])
    expect_ops = {len(fh) - 1: [["from_a", "End"], ["from_b", "from_b2", "End"], ["from_a", "End"]]}
    for hi, (steps, o) in enumerate(zip(fh, run_impl([("files:compile_files_history", st) for st in fh], chunksize=1))):
        if o.get("ok") and hi in expect_ops:
            for n, ((reused, fresh), want) in enumerate(zip(o["results"], expect_ops[hi])):
                got = [op["code"] for op in reused["ops"][0]] if reused.get("ok") else reused
                run.count("files-history twin directories:" + ("ok" if got == want else "DIFFERENT"))
                if got != want:
                    run.fail("history-dependence:twin-directories", f"compile step {n} of a history over two directories that import the same "
                             f"relative path gives the ops {got}; the file next to the compiled script says {want}",
                             {"steps": steps, "observed": reused, "expected_op_names": want})
                    break
        run.case(["files-history", steps], nontrivial=True)
        if not o.get("ok"):
            run.fail("files-history-crash", f"history over files failed: {o}", {"steps": steps})
            continue
        run.count("files-history frame condition:" + ("ok" if not o.get("residue") else "BROKEN"))
        if o.get("residue") and frame_broken is None:
            frame_broken = ("restores_obs", f"shared values differ from start-up after a history over files: {o['residue'][:5]}", steps)
        for n, (reused, fresh) in enumerate(o["results"]):
            run.count("files-history:" + ("ok" if reused == fresh else "DIFFERENT"))
            if reused != fresh:
                run.fail("history-dependence:compile_reuse:files", f"compile step {n} on a reused compiler object gives {reused}, a new "
                         f"compiler object on the same files gives {fresh}", {"steps": steps, "observed": reused, "expected": fresh})
                break
    if frame_broken is not None:
        run.correspondence_broken("frame condition " + frame_broken[0] + " of Hist/Frame.v", frame_broken[1], {"history": frame_broken[2]})
    run.sample({"history": [c[0] for c in histories[0]]})
    run.assume("igraph / antlr4 internal state is covered by this differential only (not modelled)")
    run.finish(rule="random call histories (compile, compile on a reused compiler object, decompile, SsbScript decompile; other inputs, "
                    "failing inputs, repeats; gc.collect() between calls to provoke id reuse) in one process vs the same call as first "
                    "call of a fresh process; 2-5 values of PYTHONHASHSEED; input ops compared before/after convert()")


if __name__ == "__main__":
    main()
