#!/venv/bin/python
"""C01 - compiled bytecode behaves exactly as the source program says.

Decision per input: the verified bisimulation checker (Ssb/EquivSound.v: equiv_check_sound) on
cfg_of_prog(source AST) vs cfg_of_ssb(real compiler output), all routines, all paths; plus routine
table match.  Obligations: soundness theorems, table agreement, pass theorems (Props/C01.v).
"""
from __future__ import annotations

import os
import random
import sys

sys.path.insert(0, os.path.join(os.path.dirname(os.path.abspath(__file__)), ".."))
from core import A, run_driver, run_impl, src_side, ssb_side, impl_compile  # noqa: E402
from framework import Run  # noqa: E402
from gen_prog import Cfg, Gen, prog_size  # noqa: E402
from lang import print_prog  # noqa: E402
import shapes  # noqa: E402
from shrink import prog_candidates, shrink, skeleton  # noqa: E402

KIND = {"generic": "GENERIC", "actor": "ACTOR", "object": "OBJECT", "performer": "PERFORMER", "coroutine": "COROUTINE"}


def tables_match(prog: list, res: dict) -> str | None:
    rs = prog[2]
    if not (len(res["infos"]) == len(res["ops"]) == len(res["coros_raw"]) == len(rs)):
        return f"table lengths {len(res['infos'])}/{len(res['ops'])}/{len(res['coros_raw'])} for {len(rs)} routines"
    for r in rs:
        i = r[1]
        info = res["infos"][i]
        if info is None:
            return f"routine {i}: no info"
        if info["type"] != KIND[str(r[2])]:
            return f"routine {i}: kind {info['type']}"
        if r[3]:
            t = r[3][0]
            if t[0] == "i" and not (info["linked_to"] == t[1] and not info["linked_to_name"]):
                return f"routine {i}: target {info}"
            if t[0] == "c" and not (info["linked_to"] == -1 and info["linked_to_name"] == t[1]):
                return f"routine {i}: target {info}"
        if r[4]:
            if res["coros"][i] != r[4][0]:
                return f"routine {i}: coroutine name {res['coros'][i]}"
        if r[5] and res["ops"][i]:
            return f"routine {i}: alias routine has ops"
    return None


def judge(prog: list, res: dict, eq: dict) -> str | None:
    """None = property holds on this input (or input outside the domain); else description"""
    if eq["r"] in ("ok", "cycle"):
        return tables_match(prog, res)
    if eq["r"] == "err" and eq.get("side") == 1:
        return None  # statically invalid by the source semantics: outside C01's domain (C10's business)
    if eq["r"] == "fail":
        return f"behaviour differs at node pair {eq['pair']}: source {eq['o1']} vs compiled {eq['o2']}"
    return f"equivalence check: {eq['r']} {eq.get('msg', '')}"


def fails_now(prog: list) -> bool:
    text = print_prog(prog)
    res = run_impl([("compile", text)])[0]
    if not res["ok"]:
        return False
    eq = run_driver([[A("equiv"), src_side(prog), ssb_side(res["ops"])]], nproc=1)[0]
    return judge(prog, res, eq) is not None and eq["r"] != "err"


def main() -> None:
    run = Run("C01", "translation_validation")
    run.forbid()
    run.require_vo(["Ssb/EquivSound.v", "Ssb/Machine.v", "Lang/SrcSem.v", "Ssb/Silent.v", "Comp/PopSem.v", "Comp/RemoveSem.v", "Comp/TableRight.v", "Comp/BackEnd.v", "Comp/EraseSem.v", "Comp/FinalizeSem.v", "Comp/ActSem.v", "Comp/StripSem.v"])
    run.props("Props/TablesAgree.v")
    run.props("Props/C01.v")
    n_random = 1500 if run.tier == "quick" else 20000
    progs: list[tuple[str, list]] = [("shape:" + n, p) for n, p in shapes.c01_shapes()]
    for i in range(n_random):
        r = random.Random(f"C01-{run.seed}-{i}")
        small = r.random() < 0.7
        cfg = Cfg(max_depth=2 if small else 3, max_block=2 if small else 4, max_routines=2 if small else 3,
                  small_alphabet=r.random() < 0.3)
        progs.append((f"random:{run.seed}:{i}", Gen(r, cfg).program()))
    # random programs in which return / end / hold also stand as the statement of a with-block (the context op stands in
    # front; the operand never ends the routine, so what follows the with-block is reachable), at any place of any block
    for i in range(400 if run.tier == "quick" else 5000):
        r = random.Random(f"C01-withterm-{run.seed}-{i}")
        cfg = Cfg(max_depth=2 if r.random() < 0.7 else 3, max_block=3, max_routines=2, small_alphabet=r.random() < 0.3, ctx_term=True)
        progs.append((f"random-with-terminator:{run.seed}:{i}", Gen(r, cfg).program()))
    # a routine of nothing but labels (repaired: it compiled to a routine without ops)
    progs.append(("shape:labels-only", [A("prog"), [], [[A("routine"), 0, A("generic"), None, None, False, [[A("label"), "only"], [A("label"), "two"]]],
                                                        [A("routine"), 1, A("generic"), None, None, False, [[A("jump"), "only"]]]]]))
    # directed: jumps, calls and loop / case control as the statement of a with-block (the context op stands in front of
    # the Jump / Call op); inside macros the labels are private and return leaves the expansion
    directed = [
        "def 0 {\n    @top;\n    a();\n    with (actor 1) {\n        jump @skip;\n    }\n    b();\n    @skip;\n    c();\n    with (object 2) {\n        call @top;\n    }\n    d();\n    end;\n}\n",
        "def 0 {\n    switch ($V) {\n        case 1:\n            with (actor 1) {\n                break;\n            }\n            a();\n            break;\n        case 2:\n            b();\n    }\n    c();\n    end;\n}\n",
        "def 0 {\n    forever {\n        a();\n        if (debug) {\n            with (object 2) {\n                continue;\n            }\n        }\n        with (performer 3) {\n            break_loop;\n        }\n        b();\n    }\n    c();\n    end;\n}\n",
        "def 0 {\n    with (actor 1) {\n        return;\n    }\n    b();\n    end;\n}\n",
    ]
    for el in run_impl([("lang:parse_and_elab", t) for t in directed]):
        if el.get("ok"):
            progs.append((f"directed:with-ctrl:{len(progs)}", el["ast"]))
    texts = [print_prog(p) for _, p in progs]
    results = run_impl([("compile", t) for t in texts])
    elabs = run_impl([("lang:parse_and_elab", t) for t in texts])
    for (name, p), e in zip(progs, elabs):
        if not e["ok"] or e["ast"] != p:
            run.correspondence_broken("printer/elab", "elab(parse(print(ast))) != ast", {"case": name})
            break
    del elabs
    for r0 in results:
        r0.pop("sm", None)      # source maps are not looked at here (C08)
    idx = [i for i, r in enumerate(results) if r["ok"]]
    eqs = run_driver([[A("equiv"), src_side(progs[i][1]), ssb_side(results[i]["ops"])] for i in idx])
    failing: list[tuple[int, str]] = []
    for i, eq in zip(idx, eqs):
        name, p = progs[i]
        run.case(p, nontrivial=prog_size(p) >= 2)
        run.count("equiv:" + eq["r"])
        run.count("size<=5" if prog_size(p) <= 5 else "size<=20" if prog_size(p) <= 20 else "size>20")
        why = judge(p, results[i], eq)
        if why is not None:
            failing.append((i, why))
    for i, r in enumerate(results):
        if not r["ok"]:
            run.count("compile:" + r["err"])
            if r["err"] not in ("Compiler",):
                pass  # C10 decides about error classes
    run.count("compiled_ok", len(idx))
    # stage by stage (diagnosis and a tighter tie): the pseudo code the handlers emit must mean what the source
    # means, and every label pass must keep that meaning (Comp/PopSem.v), decided by the same verified checker
    sub = idx[: (500 if run.tier == "quick" else 4000)]
    caps = run_impl([("capture:compile_capture", texts[i]) for i in sub])
    for c0 in caps:
        c0.pop("sm", None)
        c0.pop("ops", None)
    from capture import pops_sexp
    from core import program_sexp
    cmds, where = [], []
    for i, c in zip(sub, caps):
        cap = c.get("cap", {})
        if not c.get("ok") or not all(k in cap for k in ("strip_in", "strip_out", "fin_in", "fin_out", "rem_out")):
            continue
        pp = lambda k: [A("pops"), pops_sexp(cap[k])]  # noqa: E731
        for stage, a, b in (("handlers", src_side(progs[i][1]), pp("strip_in")), ("strip_last_label", pp("strip_in"), pp("strip_out")),
                            ("LabelFinalizer", pp("fin_in"), pp("fin_out")),
                            ("OpsLabelJumpToRemover", pp("fin_out"), [A("ssb"), program_sexp(cap["rem_out"])])):
            cmds.append([A("equiv"), a, b])
            where.append((i, stage))
    # the premises of the back-end theorem (Props/C01.v C01_label_resolution_preserves) hold for what the real passes
    # produce: evaluated on every captured compilation
    bcmds, bwhere = [], []
    for i, c in zip(sub, caps):
        cap = c.get("cap", {})
        if c.get("ok") and "fin_out" in cap and "rem_out" in cap and "fin_in" in cap:
            bcmds.append([A("backend_ok"), pops_sexp(cap["fin_out"]), program_sexp(cap["rem_out"])])
            bwhere.append(i)
            bcmds.append([A("finalize_ok"), pops_sexp(cap["fin_in"])])
            bwhere.append(i)
            bcmds.append([A("strip_ok"), pops_sexp(cap["strip_in"])])
            bwhere.append(i)
    prem_first = None
    for i, b in zip(bwhere, run_driver(bcmds)):
        good = bool(b.get("backend_ok")) or bool(b.get("finalize_ok")) or bool(b.get("strip_ok"))
        # a source with a cycle of silent moves is outside the property; there the premise rightly fails
        if not good and i in {j for j, eq in zip(idx, eqs) if eq["r"] == "cycle"}:
            run.count("backend-theorem premises: silent cycle (outside the property)")
            continue
        run.count("backend-theorem premises:" + ("hold" if good else "FAIL"))
        if not good and prem_first is None:
            prem_first = (progs[i][0], texts[i])
    if prem_first is not None:
        run.correspondence_broken("premises of C01_label_resolution_preserves (backend_ok)",
                                  "the output of LabelFinalizer does not satisfy the side conditions of the back-end theorem",
                                  {"case": prem_first[0], "source": prem_first[1]})
    stage_first = None
    ok_end = {i for i, eq in zip(idx, eqs) if eq["r"] == "ok"}
    for (i, stage), eq in zip(where, run_driver(cmds)):
        good = eq["r"] in ("ok", "cycle") or (eq["r"] == "err")
        run.count(f"stage {stage}:" + ("ok" if good else eq["r"]))
        if not good and i in ok_end and stage_first is None:
            stage_first = (stage, progs[i][0], texts[i], {k: v for k, v in eq.items() if k not in ("g1", "g2")})
    if stage_first is not None:
        run.correspondence_broken("stage validation (Comp/PopSem.v): " + stage_first[0],
                                  "a stage changes the meaning of the pseudo code although the compiled program behaves like the source",
                                  {"case": stage_first[1], "source": stage_first[2], "equiv": stage_first[3]})
    if idx:
        i0 = idx[0]
        run.sample({"case": progs[i0][0], "source": texts[i0], "equiv": {k: v for k, v in eqs[0].items() if k in ("r", "pairs", "n1", "n2")}})
    # shrink and classify (smallest first)
    failing.sort(key=lambda t: prog_size(progs[t[0]][1]))
    shrunk_budget = 12 if run.tier == "quick" else 40
    seen_sigs: set[str] = set()
    for n, (i, why) in enumerate(failing):
        name, p = progs[i]
        if n < shrunk_budget:
            small = shrink(p, prog_candidates, fails_now)
        else:
            small = p
        sig = skeleton(small)
        if sig in seen_sigs and n >= shrunk_budget:
            continue
        seen_sigs.add(sig)
        stext = print_prog(small)
        sres = run_impl([("compile", stext)])[0]
        seq = run_driver([[A("equiv"), src_side(small), ssb_side(sres["ops"])]], nproc=1)[0] if sres["ok"] else {}
        swhy = judge(small, sres, seq) if sres["ok"] and seq else None
        run.fail(sig, swhy or why, {"case": name, "source": stext, "original_source": texts[i],
                            "compiled_ops": sres.get("ops"), "equiv": {k: v for k, v in seq.items() if k not in ("g1", "g2")},
                            "graphs": {"source": seq.get("g1"), "compiled": seq.get("g2")}})
    # recorded finding (known_findings.json, DESIGN.md section 6): a jump-like statement in a with-block directly before its
    # label, or with the end of the routine as its target - the two witnesses run on every invocation and are matched by name
    witnesses = [
        ("with-block jump: break to the end of the routine",
         "def 0 {\n    switch (0) {\n        case 0:\n            with (performer 1) {\n                break;\n            }\n    }\n}\n"),
        ("with-block jump: jump to the label that follows",
         "def 0 {\n    with (actor 2) {\n        jump @a;\n    }\n    @a;\n    end;\n}\n"),
    ]
    wel = run_impl([("lang:parse_and_elab", t) for _, t in witnesses])
    wres = run_impl([("compile", t) for _, t in witnesses])
    for (wname, wtext), el, res in zip(witnesses, wel, wres):
        run.case(["witness", wtext], nontrivial=True)
        if not el.get("ok") or not res["ok"]:
            run.count("finding witness:not compiled")
            continue
        weq = run_driver([[A("equiv"), src_side(el["ast"]), ssb_side(res["ops"])]], nproc=1)[0]
        wwhy = judge(el["ast"], res, weq)
        run.count("finding witness:" + ("passes" if wwhy is None else "fails"))
        if wwhy is not None:
            run.fail(wname, wwhy, {"case": wname, "source": wtext, "compiled_ops": res["ops"]})
    run.assume("source semantics = Lang/SrcSem.v (cfg_of_prog) read off docs/language_spec.rst; machine = Ssb/Machine.v")
    run.assume("text -> AST by the real ANTLR parser + harness/lang.py elaboration (cross-checked: elab(parse(print(ast))) = ast)")
    run.finish(rule="G_prog random programs (seeded) + named shapes, compiled by the real compiler; non-trivial = at least 2 "
                    "statements; every accepted program is decided by the verified bisimulation checker over all paths")


if __name__ == "__main__":
    main()
