"""Frame conditions of Hist/Frame.v checked on the real process state.

restores_obs  : after every call every module-level and class-level container (and plain object) of the
                explorerscript package holds what it held at start-up - no residue, whether the call returned or raised.
reads_only_obs: the one shared table that legitimately keeps entries between calls, the decompiler's memo table
                (graph_utils.find_first_common_next_vertex_in_edges_cache, keyed by id() of a graph), is only read by the
                call (C11) / the thread (C12) that wrote the entry: every entry is tagged with its writer.

Not covered (named in the trusted base): state inside the antlr4 runtime and the generated parser/lexer
(prediction caches), igraph, Pygments, the Python runtime.
"""
from __future__ import annotations

import importlib
import pkgutil
import sys
import threading
import types
from typing import Any

MEMO_MODULE = "explorerscript.ssb_converting.decompiler.graph_building.graph_utils"
MEMO_NAME = "find_first_common_next_vertex_in_edges_cache"
SKIP_MODULE_PREFIXES = ("explorerscript.antlr.",)           # generated parser/lexer: ATN and DFA caches (trusted)
SKIP_TYPES = (types.ModuleType, types.FunctionType, types.BuiltinFunctionType, type, property, staticmethod, classmethod)


def import_all() -> None:
    import explorerscript
    for m in pkgutil.walk_packages(explorerscript.__path__, "explorerscript."):
        if m.name.startswith(SKIP_MODULE_PREFIXES) or "pygments" in m.name:
            continue
        try:
            importlib.import_module(m.name)
        except Exception:  # noqa
            pass


def _digest(x: Any, depth: int = 0) -> Any:
    if depth > 5:
        return "<deep>"
    if isinstance(x, (int, float, str, bytes, bool, type(None))):
        return x
    if isinstance(x, (list, tuple)):
        return [type(x).__name__, [_digest(y, depth + 1) for y in x]]
    if isinstance(x, (set, frozenset)):
        return ["set", sorted(repr(_digest(y, depth + 1)) for y in x)]
    if isinstance(x, dict):
        return ["dict", sorted((repr(k), repr(_digest(v, depth + 1))) for k, v in x.items())]
    d = getattr(x, "__dict__", None)
    if isinstance(d, dict) and not isinstance(x, SKIP_TYPES):
        return [type(x).__name__, _digest({k: v for k, v in d.items() if not callable(v)}, depth + 1)]
    return "<" + type(x).__name__ + ">"


def _interesting(v: Any) -> bool:
    if isinstance(v, SKIP_TYPES) or callable(v):
        return False
    if isinstance(v, (list, dict, set, bytearray)):
        return True
    if type(v).__module__.startswith("explorerscript") and hasattr(v, "__dict__"):
        return True      # e.g. a module-level counter object
    return False


def snapshot() -> dict[str, Any]:
    """every module-level and class-level mutable value of the explorerscript package (memo table excluded)"""
    out: dict[str, Any] = {}
    for name, mod in list(sys.modules.items()):
        if mod is None or not name.startswith("explorerscript") or name.startswith(SKIP_MODULE_PREFIXES):
            continue
        for attr, v in list(vars(mod).items()):
            if attr.startswith("__"):
                continue
            if name == MEMO_MODULE and attr == MEMO_NAME:
                continue
            if isinstance(v, type) and v.__module__ == name:
                for cattr, cv in list(vars(v).items()):
                    if not cattr.startswith("__") and _interesting(cv):
                        out[f"{name}.{v.__name__}.{cattr}"] = _digest(cv)
            elif _interesting(v):
                out[f"{name}.{attr}"] = _digest(v)
    # settings of the interpreter that the package may touch
    out["<interpreter>.recursionlimit"] = sys.getrecursionlimit()
    return out


def residue(base: dict[str, Any]) -> list[str]:
    now = snapshot()
    return sorted(k for k in set(base) | set(now) if base.get(k) != now.get(k))


# ---------------------------------------------------------------- memo table: who reads whose entries
class _Inner(dict):
    def __init__(self, owner: tuple[int, int]):
        super().__init__()
        self.owner = owner


class TrackedMemo(dict):
    """outer table id(g) -> inner table; every inner table remembers the (call generation, thread) that created it;
    a hit in an inner table created by another call or thread is a foreign read"""

    def __init__(self) -> None:
        super().__init__()
        self.generation = 0
        self.foreign_reads: list[dict] = []
        self.lock = threading.Lock()

    def who(self) -> tuple[int, int]:
        return (self.generation, threading.get_ident())

    def __setitem__(self, k: Any, v: Any) -> None:
        inner = _TrackedInner(self, self.who())
        inner.update(v)
        super().__setitem__(k, inner)

    # taking away the entries of a call that is still running (another thread of the same generation) is a foreign write
    def _note_removed(self, inner: Any, how: str) -> None:
        me = self.who()
        owner = getattr(inner, "owner", None)
        if owner is not None and owner[0] == me[0] and owner[1] != me[1]:
            with self.lock:
                self.foreign_reads.append({"entry_of": list(owner), "removed_by": list(me), "how": how})

    def clear(self) -> None:
        for inner in list(self.values()):
            self._note_removed(inner, "clear")
        super().clear()

    def __delitem__(self, k: Any) -> None:
        if k in self:
            self._note_removed(super().__getitem__(k), "del")
        super().__delitem__(k)

    def pop(self, k: Any, *d: Any) -> Any:
        if k in self:
            self._note_removed(super().__getitem__(k), "pop")
        return super().pop(k, *d)


class _TrackedInner(_Inner):
    def __init__(self, outer: TrackedMemo, owner: tuple[int, int]):
        super().__init__(owner)
        self.outer = outer

    def _note(self, key: Any) -> None:
        me = self.outer.who()
        if self.owner != me:
            with self.outer.lock:
                self.outer.foreign_reads.append({"entry_of": list(self.owner), "read_by": list(me), "key": str(key)[:60]})

    def __getitem__(self, k: Any) -> Any:
        v = super().__getitem__(k)
        self._note(k)
        return v

    def __contains__(self, k: Any) -> bool:
        hit = super().__contains__(k)
        if hit:
            self._note(k)
        return hit

    def __setitem__(self, k: Any, v: Any) -> None:
        # a write into a table created by another call/thread is a foreign access as well
        if self.owner != self.outer.who():
            self._note(k)
        super().__setitem__(k, v)


def install_memo() -> TrackedMemo:
    mod = importlib.import_module(MEMO_MODULE)
    cur = getattr(mod, MEMO_NAME)
    if isinstance(cur, TrackedMemo):
        return cur
    t = TrackedMemo()
    setattr(mod, MEMO_NAME, t)
    # modules that took the table by name (from graph_utils import ...) keep working on the same object as graph_utils
    for name, m in list(sys.modules.items()):
        if m is not None and name.startswith("explorerscript"):
            for attr, v in list(vars(m).items()):
                if v is cur:
                    setattr(m, attr, t)
    return t
