"""K-build: Comp/MacroBuild.v against every invocation of ExplorerScriptMacro.build (wrapped from outside): the blueprint
(operations with their parameters, labels with ids and kinds, label jumps), the argument dictionary and both counters go
to the extracted model; the items the real build returns, and both counters afterwards, must be what the model gives."""
from __future__ import annotations

from typing import Any


def _kind(lbl: Any) -> list:
    from explorerscript.macro import MacroStartSsbLabel, MacroEndSsbLabel

    if isinstance(lbl, MacroStartSsbLabel):
        return ["start", lbl.length_of_macro]
    if isinstance(lbl, MacroEndSsbLabel):
        return ["end"]
    return ["plain"]


def _items(ops: Any, out: bool) -> list:
    from core import p_from_impl
    from explorerscript.ssb_converting.ssb_special_ops import SsbLabel, SsbLabelJump

    res = []
    for o in ops:
        if isinstance(o, SsbLabel):
            res.append(["lab", o.id, _kind(o)])
        elif isinstance(o, SsbLabelJump):
            ps = [p_from_impl(p) for p in o.root.params]
            if out:
                res.append(["jmp", o.root.offset, o.root.op_code.name, ps, o.label.id])
            else:
                res.append(["jmp", o.root.op_code.name, ps, o.label.id, _kind(o.label)])
        else:
            ps = [p_from_impl(p) for p in o.params]
            res.append(["op", o.offset, o.op_code.name, ps] if out else ["op", o.op_code.name, ps])
    return res


def build_full_trace(src: str) -> dict:
    import explorerscript.macro as mm
    from core import impl_compile, p_from_impl

    calls: list = []
    ctrs: list = []      # the counter objects seen, kept alive so that identity is not reused
    orig = mm.ExplorerScriptMacro.build

    def ctr_index(c: Any) -> int:
        for i, x in enumerate(ctrs):
            if x is c:
                return i
        ctrs.append(c)
        return len(ctrs) - 1

    def build(self, op_idx_counter, lbl_idx_counter, parameters, smb):  # type: ignore
        rec = {"macro": self.name, "ctr": ctr_index(lbl_idx_counter), "cl0": lbl_idx_counter.count, "co0": op_idx_counter.count,
               "sigma": [[k, p_from_impl(v)] for k, v in parameters.items()], "bp": _items(self.blueprints, False)}
        out = orig(self, op_idx_counter, lbl_idx_counter, parameters, smb)
        rec.update({"out": _items(out, True), "cl1": lbl_idx_counter.count, "co1": op_idx_counter.count})
        calls.append(rec)
        return out

    mm.ExplorerScriptMacro.build = build  # type: ignore
    try:
        res = impl_compile(src)
    finally:
        mm.ExplorerScriptMacro.build = orig  # type: ignore
    return {"ok": True, "compiled": res["ok"], "calls": calls}


def _wire_ok(k: dict) -> bool:
    from core import wire_param_name_ok

    def pok(p: list) -> bool:
        return p[0] != "x" and (p[0] not in ("c", "f") or wire_param_name_ok(str(p[1])))

    return all(pok(v) for _, v in k["sigma"]) and all(pok(p) for it in k["bp"] for p in (it[2] if it[0] in ("op", "jmp") else []))


def check_kbuild(run: Any, texts: list[str]) -> None:
    from core import A, run_driver, run_impl, param_sexp
    from capture import canon_param

    traces = run_impl([("kbuild:build_full_trace", t) for t in texts])
    calls = [(t, k) for t, tr in zip(texts, traces) if tr.get("ok") for k in tr["calls"] if "out" in k]
    bad = [tr for tr in traces if not tr.get("ok")]
    if bad or not calls:
        run.correspondence_broken("K-build (Comp/MacroBuild.v)", "the invocations of build could not be recorded", {"first": bad[:1], "calls": len(calls)})
        return
    # the premise of C05_labels_private_per_expansion on the real sequences of builds: the label counter a build starts
    # from is not below the one the build before it ended with - for builds that draw from the same counter object (the
    # bodies of macro definitions are numbered apart from the routines; their labels are renamed again when they are built)
    prem = None
    for t, tr in zip(texts, traces):
        ks = [k for k in tr.get("calls", []) if "out" in k]
        last: dict = {}
        pairs = []
        for k in ks:
            if k["ctr"] in last:
                pairs.append((last[k["ctr"]], k))
            last[k["ctr"]] = k
        for a, b in pairs:
            okp = b["cl0"] >= a["cl1"]
            run.count("K-build premise (label counter never goes back between builds):" + ("ok" if okp else "BROKEN"))
            if not okp and prem is None:
                prem = {"source": t, "first": {k: a[k] for k in ("macro", "cl0", "cl1")}, "then": {k: b[k] for k in ("macro", "cl0", "cl1")}}
    if prem is not None:
        run.correspondence_broken("K-build (Comp/MacroBuild.v)", "premise of C05_labels_private_per_expansion: a build starts from a label "
                                  "counter below the one an earlier build of the same compilation ended with", prem)
    usable = [(t, k) for t, k in calls if _wire_ok(k)]
    run.count("K-build:not-representable", len(calls) - len(usable))

    def kind_s(k: list) -> list:
        return [A(k[0]), *k[1:]]

    def item_s(it: list) -> list:
        if it[0] == "op":
            return [A("op"), it[1], *[param_sexp(p) for p in it[2]]]
        if it[0] == "lab":
            return [A("lab"), it[1], kind_s(it[2])]
        return [A("jmp"), it[1], [param_sexp(p) for p in it[2]], it[3], kind_s(it[4])]

    mods = run_driver([[A("macrobuild"), [[n, param_sexp(p)] for n, p in k["sigma"]], [item_s(it) for it in k["bp"]], k["cl0"], k["co0"]] for _, k in usable])
    first = None
    for (t, k), mo in zip(usable, mods):
        diff = None
        if mo.get("r") != "ok":
            diff = "model failed: " + str(mo)[:100]
        else:
            mout = []
            for it in mo["out"]:
                if it[0] == "op":
                    mout.append(["op", it[1], it[2], [canon_param(p) for p in it[3]]])
                elif it[0] == "lab":
                    mout.append(["lab", it[1], it[2]])
                else:
                    mout.append(["jmp", it[1], it[2], [canon_param(p) for p in it[3]], it[4]])
            # the length a start label stores is source-map bookkeeping (C08, tie K-ra), not part of what C05 states
            def nolen(items: list) -> list:
                return [["lab", it[1], ["start"]] if it[0] == "lab" and it[2][0] == "start" else it for it in items]
            mout, kout = nolen(mout), nolen(k["out"])
            k = dict(k, out=kout)
            if mout != k["out"]:
                j = next((i for i, (a, b) in enumerate(zip(mout, k["out"])) if a != b), min(len(mout), len(k["out"])))
                diff = f"emitted items differ at position {j}: model {mout[j] if j < len(mout) else None} vs build {k['out'][j] if j < len(k['out']) else None}"
            elif (mo["cl"], mo["co"]) != (k["cl1"], k["co1"]):
                diff = f"counters afterwards: model {(mo['cl'], mo['co'])} vs build {(k['cl1'], k['co1'])}"
        run.count("K-build:" + ("ok" if diff is None else "DIFF"))
        bdefs = [it[1] for it in k["bp"] if it[0] == "lab"]
        odefs = [it[1] for it in k["out"] if it[0] == "lab"]
        run.count("K-build premise (the blueprint defines each label once):" + ("ok" if len(set(bdefs)) == len(bdefs) else "no"))
        if len(set(bdefs)) == len(bdefs) and len(set(odefs)) != len(odefs) and diff is None:
            diff = "the expansion defines a label twice although the blueprint defines each label once"
        labs = sum(1 for it in k["bp"] if it[0] == "lab")
        jmps = sum(1 for it in k["bp"] if it[0] == "jmp")
        rets = sum(1 for it in k["bp"] if it[0] == "op" and it[1] == "Return")
        nested = sum(1 for it in k["bp"] if it[0] == "lab" and it[2][0] == "start")
        run.count(f"K-build blueprint: labels {'0' if not labs else '1-3' if labs < 4 else '4+'}, jumps {'0' if not jmps else '1+'}, "
                  f"returns {'0' if not rets else '1+'}, nested expansions {'0' if not nested else '1+'}, arguments {'0' if not k['sigma'] else '1+'}")
        if diff and first is None:
            first = (diff, {"source": t, "call": k, "model": mo})
    if first is not None:
        run.correspondence_broken("K-build (Comp/MacroBuild.v)", first[0], first[1])
