"""Shared pipeline of the decompiler checks (C02, C06, C09, C13): generate well-formed routine sets,
decompile with the real decompiler, read the text back (real compiler; ANTLR + elaboration), and decide
behavioural equivalence with the verified checker."""
from __future__ import annotations

import copy
import random
from typing import Any

from core import A, DM_CONSTS, PERF, run_driver, run_impl, src_side, ssb_side
from gen_prog import Cfg, Gen
from gen_ssb import default_infos, has_test_only_cycle, random_routines, relayout, renumber_dense, wf_ssb, ALL_CASES
from lang import print_prog

MARKER = "//?: is-ssb-script: true"
KINDS = {"GENERIC": "generic", "ACTOR": "actor", "OBJECT": "object", "PERFORMER": "performer", "COROUTINE": "coroutine"}


# ---- dungeon-mode relaxation (the one documented): 0..3 <-> configured constant
def norm_dm_ops(routines: list[list[dict]]) -> list[list[dict]]:
    out = copy.deepcopy(routines)
    for r in out:
        sw = None
        for op in r:
            c = op["code"]
            if c == "flag_SetDungeonMode" and len(op["params"]) >= 2:
                p = op["params"][1]
                if p[0] == "i" and 0 <= p[1] <= 3:
                    op["params"][1] = ["c", DM_CONSTS[p[1]]]
            if c in ALL_CASES:
                if sw == "SwitchDungeonMode" and c == "Case" and op["params"] and op["params"][0][0] == "i" \
                        and 0 <= op["params"][0][1] <= 3:
                    op["params"][0] = ["c", DM_CONSTS[op["params"][0][1]]]
            else:
                sw = c
    return out


def _norm_dm_param(p: list) -> list:
    if p[0] == "i" and isinstance(p[1], int) and 0 <= p[1] <= 3:
        return [A("c"), DM_CONSTS[p[1]]]
    return p


def norm_dm_stmts(ss: list) -> list:
    out = []
    for s in ss:
        k = s[0]
        if k == "assign" and s[1][0] == "dmode":
            out.append([s[0], [s[1][0], s[1][1], _norm_dm_param(s[1][2])]])
        elif k == "with":
            out.append([s[0], s[1], s[2], norm_dm_stmts([s[3]])[0]])
        elif k == "if":
            out.append([k, s[1], s[2], norm_dm_stmts(s[3]), [[e[0], e[1], norm_dm_stmts(e[2])] for e in s[4]],
                        [norm_dm_stmts(s[5][0])] if s[5] else None])
        elif k == "switch":
            dm = s[1][0] == "dmode"
            cases = []
            for c in s[2]:
                if c[0] == "case":
                    h = c[1]
                    if dm and h[0] == "int":
                        h = [h[0], _norm_dm_param(h[1])]
                    cases.append([c[0], h, norm_dm_stmts(c[2])])
                else:
                    cases.append([c[0], norm_dm_stmts(c[1])])
            out.append([k, s[1], cases])
        elif k == "forever":
            out.append([k, norm_dm_stmts(s[1])])
        elif k == "while":
            out.append([k, s[1], s[2], norm_dm_stmts(s[3])])
        elif k == "for":
            out.append([k, norm_dm_stmts([s[1]])[0], s[2], norm_dm_stmts([s[3]])[0], norm_dm_stmts(s[4])])
        else:
            out.append(s)
    return out


def norm_dm_ast(p: list) -> list:
    return [p[0], [[m[0], m[1], m[2], norm_dm_stmts(m[3])] for m in p[1]],
            [[*r[:6], norm_dm_stmts(r[6])] for r in p[2]]]


def infos_of_ast(p: list) -> tuple[list, list]:
    infos, coros = [], []
    for r in p[2]:
        kind = str(r[2])
        if kind == "coroutine":
            infos.append({"type": "COROUTINE", "linked_to": 0, "linked_to_name": None})
            coros.append(r[4][0])
        elif kind == "generic":
            infos.append({"type": "GENERIC", "linked_to": 0, "linked_to_name": None})
            coros.append(None)
        else:
            t = r[3][0]
            infos.append({"type": kind.upper(), "linked_to": t[1] if t[0] == "i" else -1,
                          "linked_to_name": t[1] if t[0] == "c" else None})
            coros.append(None)
    return infos, coros


def infos_equal(a: list, b: list) -> bool:
    if len(a) != len(b):
        return False
    for x, y in zip(a, b):
        if x is None or y is None:
            return False
        if x["type"] != y["type"]:
            return False
        if x["type"] in ("ACTOR", "OBJECT", "PERFORMER"):
            if (x["linked_to"], x["linked_to_name"] or None) != (y["linked_to"], y["linked_to_name"] or None):
                return False
    return True


class Case:
    def __init__(self, name: str, ops: list, infos: list, coros: list, src: list | None = None, cls: str = ""):
        self.name, self.ops, self.infos, self.coros, self.src, self.cls = name, ops, infos, coros, src, cls


def gen_cases(seed: int, n_compiled: int, n_relayout: int, n_random: int, prop: str, flat: bool = False,
              cfg_kw: dict | None = None, exclude_test_only_cycles: bool = False) -> tuple[list[Case], dict]:
    """G_ssb: returns well-formed cases and generation statistics"""
    stats: dict[str, int] = {}
    cases: list[Case] = []
    progs = []
    for i in range(n_compiled):
        r = random.Random(f"{prop}-ssb-{seed}-{i}")
        small = r.random() < 0.6
        kw = dict(max_depth=2 if small else 3, max_block=2 if small else 3, max_routines=2, terminator_prob=1.0)
        kw.update(cfg_kw or {})
        progs.append(Gen(r, Cfg(**kw)).program())
    texts = [print_prog(p) for p in progs]
    res = run_impl([("compile", t) for t in texts])
    compiled: list[Case] = []
    for i, (p, r) in enumerate(zip(progs, res)):
        if not r["ok"]:
            stats["compile:" + r["err"]] = stats.get("compile:" + r["err"], 0) + 1
            continue
        infos, coros = infos_of_ast(p)
        # as a binary reader delivers them: numbered by position (the compiler's own numbers have gaps and are
        # not monotone where a default jump is allocated after the case bodies)
        compiled.append(Case(f"compiled:{seed}:{i}", renumber_dense(r["ops"]), infos, coros, src=p, cls="compiled"))
    for j in range(n_relayout):
        if not compiled:
            break
        r = random.Random(f"{prop}-relayout-{seed}-{j}")
        base = r.choice(compiled)
        lead = r.random() < 0.3
        ops = relayout(base.ops, r, leading_jump=lead)
        compiled_cls = "relayout_leading_jump" if lead else "relayout"
        cases.append(Case(f"relayout:{seed}:{j}<-{base.name}", ops, base.infos, base.coros, src=None, cls=compiled_cls))
    # twins: the last routine once more as a further routine (its own jumps moved along): whatever is numbered or
    # named per routine (switch ids, label names, caches) meets an equal twin in the same file
    from gen_ssb import JUMP_IDX
    import copy
    for j in range(max(1, n_relayout // 6) if compiled else 0):
        r = random.Random(f"{prop}-twin-{seed}-{j}")
        base = r.choice(compiled + cases)
        if not base.ops or not base.ops[-1]:
            continue
        last = base.ops[-1]
        own = {op["off"] for op in last}
        shift = max(op["off"] for rt in base.ops for op in rt) + r.randint(1, 5) - min(own) + 1
        twin = copy.deepcopy(last)
        for op in twin:
            ji = JUMP_IDX.get(op["code"])
            if ji is not None and ji < len(op["params"]) and op["params"][ji][0] == "i" and op["params"][ji][1] in own:
                op["params"][ji] = ["i", op["params"][ji][1] + shift]
            op["off"] += shift
        info = dict(base.infos[-1])
        coro = base.coros[-1]
        cases.append(Case(f"twin:{seed}:{j}<-{base.name}", copy.deepcopy(base.ops) + [twin], list(base.infos) + [info],
                          list(base.coros) + [coro + "_twin" if isinstance(coro, str) else coro], src=None, cls="twin"))
    cases = compiled + cases
    for k in range(n_random):
        r = random.Random(f"{prop}-random-{seed}-{k}")
        ops = random_routines(r)
        infos, coros = default_infos(ops, r)
        cases.append(Case(f"random:{seed}:{k}", ops, infos, coros, cls="random"))
    good = []
    for c in cases:
        why = wf_ssb(c.ops)
        if why is None and exclude_test_only_cycles and has_test_only_cycle(c.ops):
            why = "cycle of tests and jumps without any operation"
        if why is None:
            good.append(c)
            stats["wf:" + c.cls] = stats.get("wf:" + c.cls, 0) + 1
        else:
            stats[f"rejected:{c.cls}:{why}"] = stats.get(f"rejected:{c.cls}:{why}", 0) + 1
    return good, stats


def decompile_without_loop_builder(ops: list, infos: list, coros: list) -> dict:
    """the real decompiler with SsbGraphMinimizer.build_loops switched off from outside (no loop is written as `forever`;
    everything else as it is): tells whether a wrong text is due to that call site"""
    import explorerscript.ssb_converting.decompiler.graph_building.graph_minimizer as gm
    from core import impl_decompile

    orig = gm.SsbGraphMinimizer.build_loops
    gm.SsbGraphMinimizer.build_loops = lambda self: None  # type: ignore
    try:
        return impl_decompile(ops, infos, coros)
    finally:
        gm.SsbGraphMinimizer.build_loops = orig  # type: ignore


def run_pipeline(cases: list[Case], dec_task: str = "decompile") -> list[dict]:
    """decompile every case; read the text back; decide equivalences. Returns one record per case."""
    dres = run_impl([(dec_task, c.ops, c.infos, c.coros) for c in cases])
    recs: list[dict] = []
    todo_compile, todo_elab = [], []
    for c, d in zip(cases, dres):
        rec: dict[str, Any] = {"case": c, "dec": d, "fallback": False}
        if d["ok"]:
            rec["fallback"] = d["text"].startswith(MARKER)
            todo_compile.append(len(recs))
            if not rec["fallback"]:
                todo_elab.append(len(recs))
        recs.append(rec)
    cres = run_impl([("compile", recs[i]["dec"]["text"]) for i in todo_compile])
    for i, r in zip(todo_compile, cres):
        recs[i]["recompiled"] = r
    eres = run_impl([("lang:parse_and_elab", recs[i]["dec"]["text"]) for i in todo_elab])
    for i, r in zip(todo_elab, eres):
        recs[i]["elab"] = r
    cmds, where = [], []
    for i, rec in enumerate(recs):
        if not rec["dec"]["ok"] or rec["fallback"]:
            continue
        x = norm_dm_ops(rec["case"].ops)
        if rec.get("elab", {}).get("ok"):
            cmds.append([A("equiv"), src_side(norm_dm_ast(rec["elab"]["ast"])), ssb_side(x)])
            where.append((i, "eq_text"))
        if rec.get("recompiled", {}).get("ok"):
            cmds.append([A("equiv"), ssb_side(norm_dm_ops(rec["recompiled"]["ops"])), ssb_side(x)])
            where.append((i, "eq_recompiled"))
    for (i, key), out in zip(where, run_driver(cmds)):
        recs[i][key] = out
    return recs


def judge_c02(rec: dict) -> str | None:
    """C02 verdict for a structured (non-fallback) answer; None = holds"""
    c: Case = rec["case"]
    d = rec["dec"]
    if not d["ok"] or rec["fallback"]:
        return None  # C06's business
    rc = rec.get("recompiled")
    if rc is None or not rc["ok"]:
        return f"decompiled text is rejected by the compiler: {rc and rc.get('err')} {rc and rc.get('msg')}"
    el = rec.get("elab")
    if el is None or not el["ok"]:
        return f"decompiled text can not be read: {el and el.get('err')} {el and el.get('msg')}"
    et = rec.get("eq_text", {})
    if et.get("r") != "ok":
        if et.get("r") == "fail":
            return f"text, read by the spec, behaves differently from the input at {et['pair']}: text {et['o1']} vs input {et['o2']}"
        return f"text vs input: {et.get('r')} {et.get('msg', '')} {et.get('side', '')}"
    er = rec.get("eq_recompiled", {})
    if er.get("r") != "ok":
        if er.get("r") == "fail":
            return f"compile(decompile(x)) behaves differently from x at {er['pair']}: {er['o1']} vs {er['o2']}"
        return f"recompiled vs input: {er.get('r')} {er.get('msg', '')}"
    ast_infos, ast_coros = infos_of_ast(el["ast"])
    if not infos_equal(ast_infos, c.infos) or not infos_equal(rc["infos"], c.infos):
        return f"routine kinds/targets differ: {rc['infos']} vs {c.infos}"
    want = [n for n in c.coros]
    if [x for x in rc["coros"]] != want or ast_coros != want:
        return f"coroutine names differ: {rc['coros']} vs {want}"
    return None
