"""G_prog: AST-first generator of ExplorerScript programs (wire-form ASTs, see lang.py)."""
from __future__ import annotations

import random
from typing import Any

from core import A, PERF
from lang import P_c, P_f, P_i, P_l, P_p, P_s

OPS = ["op_a", "op_b", "WaitExecuteLives", "message_Talk", "camera_SetMyself", "se_Play", "Wait", "Turn2Direction",
       "back_SetGround", "supervision_Acting"]
CONSTS = ["$SCENARIO_MAIN", "$GROUND_ENTER", "ACTOR_PLAYER", "LEVEL_X", "$VAR_A", "$LOCAL0", PERF, "DMODE_OPEN"]
VARS = ["$SCENARIO_MAIN", "$GROUND_ENTER", "$VAR_A", "$LOCAL0", PERF]
STRS = ["Hello", " two words", "it's", 'say "hi"', "line1\nline2", "", "ünï", "tab\there"]
LANGS = ["english", "french", "german"]
COPS = ["false", "true", "eq", "gt", "lt", "ge", "le", "ne", "and", "xor", "bich"]
SCN_COPS = ["eq", "gt", "lt", "ge", "le"]
AOPS = ["assign", "minus", "plus", "mul", "div"]


class Cfg:
    def __init__(self, **kw: Any):
        self.max_depth = 3
        self.max_block = 4
        self.max_routines = 3
        self.labels = True
        self.loops = True
        self.switches = True
        self.ifs = True
        self.ctx = True
        self.macros = False
        self.rich_params = True
        self.terminator_prob = 0.7
        self.labels_top_level_only = False   # label definitions only between the top-level statements of a routine
        self.forward_jumps_only = False      # jumps/calls go to later top-level labels of the routine or to other routines
        self.small_alphabet = False
        self.ctx_ctrl = False                # jumps, calls and control statements as the statement of a with-block
        self.ctx_term = False                # return / end / hold as the statement of a with-block (it does not end the routine)
        for k, v in kw.items():
            setattr(self, k, v)


class Gen:
    def __init__(self, rng: random.Random, cfg: Cfg | None = None):
        self.r = rng
        self.c = cfg or Cfg()
        # (a generator of its own, not drawn from rng: programs without ctx_ctrl are the same as before)
        self._wr = random.Random(str(rng.getstate()[1][:8])) if (cfg is not None and (cfg.ctx_ctrl or cfg.ctx_term)) else None
        self.all_labels: list[str] = []
        self.pending: list[str] = []  # labels of the current routine not yet defined
        self.stats: dict[str, int] = {}

    def count(self, k: str) -> None:
        self.stats[k] = self.stats.get(k, 0) + 1

    # ---- atoms
    def ilike(self) -> list:
        x = self.r.random()
        if self.c.small_alphabet:
            return P_i(self.r.randrange(3)) if x < 0.5 else P_c(self.r.choice(CONSTS[:3]))
        if x < 0.45:
            return P_i(self.r.choice([0, 1, 2, 3, 5, 10, -1, 255, 1000, -32768]))
        if x < 0.9:
            return P_c(self.r.choice(CONSTS))
        return P_f(self.r.choice(["1.5", "0.25", "-0.5", "12.0034", "-3.75", "0.0"]))

    def var(self) -> list:
        if self.r.random() < 0.85:
            return P_c(self.r.choice(VARS[:-1] if self.r.random() < 0.8 else VARS))
        return P_i(self.r.randrange(0, 40))

    def string(self) -> list:
        if self.r.random() < 0.75:
            return P_s(self.r.choice(STRS))
        ks = self.r.sample(LANGS, self.r.randint(1, 3))
        return P_l([(k, self.r.choice(STRS)) for k in ks])

    def posmark(self) -> list:
        return P_p(self.r.choice(["m0", "mark one", "p"]), self.r.choice([0, 2]), self.r.choice([0, 2]),
                   self.r.randrange(-3, 60), self.r.randrange(0, 60))

    def arg(self) -> list:
        if not self.c.rich_params:
            return self.ilike()
        x = self.r.random()
        if x < 0.6:
            return self.ilike()
        if x < 0.9:
            return self.string()
        return self.posmark()

    def args(self) -> list:
        return [self.arg() for _ in range(self.r.choice([0, 1, 1, 2, 3]))]

    def opname(self) -> str:
        return self.r.choice(OPS[:2] if self.c.small_alphabet else OPS)

    # ---- conditions
    def cond(self) -> list:
        x = self.r.random()
        if x < 0.2:
            return [A("neg"), self.r.random() < 0.4, A(self.r.choice(["debug", "edit", "variation"]))]
        if x < 0.6:
            return [A("cop"), self.var(), A(self.r.choice(COPS)), self.r.random() < 0.25, self.ilike()]
        if x < 0.8:
            v = self.var()
            neg = self.r.random() < 0.4 and v == P_c(PERF)
            return [A("bit"), neg, v, self.r.randrange(0, 16)]
        if x < 0.95:
            return [A("scn"), self.var(), A(self.r.choice(SCN_COPS)), self.r.randrange(0, 60), self.r.randrange(0, 9)]
        return [A("operation"), "BranchSum", self.ilike(), self.ilike(), self.ilike()]

    def conds(self) -> list:
        return [self.cond() for _ in range(self.r.choice([1, 1, 1, 2, 3]))]

    # ---- statements
    def op_stmt(self) -> list:
        c = None
        if self.c.ctx and self.r.random() < 0.12:
            c = [self.r.choice(["actor", "object", "performer"]), self.ilike_nofixed()]
        self.count("op")
        return [A("op"), c, self.opname(), *self.args()]

    def ilike_nofixed(self) -> list:
        while True:
            p = self.ilike()
            if p[0] != "f":
                return p

    def assign_stmt(self) -> list:
        self.count("assign")
        k = self.r.randrange(9)
        if k == 0:
            return [A("assign"), [A("regular"), self.var(), None, A(self.r.choice(AOPS)), self.r.random() < 0.3,
                                  self.ilike()]]
        if k == 1:
            return [A("assign"), [A("regular"), self.var(), [self.r.randrange(0, 8)], A("assign"), False,
                                  P_i(self.r.choice([0, 1]))]]
        if k == 2:
            return [A("assign"), [A("clear"), self.var()]]
        if k == 3:
            return [A("assign"), [A("init"), self.var()]]
        if k == 4:
            return [A("assign"), [A("resetdr")]]
        if k == 5:
            return [A("assign"), [A("resetscn"), self.var()]]
        if k == 6:
            return [A("assign"), [A("advlog"), self.ilike_nofixed()]]
        if k == 7:
            return [A("assign"), [A("dmode"), self.ilike_nofixed(),
                                  self.r.choice([P_c("DMODE_OPEN"), P_c("DMODE_CLOSED"), P_c("DMODE_REQUEST"),
                                                 P_c("DMODE_OPEN_AND_REQUEST")])]]
        return [A("assign"), [A("scn"), self.var(), self.r.randrange(0, 60), self.r.randrange(0, 9)]]

    def plain(self) -> list:
        x = self.r.random()
        if x < 0.6:
            return self.op_stmt()
        if x < 0.85:
            return self.assign_stmt()
        if x < 0.93 and self.c.ctx:
            self.count("with")
            inner = self.r.choice([self.op_stmt_noctx, self.assign_stmt])()
            return [A("with"), self.r.choice(["actor", "object", "performer"]), self.ilike_nofixed(), inner]
        self.count("msgswitch")
        cases = [[self.ilike_nofixed(), self.string()] for _ in range(self.r.randint(0, 3))]
        dflt = [self.string()] if self.r.random() < 0.6 else None
        return [A("msgswitch"), self.r.random() < 0.5, self.var(), cases, dflt]

    def op_stmt_noctx(self) -> list:
        return [A("op"), None, self.opname(), *self.args()]

    def block(self, depth: int, in_loop: bool, in_case: bool, allow_empty: bool = True) -> list:
        n = self.r.randint(0 if allow_empty else 1, self.c.max_block)
        out: list = []
        for _ in range(n):
            out.extend(self.stmt(depth, in_loop, in_case))
        return out

    def stmt(self, depth: int, in_loop: bool, in_case: bool) -> list:
        """returns a list of statements (a label definition may be put in front)"""
        pre: list = []
        if self.c.labels and self.pending and self.r.random() < 0.15 and not (self.c.labels_top_level_only and depth < self.c.max_depth):
            pre.append([A("label"), self.pending.pop()])
            self.count("label")
        x = self.r.random()
        if depth <= 0 or x < 0.5:
            y = self.r.random()
            if y < 0.72:
                return pre + [self.plain()]
            def wrap(st: list) -> list:
                # (only with ctx_ctrl, and decided by a generator of its own: the programs of the other checks stay as they are)
                if self.c.ctx_ctrl and self.c.ctx and self._wr.random() < 0.2:
                    self.count("with-ctrl")
                    return [A("with"), self._wr.choice(["actor", "object", "performer"]), [A("i"), self._wr.randrange(0, 9)], st]
                return st
            if y < 0.80:
                self.count("terminator")
                t = [A("ctrl"), A(self.r.choice(["return", "end", "hold"]))]
                if self.c.ctx_term and not self.c.ctx_ctrl and self.c.ctx and self._wr.random() < 0.45:
                    self.count("with-terminator")
                    return pre + [[A("with"), self._wr.choice(["actor", "object", "performer"]), [A("i"), self._wr.randrange(0, 9)], t]]
                return pre + [wrap(t)]
            if y < 0.88 and self.c.labels and self.all_labels:
                self.count("jump")
                return pre + [wrap([A("jump"), self.r.choice(self.all_labels)])]
            if y < 0.91 and self.c.labels and self.all_labels:
                self.count("call")
                return pre + [wrap([A("call"), self.r.choice(self.all_labels)])]
            if y < 0.95 and in_case:
                self.count("break")
                return pre + [wrap([A("ctrl"), A("break")])]
            if in_loop:
                self.count("loopctl")
                return pre + [wrap([A("ctrl"), A(self.r.choice(["continue", "break_loop"]))])]
            return pre + [self.plain()]
        if x < 0.72 and self.c.ifs:
            self.count("if")
            elifs = [[self.r.random() < 0.3, self.conds(), self.block(depth - 1, in_loop, in_case)]
                     for _ in range(self.r.choice([0, 0, 1, 2]))]
            els = [self.block(depth - 1, in_loop, in_case)] if self.r.random() < 0.5 else None
            return pre + [[A("if"), self.r.random() < 0.3, self.conds(), self.block(depth - 1, in_loop, in_case),
                           elifs, els]]
        if x < 0.86 and self.c.switches:
            self.count("switch")
            return pre + [self.switch(depth, in_loop)]
        if self.c.loops:
            k = self.r.randrange(3)
            self.count("loop")
            if k == 0:
                # an empty forever body would be a cycle of Jump ops only
                return pre + [[A("forever"), [self.op_stmt_noctx()] + self.block(depth - 1, True, in_case)]]
            if k == 1:
                return pre + [[A("while"), self.r.random() < 0.35, self.cond(), self.block(depth - 1, True, in_case)]]
            return pre + [[A("for"), self.assign_stmt(), self.cond(), self.assign_stmt(),
                           self.block(depth - 1, True, in_case)]]
        return pre + [self.plain()]

    def switch_header(self) -> list:
        k = self.r.randrange(7)
        if k == 0:
            return [A("scn"), self.var(), self.r.choice([0, 1])]
        if k == 1:
            return [A("random"), self.ilike_nofixed()]
        if k == 2:
            return [A("dmode"), self.ilike_nofixed()]
        if k == 3:
            return [A("sector")]
        if k == 4:
            return [A("operation"), None, self.r.choice(["message_Menu", "ProcessSpecial", "message_SwitchMenu"]),
                    *[self.ilike() for _ in range(self.r.randint(0, 2))]]
        return [A("var"), self.var()]

    def case_header(self, menu: bool) -> list:
        if menu:
            if self.r.random() < 0.6:
                return [A("menu"), self.string()]
            return [A("menu2"), self.ilike_nofixed()]
        x = self.r.random()
        if x < 0.6:
            return [A("int"), self.ilike_nofixed()]
        return [A("op"), A(self.r.choice(COPS)), self.r.random() < 0.3, self.ilike_nofixed()]

    def switch(self, depth: int, in_loop: bool) -> list:
        h = self.switch_header()
        menu = h[0] == "operation" and h[2] == "message_SwitchMenu"
        n = self.r.randint(0, 4)
        cases: list = []
        has_default = False
        for i in range(n):
            if not has_default and self.r.random() < 0.25:
                has_default = True
                body = self.block(depth - 1, in_loop, True) if self.r.random() < 0.8 else []
                cases.append([A("default"), body])
            else:
                body = self.block(depth - 1, in_loop, True) if self.r.random() < 0.75 else []
                cases.append([A("case"), self.case_header(menu), body])
        # a switch must not end in an empty case
        if cases and not cases[-1][-1]:
            cases[-1][-1] = self.block(depth - 1, in_loop, True, allow_empty=False)
        return [A("switch"), h, cases]

    def routine_body_forward(self, own_labels: list[str], foreign_labels: list[str]) -> list:
        """top-level labels at fixed positions; jumps only to labels defined later or in other routines"""
        n = self.r.randint(max(1, len(own_labels)), self.c.max_block + 2 + len(own_labels))
        positions = sorted(self.r.randint(1, n) for _ in own_labels)   # label k is defined before statement positions[k]
        body: list = []
        for i in range(n + 1):
            for k, pos in enumerate(positions):
                if pos == i:
                    body.append([A("label"), own_labels[k]])
                    self.count("label")
            if i == n:
                break
            self.all_labels = [own_labels[k] for k, pos in enumerate(positions) if pos > i] + foreign_labels
            self.pending = []
            body.extend(self.stmt(self.c.max_depth, False, False))
        body.append([A("ctrl"), A(self.r.choice(["return", "end", "hold"]))])
        return body

    def routine_body(self) -> list:
        body: list = []
        n = self.r.randint(1, self.c.max_block + 2)
        for _ in range(n):
            body.extend(self.stmt(self.c.max_depth, False, False))
        # define the labels still pending at random top-level positions
        while self.pending:
            pos = self.r.randint(0, len(body))
            body.insert(pos, [A("label"), self.pending.pop()])
            self.count("label")
        if self.r.random() < self.c.terminator_prob:
            body.append([A("ctrl"), A(self.r.choice(["return", "end", "hold"]))])
        if not body:
            body.append(self.op_stmt())
        return body

    def program(self) -> list:
        nr = self.r.randint(1, self.c.max_routines)
        coro = self.r.random() < 0.15
        per_routine_labels = []
        self.all_labels = []
        for i in range(nr):
            ls = [f"r{i}_l{j}" for j in range(self.r.choice([0, 0, 1, 2, 3]))] if self.c.labels else []
            per_routine_labels.append(ls)
            self.all_labels.extend(ls)
        routines = []
        for i in range(nr):
            self.pending = list(per_routine_labels[i])
            self.r.shuffle(self.pending)
            if i > 0 and self.r.random() < 0.08 and not per_routine_labels[i]:
                alias, body = True, []
            elif self.c.forward_jumps_only:
                foreign = [l for j, ls in enumerate(per_routine_labels) if j != i for l in ls]
                alias, body = False, self.routine_body_forward(per_routine_labels[i], foreign)
                self.all_labels = [l for ls in per_routine_labels for l in ls]
            else:
                alias, body = False, self.routine_body()
            if coro:
                routines.append([A("routine"), i, A("coroutine"), None, [f"CORO_{i}"], alias, body])
            else:
                k = self.r.random()
                if k < 0.6:
                    routines.append([A("routine"), i, A("generic"), None, None, alias, body])
                else:
                    kind = self.r.choice(["actor", "object", "performer"])
                    routines.append([A("routine"), i, A(kind), [self.ilike_nofixed()], None, alias, body])
        return [A("prog"), [], routines]


def stmt_count(ss: list) -> int:
    n = 0
    for s in ss:
        n += 1
        k = s[0]
        if k == "if":
            n += stmt_count(s[3]) + sum(stmt_count(e[2]) for e in s[4]) + (stmt_count(s[5][0]) if s[5] else 0)
        elif k == "switch":
            n += sum(stmt_count(c[-1]) for c in s[2])
        elif k in ("forever",):
            n += stmt_count(s[1])
        elif k == "while":
            n += stmt_count(s[3])
        elif k == "for":
            n += stmt_count(s[4])
    return n


def prog_size(p: list) -> int:
    return sum(stmt_count(r[6]) for r in p[2])


# ----------------------------------------------------------------------------- macros and file layouts
class MacroGen(Gen):
    """Programs with macros: acyclic call graphs (chains, diamonds, shared callees), any definition order,
    all argument kinds, return at any depth, private labels; optionally spread over imported files."""

    def __init__(self, rng: random.Random, cfg: Cfg | None = None):
        super().__init__(rng, cfg)
        self.callable: list[tuple[str, int]] = []   # (macro name, number of variables) callable from here
        self.extra: list[str] = []                  # macro variables in scope

    def ilike(self) -> list:
        if self.extra and self.r.random() < 0.35:
            return P_c(self.r.choice(self.extra))
        while True:
            p = super().ilike()
            if p != P_c(PERF):
                return p

    def var(self) -> list:
        if self.extra and self.r.random() < 0.3:
            return P_c(self.r.choice(self.extra))
        while True:
            p = super().var()
            if p != P_c(PERF):
                return p

    def call_arg(self) -> list:
        x = self.r.random()
        if x < 0.5:
            return self.ilike()
        if x < 0.8:
            return self.string()
        return self.posmark()

    def plain(self) -> list:
        if self.callable and self.r.random() < 0.3:
            name, nv = self.r.choice(self.callable)
            self.count("macrocall")
            extra = self.r.choice([0, 0, 0, 1])
            return [A("macrocall"), name, *[self.call_arg() for _ in range(nv + extra)]]
        return super().plain()

    def macro_program(self, n_files: int = 1) -> dict:
        nm = self.r.randint(1, 5)
        names = [f"m{i}" for i in range(nm)]
        # calls go from lower to higher index; files: index non-decreasing
        file_of = sorted(self.r.randrange(n_files) for _ in range(nm))
        nvars = [self.r.choice([0, 1, 1, 2, 3]) for _ in range(nm)]
        macros = []
        for i in reversed(range(nm)):
            self.callable = [(names[j], nvars[j]) for j in range(i + 1, nm) if self.r.random() < 0.6]
            self.extra = [f"$p{k}" for k in range(nvars[i])]
            ls = [f"{names[i]}_l{j}" for j in range(self.r.choice([0, 0, 1, 2]))] if self.c.labels else []
            self.all_labels = list(ls)
            self.pending = list(ls)
            body: list = []
            for _ in range(self.r.randint(1, 3)):
                body.extend(self.stmt(2, False, False))
            while self.pending:
                body.insert(self.r.randint(0, len(body)), [A("label"), self.pending.pop()])
            if not body:
                body = [self.op_stmt_noctx()]
            macros.append((i, [A("macro"), names[i], list(self.extra), body]))
        macros.sort(key=lambda t: t[0])
        self.extra = []
        self.callable = [(names[j], nvars[j]) for j in range(nm)]
        base = self.program()
        routines = base[2]
        # distribute over files, each in a random definition order
        files = []
        for f in range(n_files):
            ms = [m for (i, m) in macros if file_of[i] == f]
            self.r.shuffle(ms)
            files.append(ms)
        return {"macros_by_file": files, "routines": routines,
                "flat": [A("prog"), [m for (_, m) in macros], routines]}
