"""Capture of the intermediate op lists between the compiler passes (wrapping module-level names of
explorerscript.ssb_converting.ssb_compiler from outside; no change to /repo)."""
from __future__ import annotations

from typing import Any

from core import PERF, classify_exc, infos_from_impl, ops_from_impl, p_from_impl, sm_to_json, A, param_sexp


def pop_json(op: Any) -> list:
    from explorerscript.ssb_converting.ssb_special_ops import SsbLabel, SsbLabelJump

    if isinstance(op, SsbLabel):
        return ["L", op.id]
    if isinstance(op, SsbLabelJump):
        root = op.maybe_root
        return ["J", {"off": root.offset, "code": root.op_code.name, "params": [p_from_impl(p) for p in root.params]},
                op.label.id if op.label is not None else -1]
    return ["O", {"off": op.offset, "code": op.op_code.name, "params": [p_from_impl(p) for p in op.params]}]


def pops_json(rs: Any) -> list:
    return [[pop_json(o) for o in r] for r in rs]


def compile_capture(src: str, file_name: str = "/nonexistent/verif_main.exps", lookup_paths: list | None = None) -> dict:
    import explorerscript.ssb_converting.ssb_compiler as sc

    cap: dict[str, Any] = {}
    o_strip, o_fin, o_rem = sc.strip_last_label, sc.LabelFinalizer, sc.OpsLabelJumpToRemover

    def strip(rs: Any) -> Any:
        cap["strip_in"] = pops_json(rs)
        out = o_strip(rs)
        cap["strip_out"] = pops_json(out)
        return out

    class Fin(o_fin):  # type: ignore
        def __init__(self, rs: Any) -> None:
            cap["fin_in"] = pops_json(rs)
            super().__init__(rs)
            cap["fin_out"] = pops_json(self.routines)
            cap["fin_table"] = sorted([k, v] for k, v in self.label_offsets.items())

    class Rem(o_rem):  # type: ignore
        def __init__(self, rs: Any, lo: Any) -> None:
            try:
                super().__init__(rs, lo)
                cap["rem_out"] = ops_from_impl(self.routines)
            except BaseException as e:  # noqa
                cap["rem_err"] = classify_exc(e)
                raise

    sc.strip_last_label, sc.LabelFinalizer, sc.OpsLabelJumpToRemover = strip, Fin, Rem
    try:
        try:
            c = sc.ExplorerScriptSsbCompiler(PERF, lookup_paths)
            c.compile(src, file_name)
            return {"ok": True, "ops": ops_from_impl(c.routine_ops), "infos": infos_from_impl(c.routine_infos),
                    "coros": [x if isinstance(x, str) else None for x in c.named_coroutines],
                    "coros_raw": [x if isinstance(x, str) else repr(x) for x in c.named_coroutines],
                    "sm": sm_to_json(c.source_map), "cap": cap}
        except BaseException as e:  # noqa
            if isinstance(e, (KeyboardInterrupt, SystemExit)):
                raise
            return {"ok": False, "err": classify_exc(e), "msg": str(e)[:300], "cap": cap}
    finally:
        sc.strip_last_label, sc.LabelFinalizer, sc.OpsLabelJumpToRemover = o_strip, o_fin, o_rem


def pops_sexp(rs: list) -> list:
    def op_s(o: dict) -> list:
        return [A("op"), int(o["off"]), o["code"], *[param_sexp(p) for p in o["params"]]]

    out = []
    for r in rs:
        rr = []
        for x in r:
            if x[0] == "L":
                rr.append([A("L"), x[1]])
            elif x[0] == "J":
                rr.append([A("J"), op_s(x[1]), x[2]])
            else:
                rr.append([A("O"), op_s(x[1])])
        out.append(rr)
    return out


def canon_param(p: list) -> list:
    """JSON params as the OCaml driver prints them -> harness tagged form"""
    t = p[0]
    if t == "i":
        return ["i", int(p[1])]
    if t in ("f", "c"):
        return [t, p[1]]
    if t == "s":
        return ["s", "".join(chr(c) for c in p[1])]
    if t == "l":
        return ["l", [[k, "".join(chr(c) for c in v)] for k, v in p[1]]]
    if t == "p":
        return ["p", "".join(chr(c) for c in p[1]), int(p[2]), int(p[3]), int(p[4]), int(p[5])]
    return p


def canon_op(o: dict) -> dict:
    return {"off": int(o["off"]), "code": o["code"], "params": [canon_param(p) for p in o["params"]]}


def canon_pops(rs: list) -> list:
    out = []
    for r in rs:
        rr = []
        for x in r:
            if x[0] == "L":
                rr.append(["L", x[1]])
            elif x[0] == "J":
                rr.append(["J", canon_op(x[1]), x[2]])
            else:
                rr.append(["O", canon_op(x[1])])
        out.append(rr)
    return out
