"""ExplorerScript AST (in wire form), pretty-printer, and elaboration of ANTLR parse trees to AST.

The AST form is exactly the S-expression grammar read by ocaml/wire.ml (atoms are core.A).
The elaboration is independent of the compiler's handlers: literal values are computed here
(int(s, 0); documented string rules), not with explorerscript's own readers.
"""
from __future__ import annotations

import random
from typing import Any

from core import A, cps, PERF

# ----------------------------------------------------------------------------- constructors


def P_i(n: int) -> list:
    return [A("i"), n]


def P_f(s: str) -> list:
    return [A("f"), s]


def P_c(s: str) -> list:
    return [A("c"), s]


def P_s(t: str) -> list:
    return [A("s"), *cps(t)]


def P_l(items: list[tuple[str, str]]) -> list:
    return [A("l"), *[[k, *cps(v)] for k, v in items]]


def P_p(name: str, xo: int, yo: int, xr: int, yr: int) -> list:
    return [A("p"), cps(name), xo, yo, xr, yr]


def text_of(cpl: list[int]) -> str:
    return "".join(chr(c) for c in cpl)


COPS = {"false": "FALSE", "true": "TRUE", "eq": "==", "gt": ">", "lt": "<", "ge": ">=", "le": "<=", "ne": "!=",
        "and": "&", "xor": "^", "bich": "&<<"}
AOPS = {"assign": "=", "minus": "-=", "plus": "+=", "mul": "*=", "div": "/="}
KEYWORDS = {
    "FALSE", "TRUE", "not", "jump", "call", "import", "macro", "if", "elseif", "else", "forever", "with", "switch",
    "return", "end", "hold", "continue", "break", "break_loop", "value", "debug", "edit", "variation", "random",
    "sector", "dungeon_mode", "menu2", "menu", "case", "default", "clear", "reset", "init", "scn", "dungeon_result",
    "adventure_log", "message_SwitchTalk", "message_SwitchMonologue", "while", "coro", "def", "for_actor",
    "for_object", "for_performer", "alias", "for", "previous", "Position",
}

# ----------------------------------------------------------------------------- printer


class Style:
    """Layout choices of the printer. Default: canonical."""

    def __init__(self, rng: random.Random | None = None, wild: bool = False):
        self.rng = rng
        self.wild = wild and rng is not None

    def quote(self) -> str:
        if self.wild and self.rng.random() < 0.5:  # type: ignore
            return '"'
        return "'"

    def sep(self) -> str:
        """separator between tokens where whitespace is optional"""
        if not self.wild:
            return ""
        r = self.rng.random()  # type: ignore
        if r < 0.6:
            return ""
        if r < 0.8:
            return " "
        if r < 0.9:
            return " /* c */ "
        return "\n"


def print_string(t: str, st: Style) -> str:
    q = st.quote()
    out = t.replace(q, "\\" + q).replace("\n", "\\n")
    return q + out + q


def string_printable(t: str) -> bool:
    """strings the G_prog printer can spell unambiguously as a single-line literal"""
    return "\\" not in t and "\r" not in t and "\f" not in t


def print_param(p: list, st: Style, indent: int = 0) -> str:
    t = p[0]
    if t == "i":
        return str(p[1])
    if t in ("f", "c"):
        return p[1]
    if t == "s":
        return print_string(text_of(p[1:]), st)
    if t == "l":
        inner = ", ".join(f"{it[0]}={print_string(text_of(it[1:]), st)}" for it in p[1:])
        return "{" + inner + "}"
    if t == "p":
        def coord(rel: int, off: int) -> str:
            return f"{rel}.5" if off >= 2 else str(rel)
        return f"Position<{print_string(text_of(p[1]), st)}, {coord(p[4], p[2])}, {coord(p[5], p[3])}>"
    raise ValueError(p)


def print_args(ps: list, st: Style) -> str:
    return ", ".join(print_param(p, st) for p in ps)


def print_cond(c: list, st: Style) -> str:
    k = c[0]
    if k == "neg":
        return ("not " if c[1] else "") + str(c[2])
    if k == "cop":
        rhs = f"value({print_param(c[4], st)})" if c[3] else print_param(c[4], st)
        return f"{print_param(c[1], st)} {COPS[c[2]]} {rhs}"
    if k == "bit":
        return ("not " if c[1] else "") + f"{print_param(c[2], st)}[{c[3]}]"
    if k == "scn":
        return f"scn({print_param(c[1], st)}) {COPS[c[2]]} [{c[3]}, {c[4]}]"
    if k == "operation":
        return f"{c[1]}({print_args(c[2:], st)})"
    raise ValueError(c)


def print_ctx(c: Any, st: Style) -> str:
    if not c:
        return ""
    return f"<{c[0]} {print_param(c[1], st)}>"


def print_swhdr(h: list, st: Style) -> str:
    k = h[0]
    if k == "var":
        return print_param(h[1], st)
    if k == "scn":
        return f"scn({print_param(h[1], st)})[{h[2]}]"
    if k == "random":
        return f"random({print_param(h[1], st)})"
    if k == "dmode":
        return f"dungeon_mode({print_param(h[1], st)})"
    if k == "sector":
        return "sector()"
    if k == "operation":
        return f"{h[2]}{print_ctx(h[1], st)}({print_args(h[3:], st)})"
    raise ValueError(h)


def print_casehdr(h: list, st: Style) -> str:
    k = h[0]
    if k == "int":
        return print_param(h[1], st)
    if k == "op":
        rhs = f"value({print_param(h[3], st)})" if h[2] else print_param(h[3], st)
        return f"{COPS[h[1]]} {rhs}"
    if k == "menu":
        return f"menu({print_param(h[1], st)})"
    if k == "menu2":
        return f"menu2({print_param(h[1], st)})"
    raise ValueError(h)


def print_assign(a: list, st: Style) -> str:
    k = a[0]
    if k == "regular":
        idx = f"[{a[2][0]}]" if a[2] else ""
        rhs = f"value({print_param(a[5], st)})" if a[4] else print_param(a[5], st)
        return f"{print_param(a[1], st)}{idx} {AOPS[a[3]]} {rhs}"
    if k == "clear":
        return f"clear {print_param(a[1], st)}"
    if k == "init":
        return f"init {print_param(a[1], st)}"
    if k == "resetdr":
        return "reset dungeon_result"
    if k == "resetscn":
        return f"reset scn({print_param(a[1], st)})"
    if k == "advlog":
        return f"adventure_log = {print_param(a[1], st)}"
    if k == "dmode":
        return f"dungeon_mode({print_param(a[1], st)}) = {print_param(a[2], st)}"
    if k == "scn":
        return f"{print_param(a[1], st)} = scn[{a[2]}, {a[3]}]"
    raise ValueError(a)


def print_simple(s: list, st: Style) -> str:
    """simple statement without the trailing ';'"""
    k = s[0]
    if k == "op":
        return f"{s[2]}{print_ctx(s[1], st)}({print_args(s[3:], st)})"
    if k == "label":
        return f"@{s[1]}"
    if k == "jump":
        return f"jump @{s[1]}"
    if k == "call":
        return f"call @{s[1]}"
    if k == "ctrl":
        return str(s[1])
    if k == "assign":
        return print_assign(s[1], st)
    raise ValueError(s)


def print_stmts(ss: list, ind: int, st: Style, out: list[str]) -> None:
    for s in ss:
        print_stmt(s, ind, st, out)


def print_conds(neg: Any, cs: list, st: Style) -> str:
    return ("not " if neg else "") + "(" + " || ".join(print_cond(c, st) for c in cs) + ")"


def print_stmt(s: list, ind: int, st: Style, out: list[str]) -> None:
    pad = "    " * ind
    k = s[0]
    if k in ("op", "label", "jump", "call", "ctrl", "assign"):
        out.append(pad + print_simple(s, st) + ";")
    elif k == "with":
        out.append(pad + f"with ({s[1]} {print_param(s[2], st)}) {{")
        out.append(pad + "    " + print_simple(s[3], st) + ";")
        out.append(pad + "}")
    elif k == "if":
        out.append(pad + "if " + print_conds(s[1], s[2], st) + " {")
        print_stmts(s[3], ind + 1, st, out)
        for el in s[4]:
            out.append(pad + "} elseif " + print_conds(el[0], el[1], st) + " {")
            print_stmts(el[2], ind + 1, st, out)
        if s[5]:
            out.append(pad + "} else {")
            print_stmts(s[5][0], ind + 1, st, out)
        out.append(pad + "}")
    elif k == "switch":
        out.append(pad + f"switch ({print_swhdr(s[1], st)}) {{")
        for c in s[2]:
            if c[0] == "case":
                out.append(pad + "    " + f"case {print_casehdr(c[1], st)}:")
                print_stmts(c[2], ind + 2, st, out)
            else:
                out.append(pad + "    default:")
                print_stmts(c[1], ind + 2, st, out)
        out.append(pad + "}")
    elif k == "msgswitch":
        kw = "message_SwitchMonologue" if s[1] else "message_SwitchTalk"
        out.append(pad + f"{kw} ({print_param(s[2], st)}) {{")
        for v, t in s[3]:
            out.append(pad + "    " + f"case {print_param(v, st)}:")
            out.append(pad + "        " + print_param(t, st))
        if s[4]:
            out.append(pad + "    default:")
            out.append(pad + "        " + print_param(s[4][0], st))
        out.append(pad + "}")
    elif k == "forever":
        out.append(pad + "forever {")
        print_stmts(s[1], ind + 1, st, out)
        out.append(pad + "}")
    elif k == "while":
        out.append(pad + "while " + ("not " if s[1] else "") + "(" + print_cond(s[2], st) + ") {")
        print_stmts(s[3], ind + 1, st, out)
        out.append(pad + "}")
    elif k == "for":
        out.append(pad + f"for ({print_simple(s[1], st)}; {print_cond(s[2], st)}; {print_simple(s[3], st)};) {{")
        print_stmts(s[4], ind + 1, st, out)
        out.append(pad + "}")
    elif k == "macrocall":
        out.append(pad + f"~{s[1]}({print_args(s[2:], st)});")
    else:
        raise ValueError(s)


def print_routine(r: list, st: Style, out: list[str]) -> None:
    _, rid, kind, target, name, alias, body = r
    if kind == "coroutine":
        head = f"coro {name[0]}"
    elif kind == "generic":
        head = f"def {rid}"
    else:
        head = f"def {rid} for {kind} {print_param(target[0], st)}"
    out.append(head + " {")
    if alias:
        out.append("    alias previous;")
    else:
        print_stmts(body, 1, st, out)
    out.append("}")


def print_prog(p: list, st: Style | None = None, imports: list[str] | None = None, mix: Any = None) -> str:
    """macro definitions first, then the routines; with mix (a random.Random) the two kinds of definition are
    interleaved at random, each kind keeping its own order (the grammar allows (macrodef | funcdef)* )"""
    st = st or Style()
    out: list[str] = []
    for imp in imports or []:
        out.append(f'import "{imp}";')
    _, macros, routines = p
    defs = [("m", m) for m in macros] + [("r", r) for r in routines]
    if mix is not None:
        ms, rs = list(macros), list(routines)
        defs = []
        while ms or rs:
            if ms and (not rs or mix.random() < 0.5):
                defs.append(("m", ms.pop(0)))
            else:
                defs.append(("r", rs.pop(0)))
    for kind, d in defs:
        if kind == "m":
            out.append(f"macro {d[1]}({', '.join(d[2])}) {{")
            print_stmts(d[3], 1, st, out)
            out.append("}")
        else:
            print_routine(d, st, out)
    return "\n".join(out) + "\n"


# ----------------------------------------------------------------------------- literal values (spec)
LINE_BREAKS = "\n\r\x0b\x0c\x1c\x1d\x1e\x85  "


def spec_single_line(tok: str) -> str:
    """value of a STRING_LITERAL: \\" \\' become the quote, \\n a newline (language_spec: 'A single line
    string may contain \\n to insert a newline'); other backslashes are kept."""
    body = tok[1:-1]
    out = []
    i = 0
    while i < len(body):
        c = body[i]
        if c == "\\" and i + 1 < len(body) and body[i + 1] in "\"'n":
            out.append("\n" if body[i + 1] == "n" else body[i + 1])
            i += 2
        else:
            out.append(c)
            i += 1
    return "".join(out)


def spec_multi_line(tok: str) -> str:
    """value of a MULTILINE_STRING_LITERAL by the four documented dedent rules"""
    body = tok[3:-3]
    lines = body.split("\n")
    if len(lines) == 1:
        return lines[0]
    first, rest = lines[0], lines[1:]
    last = rest[-1]
    middle = rest[:-1]
    others = list(middle)
    if last.strip(" ") != "":
        others.append(last)
    ind = min((len(x) - len(x.lstrip(" ")) for x in others), default=0)
    others = [x[ind:] for x in others]
    res = ([first] if first != "" else []) + others
    return "\n".join(res)


def spec_string_value(tok: str) -> str:
    if tok.startswith("'''") or tok.startswith('"""'):
        if len(tok) >= 6:
            return spec_multi_line(tok)
    return spec_single_line(tok)


def spec_fixed(tok: str) -> str:
    """canonical value of a DECIMAL literal: sign, whole part without redundant leading zeros, fraction as written"""
    neg = tok.startswith("-")
    body = tok[1:] if neg else tok
    whole, frac = body.split(".", 1)
    whole = whole.lstrip("0") or "0"
    return ("-" if neg else "") + whole + "." + frac


def spec_pos_arg(tok: str) -> tuple[int, int]:
    if "." not in tok:
        return int(tok, 0), 0
    whole, frac = tok.split(".", 1)
    fr = frac.rstrip("0")
    if fr not in ("", "5"):
        raise ValueError("position mark fraction")
    if whole in ("", "-"):
        rel = 0
    else:
        rel = int(whole)
    return rel, (2 if fr == "5" else 0)


# ----------------------------------------------------------------------------- elaboration of parse trees
class ElabError(Exception):
    pass


def _tok(node: Any) -> str | None:
    return None if node is None else str(node)


def elab_integer_like(ctx: Any) -> list:
    if ctx.INTEGER():
        return P_i(int(str(ctx.INTEGER()), 0))
    if ctx.DECIMAL():
        return P_f(spec_fixed(str(ctx.DECIMAL())))
    if ctx.IDENTIFIER():
        return P_c(str(ctx.IDENTIFIER()))
    if ctx.VARIABLE():
        return P_c(str(ctx.VARIABLE()))
    raise ElabError("integer_like")


def elab_string_value(ctx: Any) -> str:
    if ctx.MULTILINE_STRING_LITERAL():
        return spec_multi_line(str(ctx.MULTILINE_STRING_LITERAL()))
    return spec_single_line(str(ctx.STRING_LITERAL()))


def elab_string(ctx: Any) -> list:
    if ctx.string_value():
        return P_s(elab_string_value(ctx.string_value()))
    ls = ctx.lang_string()
    items = []
    for a in ls.lang_string_argument():
        items.append((str(a.IDENTIFIER()), elab_string_value(a.string_value())))
    # a repeated language key keeps its first position and takes the last value (dict semantics)
    d: dict[str, str] = {}
    for k, v in items:
        d[k] = v
    return P_l(list(d.items()))


def elab_position_marker(ctx: Any) -> list:
    name = spec_single_line(str(ctx.STRING_LITERAL()))
    args = ctx.position_marker_arg()
    xs = []
    for a in args:
        tok = str(a.INTEGER()) if a.INTEGER() else str(a.DECIMAL())
        xs.append(spec_pos_arg(tok))
    return P_p(name, xs[0][1], xs[1][1], xs[0][0], xs[1][0])


def elab_arglist(ctx: Any) -> list:
    if ctx is None:
        return []
    out = []
    for a in ctx.pos_argument():
        if a.integer_like():
            out.append(elab_integer_like(a.integer_like()))
        elif a.string():
            out.append(elab_string(a.string()))
        else:
            out.append(elab_position_marker(a.position_marker()))
    return out


def elab_ctx_header(ctx: Any) -> list:
    return [str(ctx.IDENTIFIER()), elab_integer_like(ctx.integer_like())]


def elab_operation(ctx: Any) -> tuple[Any, str, list]:
    ic = ctx.inline_ctx()
    c = elab_ctx_header(ic.ctx_header()) if ic is not None else None
    return c, str(ctx.IDENTIFIER()), elab_arglist(ctx.arglist())


def elab_cop(ctx: Any) -> A:
    for name, fn in [("false", ctx.OP_FALSE), ("true", ctx.OP_TRUE), ("eq", ctx.OP_EQ), ("ge", ctx.OP_GE),
                     ("le", ctx.OP_LE), ("gt", ctx.CLOSE_SHARP), ("lt", ctx.OPEN_SHARP), ("ne", ctx.OP_NEQ),
                     ("and", ctx.OP_AND), ("xor", ctx.OP_XOR), ("bich", ctx.OP_BICH)]:
        if fn():
            return A(name)
    raise ElabError("cop")


def elab_aop(ctx: Any) -> A:
    for name, fn in [("minus", ctx.OP_MINUS), ("plus", ctx.OP_PLUS), ("mul", ctx.OP_MULTIPLY),
                     ("div", ctx.OP_DIVIDE), ("assign", ctx.ASSIGN)]:
        if fn():
            return A(name)
    raise ElabError("aop")


def elab_if_header(ctx: Any) -> list:
    if ctx.if_h_negatable():
        h = ctx.if_h_negatable()
        kw = "debug" if h.DEBUG() else "edit" if h.EDIT() else "variation"
        return [A("neg"), h.NOT() is not None, A(kw)]
    if ctx.if_h_op():
        h = ctx.if_h_op()
        ils = h.integer_like()
        if h.value_of():
            return [A("cop"), elab_integer_like(ils[0]), elab_cop(h.conditional_operator()), True,
                    elab_integer_like(h.value_of().integer_like())]
        return [A("cop"), elab_integer_like(ils[0]), elab_cop(h.conditional_operator()), False,
                elab_integer_like(ils[1])]
    if ctx.if_h_bit():
        h = ctx.if_h_bit()
        return [A("bit"), h.NOT() is not None, elab_integer_like(h.integer_like()), int(str(h.INTEGER()), 0)]
    if ctx.if_h_scn():
        h = ctx.if_h_scn()
        return [A("scn"), elab_integer_like(h.scn_var().integer_like()), elab_cop(h.conditional_operator()),
                int(str(h.INTEGER(0)), 0), int(str(h.INTEGER(1)), 0)]
    c, name, args = elab_operation(ctx.operation())
    if c is not None:
        raise ElabError("inline ctx in condition")
    return [A("operation"), name, *args]


def elab_simple(ctx: Any) -> list:
    if ctx.operation():
        c, name, args = elab_operation(ctx.operation())
        return [A("op"), c, name, *args]
    if ctx.label():
        return [A("label"), str(ctx.label().IDENTIFIER())]
    if ctx.cntrl_stmt():
        c = ctx.cntrl_stmt()
        for name, fn in [("return", c.RETURN), ("end", c.END), ("hold", c.HOLD), ("continue", c.CONTINUE),
                         ("break", c.BREAK), ("break_loop", c.BREAK_LOOP)]:
            if fn():
                return [A("ctrl"), A(name)]
    if ctx.jump():
        return [A("jump"), str(ctx.jump().IDENTIFIER())]
    if ctx.call():
        return [A("call"), str(ctx.call().IDENTIFIER())]
    return [A("assign"), elab_assignment(ctx.assignment())]


def elab_assignment(ctx: Any) -> list:
    if ctx.assignment_regular():
        a = ctx.assignment_regular()
        ils = a.integer_like()
        idx = [int(str(a.INTEGER()), 0)] if a.INTEGER() else None
        if a.value_of():
            return [A("regular"), elab_integer_like(ils[0]), idx, elab_aop(a.assign_operator()), True,
                    elab_integer_like(a.value_of().integer_like())]
        return [A("regular"), elab_integer_like(ils[0]), idx, elab_aop(a.assign_operator()), False,
                elab_integer_like(ils[1])]
    if ctx.assignment_clear():
        return [A("clear"), elab_integer_like(ctx.assignment_clear().integer_like())]
    if ctx.assignment_initial():
        return [A("init"), elab_integer_like(ctx.assignment_initial().integer_like())]
    if ctx.assignment_reset():
        a = ctx.assignment_reset()
        if a.DUNGEON_RESULT():
            return [A("resetdr")]
        return [A("resetscn"), elab_integer_like(a.scn_var().integer_like())]
    if ctx.assignment_adv_log():
        return [A("advlog"), elab_integer_like(ctx.assignment_adv_log().integer_like())]
    if ctx.assignment_dungeon_mode():
        a = ctx.assignment_dungeon_mode()
        return [A("dmode"), elab_integer_like(a.integer_like(0)), elab_integer_like(a.integer_like(1))]
    a = ctx.assignment_scn()
    return [A("scn"), elab_integer_like(a.integer_like()), int(str(a.INTEGER(0)), 0), int(str(a.INTEGER(1)), 0)]


def elab_stmts(ctxs: list) -> list:
    return [elab_stmt(c) for c in ctxs]


def elab_switch_header(ctx: Any) -> list:
    if ctx.integer_like():
        return [A("var"), elab_integer_like(ctx.integer_like())]
    if ctx.operation():
        c, name, args = elab_operation(ctx.operation())
        return [A("operation"), c, name, *args]
    if ctx.switch_h_scn():
        h = ctx.switch_h_scn()
        return [A("scn"), elab_integer_like(h.scn_var().integer_like()), int(str(h.INTEGER()), 0)]
    if ctx.switch_h_random():
        return [A("random"), elab_integer_like(ctx.switch_h_random().integer_like())]
    if ctx.switch_h_dungeon_mode():
        return [A("dmode"), elab_integer_like(ctx.switch_h_dungeon_mode().integer_like())]
    return [A("sector")]


def elab_case_header(ctx: Any) -> list:
    if ctx.integer_like():
        return [A("int"), elab_integer_like(ctx.integer_like())]
    if ctx.case_h_menu():
        return [A("menu"), elab_string(ctx.case_h_menu().string())]
    if ctx.case_h_menu2():
        return [A("menu2"), elab_integer_like(ctx.case_h_menu2().integer_like())]
    h = ctx.case_h_op()
    if h.value_of():
        return [A("op"), elab_cop(h.conditional_operator()), True, elab_integer_like(h.value_of().integer_like())]
    return [A("op"), elab_cop(h.conditional_operator()), False, elab_integer_like(h.integer_like())]


def _cases_in_order(ctx: Any) -> list:
    items = []
    for ch in ctx.getChildren():
        n = type(ch).__name__
        if n in ("Single_case_blockContext", "DefaultContext"):
            items.append(ch)
    return items


def elab_stmt(ctx: Any) -> list:
    if ctx.simple_stmt():
        return elab_simple(ctx.simple_stmt())
    if ctx.ctx_block():
        b = ctx.ctx_block()
        h = elab_ctx_header(b.ctx_header())
        return [A("with"), h[0], h[1], elab_simple(b.simple_stmt())]
    if ctx.if_block():
        b = ctx.if_block()
        elifs = []
        for e in b.elseif_block():
            elifs.append([e.NOT() is not None, [elab_if_header(h) for h in e.if_header()], elab_stmts(e.stmt())])
        els = None
        if b.else_block():
            els = [elab_stmts(b.else_block().stmt())]
        return [A("if"), b.NOT() is not None, [elab_if_header(h) for h in b.if_header()], elab_stmts(b.stmt()),
                elifs, els]
    if ctx.switch_block():
        b = ctx.switch_block()
        cases = []
        for c in _cases_in_order(b):
            if type(c).__name__ == "DefaultContext":
                if c.string():
                    raise ElabError("string in switch default")
                cases.append([A("default"), elab_stmts(c.stmt())])
            else:
                if c.string():
                    raise ElabError("string in switch case")
                cases.append([A("case"), elab_case_header(c.case_header()), elab_stmts(c.stmt())])
        return [A("switch"), elab_switch_header(b.switch_header()), cases]
    if ctx.message_switch_block():
        b = ctx.message_switch_block()
        cases = []
        dflt = None
        for c in _cases_in_order(b):
            if not c.string():
                raise ElabError("statements in message switch")
            if type(c).__name__ == "DefaultContext":
                if dflt is not None:
                    raise ElabError("two defaults")
                dflt = [elab_string(c.string())]
            else:
                if not c.case_header().integer_like():
                    raise ElabError("message switch case header")
                cases.append([elab_integer_like(c.case_header().integer_like()), elab_string(c.string())])
        return [A("msgswitch"), b.MESSAGE_SWITCH_MONOLOGUE() is not None, elab_integer_like(b.integer_like()), cases,
                dflt]
    if ctx.forever_block():
        return [A("forever"), elab_stmts(ctx.forever_block().stmt())]
    if ctx.for_block():
        b = ctx.for_block()
        return [A("for"), elab_simple(b.simple_stmt(0)), elab_if_header(b.if_header()), elab_simple(b.simple_stmt(1)),
                elab_stmts(b.stmt())]
    if ctx.while_block():
        b = ctx.while_block()
        return [A("while"), b.NOT() is not None, elab_if_header(b.if_header()), elab_stmts(b.stmt())]
    m = ctx.macro_call()
    return [A("macrocall"), str(m.MACRO_CALL())[1:], *elab_arglist(m.arglist())]


def elab_funcdef(ctx: Any, next_coro_id: int) -> list:
    if ctx.coro_def():
        d = ctx.coro_def()
        suite = d.func_suite()
        alias = suite.func_alias() is not None
        return [A("routine"), next_coro_id, A("coroutine"), None, [str(d.IDENTIFIER())], alias,
                [] if alias else elab_stmts(suite.stmt())]
    if ctx.simple_def():
        d = ctx.simple_def()
        suite = d.func_suite()
        alias = suite.func_alias() is not None
        return [A("routine"), int(str(d.INTEGER()), 0), A("generic"), None, None, alias,
                [] if alias else elab_stmts(suite.stmt())]
    d = ctx.for_target_def()
    suite = d.func_suite()
    alias = suite.func_alias() is not None
    t = d.for_target_def_target()
    if t.FOR_TARGET():
        kind = str(t.FOR_TARGET())[4:]
    else:
        kind = str(t.IDENTIFIER())
    if kind not in ("actor", "object", "performer"):
        raise ElabError("target kind")
    return [A("routine"), int(str(d.INTEGER()), 0), A(kind), [elab_integer_like(d.integer_like())], None, alias,
            [] if alias else elab_stmts(suite.stmt())]


def elab_start(tree: Any) -> tuple[list, list[str]]:
    imports = [spec_single_line(str(i.STRING_LITERAL())) for i in tree.import_stmt()]
    macros = []
    routines = []
    coro_id = 0
    last_id = -1
    for ch in tree.getChildren():
        n = type(ch).__name__
        if n == "MacrodefContext":
            vars_ = [str(v) for v in ch.VARIABLE()]
            macros.append([A("macro"), str(ch.IDENTIFIER()), vars_, elab_stmts(ch.func_suite().stmt())])
        elif n == "FuncdefContext":
            r = elab_funcdef(ch, last_id + 1)
            last_id = r[1]
            routines.append(r)
    return [A("prog"), macros, routines], imports


def parse_and_elab(src: str) -> dict:
    """Parse ExplorerScript text with the real ANTLR parser (trusted front end) and elaborate it."""
    from antlr4 import InputStream, CommonTokenStream
    from explorerscript.antlr.ExplorerScriptLexer import ExplorerScriptLexer
    from explorerscript.antlr.ExplorerScriptParser import ExplorerScriptParser
    from explorerscript.syntax_error_listener import SyntaxErrorListener

    try:
        lexer = ExplorerScriptLexer(InputStream(src))
        parser = ExplorerScriptParser(CommonTokenStream(lexer))
        parser.removeErrorListeners()
        el = SyntaxErrorListener()
        parser.addErrorListener(el)
        tree = parser.start()
        if el.syntax_errors:
            return {"ok": False, "err": "Parse", "msg": str(el.syntax_errors[0])}
        ast, imports = elab_start(tree)
        return {"ok": True, "ast": ast, "imports": imports}
    except ElabError as e:
        return {"ok": False, "err": "Elab", "msg": str(e)}
    except Exception as e:  # noqa
        return {"ok": False, "err": "Other:" + type(e).__name__, "msg": str(e)[:200]}
