(* Driver: one S-expression command per input line, one JSON object per output line. *)
open Extracted
open Wire

(* a "side" of an equivalence: (ssb PROGRAM) or (src "perfvar" PROG) *)
let side (x : sexp) : (cfg * nat option list, string) Stdlib.result =
  match x with
  | L [ Atom "ssb"; p ] ->
      let p = as_program p in
      Stdlib.Ok (cfg_of_ssb p, ssb_entries p)
  | L [ Atom "src"; perf; p ] -> (
      match cfg_of_prog (as_name perf) (as_prog p) with
      | Ok (g, es) -> Stdlib.Ok (g, es)
      | Err m -> Stdlib.Error (string_of_cl m))
  | L [ Atom "srcm"; perf; p ] -> (
      (* program with macros: meaning = the inlined program *)
      match inline (as_prog p) with
      | Err m -> Stdlib.Error ("inline: " ^ string_of_cl m)
      | Ok q -> (
          match cfg_of_prog (as_name perf) q with
          | Ok (g, es) -> Stdlib.Ok (g, es)
          | Err m -> Stdlib.Error (string_of_cl m)))
  | L [ Atom "pops"; rs ] ->
      (* pseudo code between the handlers and the label passes *)
      let rs = as_pops rs in
      Stdlib.Ok (cfg_of_pops rs, pop_entries rs)
  | _ -> raise (Bad "side expected")

let jobs (o : obs) =
  match o with
  | OStop -> "[\"stop\"]"
  | OStuck -> "[\"stuck\"]"
  | OFuel -> "[\"fuel\"]"
  | OEv (e, n) -> "[\"ev\"," ^ jevent e ^ "," ^ jnat n ^ "]"
  | OTst (e, t, f) -> "[\"tst\"," ^ jevent e ^ "," ^ jnat t ^ "," ^ jnat f ^ "]"

let cmd_equiv a b =
  match side a, side b with
  | Stdlib.Error m, _ -> "{\"r\":\"err\",\"side\":1,\"msg\":" ^ jstr m ^ "}"
  | _, Stdlib.Error m -> "{\"r\":\"err\",\"side\":2,\"msg\":" ^ jstr m ^ "}"
  | Stdlib.Ok (g1, e1), Stdlib.Ok (g2, e2) -> (
      if silent_cycle g1 then "{\"r\":\"cycle\",\"side\":1}" else
      if silent_cycle g2 then "{\"r\":\"cycle\",\"side\":2}" else
      match pair_entries e1 e2 with
      | None ->
          "{\"r\":\"entries\",\"e1\":" ^ jlist (jopt jnat) e1 ^ ",\"e2\":" ^ jlist (jopt jnat) e2 ^ "}"
      | Some es -> (
          match equiv_run g1 g2 es with
          | EqOk vis -> Printf.sprintf "{\"r\":\"ok\",\"pairs\":%d,\"n1\":%d,\"n2\":%d}" (List.length vis) (List.length g1) (List.length g2)
          | EqFuel -> "{\"r\":\"fuel\"}"
          | EqFail (a, b) ->
              "{\"r\":\"fail\",\"pair\":[" ^ jnat a ^ "," ^ jnat b ^ "],\"o1\":" ^ jobs (observe g1 a) ^ ",\"o2\":"
              ^ jobs (observe g2 b) ^ ",\"entries\":" ^ jlist (fun (x, y) -> "[" ^ jnat x ^ "," ^ jnat y ^ "]") es
              ^ ",\"g1\":" ^ jcfg g1 ^ ",\"g2\":" ^ jcfg g2 ^ "}"))

let cmd_cfg a =
  match side a with
  | Stdlib.Error m -> "{\"r\":\"err\",\"msg\":" ^ jstr m ^ "}"
  | Stdlib.Ok (g, es) -> "{\"r\":\"ok\",\"g\":" ^ jcfg g ^ ",\"entries\":" ^ jlist (jopt jnat) es ^ "}"

let dispatch (x : sexp) : string =
  match x with
  | L [ Atom "equiv"; a; b ] -> cmd_equiv a b
  | L [ Atom "cfg"; a ] -> cmd_cfg a
  | L (Atom c :: _) -> (
      match Hashtbl.find_opt More.table c with
      | Some f -> f x
      | None -> raise (Bad ("unknown command " ^ c)))
  | _ -> raise (Bad "command expected")

let () =
  try
    while true do
      let line = input_line stdin in
      if String.trim line <> "" then begin
        let out =
          try dispatch (parse_sexp line) with
          | Bad m -> "{\"r\":\"bad\",\"msg\":" ^ jstr m ^ "}"
          | Stack_overflow -> "{\"r\":\"bad\",\"msg\":\"stack overflow\"}"
          | Failure m -> "{\"r\":\"bad\",\"msg\":" ^ jstr m ^ "}"
        in
        print_string out;
        print_newline ()
      end
    done
  with End_of_file -> ()
