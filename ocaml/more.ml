(* Further driver commands, registered by name (filled in as models are added). *)
open Extracted
open Wire

let table : (string, sexp -> string) Hashtbl.t = Hashtbl.create 64
let register name f = Hashtbl.replace table name f
