(* Further driver commands, registered by name (filled in as models are added). *)
open Extracted
open Wire

let table : (string, sexp -> string) Hashtbl.t = Hashtbl.create 64
let register name f = Hashtbl.replace table name f

(* C03: models of the label passes and the closedness checker *)
let () =
  register "passes" (function
    | L [ _; rs ] ->
        let rs = as_pops rs in
        let st = strip rs in
        let fin, t = finalize st in
        let res = match remove_all t fin with
          | Ok p -> "{\"ok\":true,\"ops\":" ^ jprogram p ^ ",\"closed\":" ^ (if closed_b p then "true" else "false") ^ "}"
          | Err m -> "{\"ok\":false,\"msg\":" ^ jname m ^ "}" in
        "{\"r\":\"ok\",\"strip\":" ^ jpops st ^ ",\"fin\":" ^ jpops fin ^ ",\"table\":"
        ^ jlist (fun (l, z) -> "[" ^ jnat l ^ "," ^ string_of_z z ^ "]") t ^ ",\"ordered\":"
        ^ (if ordered rs then "true" else "false") ^ ",\"remove\":" ^ res ^ "}"
    | _ -> raise (Bad "passes"));
  register "closed" (function
    | L [ _; p ] -> if closed_b (as_program p) then "{\"r\":\"ok\",\"closed\":true}" else "{\"r\":\"ok\",\"closed\":false}"
    | _ -> raise (Bad "closed"))

(* C14: source maps *)
let () =
  register "sm_ser" (function
    | L [ _; m ] ->
        let m = as_smap m in
        let j = serialize m in
        let rt = (match deserialize j with Some m' -> m' = m | None -> false) in
        "{\"r\":\"ok\",\"json\":" ^ jjson j ^ ",\"roundtrip\":" ^ (if rt then "true" else "false") ^ "}"
    | _ -> raise (Bad "sm_ser"));
  register "sm_rewrite" (function
    | L [ _; L f; m ] ->
        let f = List.map (function L [ a; b ] -> (as_z a, as_z b) | _ -> raise (Bad "pair")) f in
        "{\"r\":\"ok\",\"json\":" ^ jjson (serialize (rewrite_offsets f (as_smap m))) ^ "}"
    | _ -> raise (Bad "sm_rewrite"))

(* C07: SsbScript printing / compiling at statement-list level *)
let jsstmt = function
  | SLab l -> "[\"L\"," ^ jnat l ^ "]"
  | SOpS (c, ps, j) -> "[\"O\"," ^ jname c ^ "," ^ jlist jparam ps ^ "," ^ jopt jnat j ^ "]"

let () =
  register "script" (function
    | L [ _; p ] ->
        let p = as_program p in
        let printed = (match print_script p with
          | Ok rs -> "{\"ok\":true,\"stmts\":" ^ jlist (jlist jsstmt) rs ^ ",\"compiled\":"
              ^ (match compile_script rs with Ok q -> "{\"ok\":true,\"ops\":" ^ jprogram q ^ "}" | Err m -> "{\"ok\":false,\"msg\":" ^ jname m ^ "}") ^ "}"
          | Err m -> "{\"ok\":false,\"msg\":" ^ jname m ^ "}") in
        "{\"r\":\"ok\",\"print\":" ^ printed ^ ",\"renumber\":" ^ jprogram (renumber p) ^ "}"
    | _ -> raise (Bad "script"))

(* C17: the token loop of the Pygments lexer, run on the regenerated table with the real regular expressions'
   answers as the matcher oracle: (pyg (cps...) ((rid pos len)...)) *)
let () =
  register "pyg" (function
    | L [ _; L cps; L ms ] ->
        let text = List.map (fun c -> n_of_int (as_int c)) cps in
        let tbl : (int * int, int) Hashtbl.t = Hashtbl.create 256 in
        List.iter (function L [ r; p; n ] -> Hashtbl.replace tbl (as_int r, as_int p) (as_int n) | _ -> raise (Bad "pyg match")) ms;
        let matcher r p = match Hashtbl.find_opt tbl (int_of_nat r, int_of_nat p) with Some n -> Some (nat_of_int n) | None -> None in
        let fuel = nat_of_int (List.length text + 1) in
        (match lex pyg_table matcher fuel [ cl_of_string "root" ] text O with
         | Some toks ->
             "{\"r\":\"ok\",\"tokens\":" ^ jlist (fun (ty, tx) -> "[" ^ jname ty ^ "," ^ jlist (fun c -> string_of_int (int_of_n c)) tx ^ "]") toks ^ "}"
         | None -> "{\"r\":\"fuel\"}")
    | _ -> raise (Bad "pyg"))

(* C04: single-line string literals: (str1 q (cps of the string) (cps of a literal)) *)
let () =
  register "str1" (function
    | L [ _; q; L cps; L lit ] ->
        let q = n_of_int (as_int q) in
        let s = List.map (fun c -> n_of_int (as_int c)) cps in
        let lit = List.map (fun c -> n_of_int (as_int c)) lit in
        let printed = print_single q s in
        let body = (match lit with [] -> [] | _ :: t -> (match List.rev t with [] -> [] | _ :: r -> List.rev r)) in
        "{\"r\":\"ok\",\"exact\":" ^ (if single_exact s then "true" else "false")
        ^ ",\"printed\":" ^ jtext printed ^ ",\"read_printed\":" ^ jtext (read_single printed)
        ^ ",\"read_lit\":" ^ jtext (read_single lit)
        ^ ",\"lit_lexes\":" ^ (if lex_body q body then "true" else "false") ^ "}"
    | _ -> raise (Bad "str1"))

(* C09: the writer: (writer (prefix cps) (ops...)) with ops (line) (stmnt (cps) nl) (indent) (dedent) (add off cur) *)
let () =
  register "writer" (function
    | L [ _; L pre; L ops ] ->
        let txt l = List.map (fun c -> n_of_int (as_int c)) l in
        let op = function
          | L [ Atom "line" ] -> WLine
          | L [ Atom "stmnt"; L cps; b ] -> WStmnt (txt cps, as_bool b)
          | L [ Atom "indent" ] -> WIndent
          | L [ Atom "dedent" ] -> WDedent
          | L [ Atom "add"; off; b ] -> WAdd (as_z off, as_bool b)
          | _ -> raise (Bad "writer op") in
        let w = wrun (List.map op ops) (winit (txt pre)) in
        "{\"r\":\"ok\",\"out\":" ^ jtext w.out ^ ",\"line\":" ^ jnat w.line ^ ",\"entries\":"
        ^ jlist (fun ((o, l), c) -> "[" ^ string_of_z o ^ "," ^ jnat l ^ "," ^ jnat c ^ "]") w.entries ^ "}"
    | _ -> raise (Bad "writer"))

(* C01: the premises of the back-end theorem on a captured compilation: (backend_ok FIN_OUT_POPS RESULT_PROGRAM) *)
let () =
  register "backend_ok" (function
    | L [ _; fin; p ] ->
        "{\"r\":\"ok\",\"backend_ok\":" ^ (if backend_ok (as_pops fin) (as_program p) then "true" else "false") ^ "}"
    | _ -> raise (Bad "backend_ok"));
  register "strip_ok" (function
    | L [ _; rs ] -> "{\"r\":\"ok\",\"strip_ok\":" ^ (if strip_ok (as_pops rs) then "true" else "false") ^ "}"
    | _ -> raise (Bad "strip_ok"));
  register "finalize_ok" (function
    | L [ _; rs ] -> "{\"r\":\"ok\",\"finalize_ok\":" ^ (if finalize_ok (as_pops rs) then "true" else "false") ^ "}"
    | _ -> raise (Bad "finalize_ok"))

(* C04: multi-line string literals: (mstr q indent (cps of the string) (cps of a literal)) *)
let () =
  register "mstr" (function
    | L [ _; q; ind; L cps; L lit ] ->
        let q = n_of_int (as_int q) in
        let s = List.map (fun c -> n_of_int (as_int c)) cps in
        let lit = List.map (fun c -> n_of_int (as_int c)) lit in
        "{\"r\":\"ok\",\"exact\":" ^ (if multi_exact s then "true" else "false")
        ^ ",\"printed\":" ^ jtext (print_multi q (nat_of_int (as_int ind)) s)
        ^ ",\"read_lit\":" ^ jtext (read_multi lit) ^ "}"
    | _ -> raise (Bad "mstr"))

(* C04/C16/C18: number literals.  (num (cps of a token)) reads it in every way; (numprint z off b neg upp upd k n) spells *)
let () =
  let jopt f = function None -> "null" | Some x -> f x in
  register "num" (function
    | L [ _; tok ] ->
        let t = as_text tok in
        "{\"r\":\"ok\",\"int\":" ^ jopt (fun z -> jstr (string_of_z z)) (read_int t)
        ^ ",\"pos\":" ^ jopt (fun (z, o) -> "[" ^ jstr (string_of_z z) ^ "," ^ string_of_int (int_of_n o) ^ "]") (read_pos_arg t)
        ^ ",\"fixed\":" ^ jopt jtext (read_fixed t)
        ^ ",\"dectok\":" ^ (if is_decimal_token t then "true" else "false") ^ "}"
    | _ -> raise (Bad "num"));
  register "numprint" (function
    | L [ _; z; off; b; neg; upp; upd; k; n ] ->
        let nn = (match as_z n with Z0 -> N0 | Zpos p -> Npos p | Zneg _ -> raise (Bad "numprint: n")) in
        "{\"r\":\"ok\",\"dec\":" ^ jtext (spell_dec (as_z z))
        ^ ",\"pos\":" ^ jtext (print_pos_arg (as_z z) (n_of_int (as_int off)))
        ^ ",\"radix\":" ^ jtext (spell_radix (n_of_int (as_int b)) (as_bool neg) (as_bool upp) (as_bool upd) (nat_of_int (as_int k)) nn)
        ^ ",\"zero\":" ^ jtext (spell_zero (as_bool neg) (nat_of_int (as_int k))) ^ "}"
    | _ -> raise (Bad "numprint"))

(* C10: the static predicates.  (static perf PROG (names of a candidate trap set)) *)
let () =
  let b x = if x then "true" else "false" in
  register "static" (function
    | L [ _; perf; p; L names ] ->
        let p = as_prog p in
        let ms = p.p_macros in
        let d = List.map as_name names in
        let inl = inline p in
        "{\"r\":\"ok\",\"inline\":" ^ (match inl with Ok _ -> "\"ok\"" | Err m -> jstr (string_of_cl m))
        ^ ",\"scoped\":" ^ (match inl with Ok q -> b (well_scoped (as_name perf) q) | Err _ -> "null")
        ^ ",\"events\":" ^ (match inl with Ok q -> b (events_ok (as_name perf) q) | Err _ -> "null")
        ^ ",\"meaning\":" ^ (match inl with Ok q -> (match cfg_of_prog (as_name perf) q with Ok _ -> "true" | Err _ -> "false") | Err _ -> "false")
        ^ ",\"unknown\":" ^ b (program_has (unknown_macro ms) p)
        ^ ",\"few\":" ^ b (program_has (too_few_args ms) p)
        ^ ",\"self_recursive\":" ^ b (program_has (self_recursive ms) p)
        ^ ",\"trap\":" ^ b (trap ms d && program_has (fun n _ -> List.exists (fun x -> x = n) d) p) ^ "}"
    | _ -> raise (Bad "static"))

(* C04: the lexer rule for multi-line literals.  (mlex q (cps of a text) (cps of a string)) *)
let () =
  register "mlex" (function
    | L [ _; q; t; s ] ->
        let q = n_of_int (as_int q) in
        "{\"r\":\"ok\",\"token\":" ^ (match lex_multi q (as_text t) with Some (tok, _) -> jtext tok | None -> "null")
        ^ ",\"occurs\":" ^ (if occurs3 q (as_text s) then "true" else "false") ^ "}"
    | _ -> raise (Bad "mlex"))

(* C08: return addresses of macro expansions.  (macrora FOREST count): FOREST = list of (op) | (lab) | (call FOREST) *)
let () =
  let rec as_tree = function
    | L [ Atom "op" ] -> TOp
    | L [ Atom "lab" ] -> TLab
    | L [ Atom "call"; f ] -> TCall (as_forest f)
    | _ -> raise (Bad "tree")
  and as_forest = function
    | L l -> List.fold_right (fun t f -> FCons (as_tree t, f)) l FNil
    | _ -> raise (Bad "forest") in
  let jitem = function
    | IOp -> "[\"op\"]" | ILab -> "[\"lab\"]" | IEnd -> "[\"end\"]"
    | IStart l -> "[\"start\"," ^ jnat l ^ "]" in
  let jpairs l = jlist (fun (i, r) -> "[" ^ jnat i ^ "," ^ jnat r ^ "]") l in
  register "macrora" (function
    | L [ _; f; c ] ->
        let b = as_forest f in
        let c = nat_of_int (as_int c) in
        let items = flat_t (TCall b) in
        "{\"r\":\"ok\",\"flat\":" ^ jlist jitem items ^ ",\"exec\":" ^ jpairs (exec items c [])
        ^ ",\"spec\":" ^ jpairs (spec_f b c (add c (S (ops_f b)))) ^ ",\"ops\":" ^ jnat (ops_f b) ^ "}"
    | _ -> raise (Bad "macrora"))

(* C05: one macro expansion at pseudo-code level.  (macrobuild ((name PARAM)...) (ITEM...) cl co)
   ITEM = (op code PARAM...) | (lab id KIND) | (jmp code (PARAM...) id KIND); KIND = (plain) | (start n) | (end) *)
let () =
  let as_kind = function
    | L [ Atom "plain" ] -> LPlain
    | L [ Atom "start"; n ] -> LStart (nat_of_int (as_int n))
    | L [ Atom "end" ] -> LEnd
    | _ -> raise (Bad "kind") in
  let as_item = function
    | L (Atom "op" :: c :: ps) -> BOp (as_name c, as_params ps)
    | L [ Atom "lab"; i; k ] -> BLab (nat_of_int (as_int i), as_kind k)
    | L [ Atom "jmp"; c; L ps; i; k ] -> BJmp (as_name c, as_params ps, nat_of_int (as_int i), as_kind k)
    | _ -> raise (Bad "bitem") in
  let jkind = function LPlain -> "[\"plain\"]" | LStart n -> "[\"start\"," ^ jnat n ^ "]" | LEnd -> "[\"end\"]" in
  let jitem = function
    | OOp (n, c, ps) -> "[\"op\"," ^ jnat n ^ "," ^ jname c ^ "," ^ jlist jparam ps ^ "]"
    | OLab (i, k) -> "[\"lab\"," ^ jnat i ^ "," ^ jkind k ^ "]"
    | OJmp (n, c, ps, i) -> "[\"jmp\"," ^ jnat n ^ "," ^ jname c ^ "," ^ jlist jparam ps ^ "," ^ jnat i ^ "]" in
  register "macrobuild" (function
    | L [ _; L sg; L bp; cl; co ] ->
        let sg = List.map (function L [ n; p ] -> (as_name n, as_param p) | _ -> raise (Bad "sigma")) sg in
        let ((out, cl1), co1) = build sg (List.map as_item bp) (nat_of_int (as_int cl)) (nat_of_int (as_int co)) in
        "{\"r\":\"ok\",\"out\":" ^ jlist jitem out ^ ",\"cl\":" ^ jnat cl1 ^ ",\"co\":" ^ jnat co1 ^ "}"
    | _ -> raise (Bad "macrobuild"))

(* C06: meta attributes and the dispatch to the SsbScript compiler.  (meta (cps of a text)) *)
let () =
  register "meta" (function
    | L [ _; t ] ->
        let t = as_text t in
        "{\"r\":\"ok\",\"attrs\":" ^ jlist (fun (k, v) -> "[" ^ jtext k ^ "," ^ jtext v ^ "]") (parse_meta t)
        ^ ",\"dispatch\":" ^ (if dispatches_to_ssbscript t then "true" else "false")
        ^ ",\"head\":" ^ jtext fALLBACK_HEAD ^ "}"
    | _ -> raise (Bad "meta"))

(* C15: the numbering of the command line tools.  (clinum PROGRAM) *)
let () =
  register "clinum" (function
    | L [ _; p ] -> "{\"r\":\"ok\",\"ops\":" ^ jprogram (cli_number (as_program p)) ^ "}"
    | _ -> raise (Bad "clinum"))
