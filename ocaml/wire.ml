(* Trusted glue: S-expression reader, conversions between the wire format and the extracted
   datatypes, JSON output.  No logic of the properties lives here. *)
open Extracted

type sexp = Atom of string | Str of string | L of sexp list

exception Bad of string

let parse_sexp (s : string) : sexp =
  let n = String.length s in
  let pos = ref 0 in
  let rec skip () =
    while !pos < n && (s.[!pos] = ' ' || s.[!pos] = '\n' || s.[!pos] = '\t') do incr pos done
  and item () =
    skip ();
    if !pos >= n then raise (Bad "eof");
    match s.[!pos] with
    | '(' ->
        incr pos;
        let acc = ref [] in
        skip ();
        while !pos < n && s.[!pos] <> ')' do
          acc := item () :: !acc;
          skip ()
        done;
        if !pos >= n then raise (Bad "unclosed");
        incr pos;
        L (List.rev !acc)
    | '"' ->
        incr pos;
        let st = !pos in
        while !pos < n && s.[!pos] <> '"' do incr pos done;
        if !pos >= n then raise (Bad "unclosed string");
        let r = String.sub s st (!pos - st) in
        incr pos;
        Str r
    | ')' -> raise (Bad "unexpected )")
    | _ ->
        let st = !pos in
        while !pos < n && not (List.mem s.[!pos] [ ' '; '('; ')'; '\n'; '\t'; '"' ]) do incr pos done;
        Atom (String.sub s st (!pos - st))
  in
  let r = item () in
  skip ();
  if !pos <> n then raise (Bad "trailing input");
  r

(* ---------- numbers ---------- *)
let rec pos_of_int (i : int) : positive =
  if i = 1 then XH else if i land 1 = 0 then XO (pos_of_int (i lsr 1)) else XI (pos_of_int (i lsr 1))

let n_of_int (i : int) : n = if i = 0 then N0 else Npos (pos_of_int i)
let z_of_small (i : int) : z = if i = 0 then Z0 else if i > 0 then Zpos (pos_of_int i) else Zneg (pos_of_int (-i))

let rec nat_of_int (i : int) : nat = if i <= 0 then O else S (nat_of_int (i - 1))
let rec int_of_nat (x : nat) : int = match x with O -> 0 | S y -> 1 + int_of_nat y

let int_of_nat (x : nat) : int =
  let rec go acc = function O -> acc | S y -> go (acc + 1) y in
  go 0 x

let rec int_of_pos = function XH -> 1 | XO p -> 2 * int_of_pos p | XI p -> (2 * int_of_pos p) + 1
let int_of_n = function N0 -> 0 | Npos p -> int_of_pos p

(* arbitrary-size decimal strings <-> Z, through the extracted Z operations *)
let z_of_string (s : string) : z =
  let neg = String.length s > 0 && s.[0] = '-' in
  let digits = if neg then String.sub s 1 (String.length s - 1) else s in
  if digits = "" then raise (Bad ("bad int " ^ s));
  if String.length digits <= 17 then
    let v = int_of_string digits in
    z_of_small (if neg then -v else v)
  else begin
    let ten = z_of_small 10 in
    let acc = ref Z0 in
    String.iter
      (fun c ->
        if c < '0' || c > '9' then raise (Bad ("bad int " ^ s));
        acc := Z.add (Z.mul !acc ten) (z_of_small (Char.code c - 48)))
      digits;
    if neg then Z.opp !acc else !acc
  end

(* Z -> decimal string; values beyond 62 bits are printed through repeated division *)
let rec pos_bits = function XH -> 1 | XO p | XI p -> 1 + pos_bits p

let string_of_z (x : z) : string =
  let small p = pos_bits p <= 61 in
  match x with
  | Z0 -> "0"
  | Zpos p when small p -> string_of_int (int_of_pos p)
  | Zneg p when small p -> "-" ^ string_of_int (int_of_pos p)
  | _ ->
      let neg = (match x with Zneg _ -> true | _ -> false) in
      let ten = z_of_small 10 in
      let cur = ref (Z.abs x) in
      let buf = Buffer.create 32 in
      let digits = ref [] in
      while !cur <> Z0 do
        let q, r = Z.div_eucl !cur ten in
        digits := (match r with Z0 -> 0 | Zpos p -> int_of_pos p | Zneg _ -> 0) :: !digits;
        cur := q
      done;
      if neg then Buffer.add_char buf '-';
      List.iter (fun d -> Buffer.add_char buf (Char.chr (48 + d))) !digits;
      Buffer.contents buf

(* ---------- strings ---------- *)
let cl_of_string (s : string) : char list = List.init (String.length s) (String.get s)
let string_of_cl (l : char list) : string = String.concat "" (List.map (String.make 1) l)

let as_int = function Atom a -> (try int_of_string a with _ -> raise (Bad ("int expected: " ^ a))) | _ -> raise (Bad "int expected")
let as_z = function Atom a -> z_of_string a | _ -> raise (Bad "int expected")
let as_str = function Str s -> s | Atom a -> a | _ -> raise (Bad "string expected")
let as_name x = cl_of_string (as_str x)
let as_bool x = match x with Atom "1" | Atom "true" -> true | Atom "0" | Atom "false" -> false | _ -> raise (Bad "bool expected")
let as_list = function L l -> l | _ -> raise (Bad "list expected")
let as_text (x : sexp) : text = List.map (fun c -> n_of_int (as_int c)) (as_list x)
let as_opt f = function L [] -> None | L [ x ] -> Some (f x) | _ -> raise (Bad "option expected")

(* ---------- params, ops, programs ---------- *)
let as_param (x : sexp) : param =
  match x with
  | L [ Atom "i"; v ] -> PInt (as_z v)
  | L [ Atom "f"; v ] -> PFixed (as_name v)
  | L [ Atom "c"; v ] -> PConst (as_name v)
  | L (Atom "s" :: cps) -> PStr (List.map (fun c -> n_of_int (as_int c)) cps)
  | L (Atom "l" :: items) ->
      PLang
        (List.map
           (function
             | L (k :: cps) -> (as_name k, List.map (fun c -> n_of_int (as_int c)) cps)
             | _ -> raise (Bad "lang item"))
           items)
  | L [ Atom "p"; name; xo; yo; xr; yr ] -> PPos (as_text name, as_z xo, as_z yo, as_z xr, as_z yr)
  | _ -> raise (Bad "param expected")

let as_params l = List.map as_param l

let as_op (x : sexp) : op =
  match x with
  | L (Atom "op" :: o :: c :: ps) -> { off = as_z o; code = as_name c; params = as_params ps }
  | _ -> raise (Bad "op expected")

let as_program (x : sexp) : program =
  match x with
  | L (Atom "prog" :: rs) ->
      List.map (function L (Atom "r" :: ops) -> List.map as_op ops | _ -> raise (Bad "routine expected")) rs
  | _ -> raise (Bad "program expected")

(* ---------- AST ---------- *)
let as_cop = function
  | Atom "false" -> OpFalse | Atom "true" -> OpTrue | Atom "eq" -> OpEq | Atom "gt" -> OpGt
  | Atom "lt" -> OpLt | Atom "ge" -> OpGe | Atom "le" -> OpLe | Atom "ne" -> OpNe
  | Atom "and" -> OpAnd | Atom "xor" -> OpXor | Atom "bich" -> OpBich
  | _ -> raise (Bad "cop expected")

let as_aop = function
  | Atom "assign" -> AAssign | Atom "minus" -> AMinus | Atom "plus" -> APlus | Atom "mul" -> AMul
  | Atom "div" -> ADiv
  | _ -> raise (Bad "aop expected")

let as_kw = function
  | Atom "debug" -> KwDebug | Atom "edit" -> KwEdit | Atom "variation" -> KwVariation
  | _ -> raise (Bad "kw expected")

let as_cond = function
  | L [ Atom "neg"; b; kw ] -> CNeg (as_bool b, as_kw kw)
  | L [ Atom "cop"; v; o; b; x ] -> COp (as_param v, as_cop o, as_bool b, as_param x)
  | L [ Atom "bit"; b; v; i ] -> CBit (as_bool b, as_param v, as_z i)
  | L [ Atom "scn"; v; o; a; b ] -> CScn (as_param v, as_cop o, as_z a, as_z b)
  | L (Atom "operation" :: name :: ps) -> COperation (as_name name, as_params ps)
  | _ -> raise (Bad "cond expected")

let as_ctxspec (x : sexp) : ctxspec =
  match x with
  | L [] -> None
  | L [ k; t ] -> Some (as_name k, as_param t)
  | _ -> raise (Bad "ctxspec expected")

let as_swhdr = function
  | L [ Atom "var"; v ] -> SwVar (as_param v)
  | L [ Atom "scn"; v; i ] -> SwScn (as_param v, as_z i)
  | L [ Atom "random"; v ] -> SwRandom (as_param v)
  | L [ Atom "dmode"; v ] -> SwDungeonMode (as_param v)
  | L [ Atom "sector" ] -> SwSector
  | L (Atom "operation" :: c :: name :: ps) -> SwOperation (as_ctxspec c, as_name name, as_params ps)
  | _ -> raise (Bad "swhdr expected")

let as_casehdr = function
  | L [ Atom "int"; v ] -> CaInt (as_param v)
  | L [ Atom "op"; o; b; x ] -> CaOp (as_cop o, as_bool b, as_param x)
  | L [ Atom "menu"; s ] -> CaMenu (as_param s)
  | L [ Atom "menu2"; v ] -> CaMenu2 (as_param v)
  | _ -> raise (Bad "casehdr expected")

let as_ctrl = function
  | Atom "return" -> KReturn | Atom "end" -> KEnd | Atom "hold" -> KHold | Atom "continue" -> KContinue
  | Atom "break" -> KBreak | Atom "break_loop" -> KBreakLoop
  | _ -> raise (Bad "ctrl expected")

let as_assign = function
  | L [ Atom "regular"; v; idx; o; b; x ] ->
      AsRegular (as_param v, as_opt as_z idx, as_aop o, as_bool b, as_param x)
  | L [ Atom "clear"; v ] -> AsClear (as_param v)
  | L [ Atom "init"; v ] -> AsInit (as_param v)
  | L [ Atom "resetdr" ] -> AsResetDungeonResult
  | L [ Atom "resetscn"; v ] -> AsResetScn (as_param v)
  | L [ Atom "advlog"; x ] -> AsAdvLog (as_param x)
  | L [ Atom "dmode"; v; x ] -> AsDungeonMode (as_param v, as_param x)
  | L [ Atom "scn"; v; a; b ] -> AsScn (as_param v, as_z a, as_z b)
  | _ -> raise (Bad "assign expected")

let rec as_stmt (x : sexp) : stmt =
  match x with
  | L (Atom "op" :: c :: name :: ps) -> SOp (as_ctxspec c, as_name name, as_params ps)
  | L [ Atom "label"; l ] -> SLabel (as_name l)
  | L [ Atom "jump"; l ] -> SJump (as_name l)
  | L [ Atom "call"; l ] -> SCall (as_name l)
  | L [ Atom "ctrl"; k ] -> SCtrl (as_ctrl k)
  | L [ Atom "assign"; a ] -> SAssign (as_assign a)
  | L [ Atom "with"; k; t; s ] -> SWith (as_name k, as_param t, as_stmt s)
  | L [ Atom "if"; neg; cs; body; elifs; els ] ->
      SIf (as_bool neg, List.map as_cond (as_list cs), as_stmts body, as_elifs (as_list elifs), as_ostmts els)
  | L [ Atom "switch"; h; cs ] -> SSwitch (as_swhdr h, as_cases (as_list cs))
  | L [ Atom "msgswitch"; mono; v; cs; d ] ->
      SMsgSwitch
        ( as_bool mono,
          as_param v,
          List.map (function L [ a; b ] -> (as_param a, as_param b) | _ -> raise (Bad "msg case")) (as_list cs),
          as_opt as_param d )
  | L [ Atom "forever"; body ] -> SForever (as_stmts body)
  | L [ Atom "while"; neg; c; body ] -> SWhile (as_bool neg, as_cond c, as_stmts body)
  | L [ Atom "for"; i; c; s; body ] -> SFor (as_stmt i, as_cond c, as_stmt s, as_stmts body)
  | L (Atom "macrocall" :: name :: ps) -> SMacroCall (as_name name, as_params ps)
  | _ -> raise (Bad "stmt expected")

and as_stmts (x : sexp) : stmts = List.fold_right (fun s r -> SCons (as_stmt s, r)) (as_list x) SNil

and as_elifs (l : sexp list) : elifs =
  match l with
  | [] -> ENil
  | L [ neg; cs; body ] :: r -> ECons (as_bool neg, List.map as_cond (as_list cs), as_stmts body, as_elifs r)
  | _ -> raise (Bad "elif expected")

and as_ostmts (x : sexp) : option_stmts =
  match x with L [] -> ONone | L [ b ] -> OSome (as_stmts b) | _ -> raise (Bad "else expected")

and as_cases (l : sexp list) : cases =
  match l with
  | [] -> KNil
  | L [ Atom "case"; h; body ] :: r -> KCase (as_casehdr h, as_stmts body, as_cases r)
  | L [ Atom "default"; body ] :: r -> KDefault (as_stmts body, as_cases r)
  | _ -> raise (Bad "case expected")

let as_rkind = function
  | Atom "generic" -> RGeneric | Atom "actor" -> RActor | Atom "object" -> RObject
  | Atom "performer" -> RPerformer | Atom "coroutine" -> RCoroutine
  | _ -> raise (Bad "rkind expected")

let as_routine_def = function
  | L [ Atom "routine"; id; kind; target; name; alias; body ] ->
      { r_id = as_z id; r_kind = as_rkind kind; r_target = as_opt as_param target;
        r_name = as_opt as_name name; r_alias = as_bool alias; r_body = as_stmts body }
  | _ -> raise (Bad "routine expected")

let as_macro_def = function
  | L [ Atom "macro"; name; vars; body ] ->
      { m_name = as_name name; m_vars = List.map as_name (as_list vars); m_body = as_stmts body }
  | _ -> raise (Bad "macro expected")

let as_prog = function
  | L [ Atom "prog"; ms; rs ] ->
      { p_macros = List.map as_macro_def (as_list ms); p_routines = List.map as_routine_def (as_list rs) }
  | _ -> raise (Bad "prog expected")

(* ---------- JSON output ---------- *)
let jstr (s : string) : string =
  let b = Buffer.create (String.length s + 2) in
  Buffer.add_char b '"';
  String.iter
    (fun c ->
      match c with
      | '"' -> Buffer.add_string b "\\\""
      | '\\' -> Buffer.add_string b "\\\\"
      | '\n' -> Buffer.add_string b "\\n"
      | c when Char.code c < 32 || Char.code c > 126 -> Buffer.add_string b (Printf.sprintf "\\u%04x" (Char.code c))
      | c -> Buffer.add_char b c)
    s;
  Buffer.add_char b '"';
  Buffer.contents b

let jlist f l = "[" ^ String.concat "," (List.map f l) ^ "]"
let jtext (t : text) = jlist (fun c -> string_of_int (int_of_n c)) t
let jname (l : char list) = jstr (string_of_cl l)

let jparam (p : param) : string =
  match p with
  | PInt v -> "[\"i\"," ^ jstr (string_of_z v) ^ "]"
  | PFixed s -> "[\"f\"," ^ jname s ^ "]"
  | PConst s -> "[\"c\"," ^ jname s ^ "]"
  | PStr t -> "[\"s\"," ^ jtext t ^ "]"
  | PLang l -> "[\"l\"," ^ jlist (fun (k, t) -> "[" ^ jname k ^ "," ^ jtext t ^ "]") l ^ "]"
  | PPos (nm, a, b, c, d) ->
      "[\"p\"," ^ jtext nm ^ "," ^ String.concat "," (List.map (fun v -> jstr (string_of_z v)) [ a; b; c; d ]) ^ "]"

let jevent ((c, ps) : event) = "[" ^ jname c ^ "," ^ jlist jparam ps ^ "]"
let jnat n = string_of_int (int_of_nat n)

let jnode = function
  | NOp (e, n) -> "[\"op\"," ^ jevent e ^ "," ^ jnat n ^ "]"
  | NTest (e, t, f) -> "[\"test\"," ^ jevent e ^ "," ^ jnat t ^ "," ^ jnat f ^ "]"
  | NGoto n -> "[\"goto\"," ^ jnat n ^ "]"
  | NStop -> "[\"stop\"]"
  | NStuck -> "[\"stuck\"]"

let jcfg (g : cfg) = jlist jnode g
let jopt f = function None -> "null" | Some x -> f x

(* ---------- pseudo ops of the compiler passes ---------- *)
let as_pop (x : sexp) : pop =
  match x with
  | L [ Atom "O"; o ] -> POp (as_op o)
  | L [ Atom "L"; l ] -> PLabel (nat_of_int (as_int l))
  | L [ Atom "J"; o; l ] -> PJump (as_op o, nat_of_int (as_int l))
  | _ -> raise (Bad "pop expected")

let as_pops (x : sexp) : pop list list = List.map (fun r -> List.map as_pop (as_list r)) (as_list x)

let jop (o : op) = "{\"off\":" ^ string_of_z o.off ^ ",\"code\":" ^ jname o.code ^ ",\"params\":" ^ jlist jparam o.params ^ "}"
let jprogram (p : program) = jlist (jlist jop) p

let jpop = function
  | POp o -> "[\"O\"," ^ jop o ^ "]"
  | PLabel l -> "[\"L\"," ^ jnat l ^ "]"
  | PJump (o, l) -> "[\"J\"," ^ jop o ^ "," ^ jnat l ^ "]"

let jpops (rs : pop list list) = jlist (jlist jpop) rs

(* ---------- source maps ---------- *)
let as_otext (x : sexp) : text option =
  match x with
  | L [ Atom "none" ] -> None
  | L (Atom "some" :: cps) -> Some (List.map (fun c -> n_of_int (as_int c)) cps)
  | _ -> raise (Bad "otext expected")

let as_posmark (x : sexp) : posmark =
  match x with
  | L [ a; b; c; d; nm; e; f; g; h ] ->
      { pm_line = as_z a; pm_col = as_z b; pm_eline = as_z c; pm_ecol = as_z d; pm_name = as_text nm;
        pm_xo = as_z e; pm_yo = as_z f; pm_xr = as_z g; pm_yr = as_z h }
  | _ -> raise (Bad "posmark expected")

let as_pval = function
  | L [ Atom "i"; z ] -> PVInt (as_z z)
  | L (Atom "s" :: cps) -> PVStr (List.map (fun c -> n_of_int (as_int c)) cps)
  | _ -> raise (Bad "pval expected")

let as_smap (x : sexp) : smap =
  match x with
  | L [ Atom "sm"; L mp; L marks; L mmp; L mmarks ] ->
      { s_map = List.map (function L [ k; l; c ] -> (as_z k, { m_line = as_z l; m_col = as_z c }) | _ -> raise (Bad "map entry")) mp;
        s_marks = List.map as_posmark marks;
        s_mmap =
          List.map
            (function
              | L [ k; f; mn; l; c; called; ret; L ps ] ->
                  ( as_z k,
                    { mm_file = as_otext f; mm_macro = as_text mn; mm_line = as_z l; mm_col = as_z c;
                      mm_called = (match called with
                                   | L [] -> None
                                   | L [ cf; cl; cc ] -> Some ((as_otext cf, as_z cl), as_z cc)
                                   | _ -> raise (Bad "called"));
                      mm_ret = as_opt as_z ret;
                      mm_params = List.map (function L [ k; v ] -> (as_name k, as_pval v) | _ -> raise (Bad "param")) ps } )
              | _ -> raise (Bad "mmap entry"))
            mmp;
        s_mmarks = List.map (function L [ f; mn; pm ] -> ((as_otext f, as_text mn), as_posmark pm) | _ -> raise (Bad "mmark")) mmarks }
  | _ -> raise (Bad "smap expected")

let rec jjson (j : json) : string =
  match j with
  | JNull -> "null"
  | JInt z -> string_of_z z
  | JStr t -> "{\"$t\":" ^ jtext t ^ "}"
  | JArr l -> jlist jjson l
  | JObj l -> "{" ^ String.concat "," (List.map (fun (k, v) -> jname k ^ ":" ^ jjson v) l) ^ "}"
