#!/bin/bash
# applies every harmless refactoring /tmp/ref_*/refactor_N.diff to /repo, runs all 18 quick checks (in parallel), undoes it
cd /verif
./build.sh > /dev/null 2>&1
for d in /tmp/ref_*; do
  [ -d $d ] || continue
  k=$(basename $d)
  for n in 1 2 3; do
    f=$d/refactor_$n.diff; [ -f $f ] || continue
    [ -z "$(git -C /repo status --porcelain)" ] || { echo "/repo not clean"; exit 2; }
    git -C /repo apply $f || { echo "$k-$n: does not apply"; continue; }
    t=$(cd /repo && timeout 900 /venv/bin/python -m pytest -q -p no:cacheprovider --timeout=900 2>&1 | tail -1)
    mkdir -p build/ref_$k-$n
    for c in C01 C02 C03 C04 C05 C06 C07 C08 C09 C10 C11 C12 C13 C14 C15 C16 C17 C18; do
      (VERIF_SEED=0 timeout 3000 ./check $c --tier quick > build/ref_$k-$n/$c.log 2>&1) &
    done
    wait
    out=""
    for c in C01 C02 C03 C04 C05 C06 C07 C08 C09 C10 C11 C12 C13 C14 C15 C16 C17 C18; do
      r=$(grep -c '^VIOLATION' build/ref_$k-$n/$c.log)
      [ "$r" != "0" ] && out="$out $c($r)"
      grep -q "quick:" build/ref_$k-$n/$c.log || out="$out $c(no-summary)"
    done
    echo "$k-$n: tests: $t | alarms:${out:- none}"
    git -C /repo checkout -- .
  done
done
git -C /verif checkout -- evidence 2>/dev/null
echo BATCH-DONE
