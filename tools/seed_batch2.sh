#!/bin/bash
# round 2: every /tmp/m2_Cxx/mutant_N.diff -> seeded/Cxx-r2-N, checked with its own property's check
cd /verif
for d in /tmp/m2_C*; do
  c=$(basename $d | sed 's/m2_//')
  for n in 1 2 3; do
    [ -f $d/mutant_$n.diff ] || continue
    tools/seed_try.sh $d $n $c-r2-$n $c 2>&1 | sed "s/^/$c-r2-$n: /"
  done
done
