#!/bin/bash
# usage: tools/seed_try.sh <worktree> <n> <id> <check>...   confirm a seeded change in its scratch worktree,
# then run the given checks against it in /repo (applied, and undone straight afterwards)
set -u
WT=$1; N=$2; ID=$3; shift 3
D=/verif/seeded/$ID; mkdir -p $D
cp $WT/mutant_$N.diff $D/patch.diff; cp $WT/demo_$N.py $D/demo.py
cd $WT && git checkout -q -- . && git apply $D/patch.diff || { echo "patch does not apply"; exit 2; }
PYTHONPATH=$WT timeout 900 /venv/bin/python -m pytest -q -p no:cacheprovider --timeout=900 2>&1 | tail -1 > $D/tests_with_change.txt
PYTHONPATH=$WT timeout 120 /venv/bin/python $WT/demo_$N.py > $D/demo_with_change.txt 2>&1; echo "exit=$?" >> $D/demo_with_change.txt
git checkout -q -- .
PYTHONPATH=$WT timeout 120 /venv/bin/python $WT/demo_$N.py > $D/demo_unchanged.txt 2>&1; echo "exit=$?" >> $D/demo_unchanged.txt
echo "tests: $(cat $D/tests_with_change.txt)  demo with change: $(tail -1 $D/demo_with_change.txt)  unchanged: $(tail -1 $D/demo_unchanged.txt)"
cd /verif
[ -z "$(git -C /repo status --porcelain)" ] || { echo "/repo not clean"; exit 2; }
git -C /repo apply $D/patch.diff
for c in "$@"; do
  VERIF_SEED=0 timeout 3000 ./check $c --tier quick > $D/check_$c.log 2>&1; echo "$c exit=$? $(grep -c '^VIOLATION' $D/check_$c.log) violation lines: $(grep -m1 '^VIOLATION' $D/check_$c.log)"
  r=$(grep -m1 -o 'replay=[^ ]*' $D/check_$c.log | cut -d= -f2); [ -n "$r" ] && [ -f "$r" ] && cp $r $D/replay_$c.json
done
git -C /repo checkout -- .
git -C /verif checkout -- evidence 2>/dev/null
