#!/usr/bin/env python3
"""writes MANIFEST.json (kept in a script so that levels and techniques stay in one place)"""
import json
tv = "translation_validation"
NOTE = ("Trusted: Coq 8.16 kernel, extraction (ExtrOcamlBasic/ExtrOcamlString), OCaml glue (wire.ml, driver.ml, more.ml), table "
        "translator, Python harness (generators, ANTLR parse-tree elaboration, audit), the reading of the specification in Lang/*.v "
        "and Ssb/Machine.v; not modelled: compiler handler classes, igraph structuring passes and writers, ANTLR runtime, Pygments.")
spec = {
 "C01": (tv, "Coq-verified translation validator (bisimulation checker with soundness theorem) on real compiler output, end to end and stage by stage; the compiler's back end (strip_last_label, LabelFinalizer, OpsLabelJumpToRemover) proved behaviour preserving for all inputs in Coq (premises evaluated on every captured compilation, pass models tied by C03's correspondence)",
   "Every generated program accepted by the real compiler is decided, for all routines and all outcomes of all tests, by a bisimulation checker extracted from Coq whose soundness (accept => equal sequences of operations and tests under every oracle, unbounded length) is kernel-checked (Ssb/EquivSound.v); source meaning = Lang/SrcSem.v. The universal statement over all programs is not proved."),
 "C02": (tv, "Coq-verified translation validator on real decompiler output (text read by the spec and recompiled, both compared with the input)",
   "For every generated well-formed routine set the decompiled text must compile, and both the text read by Lang/SrcSem.v and its recompilation must be accepted as behaviourally equal to the input by the Coq-verified checker; routine tables compared. Universal claim not proved (structuring passes are not modelled)."),
 "C03": ("proof", "Coq proof over a model of the three label passes + exact pass-by-pass correspondence + closed_b (proved sound) on every real result",
   "Comp/Closed.v passes_closed: for every pass input with distinct offsets the result of strip_last_label;LabelFinalizer;OpsLabelJumpToRemover is closed; closed_b_sound. The pass models are compared pass by pass with the real functions on op lists captured from real compilations (macro programs included); closed_b and the table's arity evaluated on every real compilation."),
 "C04": ("proof", "Coq theorems for integers (every spelling), single-line and multi-line string literals, fixed-point values and position-mark arguments over models tied to the real printers/readers by correspondence; real-code round trip of every parameter kind x context x indent with an explicit exact-form predicate",
   "Partial proof (integers: parse_print_Z; single-line strings: single_roundtrip_dq/sq + single_lexes; multi-line strings: multi_roundtrip + printed_literal_is_one_token; numbers: spellings_read, fixed_roundtrip, read_print_pos_arg, tie K-num); constants, mark names and the printing contexts are decided on the real printers/readers for generated and bounded-exhaustive values against an explicit `has_exact_form` predicate; residue recorded as known findings."),
 "C05": (tv, "Coq-verified validator against the inlined program (Lang/Inline.v); import layouts in real directories",
   "compiled macro programs are decided against cfg_of_prog(inline p) by the verified checker; definition orders permuted; import resolution checked on real temporary directory layouts."),
 "C06": (tv, "execution on generated + hand-written hard flow graphs; exactness of the fallback against the renumbered input (C07 theorems); Coq theorem that every fallback text is dispatched to the SsbScript compiler (Text/Meta.v, tie K-meta)",
   "convert() must answer on every generated well-formed input (no exception, no timeout); fallback texts must carry the marker first and compile back to the input op for op (positions renumbered). 'Never raises' is exploration."),
 "C07": ("proof", "Coq proof of the SsbScript round trip on a statement-list model + correspondence of the model with the real printer/compiler + direct round trip on the real code",
   "Script/Proofs.v script_roundtrip: compile_script(print_script P) = renumber P for every routine set with unique offsets and in-range integer targets; Script/Renumber.v renumber_same_cfg: renumbering keeps the flow graph. The model's statement lists and compiled ops are compared with the real text (parsed by the real SsbScript parser) and the real compiler."),
 "C08": ("exploration", "tagged-program generator with recorded positions vs the real compile-time source map; Coq theorem for the return addresses of nested expansions (Comp/MacroRA.v, tie K-ra on every real invocation of build)",
   "Proved: call_return_addresses, return_address_bounds over the model of ExplorerScriptMacro.build + the builder's context stack. Explored: every op-emitting construct carries a unique tag; positions recorded by the generator's printer are compared with the real map (direct, keyword statements, macro, call site, return address bounds, file set, position marks)."),
 "C09": ("proof", "Coq proofs about a model of the decompilers' text writer (line counter, entry placement) + correspondence on both decompilers; tagged inputs: entries checked against the text and the compile-time map of the recompiled text",
   "Dec/WriterProofs.v: the line counter equals 1 + line feeds written for every operation sequence; an entry recorded before a statement points at its first character. Partial: which op an entry is recorded for is decided on the real decompiler: entries must be keyed by input offsets, point at the first token of the statement of that op, exist for every printed op, and agree in line with the compile-time map of the recompiled text."),
 "C10": ("exploration", "Coq theorems over the specification (a meaning only if well scoped; unknown / under-applied / cyclic macros rejected by inline) tied to the compiler by acceptance; statically meaningless constructs injected into random valid programs; invalid import graphs; corrupted/degenerate inputs; outcome classes",
   "Proved over Lang/SrcSem.v + Lang/Inline.v: meaning_iff (a meaning exactly if well scoped and every part has an event), unknown_macro_rejected, too_few_arguments_rejected, macro_cycle_rejected; the compiler is tied to the specification by acceptance (accepted => has a meaning) on generated programs. Explored: statically meaningless programs of every class named by the property must be rejected with a documented error; arbitrary inputs may only raise ParseError, SsbCompilerError or ValueError (exception site recorded)."),
 "C11": ("proof", "Coq frame theorem (history independence from two frame conditions) + audit of the frame conditions on the real process state after every call + differential over call histories vs fresh processes",
   "Hist/Frame.v history_independent: results are history independent if calls read the process state only through obs and restore obs. Both conditions are audited on the real package state (module/class-level values; writer-tagged memo table) after every call; histories are also compared call by call with fresh processes. State inside antlr4/igraph is not covered."),
 "C12": ("proof", "Coq ownership theorem (schedule independence) + audit of the ownership conditions under threads + thread stress vs sequential results",
   "Hist/Frame.v schedule_independent: threads whose steps touch only cells they own end with the results they reach alone, under every schedule. Audited: no thread reads another thread's memo entries, no residue in shared values; 2-8 threads with 1 microsecond switch interval compared with sequential runs. CPython scheduling inside antlr4/igraph can only be provoked."),
 "C13": (tv, "flat-fragment generator; jump-freeness and exactly-once printing on the decompiled AST; plus the C02 validator",
   "for generated flat structured programs the decompiled text must contain no jump, print every plain statement exactly once and satisfy C02."),
 "C14": ("proof", "Coq proofs about a model of SourceMap (de)serialisation and rewrite_offsets + differential correspondence",
   "SM/Proofs.v: deserialize(serialize m) = m, stable re-serialisation, entries moved exactly along the mapping, return-address rule; the model is compared with the real SourceMap on generated maps x injective mappings and on maps produced by the real compiler/decompiler."),
 "C15": (tv, "real CLI subprocesses; the printed JSON renumbered as documented is decided against the source by the verified checker; CLI round trip; Coq theorem that the document's numbering keeps the flow graph (Script/Shift.v, tie K-cli)",
   "exit status, JSON structure, jump numbering (via the verified bisimulation checker), acceptance and meaning of the decompile CLI's output, documented JSON documents incl. mixed routine kinds."),
 "C16": ("exploration", "token-level re-spelling/layout metamorphic check on the real compiler; Coq theorems for the number spellings (Text/Num.v, tie K-num)",
   "k re-spellings per accepted program must compile to identical ops, tables and position marks (exploration). Proved: all spellings of an integer read as the same value (spellings_agree), leading zeros of fixed-point numbers (fixed_leading_zeros)."),
 "C17": ("proof", "Coq proofs about a model of the RegexLexer token loop over the rule table regenerated from the lexer class (regexes as oracle) + engine correspondence + real token streams on generated texts",
   "Pyg/Proofs.v: lossless for every text and matcher; total given min width >= 1 of every pattern; no error token given per-state coverage (both facts computed by the translator with sre_parse). The extracted loop fed with the real regexes' answers is compared with the real token stream; 'no error token on accepted sources' is additionally explored on generated sources."),
 "C18": ("exploration", "expected spans from the harness's own token placement vs the real listing; splice and recompile; Coq theorem for the printed coordinates (Text/Num.v, tie K-num)",
   "the listing must delimit every Position literal exactly; splicing the span changes that parameter only (exploration). Proved: the printed coordinate of a mark is read back as the same tile and offset (pos_arg_roundtrip)."),
}
props = [json.loads(l) for l in open('/verif/properties.jsonl')]
checks = []
for p in props:
    i = p["id"]; lvl, tech, text = spec[i]
    checks.append({"property_id": i, "quick_cmd": f"./check {i} --tier quick", "thorough_cmd": f"./check {i} --tier thorough",
                   "evidence_file": f"evidence/{i}.json", "replay_cmd_template": "cat {path}", "engine": "coq-core",
                   "level_claimed": {"category": lvl, "text": text, "design_ref": f"DESIGN.md section 4, {i}"},
                   "level_note": NOTE, "technique": tech})
m = {"version": 1, "setup_cmd": "cd /verif && ./build.sh",
     "hooks": {"guard": "EXPLORERSCRIPT_VERIF", "enable": "no hooks in /repo: the harness wraps module-level functions from outside",
               "baseline_off_cmd": "cd /repo && /venv/bin/python -m pytest -ra -q -p no:cacheprovider --timeout=900", "source_commits": [], "add_only": True},
     "engines": [{"name": "coq-core", "path": "coq/", "serves_properties": [p["id"] for p in props],
                  "kind_free_text": "Coq 8.16 theories (CFG semantics, verified bisimulation checker, SSB machine, source semantics, macro inlining, pass models, source map model, SsbScript model, frame theorems) extracted to OCaml (ocaml/driver); Python harness"}],
     "checks": checks, "not_applicable": [],
     "notes": "Known findings and fixed defects: known_findings.json. Design and trusted base: DESIGN.md. Seeded changes: seeded/."}
json.dump(m, open('/verif/MANIFEST.json', 'w'), indent=1)
