#!/bin/bash
# independent re-check of the compiled proof libraries; prints the axioms they rely on (takes about two minutes)
cd /verif/coq && timeout 3000 coqchk -silent -o -Q . ES ES.Comp.StripSem ES.Comp.Closed ES.Comp.StripShape ES.Ssb.EquivSound \
  ES.Script.Proofs ES.Script.Renumber ES.SM.Proofs ES.Hist.Frame ES.Pyg.Proofs ES.Text.StrProofs ES.Text.Dec ES.Dec.WriterProofs \
  ES.Lang.InlineProofs ES.Lang.SrcSem \
  ES.Text.MStrProofs ES.Text.MLexProofs ES.Text.NumProofs ES.Text.MetaProofs ES.Lang.StaticProofs ES.Lang.MacroStaticProofs \
  ES.Lang.InlineFree ES.Lang.DomainProofs ES.Comp.MacroRAProofs ES.Comp.MacroBuildProofs ES.Comp.ExpandSame ES.Comp.ReturnSem ES.Comp.DefsOnce ES.Script.Shift
