#!/bin/bash
# re-runs every seeded change under seeded/ against the checks recorded in its meta.json (sequentially: each is applied to /repo)
cd /verif
for d in seeded/C*; do
  id=$(basename $d)
  checks=$(python3 -c "import json;m=json.load(open('$d/meta.json'));print(' '.join(sorted(m.get('checks',{}).keys())))")
  [ -z "$checks" ] && checks=$(echo $id | cut -c1-3)
  tools/seed_check.sh $id $checks
done
echo ALL-SEEDED-DONE
