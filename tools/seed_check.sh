#!/bin/bash
# usage: tools/seed_check.sh <id> <check>...   run checks against an already confirmed seeded change (seeded/<id>/patch.diff)
set -u
ID=$1; shift
D=/verif/seeded/$ID
cd /verif
[ -z "$(git -C /repo status --porcelain)" ] || { echo "/repo not clean"; exit 2; }
git -C /repo apply $D/patch.diff || exit 2
for c in "$@"; do
  VERIF_SEED=0 timeout 3000 ./check $c --tier quick > $D/check_$c.log 2>&1; echo "$ID $c exit=$? $(grep -c '^VIOLATION' $D/check_$c.log) violation lines: $(grep -m1 '^VIOLATION' $D/check_$c.log)"
  r=$(grep -m1 -o 'replay=[^ ]*' $D/check_$c.log | cut -d= -f2); [ -n "$r" ] && [ -f "$r" ] && cp $r $D/replay_$c.json
done
git -C /repo checkout -- .
git -C /verif checkout -- evidence 2>/dev/null
