#!/bin/bash
# usage: tools/seed5.sh <prop> <n> <check>...   round 5: the sub-agent's out/<n>/ in /tmp/seed5-<prop> -> seeded/<prop>-r5-<n>
set -u
P=$1; N=$2; shift 2
WT=/tmp/seed5-$P
cp $WT/out/$N/patch.diff $WT/mutant_$N.diff; cp $WT/out/$N/demo.py $WT/demo_$N.py
mkdir -p /verif/seeded/$P-r5-$N; cp $WT/out/$N/meta.json /verif/seeded/$P-r5-$N/agent_meta.json
exec /verif/tools/seed_try.sh $WT $N $P-r5-$N "$@"
