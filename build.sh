#!/bin/bash
# Rebuilds everything from /repo's current working tree: generated tables, Coq theories (full .vo
# build), extraction, OCaml driver.  Usage: ./build.sh [-q]
set -e
cd "$(dirname "$0")"
ROOT=$(pwd)
export PYTHONHASHSEED=0
timeout 120 /venv/bin/python harness/translate_tables.py
cd "$ROOT/coq"
if [ ! -f Makefile ] || [ _CoqProject -nt Makefile ]; then coq_makefile -f _CoqProject -o Makefile >/dev/null; fi
# -k: a proof file that no longer compiles must not stop the model files from building
timeout 3000 make -k -j16 > "$ROOT/build/coq.log" 2>&1 || echo "COQ-BUILD-INCOMPLETE (see build/coq.log)"
mkdir -p "$ROOT/ocaml/extracted"
cd "$ROOT/ocaml/extracted"
NEED=0
if [ ! -f extracted.ml ]; then NEED=1; else
  for f in $(find "$ROOT/coq" -name '*.vo' -not -path '*/Props/*' -newer extracted.ml | head -1); do NEED=1; done
  [ "$ROOT/coq/Extract.v" -nt extracted.ml ] && NEED=1
fi
if [ $NEED = 1 ]; then
  timeout 600 coqc -Q "$ROOT/coq" ES "$ROOT/coq/Extract.v" > "$ROOT/build/extract.log" 2>&1 || { cat "$ROOT/build/extract.log"; echo "EXTRACTION-FAILED"; exit 3; }
  touch extracted.ml
fi
cd "$ROOT/ocaml"
if [ ! -x driver ] || [ extracted/extracted.ml -nt driver ] || [ wire.ml -nt driver ] || [ more.ml -nt driver ] || [ driver.ml -nt driver ]; then
  mkdir -p _build && cp extracted/extracted.ml extracted/extracted.mli wire.ml more.ml driver.ml _build/
  (cd _build && timeout 600 ocamlfind ocamlopt -O3 -w -a -package str extracted.mli extracted.ml wire.ml more.ml driver.ml -o ../driver.new 2> "$ROOT/build/ocaml.log" || timeout 600 ocamlfind ocamlopt -w -a extracted.mli extracted.ml wire.ml more.ml driver.ml -o ../driver.new > "$ROOT/build/ocaml.log" 2>&1) || { cat "$ROOT/build/ocaml.log"; echo "OCAML-BUILD-FAILED"; exit 3; }
  # replaced atomically: checks that are running keep the binary they started with
  mv -f driver.new driver
fi
echo BUILD-OK
