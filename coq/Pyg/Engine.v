(* The token loop of Pygments' RegexLexer.get_tokens_unprocessed (pygments/lexer.py), over a table of
   rules as RegexLexer's metaclass prepares it (includes expanded, new states processed).  Regular
   expressions are not modelled: which rule matches where, and how far, is an oracle
   [matcher rule_id position = Some length].  Model file: definitions only. *)
From ES Require Import Base.

Inductive action := ATok (ty : string) | AOther.           (* AOther: callback (bygroups, using, ..) or None *)
Inductive titem := IState (s : string) | IPop | IPushSame.
Inductive trans := TNone | TTuple (items : list titem) | TPop (n : nat) | TPushSame.
Record rule := mkRule { rid : nat; act : action; tr : trans }.
Definition table := list (string * list rule).

Definition rules_of (t : table) (st : string) : list rule :=
  match assoc_string st t with Some rs => rs | None => [] end.

(* the state stack with its top first (Python keeps the top last) *)
Definition stack := list string.

Fixpoint keep_last {A} (l : list A) : list A :=
  match l with [] => [] | [x] => [x] | _ :: r => keep_last r end.

Definition apply_item (s : stack) (i : titem) : stack :=
  match i with
  | IState n => n :: s
  | IPop => match s with _ :: (_ :: _) as r => r | _ => s end      (* only if more than one state *)
  | IPushSame => match s with t :: _ => t :: s | [] => s end
  end.

Definition apply_trans (s : stack) (t : trans) : stack :=
  match t with
  | TNone => s
  | TTuple items => fold_left apply_item items s
  | TPop n => if Nat.leb (length s) n then keep_last s else skipn n s
  | TPushSame => match s with t :: _ => t :: s | [] => s end
  end.

Section Lex.
  Variable tbl : table.
  Variable matcher : nat -> nat -> option nat.        (* rule id, position -> length of the match *)

  Fixpoint first_match (rs : list rule) (pos : nat) : option (rule * nat) :=
    match rs with
    | [] => None
    | r :: rest => match matcher (rid r) pos with Some n => Some (r, n) | None => first_match rest pos end
    end.

  Definition token := (string * text)%type.
  Definition NL : N := 10%N.

  Definition top (s : stack) : string := match s with t :: _ => t | [] => "root"%string end.

  (* None = out of fuel *)
  Fixpoint lex (fuel : nat) (s : stack) (rest : text) (pos : nat) : option (list token) :=
    match fuel with
    | O => None
    | S f =>
        match first_match (rules_of tbl (top s)) pos with
        | Some (r, n) =>
            let emitted := match act r with ATok ty => [(ty, firstn n rest)] | AOther => [] end in
            match lex f (apply_trans s (tr r)) (skipn n rest) (pos + n) with
            | Some toks => Some (emitted ++ toks)
            | None => None
            end
        | None =>
            match rest with
            | [] => Some []
            | c :: rest' =>
                if N.eqb c NL then
                  match lex f ["root"%string] rest' (S pos) with
                  | Some toks => Some (("Token.Text.Whitespace"%string, [c]) :: toks) | None => None end
                else
                  match lex f s rest' (S pos) with
                  | Some toks => Some (("Token.Error"%string, [c]) :: toks) | None => None end
            end
        end
    end.
End Lex.

(* every rule emits its whole match as one token, and only existing states are entered *)
Definition rule_ok (t : table) (r : rule) : bool :=
  match act r with ATok _ => true | AOther => false end &&
  match tr r with
  | TTuple items => forallb (fun i => match i with IState s => match assoc_string s t with Some _ => true | None => false end | _ => true end) items
  | _ => true
  end.
Definition table_ok (t : table) : bool :=
  match assoc_string "root" t with Some _ => true | None => false end &&
  forallb (fun sr => forallb (rule_ok t) (snd sr)) t.
