(* Properties of the RegexLexer token loop for every rule table and every matcher. *)
From ES Require Import Base Pyg.Engine.

Section Proofs.
  Variable tbl : table.
  Variable matcher : nat -> nat -> option nat.

  Lemma first_match_In rs pos r n : first_match matcher rs pos = Some (r, n) -> In r rs /\ matcher (rid r) pos = Some n.
  Proof.
    induction rs as [|r0 rs IH]; cbn [first_match]; [discriminate|].
    destruct (matcher (rid r0) pos) as [n0|] eqn:E.
    - intro H. inversion H; subst. split; [left; reflexivity | exact E].
    - intro H. destruct (IH H) as [Hin Hm]. split; [right; exact Hin | exact Hm].
  Qed.

  Lemma rules_of_ok st r : table_ok tbl = true -> In r (rules_of tbl st) -> rule_ok tbl r = true.
  Proof.
    unfold table_ok, rules_of. intro H. apply andb_true_iff in H. destruct H as [_ H].
    rewrite forallb_forall in H.
    destruct (assoc_string st tbl) as [rs|] eqn:E; [|intros []].
    intro Hin. assert (Hsr : In (st, rs) tbl).
    { clear - E. induction tbl as [|[k v] t IH]; cbn [assoc_string] in E; [discriminate|].
      destruct (String.eqb st k) eqn:Ek.
      - inversion E; subst. apply String.eqb_eq in Ek. subst. left. reflexivity.
      - right. apply IH. exact E. }
    specialize (H (st, rs) Hsr). cbn [snd] in H. rewrite forallb_forall in H. apply H. exact Hin.
  Qed.

  (* ---- nothing is lost: the token texts add up to the input, whatever the matcher answers ---- *)
  Theorem lex_lossless : table_ok tbl = true ->
    forall fuel s rest pos toks, lex tbl matcher fuel s rest pos = Some toks -> concat (map snd toks) = rest.
  Proof.
    intro Hok. induction fuel as [|f IH]; intros s rest pos toks H; cbn [lex] in H; [discriminate|].
    destruct (first_match matcher (rules_of tbl (top s)) pos) as [[r n]|] eqn:F.
    - destruct (first_match_In _ _ _ _ F) as [Hin _].
      pose proof (rules_of_ok _ _ Hok Hin) as Hr. unfold rule_ok in Hr. apply andb_true_iff in Hr. destruct Hr as [Ha _].
      destruct (act r) as [ty|]; [|discriminate].
      destruct (lex tbl matcher f (apply_trans s (tr r)) (skipn n rest) (pos + n)) as [toks'|] eqn:L; [|discriminate].
      inversion H; subst. cbn [app map concat snd]. rewrite (IH _ _ _ _ L). apply firstn_skipn.
    - destruct rest as [|c rest']; [inversion H; reflexivity|].
      destruct (N.eqb c NL).
      + destruct (lex tbl matcher f ["root"%string] rest' (S pos)) as [toks'|] eqn:L; [|discriminate].
        inversion H; subst. cbn [map concat snd app]. rewrite (IH _ _ _ _ L). reflexivity.
      + destruct (lex tbl matcher f s rest' (S pos)) as [toks'|] eqn:L; [|discriminate].
        inversion H; subst. cbn [map concat snd app]. rewrite (IH _ _ _ _ L). reflexivity.
  Qed.

  (* ---- the loop terminates: no rule matches the empty string, and matches stay inside the text ---- *)
  Variable L : nat.                                  (* length of the whole text *)
  Hypothesis match_nonempty : forall r p n, matcher r p = Some n -> 0 < n.
  Hypothesis match_inside : forall r p n, matcher r p = Some n -> p + n <= L.

  Theorem lex_total : forall fuel s rest pos,
    pos + length rest = L -> length rest < fuel -> exists toks, lex tbl matcher fuel s rest pos = Some toks.
  Proof.
    induction fuel as [|f IH]; intros s rest pos HL Hf; [lia|]. cbn [lex].
    destruct (first_match matcher (rules_of tbl (top s)) pos) as [[r n]|] eqn:F.
    - destruct (first_match_In _ _ _ _ F) as [_ Hm].
      pose proof (match_nonempty _ _ _ Hm). pose proof (match_inside _ _ _ Hm).
      destruct (IH (apply_trans s (tr r)) (skipn n rest) (pos + n)) as [toks Ht].
      + rewrite skipn_length. lia.
      + rewrite skipn_length. lia.
      + rewrite Ht. eexists. reflexivity.
    - destruct rest as [|c rest']; [eexists; reflexivity|]. cbn [length] in *.
      destruct (N.eqb c NL).
      + destruct (IH ["root"%string] rest' (S pos)) as [toks Ht]; [lia | lia |]. rewrite Ht. eexists. reflexivity.
      + destruct (IH s rest' (S pos)) as [toks Ht]; [lia | lia |]. rewrite Ht. eexists. reflexivity.
  Qed.

  (* ---- no error token: in every state some rule matches at every position inside the text ---- *)
  Definition has (st : string) : Prop := assoc_string st tbl <> None.
  Definition good (s : stack) : Prop := s <> [] /\ Forall has s.

  Hypothesis covered : forall st pos, has st -> pos < L -> first_match matcher (rules_of tbl st) pos <> None.

  Lemma keep_last_good s : good s -> good (keep_last s).
  Proof.
    intros [Hne Hall]. induction s as [|x s IH]; [contradiction|].
    destruct s as [|y s']; cbn [keep_last]; [split; assumption|].
    apply IH; [discriminate | inversion Hall; assumption].
  Qed.

  Lemma skipn_good n s : n < length s -> good s -> good (skipn n s).
  Proof.
    intros Hn [Hne Hall]. split.
    - intro E. assert (length (skipn n s) = 0) by (rewrite E; reflexivity). rewrite skipn_length in H. lia.
    - clear Hne Hn. revert n. induction s as [|x s IH]; intro n; [rewrite skipn_nil; constructor|].
      destruct n; cbn [skipn]; [exact Hall | apply IH; inversion Hall; assumption].
  Qed.

  Lemma apply_item_good s i : (match i with IState st => has st | _ => True end) -> good s -> good (apply_item s i).
  Proof.
    intros Hi [Hne Hall]. destruct i as [st| |]; cbn [apply_item].
    - split; [discriminate | constructor; assumption].
    - destruct s as [|x [|y r]]; try (split; assumption). split; [discriminate | inversion Hall; assumption].
    - destruct s as [|x r]; [contradiction|]. split; [discriminate | constructor; [inversion Hall; assumption | exact Hall]].
  Qed.

  Lemma apply_trans_good s r st : table_ok tbl = true -> In r (rules_of tbl st) -> good s -> good (apply_trans s (tr r)).
  Proof.
    intros Hok Hin Hg. pose proof (rules_of_ok _ _ Hok Hin) as Hr. unfold rule_ok in Hr.
    apply andb_true_iff in Hr. destruct Hr as [_ Ht].
    destruct (tr r) as [|items|n|]; cbn [apply_trans].
    - exact Hg.
    - rewrite forallb_forall in Ht. revert s Hg. induction items as [|i items IH]; intros s Hg; [exact Hg|].
      cbn [fold_left]. apply IH.
      + intros x Hx. apply Ht. right. exact Hx.
      + apply apply_item_good; [|exact Hg]. specialize (Ht i (or_introl eq_refl)).
        destruct i as [st'| |]; [|exact I|exact I]. unfold has. destruct (assoc_string st' tbl); [discriminate|discriminate].
    - destruct (Nat.leb (length s) n) eqn:E; [apply keep_last_good; exact Hg|].
      apply skipn_good; [apply Nat.leb_gt; exact E | exact Hg].
    - destruct Hg as [Hne Hall]. destruct s as [|x r']; [contradiction|].
      split; [discriminate | constructor; [inversion Hall; assumption | exact Hall]].
  Qed.

  Definition rule_types : list string :=
    flat_map (fun sr => flat_map (fun r => match act r with ATok ty => [ty] | AOther => [] end) (snd sr)) tbl.

  Lemma rule_type_In st r ty : In r (rules_of tbl st) -> act r = ATok ty -> In ty rule_types.
  Proof.
    unfold rules_of, rule_types. destruct (assoc_string st tbl) as [rs|] eqn:E; [|intros []].
    intros Hin Ha. apply in_flat_map. exists (st, rs). split.
    - clear - E. induction tbl as [|[k v] t IH]; cbn [assoc_string] in E; [discriminate|].
      destruct (String.eqb st k) eqn:Ek; [inversion E; subst; apply String.eqb_eq in Ek; subst; left; reflexivity | right; apply IH; exact E].
    - cbn [snd]. apply in_flat_map. exists r. split; [exact Hin|]. rewrite Ha. left. reflexivity.
  Qed.

  (* every emitted token comes from a rule: in particular no "Error" token unless a rule is typed so *)
  Theorem lex_tokens_from_rules : table_ok tbl = true ->
    forall fuel s rest pos toks, pos + length rest = L -> good s ->
      lex tbl matcher fuel s rest pos = Some toks -> forall tk, In tk toks -> In (fst tk) rule_types.
  Proof.
    intro Hok. induction fuel as [|f IH]; intros s rest pos toks HL Hg H tk Htk; cbn [lex] in H; [discriminate|].
    assert (Htop : has (top s)).
    { destruct Hg as [Hne Hall]. destruct s as [|x r]; [contradiction|]. inversion Hall; assumption. }
    destruct (first_match matcher (rules_of tbl (top s)) pos) as [[r n]|] eqn:F.
    - destruct (first_match_In _ _ _ _ F) as [Hin Hm].
      pose proof (match_inside _ _ _ Hm) as Hins.
      destruct (lex tbl matcher f (apply_trans s (tr r)) (skipn n rest) (pos + n)) as [toks'|] eqn:Lx; [|discriminate].
      injection H as <-. apply in_app_or in Htk. destruct Htk as [Htk|Htk].
      + destruct (act r) as [ty|] eqn:Ha; [|contradiction]. destruct Htk as [<-|[]]. cbn [fst].
        apply (rule_type_In _ _ _ Hin Ha).
      + assert (HL' : pos + n + length (skipn n rest) = L) by (rewrite skipn_length; lia).
        apply (IH _ _ _ _ HL' (apply_trans_good _ _ _ Hok Hin Hg) Lx tk Htk).
    - destruct rest as [|c rest']; [injection H as <-; contradiction|].
      exfalso. apply (covered (top s) pos Htop); [cbn [length] in HL; lia | exact F].
  Qed.
End Proofs.
