(* Models of the three label passes of the compiler (model file: definitions only):
   utils.strip_last_label, label_finalizer.LabelFinalizer, label_jump_to_remover.OpsLabelJumpToRemover. *)
From ES Require Import Base Ssb.Param Ssb.Tables Ssb.Machine.

(* pseudo operations between the handlers and the passes *)
Inductive pop :=
| POp (o : op)
| PLabel (l : nat)
| PJump (o : op) (l : nat).      (* root op (without target parameter) jumping to label l *)

Definition pname (x : pop) : string :=
  match x with
  | POp o => code o
  | PLabel _ => "ES_LABEL"
  | PJump _ _ => "ES_JUMP"        (* op_code.name of a label jump is ES_JUMP<root>; never a context op *)
  end.

(* utils.does_op_end_control_flow *)
Definition ends_cf (x : pop) (prev : option pop) : bool :=
  match prev with
  | Some p => if is_ctx (pname p) then false else
      match x with POp o | PJump o _ => ends_flow (code o) | PLabel _ => false end
  | None => match x with POp o | PJump o _ => ends_flow (code o) | PLabel _ => false end
  end.

Definition dummy_end (z : Z) : pop := POp (mkOp z OP_RETURN []).

(* one sweep of strip_last_label for the removed last label [l];
   [prev] = element before (as it stands in the list), [obe] = op_before_ends_control_flow *)
Fixpoint strip_sweep (l : nat) (r : list pop) (prev : option pop) (obe : bool) : list pop :=
  match r with
  | [] => []
  | x :: rest =>
      match x with
      | PJump o l' =>
          if Nat.eqb l' l then
            if obe then strip_sweep l rest (Some x) obe
            else let x' := dummy_end (off o) in x' :: strip_sweep l rest (Some x') false
          else x :: strip_sweep l rest (Some x) (ends_cf x prev)
      | PLabel _ => x :: strip_sweep l rest (Some x) false
      | POp _ => x :: strip_sweep l rest (Some x) (ends_cf x prev)
      end
  end.

Definition last_label (r : list pop) : option nat :=
  match rev r with PLabel l :: _ => Some l | _ => None end.

Fixpoint strip_routine (fuel : nat) (r : list pop) : list pop :=
  match fuel with
  | O => r
  | S f =>
      match last_label r with
      | Some l => strip_routine f (strip_sweep l (removelast r) None false)
      | None => r
      end
  end.

Definition strip (rs : list (list pop)) : list (list pop) :=
  map (fun r => strip_routine (length r) r) rs.

(* ---- LabelFinalizer ---- *)
Definition is_plain_jump (x : pop) : bool :=
  match x with PJump o _ => String.eqb (code o) OP_JUMP | _ => false end.

(* labels directly after position 0 of [r] (until the next real op), without skipping *)
Fixpoint labels_after0 (r : list pop) : list nat :=
  match r with
  | PLabel l :: rest => l :: labels_after0 rest
  | _ => []
  end.

(* with skipping of plain jumps that themselves only jump to a label right after them *)
Fixpoint labels_after (r : list pop) : list nat :=
  match r with
  | PLabel l :: rest => l :: labels_after rest
  | PJump o l :: rest =>
      if String.eqb (code o) OP_JUMP && existsb (Nat.eqb l) (labels_after0 rest) then labels_after rest else []
  | _ => []
  end.

Definition label_table := list (nat * Z).

Fixpoint assign (waiting : list nat) (z : Z) (t : label_table) : label_table :=
  match waiting with [] => t | l :: r => assign r z ((l, z) :: t) end.

Fixpoint lookup_label (l : nat) (t : label_table) : option Z :=
  match t with [] => None | (k, z) :: r => if Nat.eqb k l then Some z else lookup_label l r end.

Definition pop_off (x : pop) : Z := match x with POp o | PJump o _ => off o | PLabel _ => (-1)%Z end.

(* one routine; state = (waiting labels, table) *)
Fixpoint finalize_routine (r : list pop) (waiting : list nat) (t : label_table)
  : list pop * list nat * label_table :=
  match r with
  | [] => ([], waiting, t)
  | PLabel l :: rest =>
      let '(out, w, t') := finalize_routine rest (waiting ++ [l]) t in (PLabel l :: out, w, t')
  | x :: rest =>
      let removed := match x with
                     | PJump o l => is_plain_jump x && existsb (Nat.eqb l) (labels_after rest)
                     | _ => false
                     end in
      if removed then finalize_routine rest waiting t
      else let '(out, w, t') := finalize_routine rest [] (assign waiting (pop_off x) t) in (x :: out, w, t')
  end.

Fixpoint finalize_all (rs : list (list pop)) (waiting : list nat) (t : label_table)
  : list (list pop) * label_table :=
  match rs with
  | [] => ([], t)
  | r :: rest =>
      let '(out, w, t') := finalize_routine r waiting t in
      let '(outs, t'') := finalize_all rest w t' in
      (out :: outs, t'')
  end.

Definition finalize (rs : list (list pop)) : list (list pop) * label_table := finalize_all rs [] [].

(* ---- OpsLabelJumpToRemover ---- *)
Fixpoint remove_routine (t : label_table) (r : list pop) : result (list op) :=
  match r with
  | [] => Ok []
  | POp o :: rest => do out <- remove_routine t rest; Ok (o :: out)
  | PLabel _ :: rest => remove_routine t rest
  | PJump o l :: rest =>
      match lookup_label l t with
      | None => Err "Label does not exist, but a jump to it does"
      | Some z => do out <- remove_routine t rest; Ok (mkOp (off o) (code o) (params o ++ [PInt z]) :: out)
      end
  end.

Fixpoint remove_all (t : label_table) (rs : list (list pop)) : result program :=
  match rs with
  | [] => Ok []
  | r :: rest => do o <- remove_routine t r; do os <- remove_all t rest; Ok (o :: os)
  end.

Definition passes (rs : list (list pop)) : result program :=
  let '(fin, t) := finalize (strip rs) in remove_all t fin.

(* utils.routine_op_offsets_are_ordered: every routine's offsets lie above those of the routines before it *)
Definition real_offs (r : list pop) : list Z :=
  filter (fun z => negb (Z.eqb z (-1))) (map pop_off r).
Definition zmin (l : list Z) (d : Z) : Z := fold_right Z.min d l.
Definition zmax (l : list Z) (d : Z) : Z := fold_right Z.max d l.
Fixpoint ordered_from (lastz : Z) (rs : list (list pop)) : bool :=
  match rs with
  | [] => true
  | r :: rest =>
      match real_offs r with
      | [] => ordered_from lastz rest
      | z :: zs => if Z.leb (zmin zs z) lastz then false else ordered_from (zmax zs z) rest
      end
  end.
Definition ordered (rs : list (list pop)) : bool := ordered_from (-1)%Z rs.
