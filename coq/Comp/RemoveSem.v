(* OpsLabelJumpToRemover keeps the meaning of the pseudo code: dropping the labels and appending to every
   label jump the offset of the op its label stands for gives an op list whose flow graph is behaviourally
   equal to the graph of the pseudo code (Comp/PopSem.v), for all paths and outcomes. *)
From ES Require Import Base Ssb.Param Ssb.Cfg Ssb.Tables Ssb.Machine Ssb.Equiv Ssb.EquivSound Ssb.Silent
  Comp.Passes Comp.PopSem Comp.Flat Script.Renumber.

Definition omap {A B} (f : A -> option B) (l : list A) : list B :=
  flat_map (fun x => match f x with Some y => [y] | None => [] end) l.

Lemma omap_app {A B} (f : A -> option B) a b : omap f (a ++ b) = omap f a ++ omap f b.
Proof. unfold omap. apply flat_map_app. Qed.

(* position in the filtered list *)
Definition phi {A B} (f : A -> option B) (l : list A) (a : nat) : nat := length (omap f (firstn a l)).

Lemma firstn_S_nth {A} (l : list A) a x : nth_error l a = Some x -> firstn (S a) l = firstn a l ++ [x].
Proof.
  revert a. induction l as [|y l IH]; intros a H; [destruct a; discriminate|].
  destruct a as [|a]; cbn [nth_error] in H; [inversion H; reflexivity|].
  change (firstn (S (S a)) (y :: l)) with (y :: firstn (S a) l).
  change (firstn (S a) (y :: l)) with (y :: firstn a l).
  rewrite (IH a H). reflexivity.
Qed.

Lemma phi_S_some {A B} (f : A -> option B) l a x y : nth_error l a = Some x -> f x = Some y ->
  phi f l (S a) = S (phi f l a) /\ nth_error (omap f l) (phi f l a) = Some y.
Proof.
  intros Hn Hf. unfold phi. rewrite (firstn_S_nth l a x Hn), omap_app, app_length.
  unfold omap at 2. cbn [flat_map]. rewrite Hf. cbn [app length]. split; [lia|].
  rewrite <- (firstn_skipn a l) at 1. rewrite omap_app.
  rewrite nth_error_app2 by lia. rewrite Nat.sub_diag.
  assert (Hs : skipn a l = x :: skipn (S a) l).
  { clear - Hn. revert a Hn. induction l as [|z l IH]; intros a Hn; [destruct a; discriminate|].
    destruct a; cbn [nth_error] in Hn; [inversion Hn; reflexivity|]. cbn [skipn]. apply IH. exact Hn. }
  rewrite Hs. unfold omap. cbn [flat_map]. rewrite Hf. reflexivity.
Qed.

Lemma phi_S_none {A B} (f : A -> option B) l a x : nth_error l a = Some x -> f x = None -> phi f l (S a) = phi f l a.
Proof.
  intros Hn Hf. unfold phi. rewrite (firstn_S_nth l a x Hn), omap_app, app_length.
  unfold omap at 2. cbn [flat_map]. rewrite Hf. cbn [app length]. lia.
Qed.

Lemma phi_all {A B} (f : A -> option B) l : phi f l (length l) = length (omap f l).
Proof. unfold phi. rewrite firstn_all. reflexivity. Qed.

(* ---- one pop -> one op ---- *)
Definition conv (t : label_table) (x : pop) : option op :=
  match x with
  | POp o => Some o
  | PLabel _ => None
  | PJump o l => match lookup_label l t with
                 | Some z => Some (mkOp (off o) (code o) (params o ++ [PInt z]))
                 | None => None
                 end
  end.

Definition jumps_resolved (t : label_table) (r : list pop) : Prop :=
  forall o l, In (PJump o l) r -> lookup_label l t <> None.

Lemma remove_routine_omap t r : forall out, remove_routine t r = Ok out -> out = omap (conv t) r /\ jumps_resolved t r.
Proof.
  induction r as [|x r IH]; intros out H; cbn [remove_routine] in H.
  - inversion H. split; [reflexivity | intros o l []].
  - destruct x as [o|l|o l].
    + destruct (remove_routine t r) as [out'|] eqn:E; cbn [bind] in H; [|discriminate]. inversion H; subst.
      destruct (IH _ eq_refl) as [-> Hj]. split; [reflexivity|].
      intros o' l' [Hin|Hin]; [discriminate | apply (Hj _ _ Hin)].
    + destruct (IH _ H) as [-> Hj]. split; [reflexivity|].
      intros o' l' [Hin|Hin]; [discriminate | apply (Hj _ _ Hin)].
    + destruct (lookup_label l t) as [z|] eqn:El; [|discriminate].
      destruct (remove_routine t r) as [out'|] eqn:E; cbn [bind] in H; [|discriminate]. inversion H; subst.
      destruct (IH _ eq_refl) as [-> Hj]. split.
      * unfold omap. cbn [flat_map conv]. rewrite El. reflexivity.
      * intros o' l' [Hin|Hin]; [inversion Hin; subst; congruence | apply (Hj _ _ Hin)].
Qed.

Lemma remove_all_omap t rs : forall P, remove_all t rs = Ok P ->
  P = map (omap (conv t)) rs /\ forall r, In r rs -> jumps_resolved t r.
Proof.
  induction rs as [|r rs IH]; intros P H; cbn [remove_all] in H.
  - inversion H. split; [reflexivity | intros r []].
  - destruct (remove_routine t r) as [o|] eqn:E; cbn [bind] in H; [|discriminate].
    destruct (remove_all t rs) as [os|] eqn:E2; cbn [bind] in H; [|discriminate]. inversion H; subst.
    destruct (remove_routine_omap _ _ _ E) as [-> Hj]. destruct (IH _ eq_refl) as [-> Hjs].
    split; [reflexivity|]. intros r' [<-|Hin]; [exact Hj | apply Hjs; exact Hin].
Qed.

(* ---- side conditions on the pseudo code (all decidable; checked on every captured pass input) ---- *)
Definition is_label (x : pop) : bool := match x with PLabel _ => true | _ => false end.

(* a routine does not end in a label, and no label directly follows a context op *)
Fixpoint shape_ok (r : list pop) : bool :=
  match r with
  | [] => true
  | x :: rest =>
      match rest with
      | [] => negb (is_label x)
      | y :: _ => negb (pop_isctx x && is_label y) && shape_ok rest
      end
  end.

Definition pop_wf (x : pop) : bool :=
  match x with
  | POp o => match jump_index (code o) with None => true | Some _ => false end
  | PLabel _ => true
  | PJump o _ => match jump_index (code o) with Some idx => Nat.eqb idx (length (params o)) | None => false end
  end.

Lemma jump_not_ctx c : jump_index c <> None -> is_ctx c = false.
Proof.
  unfold jump_index, is_ctx. intro H.
  assert (forallb (fun kv => negb (mem_string (fst kv) ctx_ops)) jump_table = true) as Hall by (vm_compute; reflexivity).
  rewrite forallb_forall in Hall.
  destruct (assoc_string c jump_table) as [v|] eqn:E; [|contradiction].
  assert (Hin : In (c, v) jump_table).
  { clear - E. induction jump_table as [|[k v'] t IH]; cbn [assoc_string] in E; [discriminate|].
    destruct (String.eqb c k) eqn:Ek; [apply String.eqb_eq in Ek; inversion E; subst; left; reflexivity | right; apply IH; exact E]. }
  specialize (Hall _ Hin). cbn [fst] in Hall. apply negb_true_iff in Hall. exact Hall.
Qed.

(* the annotated op list of the result is the filtered annotated pseudo code *)
Definition conv3 (t : label_table) (e : pop * bool * bool) : option (op * bool * bool) :=
  let '(x, last, pc) := e in match conv t x with Some o => Some (o, last, pc) | None => None end.

Lemma conv_isctx t x o : pop_wf x = true -> conv t x = Some o -> op_isctx o = pop_isctx x.
Proof.
  destruct x as [o'|l|o' l]; cbn [conv pop_wf]; intros Hw H.
  - inversion H; subst. reflexivity.
  - discriminate.
  - destruct (lookup_label l t); [|discriminate]. inversion H; subst. unfold op_isctx, pop_isctx. cbn [code pname].
    destruct (jump_index (code o')) eqn:J; [|discriminate].
    rewrite jump_not_ctx by congruence. reflexivity.
Qed.

Lemma omap_nonempty t r : shape_ok r = true -> jumps_resolved t r -> r <> [] -> omap (conv t) r <> [].
Proof.
  induction r as [|x r IH]; intros Hs Hj Hne; [contradiction|].
  unfold omap. cbn [flat_map]. destruct (conv t x) as [o|] eqn:E; [discriminate|].
  cbn [app]. fold (omap (conv t) r). cbn [shape_ok] in Hs. destruct r as [|y r'].
  - destruct x as [o|l|o l]; cbn [conv is_label negb] in *; try discriminate.
    exfalso. apply (Hj o l); [left; reflexivity|]. destruct (lookup_label l t); [discriminate | reflexivity].
  - apply andb_true_iff in Hs. apply IH; [apply Hs | intros o l Hin; apply (Hj o l); right; exact Hin | discriminate].
Qed.

Lemma annotate_r_omap t r : forall pc,
  shape_ok r = true -> forallb pop_wf r = true -> jumps_resolved t r ->
  (match r with PLabel _ :: _ => pc = false | _ => True end) ->
  annotate_r op_isctx (omap (conv t) r) pc = omap (conv3 t) (annotate_r pop_isctx r pc).
Proof.
  induction r as [|x r IH]; intros pc Hs Hw Hj Hpc; [reflexivity|].
  cbn [forallb] in Hw. apply andb_true_iff in Hw. destruct Hw as [Hwx Hwr].
  assert (Hjr : jumps_resolved t r) by (intros o l Hin; apply (Hj o l); right; exact Hin).
  assert (Hsr : shape_ok r = true /\ (r <> [] -> match r with y :: _ => pop_isctx x && is_label y = false | [] => True end)).
  { cbn [shape_ok] in Hs. destruct r as [|y r']; [split; [reflexivity | intros H; contradiction]|].
    apply andb_true_iff in Hs. destruct Hs as [H1 H2]. split; [exact H2 | intros _; apply negb_true_iff; exact H1]. }
  destruct Hsr as [Hsr Hxy].
  cbn [annotate_r]. unfold omap at 1 2. cbn [flat_map conv3]. fold (omap (conv t) r). fold (omap (conv3 t) (annotate_r pop_isctx r (pop_isctx x))).
  destruct (conv t x) as [o|] eqn:E.
  - cbn [app annotate_r]. f_equal.
    + f_equal. f_equal. destruct r as [|y r']; [reflexivity|].
      assert (omap (conv t) (y :: r') <> []) by (apply omap_nonempty; [exact Hsr | exact Hjr | discriminate]).
      destruct (omap (conv t) (y :: r')); [contradiction | reflexivity].
    + rewrite (conv_isctx t x o Hwx E). apply IH; try assumption.
      destruct r as [|y r']; [exact I|]. destruct y; try exact I.
      specialize (Hxy ltac:(discriminate)). cbn [is_label] in Hxy. rewrite andb_true_r in Hxy. exact Hxy.
  - (* a label (a label jump is resolved) *)
    destruct x as [o|l|o l]; cbn [conv] in E; try discriminate.
    + cbn [app]. subst pc. apply IH; try assumption.
      destruct r as [|y r']; [exact I|]. destruct y; try exact I. reflexivity.
    + exfalso. apply (Hj o l); [left; reflexivity|]. destruct (lookup_label l t); [discriminate | reflexivity].
Qed.

Lemma annotate_omap t rs :
  (forall r, In r rs -> shape_ok r = true /\ forallb pop_wf r = true /\ jumps_resolved t r) ->
  annotate op_isctx (map (omap (conv t)) rs) = omap (conv3 t) (annotate pop_isctx rs).
Proof.
  induction rs as [|r rs IH]; intro H; [reflexivity|].
  unfold annotate in *. cbn [map flat_map]. rewrite omap_app.
  destruct (H r (or_introl eq_refl)) as (H1 & H2 & H3).
  rewrite annotate_r_omap; try assumption.
  - f_equal. apply IH. intros r' Hin. apply H. right. exact Hin.
  - destruct r as [|[| |] ?]; try exact I. reflexivity.
Qed.

(* ---- the label table says, for every defined label, the offset of the first op after it ---- *)
Fixpoint next_off (ps : list pop) : option Z :=
  match ps with
  | [] => None
  | PLabel _ :: r => next_off r
  | x :: _ => Some (pop_off x)
  end.

Definition table_right (all : list pop) (t : label_table) : Prop :=
  forall l, match find_label l all 0 with
            | Some i => exists z, lookup_label l t = Some z /\ next_off (skipn i all) = Some z
            | None => lookup_label l t = None
            end.

Lemma skipn_nth {A} (l : list A) : forall a x, nth_error l a = Some x -> skipn a l = x :: skipn (S a) l.
Proof.
  induction l as [|z l IH]; intros a x Hn; [destruct a; discriminate|].
  destruct a; cbn [nth_error] in Hn; [inversion Hn; reflexivity|]. cbn [skipn]. apply IH. exact Hn.
Qed.

Lemma find_off_nth l : forall s k o, NoDup (map off l) -> nth_error l k = Some o -> find_off (off o) l s = Some (s + k).
Proof.
  induction l as [|x l IH]; intros s k o Hnd Hn; [destruct k; discriminate|].
  cbn [map] in Hnd. inversion Hnd as [|? ? Hnot Hnd']; subst.
  destruct k as [|k]; cbn [nth_error] in Hn.
  - inversion Hn; subst. cbn [find_off]. rewrite Z.eqb_refl. f_equal. lia.
  - cbn [find_off]. destruct (Z.eqb (off x) (off o)) eqn:E.
    + apply Z.eqb_eq in E. exfalso. apply Hnot. rewrite E. apply in_map. apply (nth_error_In _ _ Hn).
    + rewrite (IH (S s) k o Hnd' Hn). f_equal. lia.
Qed.

Lemma find_label_lt l : forall ps s i, find_label l ps s = Some i -> s <= i < s + length ps /\ nth_error ps (i - s) = Some (PLabel l).
Proof.
  induction ps as [|x ps IH]; intros s i H; cbn [find_label] in H; [discriminate|].
  assert (Hrec : find_label l ps (S s) = Some i -> s <= i < s + length (x :: ps) /\ nth_error (x :: ps) (i - s) = Some (PLabel l)).
  { intro H'. destruct (IH _ _ H') as [Hr Hn]. cbn [length]. split; [lia|].
    replace (i - s) with (S (i - S s)) by lia. exact Hn. }
  destruct x as [o|l'|o l']; try (apply Hrec; exact H).
  destruct (Nat.eqb l' l) eqn:E; [|apply Hrec; exact H].
  apply Nat.eqb_eq in E. inversion H; subst. cbn [length]. split; [lia|]. rewrite Nat.sub_diag. reflexivity.
Qed.

Section RemoveSem.
  Variable fin : list (list pop).
  Variable t : label_table.
  Variable P' : program.
  Hypothesis Hrem : remove_all t fin = Ok P'.
  Hypothesis Hshape : forall r, In r fin -> shape_ok r = true /\ forallb pop_wf r = true.
  Hypothesis Hoffs : NoDup (map off (all_ops P')).
  Hypothesis Htable : table_right (concat fin) t.

  Let all1 := concat fin.
  Let N1 := length all1.
  Let L1 := annotate pop_isctx fin.
  Let all2 := all_ops P'.
  Let N2 := length all2.
  Let L2 := annotate op_isctx P'.
  Let g1 := cfg_of_pops fin.
  Let g2 := cfg_of_ssb P'.
  Let f := conv3 t.
  Let ph := phi f L1.

  Lemma P'_eq : P' = map (omap (conv t)) fin.
  Proof. apply (remove_all_omap _ _ _ Hrem). Qed.

  Lemma L2_eq : L2 = omap f L1.
  Proof.
    unfold L2, L1, f. rewrite P'_eq. apply annotate_omap. intros r Hin.
    destruct (Hshape r Hin) as [H1 H2]. split; [exact H1|]. split; [exact H2|].
    apply (proj2 (remove_all_omap _ _ _ Hrem)). exact Hin.
  Qed.

  Lemma L1_len : length L1 = N1.  Proof. apply annotate_length. Qed.
  Lemma L2_len : length L2 = N2.  Proof. apply annotate_length. Qed.
  Lemma L1_fst : map (fun e => fst (fst e)) L1 = all1.  Proof. apply annotate_fst. Qed.
  Lemma L2_fst : map (fun e => fst (fst e)) L2 = all2.  Proof. apply annotate_fst. Qed.

  Lemma g1_eq : g1 = mapi_from 0 (pop_node all1 N1 (S N1)) L1 ++ [implicit_return (S N1); NStop].
  Proof. unfold g1, cfg_of_pops. fold all1. fold N1. rewrite nodes_of_pop_program_flat. reflexivity. Qed.
  Lemma g2_eq : g2 = mapi_from 0 (op_node all2 N2 (S N2)) L2 ++ [implicit_return (S N2); NStop].
  Proof. unfold g2, cfg_of_ssb. fold all2. fold N2. rewrite nodes_of_program_flat. reflexivity. Qed.

  Lemma g1_nth a e : nth_error L1 a = Some e -> nth_error g1 a = Some (pop_node all1 N1 (S N1) a e).
  Proof.
    intro H. rewrite g1_eq. rewrite nth_error_app1.
    - rewrite mapi_from_nth, H. reflexivity.
    - rewrite mapi_from_length. apply nth_error_Some. congruence.
  Qed.
  Lemma g2_nth b e : nth_error L2 b = Some e -> nth_error g2 b = Some (op_node all2 N2 (S N2) b e).
  Proof.
    intro H. rewrite g2_eq. rewrite nth_error_app1.
    - rewrite mapi_from_nth, H. reflexivity.
    - rewrite mapi_from_length. apply nth_error_Some. congruence.
  Qed.
  Lemma g1_fall : nth_error g1 N1 = Some (implicit_return (S N1)).
  Proof. rewrite g1_eq, nth_error_app2; rewrite mapi_from_length, L1_len; [rewrite Nat.sub_diag; reflexivity | lia]. Qed.
  Lemma g1_stop : nth_error g1 (S N1) = Some NStop.
  Proof. rewrite g1_eq, nth_error_app2; rewrite mapi_from_length, L1_len; [replace (S N1 - N1) with 1 by lia; reflexivity | lia]. Qed.
  Lemma g2_fall : nth_error g2 N2 = Some (implicit_return (S N2)).
  Proof. rewrite g2_eq, nth_error_app2; rewrite mapi_from_length, L2_len; [rewrite Nat.sub_diag; reflexivity | lia]. Qed.
  Lemma g2_stop : nth_error g2 (S N2) = Some NStop.
  Proof. rewrite g2_eq, nth_error_app2; rewrite mapi_from_length, L2_len; [replace (S N2 - N2) with 1 by lia; reflexivity | lia]. Qed.

  Lemma ph_N1 : ph N1 = N2.
  Proof. unfold ph. rewrite <- L1_len, phi_all, <- L2_eq. apply L2_len. Qed.

  (* the relation between nodes of the two graphs *)
  Definition Rel (a b : nat) : Prop :=
    (a = S N1 /\ b = S N2) \/ (a <= N1 /\ b = ph a).

  Lemma nth_L1_all a e : nth_error L1 a = Some e -> nth_error all1 a = Some (fst (fst e)).
  Proof. intro H. rewrite <- L1_fst. rewrite nth_error_map, H. reflexivity. Qed.
  Lemma nth_L2_all b e : nth_error L2 b = Some e -> nth_error all2 b = Some (fst (fst e)).
  Proof. intro H. rewrite <- L2_fst. rewrite nth_error_map, H. reflexivity. Qed.

  (* where the first op after position i of the pseudo code ends up *)
  Lemma next_off_target : forall n i z, N1 - i <= n -> i <= N1 -> next_off (skipn i all1) = Some z ->
    find_off z all2 0 = Some (ph i).
  Proof.
    induction n as [|n IH]; intros i z Hn Hi Hz.
    - assert (i = N1) by lia. subst i. unfold N1 in Hz. rewrite skipn_all in Hz. discriminate.
    - destruct (nth_error L1 i) as [e|] eqn:E.
      + pose proof (nth_L1_all _ _ E) as Ea. rewrite (skipn_nth _ _ _ Ea) in Hz.
        assert (Hlt : i < N1) by (rewrite <- L1_len; apply nth_error_Some; congruence).
        destruct e as [[x last] pc]. cbn [fst] in *.
        destruct (conv t x) as [o|] eqn:Ec.
        * (* a real pop: this is the target *)
          assert (Ef : f (x, last, pc) = Some (o, last, pc)) by (unfold f, conv3; rewrite Ec; reflexivity).
          destruct (phi_S_some f L1 i _ _ E Ef) as [_ Hnth]. rewrite <- L2_eq in Hnth.
          pose proof (nth_L2_all _ _ Hnth) as Ho. cbn [fst] in Ho.
          assert (Hzo : z = off o).
          { destruct x as [o'|l|o' l]; cbn [conv next_off pop_off] in *.
            - inversion Ec; subst. inversion Hz. reflexivity.
            - discriminate.
            - destruct (lookup_label l t); [|discriminate]. inversion Ec; subst. inversion Hz. reflexivity. }
          subst z. rewrite (find_off_nth all2 0 _ o Hoffs Ho). reflexivity.
        * (* a label (label jumps are resolved) *)
          assert (Ef : f (x, last, pc) = None) by (unfold f, conv3; rewrite Ec; reflexivity).
          destruct x as [o'|l|o' l]; cbn [conv] in Ec; try discriminate.
          -- cbn [next_off] in Hz. unfold ph. rewrite <- (phi_S_none f L1 i _ E Ef). apply (IH (S i)); [lia | lia | exact Hz].
          -- exfalso. destruct (lookup_label l t) eqn:El; [discriminate|].
             assert (Hin : In (PJump o' l) all1) by (apply (nth_error_In _ _ Ea)).
             unfold all1 in Hin. apply in_concat in Hin. destruct Hin as [r [Hr Hin]].
             apply (proj2 (remove_all_omap _ _ _ Hrem) r Hr o' l Hin). exact El.
      + apply nth_error_None in E. rewrite L1_len in E. assert (i = N1) by lia. subst i.
        unfold N1 in Hz. rewrite skipn_all in Hz. discriminate.
  Qed.

  (* facts about the entry at a position *)
  Lemma entry_facts a x last pc : nth_error L1 a = Some (x, last, pc) ->
    a < N1 /\ pop_wf x = true /\ (is_label x = true -> last = false) /\
    (forall o l, x = PJump o l -> lookup_label l t <> None).
  Proof.
    intro H. assert (Hlt : a < N1) by (rewrite <- L1_len; apply nth_error_Some; congruence).
    split; [exact Hlt|].
    apply nth_error_In in H. unfold L1, annotate in H. apply in_flat_map in H. destruct H as [r [Hr Hin]].
    destruct (Hshape r Hr) as [Hs Hw].
    assert (Hx : In x r).
    { rewrite <- (annotate_r_fst pop_isctx r false). apply in_map_iff. exists (x, last, pc). split; [reflexivity | exact Hin]. }
    split; [rewrite forallb_forall in Hw; apply Hw; exact Hx|]. split.
    - clear - Hs Hin. revert Hs Hin. generalize false at 1. induction r as [|y r IH]; intros pc0 Hs Hin Hl; [contradiction|].
      cbn [annotate_r] in Hin. cbn [shape_ok] in Hs. destruct Hin as [E|Hin].
      + inversion E; subst. destruct r as [|z r']; [|reflexivity]. rewrite Hl in Hs. discriminate.
      + destruct r as [|z r']; [contradiction|]. apply andb_true_iff in Hs. apply (IH _ (proj2 Hs) Hin Hl).
    - intros o l ->. apply (proj2 (remove_all_omap _ _ _ Hrem) r Hr o l Hx).
  Qed.

  Lemma succ_rel a (last : bool) : a < N1 -> ph (S a) = S (ph a) ->
    Rel (if last then N1 else S a) (if last then N2 else S (ph a)).
  Proof.
    intros Hlt Hph. right. destruct last; [split; [lia | symmetry; apply ph_N1] | split; [lia | symmetry; exact Hph]].
  Qed.

  Lemma sim_chain a c p : chain g1 a c p -> terminal g1 c -> forall b, Rel a b ->
    exists o2, reaches g2 b o2 /\ matches Rel (obs_at g1 c) o2.
  Proof.
    induction 1 as [a|a m c p Hn Hc IH]; intros Ht b HR.
    - (* a itself is observable *)
      destruct HR as [[-> ->]|[Hle ->]].
      + exists OStop. split.
        * pose proof (reaches_here g2 (S N2)) as Hr. unfold terminal, obs_at in Hr. rewrite g2_stop in Hr. apply Hr. exact I.
        * unfold obs_at. rewrite g1_stop. exact I.
      + destruct (Nat.eq_dec a N1) as [->|Hne].
        * exists (OEv (OP_RETURN, []) (S N2)). split.
          -- pose proof (reaches_here g2 N2) as Hr. unfold terminal, obs_at in Hr. rewrite g2_fall in Hr.
             rewrite ph_N1. apply Hr. exact I.
          -- unfold obs_at. rewrite g1_fall. cbn [implicit_return matches]. split; [reflexivity | left; split; reflexivity].
        * assert (Hlt : a < N1) by lia.
          destruct (nth_error L1 a) as [[[x last] pc]|] eqn:E;
            [|apply nth_error_None in E; rewrite L1_len in E; lia].
          destruct (entry_facts _ _ _ _ E) as (_ & Hw & Hlast & Hres).
          unfold terminal in Ht. unfold obs_at. rewrite (g1_nth _ _ E) in *. cbn [pop_node] in *.
          destruct x as [o|l|o l]; cbn [node_of_pop] in *.
          -- (* plain op *)
             assert (Ef : f (POp o, last, pc) = Some (o, last, pc)) by reflexivity.
             destruct (phi_S_some f L1 a _ _ E Ef) as [Hph Hnth]. rewrite <- L2_eq in Hnth. fold ph in Hph, Hnth.
             cbn [pop_wf] in Hw. destruct (jump_index (code o)) eqn:J; [discriminate|].
             pose proof (g2_nth _ _ Hnth) as Hg2. cbn [op_node] in Hg2. unfold node_of_op in Hg2. rewrite J in Hg2.
             destruct (ends_flow (code o) && negb pc).
             ++ exists (OEv (code o, params o) (S N2)). split.
                ** pose proof (reaches_here g2 (ph a)) as Hr. unfold terminal, obs_at in Hr. rewrite Hg2 in Hr. apply Hr. exact I.
                ** cbn [matches]. split; [reflexivity | left; split; reflexivity].
             ++ exists (OEv (code o, params o) (if last then N2 else S (ph a))). split.
                ** pose proof (reaches_here g2 (ph a)) as Hr. unfold terminal, obs_at in Hr. rewrite Hg2 in Hr. apply Hr. exact I.
                ** cbn [matches]. split; [reflexivity | apply succ_rel; assumption].
          -- contradiction.
          -- (* a test *)
             specialize (Hres o l eq_refl). pose proof (Htable l) as Htl.
             destruct (find_label l all1 0) as [i|] eqn:Fl; [|unfold all1 in Fl; rewrite Fl in Htl; contradiction].
             unfold all1 in Fl. rewrite Fl in Htl. destruct Htl as [z [Hz Hnext]].
             destruct (is_jump (code o)) eqn:Ij; [contradiction|].
             assert (Ef : f (PJump o l, last, pc) = Some (mkOp (off o) (code o) (params o ++ [PInt z]), last, pc)).
             { unfold f, conv3. cbn [conv]. rewrite Hz. reflexivity. }
             destruct (phi_S_some f L1 a _ _ E Ef) as [Hph Hnth]. rewrite <- L2_eq in Hnth. fold ph in Hph, Hnth.
             cbn [pop_wf] in Hw. destruct (jump_index (code o)) as [idx|] eqn:J; [|discriminate]. apply Nat.eqb_eq in Hw. subst idx.
             destruct (find_label_lt _ _ _ _ Fl) as [Hi _]. cbn in Hi. fold all1 in Hi. fold N1 in Hi.
             pose proof (next_off_target N1 i z ltac:(lia) ltac:(lia) Hnext) as Hfo.
             pose proof (g2_nth _ _ Hnth) as Hg2. cbn [op_node] in Hg2. unfold node_of_op in Hg2. cbn [code params] in Hg2.
             rewrite J, nth_error_app_last, Hfo, Ij, remove_nth_app_last in Hg2.
             exists (OTst (code o, params o) (ph i) (if last then N2 else S (ph a))). split.
             ++ pose proof (reaches_here g2 (ph a)) as Hr. unfold terminal, obs_at in Hr. rewrite Hg2 in Hr. apply Hr. exact I.
             ++ cbn [matches]. split; [reflexivity|]. split; [right; split; [lia | reflexivity] | apply succ_rel; assumption].
    - (* a silent move in the pseudo code *)
      destruct HR as [[-> ->]|[Hle ->]]; [rewrite g1_stop in Hn; discriminate|].
      destruct (Nat.eq_dec a N1) as [->|Hne]; [rewrite g1_fall in Hn; discriminate|].
      assert (Hlt : a < N1) by lia.
      destruct (nth_error L1 a) as [[[x last] pc]|] eqn:E;
        [|apply nth_error_None in E; rewrite L1_len in E; lia].
      destruct (entry_facts _ _ _ _ E) as (_ & Hw & Hlast & Hres).
      rewrite (g1_nth _ _ E) in Hn. cbn [pop_node] in Hn.
      destruct x as [o|l|o l]; cbn [node_of_pop] in Hn.
      + destruct (ends_flow (code o) && negb pc); discriminate.
      + (* a label: the same node on the other side *)
        rewrite (Hlast eq_refl) in Hn. inversion Hn; subst m.
        assert (Ef : f (PLabel l, last, pc) = None) by reflexivity.
        apply (IH Ht). right. split; [lia|]. unfold ph. symmetry. apply (phi_S_none f L1 a _ E Ef).
      + (* a jump: both sides move to the label's position *)
        specialize (Hres o l eq_refl). pose proof (Htable l) as Htl.
        destruct (find_label l all1 0) as [i|] eqn:Fl; [|discriminate].
        unfold all1 in Fl. rewrite Fl in Htl. destruct Htl as [z [Hz Hnext]].
        destruct (is_jump (code o)) eqn:Ij; [|discriminate]. inversion Hn; subst m.
        assert (Ef : f (PJump o l, last, pc) = Some (mkOp (off o) (code o) (params o ++ [PInt z]), last, pc)).
        { unfold f, conv3. cbn [conv]. rewrite Hz. reflexivity. }
        destruct (phi_S_some f L1 a _ _ E Ef) as [Hph Hnth]. rewrite <- L2_eq in Hnth. fold ph in Hph, Hnth.
        cbn [pop_wf] in Hw. destruct (jump_index (code o)) as [idx|] eqn:J; [|discriminate]. apply Nat.eqb_eq in Hw. subst idx.
        destruct (find_label_lt _ _ _ _ Fl) as [Hi _]. cbn in Hi. fold all1 in Hi. fold N1 in Hi.
        pose proof (next_off_target N1 i z ltac:(lia) ltac:(lia) Hnext) as Hfo.
        pose proof (g2_nth _ _ Hnth) as Hg2. cbn [op_node] in Hg2. unfold node_of_op in Hg2. cbn [code params] in Hg2.
        rewrite J, nth_error_app_last, Hfo, Ij in Hg2.
        destruct (IH Ht (ph i)) as [o2 [Hr2 Hm]]; [right; split; [lia | reflexivity]|].
        exists o2. split; [apply (reaches_goto g2 (ph a) (ph i) o2 Hg2 Hr2) | exact Hm].
  Qed.

  (* Main statement: if the pseudo code has no cycle of silent moves, related nodes behave equally *)
  Theorem remove_preserves_behaviour :
    (forall a, a <= S N1 -> exists o, reaches g1 a o) ->
    forall a b, Rel a b -> beh_eq g1 g2 a b.
  Proof.
    intro Hterm. apply simulation_beh_eq. intros a b HR.
    assert (Ha : a <= S N1) by (destruct HR as [[-> _]|[H _]]; lia).
    destruct (Hterm a Ha) as [o1 Hr1]. pose proof Hr1 as (c & p & Hc & Ht & Ho).
    destruct (sim_chain _ _ _ Hc Ht b HR) as [o2 [Hr2 Hm]].
    exists o1, o2. split; [exact Hr1|]. split; [exact Hr2|]. rewrite <- Ho. exact Hm.
  Qed.
End RemoveSem.
