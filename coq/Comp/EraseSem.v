(* Erasing redundant jumps keeps the meaning of the pseudo code.
   Generic part: [rm x rest] decides, from an element and the rest of its routine, whether the element is
   erased; every erased element is a plain jump to a label that follows it in the same routine with only
   labels and erased elements in between ([region]).  LabelFinalizer's jump removal is an instance. *)
From ES Require Import Base Ssb.Param Ssb.Cfg Ssb.Tables Ssb.Machine Ssb.Equiv Ssb.EquivSound Ssb.Silent
  Comp.Passes Comp.PopSem Comp.Flat Comp.RemoveSem Comp.TableRight.

Section Erase.
  Variable rm : pop -> list pop -> bool.

  Inductive region (l : nat) : list pop -> Prop :=
  | rg_here rest : region l (PLabel l :: rest)
  | rg_label l' rest : region l rest -> region l (PLabel l' :: rest)
  | rg_removed x rest : rm x rest = true -> region l rest -> region l (x :: rest).

  Hypothesis rm_spec : forall x rest, rm x rest = true ->
    exists o l, x = PJump o l /\ is_jump (code o) = true /\ region l rest.

  Fixpoint kfilter (r : list pop) : list pop :=
    match r with
    | [] => []
    | x :: rest => if rm x rest then kfilter rest else x :: kfilter rest
    end.

  (* the rest of the routine after every element, flat *)
  Fixpoint rests_r (r : list pop) : list (list pop) :=
    match r with [] => [] | _ :: rest => rest :: rests_r rest end.
  Definition rests (rs : list (list pop)) : list (list pop) := flat_map rests_r rs.

  Lemma rm_label l rest : rm (PLabel l) rest = false.
  Proof. destruct (rm (PLabel l) rest) eqn:E; [|reflexivity]. destruct (rm_spec _ _ E) as (o & l' & H & _). discriminate. Qed.
  Lemma rm_op o rest : rm (POp o) rest = false.
  Proof. destruct (rm (POp o) rest) eqn:E; [|reflexivity]. destruct (rm_spec _ _ E) as (o' & l' & H & _). discriminate. Qed.

  Lemma region_nonempty l rest : region l rest -> rest <> [].
  Proof. destruct 1; discriminate. Qed.

  Lemma region_kfilter l rest : region l rest -> kfilter rest <> [].
  Proof.
    induction 1 as [rest|l' rest H IH|x rest Hx H IH]; cbn [kfilter].
    - rewrite rm_label. discriminate.
    - rewrite rm_label. discriminate.
    - rewrite Hx. exact IH.
  Qed.

  Lemma kfilter_nonempty r : r <> [] -> kfilter r <> [].
  Proof.
    destruct r as [|x rest]; [contradiction|]. intros _. cbn [kfilter]. destruct (rm x rest) eqn:E; [|discriminate].
    destruct (rm_spec _ _ E) as (o & l & _ & _ & Hr). apply (region_kfilter l rest Hr).
  Qed.

  (* keep the annotated entry unless its element is erased *)
  Definition keep3 (e : (pop * bool * bool) * list pop) : option (pop * bool * bool) :=
    let '((x, last, pc), rest) := e in if rm x rest then None else Some (x, last, pc).

  (* shape: nothing that is erased, and no label, directly follows a context op; no routine ends in a label *)
  Fixpoint shape2 (r : list pop) : bool :=
    match r with
    | [] => true
    | x :: rest =>
        match rest with
        | [] => negb (is_label x)
        | y :: _ => negb (pop_isctx x && (is_label y || match y with PJump _ _ => true | _ => false end)) && shape2 rest
        end
    end.

  Lemma annotate_r_kfilter r : forall pc, shape2 r = true ->
    (match r with x :: rest => rm x rest = true -> pc = false | [] => True end) ->
    annotate_r pop_isctx (kfilter r) pc = omap keep3 (combine (annotate_r pop_isctx r pc) (rests_r r)).
  Proof.
    induction r as [|x r IH]; intros pc Hs Hpc; [reflexivity|].
    cbn [kfilter annotate_r rests_r combine]. unfold omap at 1. cbn [flat_map keep3].
    fold (omap keep3 (combine (annotate_r pop_isctx r (pop_isctx x)) (rests_r r))).
    assert (Hsr : shape2 r = true /\ match r with y :: _ => pop_isctx x && (is_label y || match y with PJump _ _ => true | _ => false end) = false | [] => True end).
    { cbn [shape2] in Hs. destruct r as [|y r']; [split; [reflexivity | exact I]|].
      apply andb_true_iff in Hs. destruct Hs as [H1 H2]. split; [exact H2 | apply negb_true_iff; exact H1]. }
    destruct Hsr as [Hsr Hxy].
    assert (Hnext : match r with y :: rest' => rm y rest' = true -> pop_isctx x = false | [] => True end).
    { destruct r as [|y r']; [exact I|]. intro Hy. destruct (rm_spec _ _ Hy) as (o & l & -> & _ & _).
      cbn [is_label orb] in Hxy. rewrite andb_true_r in Hxy. exact Hxy. }
    destruct (rm x r) eqn:E.
    - (* erased *)
      cbn [app]. rewrite (Hpc eq_refl) in *.
      destruct (rm_spec _ _ E) as (o & l & -> & _ & _). unfold pop_isctx at 1. cbn [pname].
      replace (is_ctx "ES_JUMP") with false by (vm_compute; reflexivity).
      apply IH; [exact Hsr|]. destruct r as [|y r']; [exact I|]. intros _. reflexivity.
    - cbn [app annotate_r]. f_equal.
      + f_equal. f_equal. destruct r as [|y r']; [reflexivity|].
        assert (kfilter (y :: r') <> []) by (apply kfilter_nonempty; discriminate).
        destruct (kfilter (y :: r')); [contradiction | reflexivity].
      + apply IH; [exact Hsr | exact Hnext].
  Qed.

  Lemma rests_r_length r : length (rests_r r) = length r.
  Proof. induction r as [|x r IH]; cbn [rests_r length]; [reflexivity | rewrite IH; reflexivity]. Qed.

  Lemma combine_app {A B} (a1 a2 : list A) (b1 b2 : list B) : length a1 = length b1 ->
    combine (a1 ++ a2) (b1 ++ b2) = combine a1 b1 ++ combine a2 b2.
  Proof.
    revert b1. induction a1 as [|x a1 IH]; intros [|y b1] H; cbn in H; try discriminate; [reflexivity|].
    cbn [app combine]. rewrite IH by lia. reflexivity.
  Qed.

  Lemma annotate_kfilter rs : (forall r, In r rs -> shape2 r = true) ->
    annotate pop_isctx (map kfilter rs) = omap keep3 (combine (annotate pop_isctx rs) (rests rs)).
  Proof.
    induction rs as [|r rs IH]; intro H; [reflexivity|].
    unfold annotate, rests in *. cbn [map flat_map].
    rewrite combine_app by (rewrite annotate_r_length, rests_r_length; reflexivity).
    rewrite omap_app. rewrite annotate_r_kfilter.
    - f_equal. apply IH. intros r' Hr. apply H. right. exact Hr.
    - apply H. left. reflexivity.
    - destruct r; [exact I | intros _; reflexivity].
  Qed.

  (* ---- structure of the annotated list with rests ---- *)
  Definition centry := ((pop * bool * bool) * list pop)%type.
  Definition cproj (e : centry) : pop := fst (fst (fst e)).

  Lemma nth_combine {A B} (l1 : list A) (l2 : list B) : forall a x y,
    nth_error (combine l1 l2) a = Some (x, y) -> nth_error l1 a = Some x /\ nth_error l2 a = Some y.
  Proof.
    revert l2. induction l1 as [|u l1 IH]; intros [|v l2] a x y H; try (destruct a; discriminate).
    destruct a as [|a]; cbn [combine nth_error] in *; [inversion H; split; reflexivity | apply IH; exact H].
  Qed.

  Lemma cr_next r : forall pc a x last pc' rest,
    nth_error (combine (annotate_r pop_isctx r pc) (rests_r r)) a = Some ((x, last, pc'), rest) ->
    match rest with
    | [] => last = true
    | y :: rest' => last = false /\ exists last', nth_error (combine (annotate_r pop_isctx r pc) (rests_r r)) (S a) = Some ((y, last', pop_isctx x), rest')
    end.
  Proof.
    induction r as [|z r IH]; intros pc a x last pc' rest H; [destruct a; discriminate|].
    cbn [annotate_r rests_r combine] in *. destruct a as [|a]; cbn [nth_error] in *.
    - inversion H; subst. destruct rest as [|y rest']; [reflexivity|]. split; [reflexivity|].
      cbn [annotate_r rests_r combine nth_error]. eexists. reflexivity.
    - apply (IH _ _ _ _ _ _ H).
  Qed.

  Lemma nth_app_l {A} (l1 l2 : list A) a x : nth_error l1 a = Some x -> nth_error (l1 ++ l2) a = Some x.
  Proof. intro H. rewrite nth_error_app1; [exact H | apply nth_error_Some; congruence]. Qed.

  Lemma c_next rs : forall a x last pc rest,
    nth_error (combine (annotate pop_isctx rs) (rests rs)) a = Some ((x, last, pc), rest) ->
    match rest with
    | [] => last = true
    | y :: rest' => last = false /\ exists last', nth_error (combine (annotate pop_isctx rs) (rests rs)) (S a) = Some ((y, last', pop_isctx x), rest')
    end.
  Proof.
    induction rs as [|r rs IH]; intros a x last pc rest H; [destruct a; discriminate|].
    unfold annotate, rests in *. cbn [flat_map] in *.
    rewrite combine_app in * by (rewrite annotate_r_length, rests_r_length; reflexivity).
    set (Cr := combine (annotate_r pop_isctx r false) (rests_r r)) in *.
    destruct (Nat.lt_ge_cases a (length Cr)) as [Hlt|Hge].
    - rewrite nth_error_app1 in H by exact Hlt. pose proof (cr_next r false a x last pc rest H) as Hn.
      destruct rest as [|y rest']; [exact Hn|]. destruct Hn as [Hl [last' Hn]]. split; [exact Hl|].
      exists last'. apply nth_app_l. exact Hn.
    - rewrite nth_error_app2 in H by exact Hge. pose proof (IH _ _ _ _ _ H) as Hn.
      destruct rest as [|y rest']; [exact Hn|]. destruct Hn as [Hl [last' Hn]]. split; [exact Hl|].
      exists last'. rewrite nth_error_app2 by lia. replace (S a - length Cr) with (S (a - length Cr)) by lia. exact Hn.
  Qed.

  (* a label that occurs somewhere is found at its first occurrence; with unique labels, at that occurrence *)
  Lemma find_label_unique l ps : forall s i, NoDup (labels_of ps) -> nth_error ps i = Some (PLabel l) ->
    find_label l ps s = Some (s + i).
  Proof.
    induction ps as [|x ps IH]; intros s i Hnd Hn; [destruct i; discriminate|].
    destruct i as [|i]; cbn [nth_error] in Hn.
    - inversion Hn; subst. cbn [find_label]. rewrite Nat.eqb_refl. f_equal. lia.
    - cbn [find_label]. destruct x as [o|l'|o l']; cbn [labels_of] in Hnd.
      + rewrite (IH (S s) i Hnd Hn). f_equal. lia.
      + inversion Hnd as [|? ? Hnot Hnd']; subst. destruct (Nat.eqb l' l) eqn:E.
        * apply Nat.eqb_eq in E. subst l'. exfalso. apply Hnot.
          clear - Hn. revert i Hn. induction ps as [|y ps IH]; intros i Hn; [destruct i; discriminate|].
          destruct i; cbn [nth_error] in Hn; [inversion Hn; left; reflexivity|].
          destruct y; cbn [labels_of]; try (apply (IH _ Hn)). right. apply (IH _ Hn).
        * rewrite (IH (S s) i Hnd' Hn). f_equal. lia.
      + rewrite (IH (S s) i Hnd Hn). f_equal. lia.
  Qed.

  (* positions of labels after filtering *)
  Lemma phi_cons_keep (e : centry) C k y : keep3 e = Some y -> phi keep3 (e :: C) (S k) = S (phi keep3 C k).
  Proof. intro H. unfold phi. cbn [firstn]. unfold omap. cbn [flat_map]. rewrite H. reflexivity. Qed.
  Lemma phi_cons_drop (e : centry) C k : keep3 e = None -> phi keep3 (e :: C) (S k) = phi keep3 C k.
  Proof. intro H. unfold phi. cbn [firstn]. unfold omap. cbn [flat_map]. rewrite H. reflexivity. Qed.

  Lemma keep3_proj e y : keep3 e = Some y -> fst (fst y) = cproj e.
  Proof. destruct e as [[[x last] pc] rest]. unfold keep3, cproj. cbn. destruct (rm x rest); [discriminate|]. intro H. inversion H. reflexivity. Qed.

  Lemma find_label_filtered l (C : list centry) : forall s0 s i,
    find_label l (map cproj C) s0 = Some i ->
    find_label l (map (fun y => fst (fst y)) (omap keep3 C)) s = Some (s + phi keep3 C (i - s0)).
  Proof.
    induction C as [|e C IH]; intros s0 s i H; [discriminate|].
    cbn [map] in H. destruct (find_label_lt _ _ _ _ H) as [Hr _].
    destruct (keep3 e) as [y|] eqn:K.
    - unfold omap. cbn [flat_map]. rewrite K. cbn [app map]. fold (omap keep3 C). rewrite (keep3_proj e y K).
      cbn [find_label] in *. destruct (cproj e) as [o|l'|o l'].
      + specialize (IH _ (S s) _ H). rewrite IH. f_equal.
        replace (i - s0) with (S (i - S s0)) by (destruct (find_label_lt _ _ _ _ H); lia). rewrite (phi_cons_keep e C _ y K). lia.
      + destruct (Nat.eqb l' l).
        * inversion H; subst. rewrite Nat.sub_diag. unfold phi. cbn [firstn]. f_equal. cbn. lia.
        * specialize (IH _ (S s) _ H). rewrite IH. f_equal.
          replace (i - s0) with (S (i - S s0)) by (destruct (find_label_lt _ _ _ _ H); lia). rewrite (phi_cons_keep e C _ y K). lia.
      + specialize (IH _ (S s) _ H). rewrite IH. f_equal.
        replace (i - s0) with (S (i - S s0)) by (destruct (find_label_lt _ _ _ _ H); lia). rewrite (phi_cons_keep e C _ y K). lia.
    - unfold omap. cbn [flat_map]. rewrite K. cbn [app]. fold (omap keep3 C).
      destruct e as [[[x last] pc] rest]. unfold keep3 in K. destruct (rm x rest) eqn:E; [|discriminate].
      destruct (rm_spec _ _ E) as (o & l' & -> & _ & _). unfold cproj in H. cbn [fst find_label] in H.
      specialize (IH _ s _ H). rewrite IH. f_equal. f_equal.
      replace (i - s0) with (S (i - S s0)) by (destruct (find_label_lt _ _ _ _ H); lia).
      symmetry. apply phi_cons_drop. unfold keep3. rewrite E. reflexivity.
  Qed.

  Lemma chain_reaches g a b p o : chain g a b p -> reaches g b o -> reaches g a o.
  Proof. induction 1 as [a|a m b p Hn Hc IH]; intro Hr; [exact Hr | apply (reaches_goto g a m o Hn (IH Hr))]. Qed.

  Lemma rests_length rs : length (rests rs) = length (concat rs).
  Proof.
    induction rs as [|r rs IH]; [reflexivity|]. unfold rests in *. cbn [flat_map concat].
    rewrite !app_length, rests_r_length, IH. reflexivity.
  Qed.

  Lemma map_fst_combine {A B} (l1 : list A) (l2 : list B) : length l1 = length l2 -> map fst (combine l1 l2) = l1.
  Proof.
    revert l2. induction l1 as [|x l1 IH]; intros [|y l2] H; cbn in H; try discriminate; [reflexivity|].
    cbn [combine map fst]. rewrite IH by lia. reflexivity.
  Qed.

  Lemma label_entry_not_last r : forall pc l last pc' rest, shape2 r = true ->
    In ((PLabel l, last, pc'), rest) (combine (annotate_r pop_isctx r pc) (rests_r r)) -> last = false.
  Proof.
    induction r as [|x r IH]; intros pc l last pc' rest Hs Hin; [contradiction|].
    cbn [annotate_r rests_r combine] in Hin. cbn [shape2] in Hs. destruct Hin as [E|Hin].
    - inversion E; subst. destruct rest as [|y r']; [cbn [is_label negb] in Hs; discriminate | reflexivity].
    - destruct r as [|y r']; [contradiction|]. apply andb_true_iff in Hs. apply (IH _ _ _ _ _ (proj2 Hs) Hin).
  Qed.

  Section WithProgram.
    Variable rs : list (list pop).
    Hypothesis Hshape : forall r, In r rs -> shape2 r = true.
    Hypothesis Hlab : NoDup (labels_of (concat rs)).
    Hypothesis Hdef : forall o l, In (PJump o l) (concat rs) -> find_label l (concat rs) 0 <> None.

    Let all1 := concat rs.
    Let N1 := length all1.
    Let L1 := annotate pop_isctx rs.
    Let C1 := combine L1 (rests rs).
    Let rs2 := map kfilter rs.
    Let all2 := concat rs2.
    Let N2 := length all2.
    Let L2 := annotate pop_isctx rs2.
    Let g1 := cfg_of_pops rs.
    Let g2 := cfg_of_pops rs2.
    Let ph := phi keep3 C1.

    Lemma eL1_len : length L1 = N1.  Proof. apply annotate_length. Qed.
    Lemma eL2_len : length L2 = N2.  Proof. apply annotate_length. Qed.
    Lemma eC1_len : length C1 = N1.
    Proof. unfold C1. rewrite combine_length, eL1_len, rests_length. fold all1. fold N1. lia. Qed.
    Lemma eL2_eq : L2 = omap keep3 C1.  Proof. apply annotate_kfilter. exact Hshape. Qed.
    Lemma eall1 : map cproj C1 = all1.
    Proof.
      assert (H : map cproj C1 = map (fun e => fst (fst e)) (map fst C1)) by (rewrite map_map; reflexivity).
      rewrite H. unfold C1. rewrite map_fst_combine by (rewrite eL1_len, rests_length; reflexivity). apply annotate_fst.
    Qed.
    Lemma eall2 : map (fun y => fst (fst y)) L2 = all2.  Proof. apply annotate_fst. Qed.

    Lemma eg1_eq : g1 = mapi_from 0 (pop_node all1 N1 (S N1)) L1 ++ [implicit_return (S N1); NStop].
    Proof. unfold g1, cfg_of_pops. fold all1. fold N1. rewrite nodes_of_pop_program_flat. reflexivity. Qed.
    Lemma eg2_eq : g2 = mapi_from 0 (pop_node all2 N2 (S N2)) L2 ++ [implicit_return (S N2); NStop].
    Proof. unfold g2, cfg_of_pops. fold all2. fold N2. rewrite nodes_of_pop_program_flat. reflexivity. Qed.

    Lemma eg1_nth a e rest : nth_error C1 a = Some (e, rest) -> nth_error g1 a = Some (pop_node all1 N1 (S N1) a e).
    Proof.
      intro H. destruct (nth_combine _ _ _ _ _ H) as [H1 _]. rewrite eg1_eq, nth_error_app1.
      - rewrite mapi_from_nth, H1. reflexivity.
      - rewrite mapi_from_length. apply nth_error_Some. congruence.
    Qed.
    Lemma eg2_nth b e : nth_error L2 b = Some e -> nth_error g2 b = Some (pop_node all2 N2 (S N2) b e).
    Proof.
      intro H. rewrite eg2_eq, nth_error_app1.
      - rewrite mapi_from_nth, H. reflexivity.
      - rewrite mapi_from_length. apply nth_error_Some. congruence.
    Qed.
    Lemma eg1_fall : nth_error g1 N1 = Some (implicit_return (S N1)).
    Proof. rewrite eg1_eq, nth_error_app2; rewrite mapi_from_length, eL1_len; [rewrite Nat.sub_diag; reflexivity | lia]. Qed.
    Lemma eg1_stop : nth_error g1 (S N1) = Some NStop.
    Proof. rewrite eg1_eq, nth_error_app2; rewrite mapi_from_length, eL1_len; [replace (S N1 - N1) with 1 by lia; reflexivity | lia]. Qed.
    Lemma eg2_fall : nth_error g2 N2 = Some (implicit_return (S N2)).
    Proof. rewrite eg2_eq, nth_error_app2; rewrite mapi_from_length, eL2_len; [rewrite Nat.sub_diag; reflexivity | lia]. Qed.
    Lemma eg2_stop : nth_error g2 (S N2) = Some NStop.
    Proof. rewrite eg2_eq, nth_error_app2; rewrite mapi_from_length, eL2_len; [replace (S N2 - N2) with 1 by lia; reflexivity | lia]. Qed.

    Lemma eph_N1 : ph N1 = N2.
    Proof. unfold ph. rewrite <- eC1_len, phi_all, <- eL2_eq. apply eL2_len. Qed.

    Lemma e_find l i : find_label l all1 0 = Some i -> find_label l all2 0 = Some (ph i).
    Proof.
      intro H. rewrite <- eall1 in H. rewrite <- eall2, eL2_eq.
      rewrite (find_label_filtered l C1 0 0 i H). rewrite Nat.sub_0_r. reflexivity.
    Qed.

    Lemma e_nth_all a e rest : nth_error C1 a = Some (e, rest) -> nth_error all1 a = Some (fst (fst e)).
    Proof. intro H. rewrite <- eall1. apply (map_nth_error cproj _ _ H). Qed.

    Lemma e_label_not_last a l last pc rest : nth_error C1 a = Some ((PLabel l, last, pc), rest) -> last = false.
    Proof.
      intro H. apply nth_error_In in H. unfold C1, L1, annotate, rests in H.
      clear - H Hshape rm_spec. revert H. induction rs as [|r rs' IH]; intro H; [contradiction|].
      cbn [flat_map] in H. rewrite combine_app in H by (rewrite annotate_r_length, rests_r_length; reflexivity).
      apply in_app_or in H. destruct H as [H|H].
      - apply (label_entry_not_last r false l last pc rest (Hshape r (or_introl eq_refl)) H).
      - apply IH; [intros r' Hr; apply Hshape; right; exact Hr | exact H].
    Qed.

    (* from an element whose rest holds a region for l: l is found behind it, and the other graph walks there silently *)
    Lemma region_run l rest : region l rest -> forall a x last pc,
      nth_error C1 a = Some ((x, last, pc), rest) ->
      exists k p, find_label l all1 0 = Some (S a + k) /\ chain g2 (ph (S a)) (ph (S a + k)) p.
    Proof.
      induction 1 as [rest'|l' rest' Hr IH|y rest' Hy Hr IH]; intros a x last pc Hn.
      - pose proof (c_next rs _ _ _ _ _ Hn) as [_ [last' Hn']].
        exists 0, []. split.
        + rewrite Nat.add_0_r. rewrite <- (Nat.add_0_l (S a)). apply find_label_unique; [exact Hlab|].
          apply (e_nth_all _ _ _ Hn').
        + rewrite Nat.add_0_r. constructor.
      - pose proof (c_next rs _ _ _ _ _ Hn) as [_ [last' Hn']].
        destruct (IH _ _ _ _ Hn') as (k & p & Hf & Hc).
        assert (Hl : last' = false) by (apply (e_label_not_last _ _ _ _ _ Hn')). subst last'.
        assert (Ef : keep3 ((PLabel l', false, pop_isctx x), rest') = Some (PLabel l', false, pop_isctx x)).
        { unfold keep3. rewrite rm_label. reflexivity. }
        destruct (phi_S_some keep3 C1 (S a) _ _ Hn' Ef) as [Hph Hnth]. rewrite <- eL2_eq in Hnth. fold ph in Hph, Hnth.
        pose proof (eg2_nth _ _ Hnth) as Hg2. cbn [pop_node node_of_pop] in Hg2.
        exists (S k), (ph (S a) :: p). split; [rewrite Hf; f_equal; lia|].
        replace (S a + S k) with (S (S a) + k) by lia. econstructor; [exact Hg2 | rewrite <- Hph; exact Hc].
      - pose proof (c_next rs _ _ _ _ _ Hn) as [_ [last' Hn']].
        destruct (IH _ _ _ _ Hn') as (k & p & Hf & Hc).
        assert (Ef : keep3 ((y, last', pop_isctx x), rest') = None) by (unfold keep3; rewrite Hy; reflexivity).
        pose proof (phi_S_none keep3 C1 (S a) _ Hn' Ef) as Hph. fold ph in Hph.
        exists (S k), p. split; [rewrite Hf; f_equal; lia|].
        replace (S a + S k) with (S (S a) + k) by lia. rewrite <- Hph. exact Hc.
    Qed.

    Definition ERel (a b : nat) : Prop := (a = S N1 /\ b = S N2) \/ (a <= N1 /\ b = ph a).

    Lemma e_succ_rel a (last : bool) : a < N1 -> ph (S a) = S (ph a) ->
      ERel (if last then N1 else S a) (if last then N2 else S (ph a)).
    Proof.
      intros Hlt Hph. right. destruct last; [split; [lia | symmetry; apply eph_N1] | split; [lia | symmetry; exact Hph]].
    Qed.

    Lemma e_sim_chain a c p : chain g1 a c p -> terminal g1 c -> forall b, ERel a b ->
      exists o2, reaches g2 b o2 /\ matches ERel (obs_at g1 c) o2.
    Proof.
      induction 1 as [a|a m c p Hn Hc IH]; intros Ht b HR.
      - destruct HR as [[-> ->]|[Hle ->]].
        + exists OStop. split.
          * pose proof (reaches_here g2 (S N2)) as Hr. unfold terminal, obs_at in Hr. rewrite eg2_stop in Hr. apply Hr. exact I.
          * unfold obs_at. rewrite eg1_stop. exact I.
        + destruct (Nat.eq_dec a N1) as [->|Hne].
          * exists (OEv (OP_RETURN, []) (S N2)). split.
            -- pose proof (reaches_here g2 N2) as Hr. unfold terminal, obs_at in Hr. rewrite eg2_fall in Hr.
               rewrite eph_N1. apply Hr. exact I.
            -- unfold obs_at. rewrite eg1_fall. cbn [implicit_return matches]. split; [reflexivity | left; split; reflexivity].
          * assert (Hlt : a < N1) by lia.
            destruct (nth_error C1 a) as [[[[x last] pc] rest]|] eqn:E;
              [|apply nth_error_None in E; rewrite eC1_len in E; lia].
            unfold terminal in Ht. unfold obs_at. rewrite (eg1_nth _ _ _ E) in *. cbn [pop_node] in *.
            destruct x as [o|l|o l]; cbn [node_of_pop] in *.
            -- assert (Ef : keep3 ((POp o, last, pc), rest) = Some (POp o, last, pc)) by (unfold keep3; rewrite rm_op; reflexivity).
               destruct (phi_S_some keep3 C1 a _ _ E Ef) as [Hph Hnth]. rewrite <- eL2_eq in Hnth. fold ph in Hph, Hnth.
               pose proof (eg2_nth _ _ Hnth) as Hg2. cbn [pop_node node_of_pop] in Hg2.
               destruct (ends_flow (code o) && negb pc).
               ++ exists (OEv (code o, params o) (S N2)). split.
                  ** pose proof (reaches_here g2 (ph a)) as Hr. unfold terminal, obs_at in Hr. rewrite Hg2 in Hr. apply Hr. exact I.
                  ** cbn [matches]. split; [reflexivity | left; split; reflexivity].
               ++ exists (OEv (code o, params o) (if last then N2 else S (ph a))). split.
                  ** pose proof (reaches_here g2 (ph a)) as Hr. unfold terminal, obs_at in Hr. rewrite Hg2 in Hr. apply Hr. exact I.
                  ** cbn [matches]. split; [reflexivity | apply e_succ_rel; assumption].
            -- contradiction.
            -- assert (Hin : In (PJump o l) all1) by (apply (nth_error_In _ _ (e_nth_all _ _ _ E))).
               pose proof (Hdef o l Hin) as Hd. fold all1 in Hd.
               destruct (find_label l all1 0) as [i|] eqn:Fl; [|contradiction].
               destruct (is_jump (code o)) eqn:Ij; [contradiction|].
               assert (Ek : rm (PJump o l) rest = false).
               { destruct (rm (PJump o l) rest) eqn:Er; [|reflexivity].
                 destruct (rm_spec _ _ Er) as (o' & l' & Hx & Hj & _). inversion Hx; subst. congruence. }
               assert (Ef : keep3 ((PJump o l, last, pc), rest) = Some (PJump o l, last, pc)) by (unfold keep3; rewrite Ek; reflexivity).
               destruct (phi_S_some keep3 C1 a _ _ E Ef) as [Hph Hnth]. rewrite <- eL2_eq in Hnth. fold ph in Hph, Hnth.
               pose proof (eg2_nth _ _ Hnth) as Hg2. cbn [pop_node node_of_pop] in Hg2. rewrite (e_find _ _ Fl), Ij in Hg2.
               destruct (find_label_lt _ _ _ _ Fl) as [Hi _]. cbn in Hi. fold all1 in Hi. fold N1 in Hi.
               exists (OTst (code o, params o) (ph i) (if last then N2 else S (ph a))). split.
               ++ pose proof (reaches_here g2 (ph a)) as Hr. unfold terminal, obs_at in Hr. rewrite Hg2 in Hr. apply Hr. exact I.
               ++ cbn [matches]. split; [reflexivity|]. split; [right; split; [lia | reflexivity] | apply e_succ_rel; assumption].
      - destruct HR as [[-> ->]|[Hle ->]]; [rewrite eg1_stop in Hn; discriminate|].
        destruct (Nat.eq_dec a N1) as [->|Hne]; [rewrite eg1_fall in Hn; discriminate|].
        assert (Hlt : a < N1) by lia.
        destruct (nth_error C1 a) as [[[[x last] pc] rest]|] eqn:E;
          [|apply nth_error_None in E; rewrite eC1_len in E; lia].
        rewrite (eg1_nth _ _ _ E) in Hn. cbn [pop_node] in Hn.
        destruct x as [o|l|o l]; cbn [node_of_pop] in Hn.
        + destruct (ends_flow (code o) && negb pc); discriminate.
        + (* a label: kept, silent on both sides *)
          pose proof (e_label_not_last _ _ _ _ _ E) as Hl. subst last. inversion Hn; subst m.
          assert (Ef : keep3 ((PLabel l, false, pc), rest) = Some (PLabel l, false, pc)) by (unfold keep3; rewrite rm_label; reflexivity).
          destruct (phi_S_some keep3 C1 a _ _ E Ef) as [Hph Hnth]. rewrite <- eL2_eq in Hnth. fold ph in Hph, Hnth.
          pose proof (eg2_nth _ _ Hnth) as Hg2. cbn [pop_node node_of_pop] in Hg2.
          destruct (IH Ht (ph (S a))) as [o2 [Hr2 Hm]]; [right; split; [lia | reflexivity]|].
          exists o2. split; [|exact Hm]. apply (reaches_goto g2 (ph a) (S (ph a)) o2 Hg2). rewrite <- Hph. exact Hr2.
        + assert (Hin : In (PJump o l) all1) by (apply (nth_error_In _ _ (e_nth_all _ _ _ E))).
          pose proof (Hdef o l Hin) as Hd. fold all1 in Hd.
          destruct (find_label l all1 0) as [i|] eqn:Fl; [|contradiction].
          destruct (is_jump (code o)) eqn:Ij; [|discriminate]. inversion Hn; subst m.
          destruct (find_label_lt _ _ _ _ Fl) as [Hi _]. cbn in Hi. fold all1 in Hi. fold N1 in Hi.
          destruct (IH Ht (ph i)) as [o2 [Hr2 Hm]]; [right; split; [lia | reflexivity]|].
          exists o2. split; [|exact Hm].
          destruct (rm (PJump o l) rest) eqn:Er.
          * (* erased: the other graph walks through the labels to the same place *)
            destruct (rm_spec _ _ Er) as (o' & l' & Hx & _ & Hreg). inversion Hx; subst o' l'.
            destruct (region_run l rest Hreg _ _ _ _ E) as (k & p' & Hf & Hch).
            rewrite Fl in Hf. inversion Hf; subst i.
            assert (Ef : keep3 ((PJump o l, last, pc), rest) = None) by (unfold keep3; rewrite Er; reflexivity).
            pose proof (phi_S_none keep3 C1 a _ E Ef) as Hph. fold ph in Hph. rewrite <- Hph.
            apply (chain_reaches _ _ _ _ _ Hch Hr2).
          * assert (Ef : keep3 ((PJump o l, last, pc), rest) = Some (PJump o l, last, pc)) by (unfold keep3; rewrite Er; reflexivity).
            destruct (phi_S_some keep3 C1 a _ _ E Ef) as [Hph Hnth]. rewrite <- eL2_eq in Hnth. fold ph in Hph, Hnth.
            pose proof (eg2_nth _ _ Hnth) as Hg2. cbn [pop_node node_of_pop] in Hg2. rewrite (e_find _ _ Fl), Ij in Hg2.
            apply (reaches_goto g2 (ph a) (ph i) o2 Hg2 Hr2).
    Qed.

    Theorem erase_preserves_behaviour :
      (forall a, a <= S N1 -> exists o, reaches g1 a o) ->
      forall a b, ERel a b -> beh_eq g1 g2 a b.
    Proof.
      intro Hterm. apply simulation_beh_eq. intros a b HR.
      assert (Ha : a <= S N1) by (destruct HR as [[-> _]|[H _]]; lia).
      destruct (Hterm a Ha) as [o1 Hr1]. pose proof Hr1 as (c & p & Hc & Ht & Ho).
      destruct (e_sim_chain _ _ _ Hc Ht b HR) as [o2 [Hr2 Hm]].
      exists o1, o2. split; [exact Hr1|]. split; [exact Hr2|]. rewrite <- Ho. exact Hm.
    Qed.
  End WithProgram.
End Erase.
