(* Return addresses of macro expansions (explorerscript/macro.py ExplorerScriptMacro.build together with the context stack
   of source_map.SourceMapBuilder): a blueprint is a flat list of operations, labels and the start / end labels of the
   expansions nested in it; a start label stores the length of its expansion; building pushes "counter + length" at
   every start label and pops at every end label, and every operation gets the next number and the address on top of
   the stack.  Model file: definitions only. *)
From ES Require Import Base.

Inductive item := IOp | ILab | IStart (len : nat) | IEnd.

(* what build does with a blueprint, given the operation counter and the context stack: (number, return address) of
   every operation, in order *)
Fixpoint exec (items : list item) (count : nat) (stack : list nat) : list (nat * nat) :=
  match items with
  | [] => []
  | IOp :: r => (S count, hd 0 stack) :: exec r (S count) stack
  | ILab :: r => exec r count stack
  | IStart L :: r => exec r count ((count + L) :: stack)
  | IEnd :: r => exec r count (tl stack)
  end.

(* counter and stack afterwards *)
Fixpoint after (items : list item) (count : nat) (stack : list nat) : nat * list nat :=
  match items with
  | [] => (count, stack)
  | IOp :: r => after r (S count) stack
  | ILab :: r => after r count stack
  | IStart L :: r => after r count ((count + L) :: stack)
  | IEnd :: r => after r count (tl stack)
  end.

(* the structure blueprints have: operations, labels, and calls with the (built) body of the called macro *)
Inductive tree := TOp | TLab | TCall (b : forest)
with forest := FNil | FCons (t : tree) (f : forest).

Fixpoint ops_t (t : tree) : nat :=
  match t with TOp => 1 | TLab => 0 | TCall b => ops_f b end
with ops_f (f : forest) : nat :=
  match f with FNil => 0 | FCons t r => ops_t t + ops_f r end.

(* build: start label holding "operations of the blueprint + 1", the body, end label *)
Fixpoint flat_t (t : tree) : list item :=
  match t with
  | TOp => [IOp]
  | TLab => [ILab]
  | TCall b => IStart (S (ops_f b)) :: flat_f b ++ [IEnd]
  end
with flat_f (f : forest) : list item :=
  match f with FNil => [] | FCons t r => flat_t t ++ flat_f r end.

(* what the property asks for: inside an expansion that starts when the counter is c and holds n operations
   (nested expansions included), the return address is c + n + 1 - the number of the first operation after it *)
Fixpoint spec_t (t : tree) (c R : nat) : list (nat * nat) :=
  match t with
  | TOp => [(S c, R)]
  | TLab => []
  | TCall b => spec_f b c (c + S (ops_f b))
  end
with spec_f (f : forest) (c R : nat) : list (nat * nat) :=
  match f with FNil => [] | FCons t r => spec_t t c R ++ spec_f r (c + ops_t t) R end.
