(* Flat descriptions of the two graph constructions (pseudo code and op lists): one annotated entry per
   element - (element, last of its routine, previous element is a context op) - and the node of entry i. *)
From ES Require Import Base Ssb.Param Ssb.Cfg Ssb.Tables Ssb.Machine Comp.Passes Comp.PopSem.

Section Annot.
  Context {A : Type}.
  Variable isctx : A -> bool.

  Fixpoint annotate_r (r : list A) (pc : bool) : list (A * bool * bool) :=
    match r with
    | [] => []
    | x :: rest => (x, match rest with [] => true | _ => false end, pc) :: annotate_r rest (isctx x)
    end.
  Definition annotate (rs : list (list A)) : list (A * bool * bool) := flat_map (fun r => annotate_r r false) rs.

  Lemma annotate_r_length r : forall pc, length (annotate_r r pc) = length r.
  Proof. induction r as [|x r IH]; intro pc; cbn [annotate_r length]; [reflexivity | rewrite IH; reflexivity]. Qed.

  Lemma annotate_length rs : length (annotate rs) = length (concat rs).
  Proof.
    induction rs as [|r rs IH]; [reflexivity|]. unfold annotate in *. cbn [flat_map concat].
    rewrite !app_length, annotate_r_length, IH. reflexivity.
  Qed.

  Lemma annotate_r_fst r : forall pc, map (fun e => fst (fst e)) (annotate_r r pc) = r.
  Proof. induction r as [|x r IH]; intro pc; cbn [annotate_r map fst]; [reflexivity | rewrite IH; reflexivity]. Qed.

  Lemma annotate_fst rs : map (fun e => fst (fst e)) (annotate rs) = concat rs.
  Proof.
    induction rs as [|r rs IH]; [reflexivity|]. unfold annotate in *. cbn [flat_map concat].
    rewrite map_app, annotate_r_fst, IH. reflexivity.
  Qed.
End Annot.

Fixpoint mapi_from {A B} (g : nat) (f : nat -> A -> B) (l : list A) : list B :=
  match l with [] => [] | x :: r => f g x :: mapi_from (S g) f r end.

Lemma mapi_from_app {A B} (f : nat -> A -> B) l1 : forall g l2,
  mapi_from g f (l1 ++ l2) = mapi_from g f l1 ++ mapi_from (g + length l1) f l2.
Proof.
  induction l1 as [|x l1 IH]; intros g l2.
  - cbn [app mapi_from length]. rewrite Nat.add_0_r. reflexivity.
  - cbn [app mapi_from length]. rewrite IH. do 3 f_equal. lia.
Qed.

Lemma mapi_from_length {A B} (f : nat -> A -> B) l : forall g, length (mapi_from g f l) = length l.
Proof. induction l as [|x l IH]; intro g; cbn [mapi_from length]; [reflexivity | rewrite IH; reflexivity]. Qed.

Lemma mapi_from_nth {A B} (f : nat -> A -> B) l : forall g i,
  nth_error (mapi_from g f l) i = match nth_error l i with Some x => Some (f (g + i) x) | None => None end.
Proof.
  induction l as [|x l IH]; intros g i; [destruct i; reflexivity|].
  destruct i as [|i]; cbn [mapi_from nth_error]; [rewrite Nat.add_0_r; reflexivity|].
  rewrite IH. replace (S g + i) with (g + S i) by lia. reflexivity.
Qed.

Definition pop_node (all : list pop) (fall stopn : nat) (i : nat) (e : pop * bool * bool) : node :=
  let '(x, last, pc) := e in node_of_pop all stopn x (if last then fall else S i) pc.
Definition op_node (all : list op) (fall stopn : nat) (i : nat) (e : op * bool * bool) : node :=
  let '(o, last, pc) := e in node_of_op all stopn o (if last then fall else S i) pc.

Definition pop_isctx (x : pop) : bool := is_ctx (pname x).
Definition op_isctx (o : op) : bool := is_ctx (code o).

Lemma nodes_of_pops_flat all fall stopn r : forall g pc,
  nodes_of_pops all fall stopn r g pc = mapi_from g (pop_node all fall stopn) (annotate_r pop_isctx r pc).
Proof.
  induction r as [|x r IH]; intros g pc; [reflexivity|].
  cbn [nodes_of_pops annotate_r mapi_from pop_node]. rewrite IH. f_equal. destruct r; reflexivity.
Qed.

Lemma nodes_of_pop_program_flat all fall stopn rs : forall g,
  nodes_of_pop_program all fall stopn rs g = mapi_from g (pop_node all fall stopn) (annotate pop_isctx rs).
Proof.
  induction rs as [|r rs IH]; intro g; [reflexivity|].
  unfold annotate. cbn [nodes_of_pop_program flat_map]. rewrite mapi_from_app, annotate_r_length.
  rewrite nodes_of_pops_flat. f_equal. apply IH.
Qed.

Lemma nodes_of_routine_flat all fall stopn r : forall g pc,
  nodes_of_routine all fall stopn r g pc = mapi_from g (op_node all fall stopn) (annotate_r op_isctx r pc).
Proof.
  induction r as [|x r IH]; intros g pc; [reflexivity|].
  cbn [nodes_of_routine annotate_r mapi_from op_node]. rewrite IH. f_equal. destruct r; reflexivity.
Qed.

Lemma nodes_of_program_flat all fall stopn P : forall g,
  nodes_of_program all fall stopn P g = mapi_from g (op_node all fall stopn) (annotate op_isctx P).
Proof.
  induction P as [|r P IH]; intro g; [reflexivity|].
  unfold annotate. cbn [nodes_of_program flat_map]. rewrite mapi_from_app, annotate_r_length.
  rewrite nodes_of_routine_flat. f_equal. apply IH.
Qed.
