From ES Require Import Base Comp.MacroRA.

Scheme tree_mind := Induction for tree Sort Prop
with forest_mind := Induction for forest Sort Prop.
Combined Scheme tree_forest_ind from tree_mind, forest_mind.

Lemma exec_app a : forall b c st,
  exec (a ++ b) c st = exec a c st ++ exec b (fst (after a c st)) (snd (after a c st)).
Proof.
  induction a as [|x a IH]; intros b c st; [reflexivity|].
  destruct x; cbn [app exec after]; rewrite IH; reflexivity.
Qed.

Lemma after_app a : forall b c st, after (a ++ b) c st = after b (fst (after a c st)) (snd (after a c st)).
Proof.
  induction a as [|x a IH]; intros b c st; [reflexivity|].
  destruct x; cbn [app after]; rewrite IH; reflexivity.
Qed.

(* the stack machine over the flat list, with the stored lengths, computes what the structure says *)
Lemma exec_flat :
  (forall t c R st, exec (flat_t t) c (R :: st) = spec_t t c R /\ after (flat_t t) c (R :: st) = (c + ops_t t, R :: st)) /\
  (forall f c R st, exec (flat_f f) c (R :: st) = spec_f f c R /\ after (flat_f f) c (R :: st) = (c + ops_f f, R :: st)).
Proof.
  apply tree_forest_ind.
  - intros c R st. cbn. split; [reflexivity | f_equal; lia].
  - intros c R st. cbn. split; [reflexivity | f_equal; lia].
  - intros b IH c R st. cbn [flat_t exec after spec_t ops_t].
    destruct (IH c (c + S (ops_f b)) (R :: st)) as [E A].
    rewrite exec_app, after_app, E, A. cbn [fst snd exec after tl]. rewrite app_nil_r. split; reflexivity.
  - intros c R st. cbn. split; [reflexivity | f_equal; lia].
  - intros t IHt f IHf c R st. cbn [flat_f spec_f ops_f].
    destruct (IHt c R st) as [E1 A1]. destruct (IHf (c + ops_t t) R st) as [E2 A2].
    rewrite exec_app, after_app, E1, A1. cbn [fst snd]. rewrite E2, A2. split; [reflexivity | f_equal; lia].
Qed.

(* a macro call: the expansion of body b built when the counter is c *)
Theorem call_return_addresses b c st :
  exec (flat_t (TCall b)) c st = spec_f b c (c + S (ops_f b)) /\
  after (flat_t (TCall b)) c st = (c + ops_f b, st).
Proof.
  cbn [flat_t exec after]. destruct exec_flat as [_ H]. destruct (H b c (c + S (ops_f b)) st) as [E A].
  rewrite exec_app, after_app, E, A. cbn [fst snd exec after tl]. rewrite app_nil_r. split; reflexivity.
Qed.

(* every operation of an expansion has a number inside the expansion, and a return address that lies after it and not
   after the first operation that follows the (outermost) expansion; the operations directly in the expansion return to
   exactly that first following operation *)
Lemma spec_bounds :
  (forall t c R i r, In (i, r) (spec_t t c R) -> c < i <= c + ops_t t /\ (r = R \/ (i < r <= c + ops_t t + 1))) /\
  (forall f c R i r, In (i, r) (spec_f f c R) -> c < i <= c + ops_f f /\ (r = R \/ (i < r <= c + ops_f f + 1))).
Proof.
  apply tree_forest_ind.
  - intros c R i r [H|[]]. inversion H; subst. cbn. split; [lia | left; reflexivity].
  - intros c R i r [].
  - intros b IH c R i r H. cbn [spec_t ops_t] in *. apply IH in H. destruct H as [H1 [H2|H2]].
    + split; [exact H1 | right; lia].
    + split; [exact H1 | right; exact H2].
  - intros c R i r [].
  - intros t IHt f IHf c R i r H. cbn [spec_f ops_f] in *. apply in_app_or in H. destruct H as [H|H].
    + apply IHt in H. destruct H as [H1 [H2|H2]]; (split; [lia | (left; exact H2) || (right; lia)]).
    + apply IHf in H. destruct H as [H1 [H2|H2]]; (split; [lia | (left; exact H2) || (right; lia)]).
Qed.

Theorem return_address_bounds b c i r :
  In (i, r) (spec_f b c (c + S (ops_f b))) -> c < i <= c + ops_f b /\ i < r <= c + ops_f b + 1.
Proof.
  intro H. destruct spec_bounds as [_ HB]. apply HB in H. destruct H as [H1 [H2|H2]]; split; lia.
Qed.
