(* A transformation of pseudo code given element by element: keep an element, replace a plain jump to a label
   that ends its routine by a Return operation, or drop an element that can not be reached.  If the annotated
   list of the result is the filtered annotated list of the input, and nothing falls through into a dropped
   element, the two programs behave equally at corresponding positions.  (strip_last_label's sweep is an instance.) *)
From ES Require Import Base Ssb.Param Ssb.Cfg Ssb.Tables Ssb.Machine Ssb.Equiv Ssb.EquivSound Ssb.Silent
  Comp.Passes Comp.PopSem Comp.Flat Comp.RemoveSem Comp.TableRight Comp.EraseSem.

Inductive action := AKeep (setlast : bool) | ARepl (setlast : bool) (x' : pop) | ADead.

Definition conv_act (e : (pop * bool * bool) * action) : option (pop * bool * bool) :=
  let '((x, last, pc), a) := e in
  match a with AKeep sl => Some (x, last || sl, pc) | ARepl sl x' => Some (x', last || sl, pc) | ADead => None end.

Definition falls_through (e : pop * bool * bool) : bool :=
  let '(x, _, pc) := e in
  match x with
  | POp o => negb (ends_flow (code o) && negb pc)
  | PLabel _ => true
  | PJump o _ => negb (is_jump (code o))
  end.

Section Act.
  Variable rs rs2 : list (list pop).
  Variable acts : list action.

  Let all1 := concat rs.
  Let N1 := length all1.
  Let L1 := annotate pop_isctx rs.
  Let C1 := combine L1 acts.
  Let all2 := concat rs2.
  Let N2 := length all2.
  Let L2 := annotate pop_isctx rs2.
  Let g1 := cfg_of_pops rs.
  Let g2 := cfg_of_pops rs2.
  Let ph := phi conv_act C1.

  Hypothesis Hlen : length acts = N1.
  Hypothesis HL2 : L2 = omap conv_act C1.
  Definition deadlabel (a : nat) : Prop := exists l pc, nth_error C1 a = Some ((PLabel l, true, pc), ADead).
  Definition alive (a : nat) : Prop := forall e, nth_error C1 a <> Some (e, ADead).

  (* labels are kept, except possibly a label that ends its routine *)
  Hypothesis Hlabels : forall a l last pc act, nth_error C1 a = Some ((PLabel l, last, pc), act) ->
    (exists sl, act = AKeep sl) \/ (act = ADead /\ last = true).
  (* a kept jump goes to a label that is kept *)
  Hypothesis Hkeptjump : forall a o l last pc sl i, nth_error C1 a = Some ((PJump o l, last, pc), AKeep sl) ->
    find_label l all1 0 = Some i -> alive i.
  (* a replaced element is a plain jump to a label that is the last element of its routine; its replacement is a
     Return operation that stops the routine *)
  Hypothesis Hrepl : forall a x last pc sl x', nth_error C1 a = Some ((x, last, pc), ARepl sl x') ->
    exists o l i pcl, x = PJump o l /\ is_jump (code o) = true /\ find_label l all1 0 = Some i /\
                      nth_error L1 i = Some (PLabel l, true, pcl) /\
                      pc = false /\ exists z, x' = POp (mkOp z OP_RETURN []).
  (* a dropped element is a jump or a label that ends its routine *)
  Hypothesis Hdead_shape : forall a x last pc, nth_error C1 a = Some ((x, last, pc), ADead) ->
    (exists o l, x = PJump o l /\ last = false) \/ (exists l, x = PLabel l /\ last = true).
  (* where a kept or replaced element that is not the last of its routine falls through to: the next element is alive,
     or - exactly when the element becomes the last of its routine - the dropped label that ended the routine *)
  Hypothesis Hnext : forall a x pc act, nth_error C1 a = Some ((x, false, pc), act) -> act <> ADead ->
    falls_through (x, false, pc) = true ->
    match act with
    | AKeep true | ARepl true _ => deadlabel (S a)
    | _ => alive (S a)
    end.
  Hypothesis Hdef : forall o l, In (PJump o l) all1 -> find_label l all1 0 <> None.

  Lemma aC1_len : length C1 = N1.
  Proof. unfold C1. rewrite combine_length, Hlen. unfold L1. rewrite annotate_length. fold all1. fold N1. lia. Qed.
  Lemma aL1_len : length L1 = N1.  Proof. apply annotate_length. Qed.
  Lemma aL2_len : length L2 = N2.  Proof. apply annotate_length. Qed.
  Lemma aall1 : map (fun e => fst (fst (fst e))) C1 = all1.
  Proof.
    assert (H : map (fun e : (pop * bool * bool) * action => fst (fst (fst e))) C1 = map (fun e => fst (fst e)) (map fst C1))
      by (rewrite map_map; reflexivity).
    rewrite H. unfold C1. rewrite map_fst_combine by (rewrite aL1_len, Hlen; reflexivity). apply annotate_fst.
  Qed.
  Lemma aall2 : map (fun y => fst (fst y)) L2 = all2.  Proof. apply annotate_fst. Qed.

  Lemma ag1_eq : g1 = mapi_from 0 (pop_node all1 N1 (S N1)) L1 ++ [implicit_return (S N1); NStop].
  Proof. unfold g1, cfg_of_pops. fold all1. fold N1. rewrite nodes_of_pop_program_flat. reflexivity. Qed.
  Lemma ag2_eq : g2 = mapi_from 0 (pop_node all2 N2 (S N2)) L2 ++ [implicit_return (S N2); NStop].
  Proof. unfold g2, cfg_of_pops. fold all2. fold N2. rewrite nodes_of_pop_program_flat. reflexivity. Qed.

  Lemma ag1_nth a e act : nth_error C1 a = Some (e, act) -> nth_error g1 a = Some (pop_node all1 N1 (S N1) a e).
  Proof.
    intro H. destruct (nth_combine _ _ _ _ _ H) as [H1 _]. rewrite ag1_eq, nth_error_app1.
    - rewrite mapi_from_nth, H1. reflexivity.
    - rewrite mapi_from_length. apply nth_error_Some. congruence.
  Qed.
  Lemma ag1_nthL a e : nth_error L1 a = Some e -> nth_error g1 a = Some (pop_node all1 N1 (S N1) a e).
  Proof.
    intro H1. rewrite ag1_eq, nth_error_app1.
    - rewrite mapi_from_nth, H1. reflexivity.
    - rewrite mapi_from_length. apply nth_error_Some. congruence.
  Qed.
  Lemma ag2_nth b e : nth_error L2 b = Some e -> nth_error g2 b = Some (pop_node all2 N2 (S N2) b e).
  Proof.
    intro H. rewrite ag2_eq, nth_error_app1.
    - rewrite mapi_from_nth, H. reflexivity.
    - rewrite mapi_from_length. apply nth_error_Some. congruence.
  Qed.
  Lemma ag1_fall : nth_error g1 N1 = Some (implicit_return (S N1)).
  Proof. rewrite ag1_eq, nth_error_app2; rewrite mapi_from_length, aL1_len; [rewrite Nat.sub_diag; reflexivity | lia]. Qed.
  Lemma ag1_stop : nth_error g1 (S N1) = Some NStop.
  Proof. rewrite ag1_eq, nth_error_app2; rewrite mapi_from_length, aL1_len; [replace (S N1 - N1) with 1 by lia; reflexivity | lia]. Qed.
  Lemma ag2_fall : nth_error g2 N2 = Some (implicit_return (S N2)).
  Proof. rewrite ag2_eq, nth_error_app2; rewrite mapi_from_length, aL2_len; [rewrite Nat.sub_diag; reflexivity | lia]. Qed.
  Lemma ag2_stop : nth_error g2 (S N2) = Some NStop.
  Proof. rewrite ag2_eq, nth_error_app2; rewrite mapi_from_length, aL2_len; [replace (S N2 - N2) with 1 by lia; reflexivity | lia]. Qed.

  Lemma aph_N1 : ph N1 = N2.
  Proof. unfold ph. rewrite <- aC1_len, phi_all, <- HL2. apply aL2_len. Qed.

  Lemma a_nth_all a e act : nth_error C1 a = Some (e, act) -> nth_error all1 a = Some (fst (fst e)).
  Proof. intro H. rewrite <- aall1. apply (map_nth_error (fun e => fst (fst (fst e))) _ _ H). Qed.

  (* positions of kept labels in the result *)
  Lemma find_label_acts l : forall (C : list ((pop * bool * bool) * action)) s0 s i,
    (forall e x' sl, In (e, ARepl sl x') C -> exists o lx z, fst (fst e) = PJump o lx /\ x' = POp (mkOp z OP_RETURN [])) ->
    find_label l (map (fun e => fst (fst (fst e))) C) s0 = Some i ->
    (forall e, nth_error C (i - s0) <> Some (e, ADead)) ->
    find_label l (map (fun y => fst (fst y)) (omap conv_act C)) s = Some (s + phi conv_act C (i - s0)).
  Proof.
    induction C as [|[[[x last] pc] act] C IH]; intros s0 s i Hr H Hal; [discriminate|].
    cbn [map fst] in H. destruct (find_label_lt _ _ _ _ H) as [Hrange _].
    assert (Hr' : forall e x' sl, In (e, ARepl sl x') C -> exists o lx z, fst (fst e) = PJump o lx /\ x' = POp (mkOp z OP_RETURN [])) by (intros; eapply Hr; right; eassumption).
    assert (Hstep : forall s', find_label l (map (fun e => fst (fst (fst e))) C) (S s0) = Some i ->
              find_label l (map (fun y => fst (fst y)) (omap conv_act C)) s' = Some (s' + phi conv_act C (i - S s0))).
    { intros s' H'. apply IH; [exact Hr' | exact H' |]. intros e He. apply (Hal e).
      replace (i - s0) with (S (i - S s0)) by (destruct (find_label_lt _ _ _ _ H'); lia). exact He. }
    destruct act as [sl|sl x'|].
    - unfold omap. cbn [flat_map conv_act app map fst]. fold (omap conv_act C).
      assert (Hp : forall k, phi conv_act (((x, last, pc), AKeep sl) :: C) (S k) = S (phi conv_act C k)) by (intro k; unfold phi; cbn [firstn]; unfold omap; cbn [flat_map conv_act app length]; reflexivity).
      cbn [find_label] in *. destruct x as [o|l'|o l'].
      + rewrite (Hstep (S s) H). f_equal. replace (i - s0) with (S (i - S s0)) by (destruct (find_label_lt _ _ _ _ H); lia). rewrite Hp. lia.
      + destruct (Nat.eqb l' l).
        * inversion H; subst. rewrite Nat.sub_diag. unfold phi. cbn [firstn omap flat_map length]. f_equal. lia.
        * rewrite (Hstep (S s) H). f_equal. replace (i - s0) with (S (i - S s0)) by (destruct (find_label_lt _ _ _ _ H); lia). rewrite Hp. lia.
      + rewrite (Hstep (S s) H). f_equal. replace (i - s0) with (S (i - S s0)) by (destruct (find_label_lt _ _ _ _ H); lia). rewrite Hp. lia.
    - destruct (Hr _ _ _ (or_introl eq_refl)) as (o & lx & z & Hx & ->). cbn [fst] in Hx. subst x.
      unfold omap. cbn [flat_map conv_act app map fst]. fold (omap conv_act C).
      assert (Hp : forall k, phi conv_act (((PJump o lx, last, pc), ARepl sl (POp (mkOp z OP_RETURN []))) :: C) (S k) = S (phi conv_act C k)) by (intro k; unfold phi; cbn [firstn]; unfold omap; cbn [flat_map conv_act app length]; reflexivity).
      cbn [find_label] in *.
      rewrite (Hstep (S s) H). f_equal. replace (i - s0) with (S (i - S s0)) by (destruct (find_label_lt _ _ _ _ H); lia). rewrite Hp. lia.
    - unfold omap. cbn [flat_map conv_act app]. fold (omap conv_act C).
      assert (Hp : forall k, phi conv_act (((x, last, pc), ADead) :: C) (S k) = phi conv_act C k) by (intro k; unfold phi; cbn [firstn]; unfold omap; cbn [flat_map conv_act app]; reflexivity).
      destruct x as [o|l'|o l'].
      + cbn [find_label] in H. rewrite (Hstep s H). f_equal. f_equal. replace (i - s0) with (S (i - S s0)) by (destruct (find_label_lt _ _ _ _ H); lia). rewrite Hp. reflexivity.
      + cbn [find_label] in H. destruct (Nat.eqb l' l).
        * inversion H; subst. exfalso. apply (Hal (PLabel l', last, pc)). rewrite Nat.sub_diag. reflexivity.
        * rewrite (Hstep s H). f_equal. f_equal. replace (i - s0) with (S (i - S s0)) by (destruct (find_label_lt _ _ _ _ H); lia). rewrite Hp. reflexivity.
      + cbn [find_label] in H. rewrite (Hstep s H). f_equal. f_equal. replace (i - s0) with (S (i - S s0)) by (destruct (find_label_lt _ _ _ _ H); lia). rewrite Hp. reflexivity.
  Qed.

  Lemma a_find l i : find_label l all1 0 = Some i -> alive i -> find_label l all2 0 = Some (ph i).
  Proof.
    intros H Hal. rewrite <- aall1 in H. rewrite <- aall2, HL2.
    rewrite (find_label_acts l C1 0 0 i); [rewrite Nat.sub_0_r; reflexivity | | exact H |].
    - intros [[x last] pc] x' sl Hin. apply In_nth_error in Hin. destruct Hin as [a Ha].
      destruct (Hrepl _ _ _ _ _ _ Ha) as (o & lx & i' & pcl & -> & _ & _ & _ & _ & z & ->). exists o, lx, z. split; reflexivity.
    - rewrite Nat.sub_0_r. exact Hal.
  Qed.

  Definition ARel (a b : nat) : Prop :=
    (a = S N1 /\ b = S N2) \/ (a <= N1 /\ alive a /\ b = ph a) \/ (deadlabel a /\ b = N2).

  Lemma alive_N1 : alive N1.
  Proof. intros e H. assert (N1 < length C1) by (apply nth_error_Some; congruence). rewrite aC1_len in H0. lia. Qed.

  Definition setlast (act : action) : bool := match act with AKeep sl | ARepl sl _ => sl | ADead => false end.

  (* where control goes after an element that falls through, on both sides *)
  Lemma a_succ_rel a x (last : bool) pc act : nth_error C1 a = Some ((x, last, pc), act) -> act <> ADead ->
    falls_through (x, last, pc) = true -> a < N1 -> ph (S a) = S (ph a) ->
    ARel (if last then N1 else S a) (if last || setlast act then N2 else S (ph a)).
  Proof.
    intros Ha Hact Hft Hlt Hph. destruct last.
    - right. left. split; [lia|]. split; [apply alive_N1 | symmetry; apply aph_N1].
    - cbn [orb]. pose proof (Hnext _ _ _ _ Ha Hact Hft) as Hn.
      destruct act as [[|]|[|] x'|]; cbn [setlast]; try congruence.
      + right. right. split; [exact Hn | reflexivity].
      + right. left. split; [lia|]. split; [exact Hn | symmetry; exact Hph].
      + right. right. split; [exact Hn | reflexivity].
      + right. left. split; [lia|]. split; [exact Hn | symmetry; exact Hph].
  Qed.

  Lemma ends_flow_return : ends_flow OP_RETURN = true.
  Proof. vm_compute. reflexivity. Qed.

  Lemma a_sim_chain a c p : chain g1 a c p -> terminal g1 c -> forall b, ARel a b ->
    exists o2, reaches g2 b o2 /\ matches ARel (obs_at g1 c) o2.
  Proof.
    induction 1 as [a|a m c p Hn Hc IH]; intros Ht b HR.
    - destruct HR as [[-> ->]|[[Hle [Hal ->]]|[Hdl ->]]].
      + exists OStop. split.
        * pose proof (reaches_here g2 (S N2)) as Hr. unfold terminal, obs_at in Hr. rewrite ag2_stop in Hr. apply Hr. exact I.
        * unfold obs_at. rewrite ag1_stop. exact I.
      + destruct (Nat.eq_dec a N1) as [->|Hne].
        * exists (OEv (OP_RETURN, []) (S N2)). split.
          -- pose proof (reaches_here g2 N2) as Hr. unfold terminal, obs_at in Hr. rewrite ag2_fall in Hr.
             rewrite aph_N1. apply Hr. exact I.
          -- unfold obs_at. rewrite ag1_fall. cbn [implicit_return matches]. split; [reflexivity | left; split; reflexivity].
        * assert (Hlt : a < N1) by lia.
          destruct (nth_error C1 a) as [[[[x last] pc] act]|] eqn:E;
            [|apply nth_error_None in E; rewrite aC1_len in E; lia].
          assert (Hact : act <> ADead) by (intros ->; apply (Hal _ E)).
          unfold terminal in Ht. unfold obs_at. rewrite (ag1_nth _ _ _ E) in *. cbn [pop_node] in *.
          destruct act as [sl|sl x'|]; [| |congruence].
          -- (* kept *)
             assert (Ef : conv_act ((x, last, pc), AKeep sl) = Some (x, last || sl, pc)) by reflexivity.
             destruct (phi_S_some conv_act C1 a _ _ E Ef) as [Hph Hnth]. rewrite <- HL2 in Hnth. fold ph in Hph, Hnth.
             pose proof (ag2_nth _ _ Hnth) as Hg2. cbn [pop_node] in Hg2.
             destruct x as [o|l|o l]; cbn [node_of_pop] in *.
             ++ destruct (ends_flow (code o) && negb pc) eqn:Eend.
                ** exists (OEv (code o, params o) (S N2)). split.
                   --- pose proof (reaches_here g2 (ph a)) as Hr. unfold terminal, obs_at in Hr. rewrite Hg2 in Hr. apply Hr. exact I.
                   --- cbn [matches]. split; [reflexivity | left; split; reflexivity].
                ** exists (OEv (code o, params o) (if last || sl then N2 else S (ph a))). split.
                   --- pose proof (reaches_here g2 (ph a)) as Hr. unfold terminal, obs_at in Hr. rewrite Hg2 in Hr. apply Hr. exact I.
                   --- cbn [matches]. split; [reflexivity|].
                       apply (a_succ_rel a _ last pc (AKeep sl) E Hact); [cbn [falls_through]; rewrite Eend; reflexivity | exact Hlt | exact Hph].
             ++ contradiction.
             ++ assert (Hin : In (PJump o l) all1) by (apply (nth_error_In _ _ (a_nth_all _ _ _ E))).
                pose proof (Hdef o l Hin) as Hd. destruct (find_label l all1 0) as [i|] eqn:Fl; [|contradiction].
                destruct (is_jump (code o)) eqn:Ij; [contradiction|].
                pose proof (Hkeptjump _ _ _ _ _ _ _ E Fl) as Hali.
                rewrite (a_find _ _ Fl Hali) in Hg2. rewrite ?Ij in Hg2.
                destruct (find_label_lt _ _ _ _ Fl) as [Hi _]. cbn in Hi. fold N1 in Hi.
                exists (OTst (code o, params o) (ph i) (if last || sl then N2 else S (ph a))). split.
                ** pose proof (reaches_here g2 (ph a)) as Hr. unfold terminal, obs_at in Hr. rewrite Hg2 in Hr. apply Hr. exact I.
                ** cbn [matches]. split; [reflexivity|]. split.
                   --- right. left. split; [lia|]. split; [exact Hali | reflexivity].
                   --- apply (a_succ_rel a _ last pc (AKeep sl) E Hact); [cbn [falls_through]; rewrite Ij; reflexivity | exact Hlt | exact Hph].
          -- (* replaced: the element is a jump, hence silent in g1 *)
             destruct (Hrepl _ _ _ _ _ _ E) as (o & l & i & pcl & -> & Hj & Fl & _).
             cbn [node_of_pop] in Ht. fold all1 in Ht. rewrite Fl, Hj in Ht. contradiction.
      + (* a dropped trailing label is silent in g1 *)
        destruct Hdl as (l & pc & E). unfold terminal in Ht. rewrite (ag1_nth _ _ _ E) in Ht. cbn [pop_node node_of_pop] in Ht. contradiction.
    - destruct HR as [[-> ->]|[[Hle [Hal ->]]|[Hdl ->]]]; [rewrite ag1_stop in Hn; discriminate| |].
      + destruct (Nat.eq_dec a N1) as [->|Hne]; [rewrite ag1_fall in Hn; discriminate|].
        assert (Hlt : a < N1) by lia.
        destruct (nth_error C1 a) as [[[[x last] pc] act]|] eqn:E;
          [|apply nth_error_None in E; rewrite aC1_len in E; lia].
        assert (Hact : act <> ADead) by (intros ->; apply (Hal _ E)).
        rewrite (ag1_nth _ _ _ E) in Hn. cbn [pop_node] in Hn.
        destruct act as [sl|sl x'|]; [| |congruence].
        * assert (Ef : conv_act ((x, last, pc), AKeep sl) = Some (x, last || sl, pc)) by reflexivity.
          destruct (phi_S_some conv_act C1 a _ _ E Ef) as [Hph Hnth]. rewrite <- HL2 in Hnth. fold ph in Hph, Hnth.
          pose proof (ag2_nth _ _ Hnth) as Hg2. cbn [pop_node] in Hg2.
          destruct x as [o|l|o l]; cbn [node_of_pop] in *.
          -- destruct (ends_flow (code o) && negb pc); discriminate.
          -- (* a kept label *)
             inversion Hn; subst m.
             destruct (IH Ht (if last || sl then N2 else S (ph a))) as [o2 [Hr2 Hm]].
             { apply (a_succ_rel a _ last pc (AKeep sl) E Hact); [reflexivity | exact Hlt | exact Hph]. }
             exists o2. split; [|exact Hm]. apply (reaches_goto g2 (ph a) _ o2 Hg2 Hr2).
          -- assert (Hin : In (PJump o l) all1) by (apply (nth_error_In _ _ (a_nth_all _ _ _ E))).
             pose proof (Hdef o l Hin) as Hd. destruct (find_label l all1 0) as [i|] eqn:Fl; [|contradiction].
             destruct (is_jump (code o)) eqn:Ij; [|discriminate]. inversion Hn; subst m.
             pose proof (Hkeptjump _ _ _ _ _ _ _ E Fl) as Hali.
             rewrite (a_find _ _ Fl Hali) in Hg2. rewrite ?Ij in Hg2.
             destruct (find_label_lt _ _ _ _ Fl) as [Hi _]. cbn in Hi. fold N1 in Hi.
             destruct (IH Ht (ph i)) as [o2 [Hr2 Hm]]; [right; left; split; [lia|]; split; [exact Hali | reflexivity]|].
             exists o2. split; [|exact Hm]. apply (reaches_goto g2 (ph a) (ph i) o2 Hg2 Hr2).
        * (* replaced jump: g1 walks to the trailing label and falls off the routine; g2 performs Return and stops *)
          destruct (Hrepl _ _ _ _ _ _ E) as (o & l & i & pcl & -> & Hj & Fl & Hli & -> & z & ->).
          cbn [node_of_pop] in Hn. fold all1 in Hn. rewrite Fl, Hj in Hn. inversion Hn; subst m.
          assert (Hgi : nth_error g1 i = Some (NGoto N1)) by (rewrite (ag1_nthL _ _ Hli); reflexivity).
          assert (Hfull : chain g1 i N1 [i]) by (econstructor; [exact Hgi | constructor]).
          assert (HtN : terminal g1 N1) by (unfold terminal; rewrite ag1_fall; exact I).
          destruct (chain_det _ _ _ _ Hc Ht _ _ Hfull HtN) as [-> _].
          assert (Ef : conv_act ((PJump o l, last, false), ARepl sl (POp (mkOp z OP_RETURN []))) = Some (POp (mkOp z OP_RETURN []), last || sl, false)) by reflexivity.
          destruct (phi_S_some conv_act C1 a _ _ E Ef) as [Hph Hnth]. rewrite <- HL2 in Hnth. fold ph in Hph, Hnth.
          pose proof (ag2_nth _ _ Hnth) as Hg2. cbn [pop_node node_of_pop code params] in Hg2. rewrite ends_flow_return in Hg2. cbn [negb andb] in Hg2.
          exists (OEv (OP_RETURN, []) (S N2)). split.
          -- pose proof (reaches_here g2 (ph a)) as Hr. unfold terminal, obs_at in Hr. rewrite Hg2 in Hr. apply Hr. exact I.
          -- unfold obs_at. rewrite ag1_fall. cbn [implicit_return matches]. split; [reflexivity | left; split; reflexivity].
      + (* the dropped trailing label: g1 falls off the routine from here, g2 is already there *)
        destruct Hdl as (l & pc & E). rewrite (ag1_nth _ _ _ E) in Hn. cbn [pop_node node_of_pop] in Hn. inversion Hn; subst m.
        apply (IH Ht N2). right. left. split; [lia|]. split; [apply alive_N1 | symmetry; apply aph_N1].
  Qed.

  Theorem act_preserves_behaviour :
    (forall a, a <= S N1 -> exists o, reaches g1 a o) ->
    forall a b, ARel a b -> beh_eq g1 g2 a b.
  Proof.
    intro Hterm. apply simulation_beh_eq. intros a b HR.
    assert (Ha : a <= S N1).
    { destruct HR as [[-> _]|[[H _]|[(l & pc & E) _]]]; try lia.
      assert (a < length C1) by (apply nth_error_Some; congruence). rewrite aC1_len in H. lia. }
    destruct (Hterm a Ha) as [o1 Hr1]. pose proof Hr1 as (c & p & Hc & Ht & Ho).
    destruct (a_sim_chain _ _ _ Hc Ht b HR) as [o2 [Hr2 Hm]].
    exists o1, o2. split; [exact Hr1|]. split; [exact Hr2|]. rewrite <- Ho. exact Hm.
  Qed.
End Act.
