(* All expansions of a macro with the same arguments are the same code: wherever two expansions are built (whatever the
   label counter and the operation counter say at the time), their control-flow graphs are equal node for node. *)
From ES Require Import Base Ssb.Param Ssb.Cfg Ssb.Tables Ssb.Machine Comp.Passes Comp.PopSem Lang.Ast Lang.Inline
  Comp.MacroBuild Comp.MacroBuildProofs Comp.RenameSem.
From Coq Require Import Lia.

Definition pop_of_oitem (o : oitem) : pop :=
  match o with
  | OOp n c ps => POp (mkOp (Z.of_nat n) c ps)
  | OLab id _ => PLabel id
  | OJmp n c ps id => PJump (mkOp (Z.of_nat n) c ps) id
  end.

(* equal up to the numbers of the operations *)
Definition same_code (x y : pop) : Prop :=
  match x, y with
  | POp o, POp o' => code o = code o' /\ params o = params o'
  | PLabel l, PLabel l' => l = l'
  | PJump o l, PJump o' l' => code o = code o' /\ params o = params o' /\ l = l'
  | _, _ => False
  end.

Lemma find_label_same l : forall a b i, Forall2 same_code a b -> find_label l a i = find_label l b i.
Proof.
  intros a b i H. revert i. induction H as [|x y a b Hxy _ IH]; intros i; [reflexivity|].
  destruct x, y; cbn in Hxy; try contradiction; cbn [find_label]; try apply IH.
  subst. destruct (Nat.eqb l1 l); [reflexivity | apply IH].
Qed.

Lemma pname_same x y : same_code x y -> pname x = pname y.
Proof. destruct x, y; cbn; try contradiction; try reflexivity. intros [H _]. exact H. Qed.

Lemma node_of_pop_same all all' s x y n pc :
  Forall2 same_code all all' -> same_code x y -> node_of_pop all s x n pc = node_of_pop all' s y n pc.
Proof.
  intros Ha Hxy. destruct x, y; cbn in Hxy; try contradiction; cbn [node_of_pop].
  - destruct Hxy as [-> ->]. reflexivity.
  - reflexivity.
  - destruct Hxy as (-> & -> & ->). rewrite (find_label_same _ _ _ 0 Ha). reflexivity.
Qed.

Lemma nodes_of_pops_same all all' fall s : forall r r' g pc,
  Forall2 same_code all all' -> Forall2 same_code r r' ->
  nodes_of_pops all fall s r g pc = nodes_of_pops all' fall s r' g pc.
Proof.
  intros r r' g pc Ha H. revert g pc. induction H as [|x y r r' Hxy Hr IH]; intros g pc; [reflexivity|].
  cbn [nodes_of_pops]. rewrite (pname_same _ _ Hxy). f_equal; [|apply IH].
  replace (match r' with [] => fall | _ :: _ => S g end) with (match r with [] => fall | _ :: _ => S g end)
    by (destruct Hr; reflexivity).
  apply node_of_pop_same; assumption.
Qed.

Lemma Forall2_len {A B} (R : A -> B -> Prop) a b : Forall2 R a b -> length a = length b.
Proof. induction 1; cbn; congruence. Qed.

Lemma cfg_of_pops_same r r' : Forall2 same_code r r' -> cfg_of_pops [r] = cfg_of_pops [r'].
Proof.
  intros H. unfold cfg_of_pops. cbn [concat nodes_of_pop_program]. rewrite !app_nil_r.
  rewrite (Forall2_len _ _ _ H). f_equal. rewrite (nodes_of_pops_same r r' (length r') (S (length r')) r r' 0 false H H). reflexivity.
Qed.

Lemma pop_labels_of_oitems out : flat_map pop_labels (map pop_of_oitem out) = out_labels out.
Proof. induction out as [|o out IH]; [reflexivity|]. destruct o; cbn; rewrite ?IH; reflexivity. Qed.

(* the function that carries the labels of one expansion to those of another *)
Definition carry (bp : list bitem) (cl1 cl2 : nat) (rho1 rho2 : nat -> nat * lkind) (l : nat) : nat :=
  if Nat.eqb l (S cl1) then S cl2
  else if Nat.eqb l (S (S cl1)) then S (S cl2)
  else match find (fun i => Nat.eqb (fst (rho1 i)) l) (ids bp) with
       | Some i => fst (rho2 i)
       | None => l
       end.

Lemma carry_rho bp cl1 cl2 rho1 rho2 i :
  (forall i, In i (ids bp) -> S (S cl1) < fst (rho1 i)) ->
  (forall i j, In i (ids bp) -> In j (ids bp) -> fst (rho1 i) = fst (rho1 j) -> i = j) ->
  In i (ids bp) -> carry bp cl1 cl2 rho1 rho2 (fst (rho1 i)) = fst (rho2 i).
Proof.
  intros R1 I1 Hi. unfold carry. specialize (R1 _ Hi) as Ri.
  destruct (Nat.eqb_spec (fst (rho1 i)) (S cl1)); [lia|]. destruct (Nat.eqb_spec (fst (rho1 i)) (S (S cl1))); [lia|].
  destruct (find _ (ids bp)) as [j|] eqn:F.
  - apply find_some in F. destruct F as [Hj E]. apply Nat.eqb_eq in E. rewrite (I1 _ _ Hj Hi E). reflexivity.
  - exfalso. pose proof (find_none _ _ F _ Hi) as E. cbn in E. rewrite Nat.eqb_refl in E. discriminate.
Qed.

Lemma carry_start bp cl1 cl2 rho1 rho2 : carry bp cl1 cl2 rho1 rho2 (S cl1) = S cl2.
Proof. unfold carry. rewrite Nat.eqb_refl. reflexivity. Qed.

Lemma carry_end bp cl1 cl2 rho1 rho2 : carry bp cl1 cl2 rho1 rho2 (S (S cl1)) = S (S cl2).
Proof.
  unfold carry. destruct (Nat.eqb_spec (S (S cl1)) (S cl1)); [lia|]. rewrite Nat.eqb_refl. reflexivity.
Qed.

Lemma renamed_same s bp cl1 cl2 rho1 rho2 :
  (forall i, In i (ids bp) -> S (S cl1) < fst (rho1 i)) ->
  (forall i j, In i (ids bp) -> In j (ids bp) -> fst (rho1 i) = fst (rho1 j) -> i = j) ->
  forall bp', incl (ids bp') (ids bp) -> forall co1 co2,
  Forall2 same_code
    (map (rename_pop (carry bp cl1 cl2 rho1 rho2)) (map pop_of_oitem (renamed s (S (S cl1)) rho1 bp' co1)))
    (map pop_of_oitem (renamed s (S (S cl2)) rho2 bp' co2)).
Proof.
  intros R1 I1. induction bp' as [|b bp' IH]; intros Hsub co1 co2; [constructor|].
  assert (Hsub' : incl (ids bp') (ids bp)).
  { intros a Ha. apply Hsub. unfold ids. cbn [flat_map]. apply in_or_app. right. exact Ha. }
  destruct b as [code ps | id k | code ps id k]; cbn [renamed map].
  - constructor; [|apply IH, Hsub'].
    destruct (is_return code); cbn [pop_of_oitem rename_pop same_code Machine.code Machine.params].
    + rewrite carry_end. repeat split.
    + split; reflexivity.
  - constructor; [|apply IH, Hsub'].
    cbn [pop_of_oitem rename_pop same_code]. apply carry_rho; [exact R1 | exact I1|]. apply Hsub. cbn. left. reflexivity.
  - constructor; [|apply IH, Hsub'].
    cbn [pop_of_oitem rename_pop same_code Machine.code Machine.params]. repeat split.
    apply carry_rho; [exact R1 | exact I1|]. apply Hsub. cbn. left. reflexivity.
Qed.

Theorem expansions_are_the_same_code s bp cl1 co1 cl2 co2 out1 out2 a1 b1 a2 b2 :
  build s bp cl1 co1 = (out1, a1, b1) -> build s bp cl2 co2 = (out2, a2, b2) ->
  cfg_of_pops [map pop_of_oitem out1] = cfg_of_pops [map pop_of_oitem out2].
Proof.
  intros B1 B2.
  destruct (build_is_renaming s bp cl1 co1) as (rho1 & c1 & E1 & _ & R1 & I1 & _).
  destruct (build_is_renaming s bp cl2 co2) as (rho2 & c2 & E2 & _ & R2 & I2 & _).
  rewrite E1 in B1. rewrite E2 in B2. inversion B1; subst; clear B1. inversion B2; subst; clear B2.
  assert (R1' : forall i, In i (ids bp) -> S (S cl1) < fst (rho1 i)) by (intros i Hi; apply R1 in Hi; lia).
  set (f := carry bp cl1 cl2 rho1 rho2).
  set (o1 := OLab (S cl1) (LStart (S (count_ops bp))) :: renamed s (S (S cl1)) rho1 bp co1 ++ [OLab (S (S cl1)) LEnd]).
  set (o2 := OLab (S cl2) (LStart (S (count_ops bp))) :: renamed s (S (S cl2)) rho2 bp co2 ++ [OLab (S (S cl2)) LEnd]).
  assert (Hinj : inj_on f (flat_map pop_labels (concat [map pop_of_oitem o1]))).
  { cbn [concat]. rewrite app_nil_r, pop_labels_of_oitems.
    assert (Cl : forall a, In a (out_labels o1) ->
              (a = S cl1 /\ f a = S cl2) \/ (a = S (S cl1) /\ f a = S (S cl2)) \/
              (exists i, In i (ids bp) /\ a = fst (rho1 i) /\ f a = fst (rho2 i))).
    { intros a Ha. unfold o1 in Ha. change (In a (S cl1 :: out_labels (renamed s (S (S cl1)) rho1 bp co1 ++ [OLab (S (S cl1)) LEnd]))) in Ha.
      destruct Ha as [<-|Ha]; [left; split; [reflexivity | apply carry_start]|].
      rewrite out_labels_app in Ha. apply in_app_or in Ha. destruct Ha as [Ha|Ha].
      - apply renamed_labels in Ha. destruct Ha as [->|(i & Hi & ->)].
        + right; left; split; [reflexivity | apply carry_end].
        + right; right. exists i. split; [exact Hi|]. split; [reflexivity|]. apply carry_rho; assumption.
      - cbn in Ha. destruct Ha as [<-|[]]. right; left; split; [reflexivity | apply carry_end]. }
    intros a b Ha Hb Eab. apply Cl in Ha. apply Cl in Hb.
    destruct Ha as [[-> Fa]|[[-> Fa]|(i & Hi & -> & Fa)]]; destruct Hb as [[-> Fb]|[[-> Fb]|(j & Hj & -> & Fb)]];
      try reflexivity; rewrite Fa in Eab; rewrite Fb in Eab; try lia;
      try (specialize (R2 _ Hi); lia); try (specialize (R2 _ Hj); lia).
    rewrite (I2 _ _ Hi Hj Eab). reflexivity. }
  destruct (rename_same_cfg f [map pop_of_oitem o1] Hinj) as [C _].
  rewrite <- C. cbn [rename_prog map]. apply cfg_of_pops_same.
  unfold o1, o2. cbn [map]. constructor.
  - cbn [pop_of_oitem rename_pop same_code]. apply carry_start.
  - rewrite !map_app. apply Forall2_app.
    + apply renamed_same; [exact R1' | exact I1 | apply incl_refl].
    + cbn [map pop_of_oitem rename_pop]. constructor; [|constructor]. cbn [same_code]. apply carry_end.
Qed.

(* non-vacuity: the blueprint of Comp/MacroBuildProofs.v (a loop, a return, a variable) expanded at two different states
   of the counters - different labels, different operation numbers, one graph *)
Example ex_two_expansions :
  let o1 := fst (fst (build [("$x"%string, PInt 5)] ex_bp 10 100)) in
  let o2 := fst (fst (build [("$x"%string, PInt 5)] ex_bp 40 7)) in
  out_labels o1 <> out_labels o2 /\ out_numbers o1 <> out_numbers o2 /\
  cfg_of_pops [map pop_of_oitem o1] = cfg_of_pops [map pop_of_oitem o2] /\
  length (cfg_of_pops [map pop_of_oitem o1]) = 10.
Proof. vm_compute. repeat split; discriminate. Qed.
