(* `return` leaves only the macro, in the graph: wherever an expansion stands in a routine, the label that the jumps
   replacing Return operations go to is found at the last item of this expansion - the node whose successor is whatever
   follows the macro call. *)
From ES Require Import Base Ssb.Param Ssb.Cfg Ssb.Tables Ssb.Machine Comp.Passes Comp.PopSem Lang.Ast Lang.Inline
  Comp.MacroBuild Comp.MacroBuildProofs Comp.RenameSem Comp.ExpandSame.
From Coq Require Import Lia.

Lemma find_label_skip l : forall a b i,
  (forall x, In x a -> x <> PLabel l) -> find_label l (a ++ b) i = find_label l b (i + length a).
Proof.
  induction a as [|x a IH]; intros b i H; [cbn; f_equal; lia|].
  assert (Hx : x <> PLabel l) by (apply H; left; reflexivity).
  assert (Ha : forall y, In y a -> y <> PLabel l) by (intros y Hy; apply H; right; exact Hy).
  cbn [app length]. replace (i + S (length a)) with (S i + length a) by lia.
  destruct x as [o | l' | o l']; cbn [find_label]; try apply IH, Ha.
  destruct (Nat.eqb_spec l' l) as [->|_]; [contradiction | apply IH, Ha].
Qed.

Lemma in_map_label e : forall out, In (PLabel e) (map pop_of_oitem out) -> exists k, In (OLab e k) out.
Proof.
  induction out as [|o out IH]; intros H; [contradiction|]. destruct H as [H|H].
  - destruct o; cbn in H; try discriminate. injection H as <-. eexists. left. reflexivity.
  - destruct (IH H) as [k Hk]. exists k. right. exact Hk.
Qed.

Theorem return_goes_behind_the_expansion s bp cl co out cl' co' pre post :
  build s bp cl co = (out, cl', co') ->
  (forall x, In x pre -> x <> PLabel (S (S cl))) ->
  find_label (S (S cl)) (pre ++ map pop_of_oitem out ++ post) 0 = Some (length pre + length out - 1) /\
  nth_error (map pop_of_oitem out) (length out - 1) = Some (PLabel (S (S cl))).
Proof.
  intros B Hpre. destruct (build_is_renaming s bp cl co) as (rho & c1 & E & _ & R & _ & _).
  rewrite E in B. inversion B; subst; clear B.
  set (body := renamed s (S (S cl)) rho bp co).
  assert (Hbody : forall x, In x (map pop_of_oitem body) -> x <> PLabel (S (S cl))).
  { intros x Hx ->. apply in_map_label in Hx. destruct Hx as [k Hk].
    eapply end_label_only_at_end; [exact R | exact Hk]. }
  split.
  - rewrite find_label_skip by exact Hpre. cbn [map pop_of_oitem app find_label].
    destruct (Nat.eqb_spec (S cl) (S (S cl))); [lia|].
    rewrite map_app, <- app_assoc. rewrite find_label_skip by exact Hbody.
    cbn [map pop_of_oitem app find_label]. rewrite Nat.eqb_refl. f_equal.
    rewrite map_length. cbn [length]. rewrite app_length. cbn [length]. lia.
  - cbn [length map pop_of_oitem]. rewrite app_length. cbn [length].
    replace (S (length body + 1) - 1) with (S (length body)) by lia. cbn [nth_error].
    rewrite map_app. rewrite nth_error_app2; rewrite map_length; [|lia]. rewrite Nat.sub_diag. reflexivity.
Qed.
