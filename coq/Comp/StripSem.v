(* One round of strip_last_label on one routine (sweep for the trailing label, then drop that label) as an
   instance of Comp/ActSem.v; then all rounds and all routines. *)
From ES Require Import Base Ssb.Param Ssb.Cfg Ssb.Tables Ssb.Machine Ssb.EquivSound Ssb.Silent
  Comp.Passes Comp.PopSem Comp.Flat Comp.RemoveSem Comp.TableRight Comp.EraseSem Comp.BackEnd Comp.FinalizeSem Comp.ActSem.

(* nothing but an operation directly follows a context op (a routine may still end in a label here) *)
Fixpoint shape3 (r : list pop) : bool :=
  match r with
  | [] => true
  | x :: rest =>
      match rest with
      | [] => true
      | y :: _ => negb (pop_isctx x && (is_label y || match y with PJump _ _ => true | _ => false end)) && shape3 rest
      end
  end.

Definition is_dead (a : action) : bool := match a with ADead => true | _ => false end.
Definition all_dead (l : list action) : bool := forallb is_dead l.

(* the actions of the sweep for the trailing label [l] on the body of a routine, followed by the action for that
   label itself (dropped); an element becomes the last of its routine when everything after it is dropped *)
Fixpoint racts (l : nat) (body : list pop) (prev : option pop) (obe : bool) : list action :=
  match body with
  | [] => [ADead]
  | x :: rest =>
      match x with
      | PJump o l' =>
          if Nat.eqb l' l then
            if obe then ADead :: racts l rest (Some x) obe
            else let tail := racts l rest (Some (dummy_end (off o))) false in
                 ARepl (all_dead tail) (dummy_end (off o)) :: tail
          else let tail := racts l rest (Some x) (ends_cf x prev) in AKeep (all_dead tail) :: tail
      | PLabel _ => let tail := racts l rest (Some x) false in AKeep (all_dead tail) :: tail
      | POp _ => let tail := racts l rest (Some x) (ends_cf x prev) in AKeep (all_dead tail) :: tail
      end
  end.

Lemma racts_length l body : forall prev obe, length (racts l body prev obe) = S (length body).
Proof.
  induction body as [|x body IH]; intros prev obe; [reflexivity|].
  cbn [racts]. destruct x as [o|l'|o l']; cbn [length]; try (rewrite IH; reflexivity).
  destruct (Nat.eqb l' l); [destruct obe|]; cbn [length]; rewrite IH; reflexivity.
Qed.

(* everything after here is dropped exactly when the sweep returns nothing *)
Lemma sweep_nil_iff l body : forall prev obe, all_dead (racts l body prev obe) = true <-> strip_sweep l body prev obe = [].
Proof.
  induction body as [|x body IH]; intros prev obe; [cbn; tauto|].
  cbn [racts strip_sweep]. destruct x as [o|l'|o l'].
  - cbn [all_dead forallb is_dead andb]. split; discriminate.
  - cbn [all_dead forallb is_dead andb]. split; discriminate.
  - destruct (Nat.eqb l' l).
    + destruct obe.
      * cbn [all_dead forallb is_dead andb]. apply IH.
      * cbn [all_dead forallb is_dead andb]. split; discriminate.
    + cbn [all_dead forallb is_dead andb]. split; discriminate.
Qed.

Definition pc_of (prev : option pop) : bool := match prev with Some p => is_ctx (pname p) | None => false end.

Lemma is_ctx_return : is_ctx OP_RETURN = false.
Proof. vm_compute. reflexivity. Qed.
Lemma is_ctx_es_jump : is_ctx "ES_JUMP" = false.
Proof. vm_compute. reflexivity. Qed.
Lemma is_ctx_es_label : is_ctx "ES_LABEL" = false.
Proof. vm_compute. reflexivity. Qed.
Lemma isctx_jump o l : pop_isctx (PJump o l) = false.
Proof. unfold pop_isctx. cbn [pname]. apply is_ctx_es_jump. Qed.
Lemma isctx_dummy z : pop_isctx (dummy_end z) = false.
Proof. unfold pop_isctx, dummy_end. cbn [pname code]. apply is_ctx_return. Qed.
Lemma isctx_label l : pop_isctx (PLabel l) = false.
Proof. unfold pop_isctx. cbn [pname]. apply is_ctx_es_label. Qed.

(* the annotated list of the swept routine is the filtered annotated list of the routine with its trailing label *)
Lemma annotate_r_sweep l body : forall prev obe pc,
  shape3 (body ++ [PLabel l]) = true ->
  (match body with PJump _ _ :: _ => pc = false | _ => True end) ->
  annotate_r pop_isctx (strip_sweep l body prev obe) pc =
  omap conv_act (combine (annotate_r pop_isctx (body ++ [PLabel l]) pc) (racts l body prev obe)).
Proof.
  induction body as [|x body IH]; intros prev obe pc Hs Hpc; [reflexivity|].
  assert (Hsr : shape3 (body ++ [PLabel l]) = true /\
                match body ++ [PLabel l] with y :: _ => pop_isctx x && (is_label y || match y with PJump _ _ => true | _ => false end) = false | [] => True end).
  { cbn [app shape3] in Hs. destruct (body ++ [PLabel l]) as [|y r'] eqn:E; [destruct body; discriminate|].
    apply andb_true_iff in Hs. destruct Hs as [H1 H2]. split; [exact H2 | apply negb_true_iff; exact H1]. }
  destruct Hsr as [Hsr Hxy].
  assert (Hnextpc : match body with PJump _ _ :: _ => pop_isctx x = false | _ => True end).
  { destruct body as [|y b']; [exact I|]. destruct y as [o'|l''|o' l'']; try exact I. cbn [app is_label orb] in Hxy. rewrite andb_true_r in Hxy. exact Hxy. }
  assert (Hne : body ++ [PLabel l] <> []) by (destruct body; discriminate).
  assert (Hlastflag : (match body ++ [PLabel l] with [] => true | _ :: _ => false end) = false) by (destruct (body ++ [PLabel l]); [contradiction | reflexivity]).
  cbn [app annotate_r racts strip_sweep]. rewrite Hlastflag.
  destruct x as [o|l'|o l'].
  - cbn [combine]. unfold omap at 1. cbn [flat_map conv_act orb app]. fold (omap conv_act (combine (annotate_r pop_isctx (body ++ [PLabel l]) (pop_isctx (POp o))) (racts l body (Some (POp o)) (ends_cf (POp o) prev)))).
    cbn [annotate_r]. f_equal.
    + f_equal. f_equal. destruct (strip_sweep l body (Some (POp o)) (ends_cf (POp o) prev)) eqn:E.
      * symmetry. apply sweep_nil_iff. exact E.
      * symmetry. apply not_true_is_false. intro H. apply sweep_nil_iff in H. congruence.
    + apply IH; [exact Hsr | exact Hnextpc].
  - cbn [combine]. unfold omap at 1. cbn [flat_map conv_act orb app]. fold (omap conv_act (combine (annotate_r pop_isctx (body ++ [PLabel l]) (pop_isctx (PLabel l'))) (racts l body (Some (PLabel l')) false))).
    cbn [annotate_r]. f_equal.
    + f_equal. f_equal. destruct (strip_sweep l body (Some (PLabel l')) false) eqn:E.
      * symmetry. apply sweep_nil_iff. exact E.
      * symmetry. apply not_true_is_false. intro H. apply sweep_nil_iff in H. congruence.
    + apply IH; [exact Hsr | exact Hnextpc].
  - cbn in Hpc. subst pc. destruct (Nat.eqb l' l).
    + destruct obe.
      * (* dropped *)
        cbn [combine]. unfold omap at 1. cbn [flat_map conv_act app].
        fold (omap conv_act (combine (annotate_r pop_isctx (body ++ [PLabel l]) (pop_isctx (PJump o l'))) (racts l body (Some (PJump o l')) true))).
        rewrite isctx_jump.
        apply IH; [exact Hsr|]. destruct body as [|[| |] ?]; try exact I. reflexivity.
      * (* replaced by Return *)
        cbn [combine]. unfold omap at 1. cbn [flat_map conv_act orb app].
        fold (omap conv_act (combine (annotate_r pop_isctx (body ++ [PLabel l]) (pop_isctx (PJump o l'))) (racts l body (Some (dummy_end (off o))) false))).
        cbn [annotate_r]. f_equal.
        -- f_equal. f_equal. destruct (strip_sweep l body (Some (dummy_end (off o))) false) eqn:E.
           ++ symmetry. apply sweep_nil_iff. exact E.
           ++ symmetry. apply not_true_is_false. intro H. apply sweep_nil_iff in H. congruence.
        -- rewrite isctx_jump, isctx_dummy.
           apply IH; [exact Hsr|]. destruct body as [|[| |] ?]; try exact I. reflexivity.
    + cbn [combine]. unfold omap at 1. cbn [flat_map conv_act orb app].
      fold (omap conv_act (combine (annotate_r pop_isctx (body ++ [PLabel l]) (pop_isctx (PJump o l'))) (racts l body (Some (PJump o l')) (ends_cf (PJump o l') prev)))).
      cbn [annotate_r]. f_equal.
      * f_equal. f_equal. destruct (strip_sweep l body (Some (PJump o l')) (ends_cf (PJump o l') prev)) eqn:E.
        -- symmetry. apply sweep_nil_iff. exact E.
        -- symmetry. apply not_true_is_false. intro H. apply sweep_nil_iff in H. congruence.
      * apply IH; [exact Hsr | exact Hnextpc].
Qed.

(* ---- facts about the actions of one routine ---- *)
Definition M (l : nat) (body : list pop) (prev : option pop) (obe : bool) (pc : bool) :=
  combine (annotate_r pop_isctx (body ++ [PLabel l]) pc) (racts l body prev obe).

Lemma M_cons l x body prev obe pc : exists act prev' obe',
  M l (x :: body) prev obe pc = ((x, false, pc), act) :: M l body prev' obe' (pop_isctx x) /\
  pc_of prev' = pop_isctx x /\
  racts l (x :: body) prev obe = act :: racts l body prev' obe' /\
  (act = ADead -> obe = true /\ obe' = true /\ exists o, x = PJump o l) /\
  (forall sl, act = AKeep sl -> sl = all_dead (racts l body prev' obe') /\ obe' = (match x with PLabel _ => false | _ => ends_cf x prev end) /\
                                 match x with PJump _ l' => l' <> l | _ => True end) /\
  (forall sl x', act = ARepl sl x' -> sl = all_dead (racts l body prev' obe') /\ obe' = false /\ exists o, x = PJump o l /\ x' = dummy_end (off o)).
Proof.
  unfold M. cbn [app annotate_r racts].
  assert (Hl : (match body ++ [PLabel l] with [] => true | _ :: _ => false end) = false) by (destruct body; reflexivity).
  rewrite Hl. destruct x as [o|l'|o l'].
  - eexists _, (Some (POp o)), _. cbn [combine].
    split; [reflexivity|]. split; [reflexivity|]. split; [reflexivity|]. split; [discriminate|]. split; [|discriminate].
    intros s0 H0. inversion H0. split; [reflexivity|]. split; [reflexivity | exact I].
  - eexists _, (Some (PLabel l')), _. cbn [combine].
    split; [reflexivity|]. split; [reflexivity|]. split; [reflexivity|]. split; [discriminate|]. split; [|discriminate].
    intros s0 H0. inversion H0. split; [reflexivity|]. split; [reflexivity | exact I].
  - destruct (Nat.eqb l' l) eqn:E.
    + apply Nat.eqb_eq in E. subst l'. destruct obe.
      * eexists _, (Some (PJump o l)), _. cbn [combine].
        split; [reflexivity|]. split; [reflexivity|]. split; [reflexivity|]. split; [|split; discriminate].
        intros _. split; [reflexivity|]. split; [reflexivity|]. exists o. reflexivity.
      * eexists _, (Some (dummy_end (off o))), _. cbn [combine].
        split; [reflexivity|]. split; [rewrite isctx_jump; exact (isctx_dummy (off o))|].
        split; [reflexivity|]. split; [discriminate|]. split; [discriminate|].
        intros s0 x' H0. inversion H0; subst. split; [reflexivity|]. split; [reflexivity|]. exists o. split; reflexivity.
    + apply Nat.eqb_neq in E. eexists _, (Some (PJump o l')), _. cbn [combine].
      split; [reflexivity|]. split; [reflexivity|]. split; [reflexivity|]. split; [discriminate|]. split; [|discriminate].
      intros s0 H0. inversion H0. split; [reflexivity|]. split; [reflexivity | exact E].
Qed.

Lemma M_nil l prev obe pc : M l [] prev obe pc = [((PLabel l, true, pc), ADead)].
Proof. reflexivity. Qed.

Lemma ends_flow_jump_code c : jump_index c <> None -> ends_flow c = true -> is_jump c = true.
Proof.
  unfold jump_index, ends_flow, is_jump. intros H He.
  assert (Hall : forallb (fun kv => implb (mem_string (fst kv) flow_end_ops) (String.eqb (fst kv) OP_JUMP)) jump_table = true) by (vm_compute; reflexivity).
  rewrite forallb_forall in Hall.
  destruct (assoc_string c jump_table) as [v|] eqn:E; [|contradiction].
  assert (Hin : In (c, v) jump_table).
  { clear - E. induction jump_table as [|[k v'] t IH]; cbn [assoc_string] in E; [discriminate|].
    destruct (String.eqb c k) eqn:Ek; [apply String.eqb_eq in Ek; inversion E; subst; left; reflexivity | right; apply IH; exact E]. }
  specialize (Hall _ Hin). cbn [fst] in Hall. rewrite He in Hall. exact Hall.
Qed.

(* an element that falls through is followed by an element that is kept - or, when it becomes the last of its
   routine, by the dropped trailing label *)
Lemma M_next l body : forall prev obe pc j x pc' act,
  pc = pc_of prev -> forallb pop_wf body = true ->
  nth_error (M l body prev obe pc) j = Some ((x, false, pc'), act) -> act <> ADead ->
  falls_through (x, false, pc') = true ->
  if setlast act
  then exists pcl, nth_error (M l body prev obe pc) (S j) = Some ((PLabel l, true, pcl), ADead)
  else forall e, nth_error (M l body prev obe pc) (S j) <> Some (e, ADead).
Proof.
  induction body as [|y body IH]; intros prev obe pc j x pc' act Hpc Hwf Hn Hact Hft.
  - rewrite M_nil in Hn. destruct j as [|[|j]]; cbn in Hn; discriminate.
  - cbn [forallb] in Hwf. apply andb_true_iff in Hwf. destruct Hwf as [Hwy Hwf].
    destruct (M_cons l y body prev obe pc) as (act0 & prev' & obe' & HM & Hpc' & _ & Hd & Hk & Hr).
    rewrite HM in *. destruct j as [|j]; cbn [nth_error] in *.
    + inversion Hn; subst x pc' act0. clear Hn.
      (* the head element: look at what follows *)
      destruct body as [|z body'].
      * rewrite M_nil. assert (Hsl : setlast act = true).
        { destruct act as [sl|sl x'|]; [destruct (Hk sl eq_refl) as [-> _] | destruct (Hr sl x' eq_refl) as [-> _] | congruence]; reflexivity. }
        rewrite Hsl. eexists. reflexivity.
      * destruct (M_cons l z body' prev' obe' (pop_isctx y)) as (act1 & prev'' & obe'' & HM1 & _ & Hra1 & Hd1 & _ & _).
        rewrite HM1. cbn [nth_error].
        assert (Halive : act1 <> ADead).
        { intro E1. destruct (Hd1 E1) as (Hob & _ & _).
          destruct act as [sl|sl x'|]; [|destruct (Hr sl x' eq_refl) as (_ & Ho & _); congruence | congruence].
          destruct (Hk sl eq_refl) as (_ & Ho & Hl).
          (* obe' = true after a kept element means that the element ends the control flow: it does not fall through *)
          destruct y as [o|l'|o l'].
          - rewrite Ho in Hob. unfold ends_cf in Hob. cbn [falls_through] in Hft.
            rewrite Hpc in Hft. unfold pc_of in Hft. destruct prev as [p|].
            + destruct (is_ctx (pname p)); [discriminate|]. rewrite Hob in Hft. discriminate.
            + rewrite Hob in Hft. discriminate.
          - rewrite Ho in Hob. discriminate.
          - rewrite Ho in Hob. cbn [pop_wf] in Hwy. cbn [falls_through] in Hft.
            assert (He : ends_flow (code o) = true).
            { unfold ends_cf in Hob. destruct prev as [p|]; [destruct (is_ctx (pname p)); [discriminate|]|]; exact Hob. }
            assert (Hj : jump_index (code o) <> None) by (destruct (jump_index (code o)); [discriminate | discriminate]).
            rewrite (ends_flow_jump_code _ Hj He) in Hft. discriminate. }
        assert (Hsl : setlast act = false).
        { assert (Hnd : all_dead (racts l (z :: body') prev' obe') = false).
          { rewrite Hra1. cbn [all_dead forallb]. destruct act1; [reflexivity | reflexivity | congruence]. }
          destruct act as [sl|sl x'|]; [destruct (Hk sl eq_refl) as [-> _] | destruct (Hr sl x' eq_refl) as [-> _] | congruence]; exact Hnd. }
        rewrite Hsl. intros e He. inversion He. congruence.
    + apply (IH prev' obe' (pop_isctx y) j x pc' act (eq_sym Hpc') Hwf Hn Hact Hft).
Qed.

Lemma M_facts l body : forall prev obe pc j x last pc' act,
  shape3 (body ++ [PLabel l]) = true ->
  (match body with PJump _ _ :: _ => pc = false | _ => True end) ->
  nth_error (M l body prev obe pc) j = Some ((x, last, pc'), act) ->
  match act with
  | AKeep _ => match x with PJump _ l' => l' <> l | _ => True end /\ last = false
  | ARepl _ x' => exists o, x = PJump o l /\ x' = dummy_end (off o) /\ pc' = false /\ last = false
  | ADead => (exists o, x = PJump o l /\ last = false) \/ (x = PLabel l /\ last = true /\ j = length body)
  end.
Proof.
  induction body as [|y body IH]; intros prev obe pc j x last pc' act Hs Hpc Hn.
  - rewrite M_nil in Hn. destruct j as [|j]; cbn in Hn; [|destruct j; discriminate]. inversion Hn; subst.
    right. repeat split; reflexivity.
  - assert (Hsr : shape3 (body ++ [PLabel l]) = true /\
                  match body with PJump _ _ :: _ => pop_isctx y = false | _ => True end).
    { cbn [app shape3] in Hs. destruct (body ++ [PLabel l]) as [|z r'] eqn:E; [destruct body; discriminate|].
      apply andb_true_iff in Hs. destruct Hs as [H1 H2]. split; [exact H2|].
      destruct body as [|w b']; [exact I|]. cbn [app] in E. inversion E; subst z. destruct w as [o'|l''|o' l'']; try exact I.
      apply negb_true_iff in H1. cbn [is_label orb] in H1. rewrite andb_true_r in H1. exact H1. }
    destruct Hsr as [Hsr Hnextpc].
    destruct (M_cons l y body prev obe pc) as (act0 & prev' & obe' & HM & _ & _ & Hd & Hk & Hr).
    rewrite HM in Hn. destruct j as [|j]; cbn [nth_error] in Hn.
    + inversion Hn; subst. destruct act as [sl|sl x'|].
      * destruct (Hk sl eq_refl) as (_ & _ & Hl). split; [destruct x; exact Hl || exact I | reflexivity].
      * destruct (Hr sl x' eq_refl) as (_ & _ & o & -> & ->). exists o. cbn in Hpc. subst pc'. repeat split; reflexivity.
      * destruct (Hd eq_refl) as (_ & _ & o & ->). left. exists o. split; reflexivity.
    + pose proof (IH prev' obe' (pop_isctx y) j x last pc' act Hsr Hnextpc Hn) as H.
      destruct act as [sl|sl x'|]; [exact H | exact H|].
      destruct H as [H|(H1 & H2 & H3)]; [left; exact H | right; repeat split; [exact H1 | exact H2 | cbn [length]; lia]].
Qed.

Lemma M_length l body prev obe pc : length (M l body prev obe pc) = S (length body).
Proof. unfold M. rewrite combine_length, annotate_r_length, app_length, racts_length. cbn [length]. lia. Qed.

Lemma M_last l body : forall prev obe pc, exists pcl, nth_error (M l body prev obe pc) (length body) = Some ((PLabel l, true, pcl), ADead).
Proof.
  induction body as [|y body IH]; intros prev obe pc; [eexists; reflexivity|].
  destruct (M_cons l y body prev obe pc) as (act0 & prev' & obe' & HM & _). rewrite HM. cbn [length nth_error]. apply IH.
Qed.

(* ---- one round on one routine inside a program ---- *)
Lemma omap_keep (X : list (pop * bool * bool)) : forall n, length X = n ->
  omap conv_act (combine X (repeat (AKeep false) n)) = X.
Proof.
  induction X as [|[[x last] pc] X IH]; intros n H; [destruct n; reflexivity|].
  destruct n as [|n]; [discriminate|]. cbn [repeat combine]. unfold omap. cbn [flat_map conv_act app]. fold (omap conv_act (combine X (repeat (AKeep false) n))).
  rewrite orb_false_r. rewrite IH by (cbn [length] in H; lia). reflexivity.
Qed.

Lemma nth_combine_repeat (X : list (pop * bool * bool)) n a e act : length X = n ->
  nth_error (combine X (repeat (AKeep false) n)) a = Some (e, act) -> act = AKeep false /\ nth_error X a = Some e.
Proof.
  intros Hl H. destruct (nth_combine _ _ _ _ _ H) as [H1 H2]. split; [|exact H1].
  apply nth_error_In in H2. apply repeat_spec in H2. exact H2.
Qed.

Lemma nth_app3 {A} (l1 l2 l3 : list A) a x : nth_error (l1 ++ l2 ++ l3) a = Some x ->
  (a < length l1 /\ nth_error l1 a = Some x) \/
  (length l1 <= a < length l1 + length l2 /\ nth_error l2 (a - length l1) = Some x) \/
  (length l1 + length l2 <= a /\ nth_error l3 (a - length l1 - length l2) = Some x).
Proof.
  intro H. destruct (Nat.lt_ge_cases a (length l1)) as [H1|H1].
  - left. split; [exact H1|]. rewrite nth_error_app1 in H by exact H1. exact H.
  - rewrite nth_error_app2 in H by exact H1.
    destruct (Nat.lt_ge_cases (a - length l1) (length l2)) as [H2|H2].
    + right. left. split; [lia|]. rewrite nth_error_app1 in H by exact H2. exact H.
    + right. right. split; [lia|]. rewrite nth_error_app2 in H by exact H2. exact H.
Qed.

(* an element that is not the last of its routine has a successor in the same list of routines *)
Lemma annotate_next rs a x pc : nth_error (annotate pop_isctx rs) a = Some (x, false, pc) ->
  exists e, nth_error (annotate pop_isctx rs) (S a) = Some e.
Proof.
  intro H.
  assert (Hlen : length (rests rs) = length (annotate pop_isctx rs)) by (rewrite rests_length, annotate_length; reflexivity).
  assert (Ha : a < length (annotate pop_isctx rs)) by (apply nth_error_Some; congruence).
  destruct (nth_error (rests rs) a) as [rest|] eqn:Er; [|apply nth_error_None in Er; lia].
  assert (Hc : nth_error (combine (annotate pop_isctx rs) (rests rs)) a = Some ((x, false, pc), rest)).
  { clear - H Er. revert a H Er. generalize (annotate pop_isctx rs) (rests rs). intros l1. induction l1 as [|u l1 IH]; intros l2 a H Er; [destruct a; discriminate|].
    destruct l2 as [|v l2]; [destruct a; discriminate|]. destruct a; cbn [nth_error combine] in *; [inversion H; inversion Er; reflexivity | apply IH; assumption]. }
  pose proof (c_next rs _ _ _ _ _ Hc) as Hn. destruct rest as [|y rest']; [discriminate|].
  destruct Hn as [_ [last' Hn]]. destruct (nth_combine _ _ _ _ _ Hn) as [H1 _]. eexists. exact H1.
Qed.

Section OneRound.
  Variables pre post : list (list pop).
  Variable body : list pop.
  Variable l : nat.

  Let r := body ++ [PLabel l].
  Let rs := pre ++ r :: post.
  Let rs2 := pre ++ strip_sweep l body None false :: post.
  Let np := length (concat pre).
  Let nq := length (concat post).
  Let acts := repeat (AKeep false) np ++ racts l body None false ++ repeat (AKeep false) nq.
  Let Cpre := combine (annotate pop_isctx pre) (repeat (AKeep false) np).
  Let Cmid := M l body None false false.
  Let Cpost := combine (annotate pop_isctx post) (repeat (AKeep false) nq).
  Let C1 := combine (annotate pop_isctx rs) acts.

  Hypothesis Hshape : forall r', In r' rs -> shape3 r' = true.
  Hypothesis Hwf : forall r', In r' rs -> forallb pop_wf r' = true.
  Hypothesis Hlab : NoDup (labels_of (concat rs)).
  Hypothesis Hdef : forall o l', In (PJump o l') (concat rs) -> find_label l' (concat rs) 0 <> None.
  Hypothesis Hforeign : forall o, ~ In (PJump o l) (concat pre) /\ ~ In (PJump o l) (concat post).
  Hypothesis Hplain : forall o, In (PJump o l) body -> is_jump (code o) = true.

  Lemma r_shape : shape3 r = true.
  Proof. apply Hshape. unfold rs. apply in_or_app. right. left. reflexivity. Qed.
  Lemma body_wf : forallb pop_wf body = true.
  Proof.
    assert (H : forallb pop_wf r = true) by (apply Hwf; unfold rs; apply in_or_app; right; left; reflexivity).
    unfold r in H. rewrite forallb_app in H. apply andb_true_iff in H. apply H.
  Qed.

  Lemma annotate_rs : annotate pop_isctx rs = annotate pop_isctx pre ++ annotate_r pop_isctx r false ++ annotate pop_isctx post.
  Proof. unfold rs. rewrite annotate_app. unfold annotate at 2. cbn [flat_map]. reflexivity. Qed.

  Lemma C1_eq : C1 = Cpre ++ Cmid ++ Cpost.
  Proof.
    unfold C1, acts. rewrite annotate_rs.
    rewrite combine_app by (rewrite annotate_length, repeat_length; reflexivity).
    rewrite combine_app by (rewrite annotate_r_length, racts_length; unfold r; rewrite app_length; cbn [length]; lia).
    reflexivity.
  Qed.

  Lemma Cpre_len : length Cpre = np.
  Proof. unfold Cpre. rewrite combine_length, annotate_length, repeat_length. fold np. lia. Qed.
  Lemma Cmid_len : length Cmid = S (length body).
  Proof. apply M_length. Qed.
  Lemma acts_len : length acts = length (concat rs).
  Proof.
    unfold acts, rs. rewrite !app_length, !repeat_length, racts_length, concat_app. cbn [concat]. rewrite !app_length.
    unfold r. rewrite app_length. cbn [length]. fold np. fold nq. lia.
  Qed.

  Lemma HL2_round : annotate pop_isctx rs2 = omap conv_act C1.
  Proof.
    rewrite C1_eq, !omap_app. unfold rs2. rewrite annotate_app. unfold annotate at 2. cbn [flat_map].
    unfold Cpre, Cpost. rewrite !omap_keep by (rewrite annotate_length; reflexivity).
    f_equal. f_equal. unfold Cmid, M. apply annotate_r_sweep; [apply r_shape|]. destruct body as [|[| |] ?]; try exact I. reflexivity.
  Qed.

  (* where an entry of C1 lives *)
  Lemma C1_cases a e act : nth_error C1 a = Some (e, act) ->
    (a < np /\ act = AKeep false /\ nth_error (annotate pop_isctx pre) a = Some e) \/
    (np <= a < np + S (length body) /\ nth_error Cmid (a - np) = Some (e, act)) \/
    (np + S (length body) <= a /\ act = AKeep false /\ nth_error (annotate pop_isctx post) (a - np - S (length body)) = Some e).
  Proof.
    rewrite C1_eq. intro H. apply nth_app3 in H. rewrite Cpre_len, Cmid_len in H.
    destruct H as [[H1 H2]|[[H1 H2]|[H1 H2]]].
    - left. split; [exact H1|]. unfold Cpre in H2. apply nth_combine_repeat in H2; [exact H2 | apply annotate_length].
    - right. left. split; assumption.
    - right. right. split; [exact H1|]. unfold Cpost in H2. apply nth_combine_repeat in H2; [exact H2 | apply annotate_length].
  Qed.

  Lemma C1_mid j e act : nth_error Cmid j = Some (e, act) -> nth_error C1 (np + j) = Some (e, act).
  Proof.
    intro H. rewrite C1_eq, nth_error_app2 by (rewrite Cpre_len; lia). rewrite Cpre_len.
    replace (np + j - np) with j by lia. rewrite nth_error_app1; [exact H | apply nth_error_Some; congruence].
  Qed.
  Lemma C1_pre a e : nth_error (annotate pop_isctx pre) a = Some e -> nth_error C1 a = Some (e, AKeep false).
  Proof.
    intro H. assert (Ha : a < np) by (unfold np; rewrite <- (annotate_length pop_isctx); apply nth_error_Some; congruence).
    rewrite C1_eq, nth_error_app1 by (rewrite Cpre_len; exact Ha). unfold Cpre.
    clear - H Ha. revert a H Ha. generalize (annotate pop_isctx pre) np. intros X. induction X as [|u X IH]; intros n a H Ha; [destruct a; discriminate|].
    destruct n; [lia|]. destruct a; cbn [repeat combine nth_error] in *; [inversion H; reflexivity | apply IH; [exact H | lia]].
  Qed.
  Lemma C1_post a e : nth_error (annotate pop_isctx post) a = Some e -> nth_error C1 (np + S (length body) + a) = Some (e, AKeep false).
  Proof.
    intro H. assert (Ha : a < nq) by (unfold nq; rewrite <- (annotate_length pop_isctx); apply nth_error_Some; congruence).
    rewrite C1_eq, nth_error_app2 by (rewrite Cpre_len; lia). rewrite Cpre_len.
    rewrite nth_error_app2 by (rewrite Cmid_len; lia). rewrite Cmid_len.
    replace (np + S (length body) + a - np - S (length body)) with a by lia. unfold Cpost.
    clear - H Ha. revert a H Ha. generalize (annotate pop_isctx post) nq. intros X. induction X as [|u X IH]; intros n a H Ha; [destruct a; discriminate|].
    destruct n; [lia|]. destruct a; cbn [repeat combine nth_error] in *; [inversion H; reflexivity | apply IH; [exact H | lia]].
  Qed.

  Lemma all1_mid j e act : nth_error Cmid j = Some (e, act) -> nth_error (concat rs) (np + j) = Some (fst (fst e)).
  Proof.
    intro H. pose proof (C1_mid _ _ _ H) as HC. destruct (nth_combine _ _ _ _ _ HC) as [H1 _].
    rewrite <- (annotate_fst pop_isctx rs). apply (map_nth_error (fun e => fst (fst e)) _ _ H1).
  Qed.

  Lemma label_pos : find_label l (concat rs) 0 = Some (np + length body).
  Proof.
    destruct (M_last l body None false false) as [pcl H].
    rewrite <- (Nat.add_0_l (np + length body)). apply find_label_unique; [exact Hlab|].
    apply (all1_mid _ _ _ H).
  Qed.

  (* a dead entry lives in the stripped routine *)
  Lemma dead_is_mid i e : nth_error C1 i = Some (e, ADead) -> np <= i < np + S (length body) /\ nth_error Cmid (i - np) = Some (e, ADead).
  Proof.
    intro H. destruct (C1_cases _ _ _ H) as [(_ & Hk & _)|[Hm|(_ & Hk & _)]]; [discriminate | exact Hm | discriminate].
  Qed.

  Lemma round_keptjump : forall a o l' last pc sl i,
    nth_error C1 a = Some ((PJump o l', last, pc), AKeep sl) ->
    find_label l' (concat rs) 0 = Some i -> alive rs acts i.
  Proof.
    intros a o l' last pc sl i Ha Fl. fold C1 in Ha.
    assert (Hne : l' <> l).
    { destruct (C1_cases _ _ _ Ha) as [(H1 & _ & H2)|[(H1 & H2)|(H1 & _ & H2)]].
      - intros ->. apply (proj1 (Hforeign o)). rewrite <- (annotate_fst pop_isctx pre). apply in_map_iff. exists (PJump o l, last, pc). split; [reflexivity | apply (nth_error_In _ _ H2)].
      - pose proof (M_facts l body None false false _ _ _ _ _ r_shape ltac:(destruct body as [|[| |] ?]; try exact I; reflexivity) H2) as [Hl _]. exact Hl.
      - intros ->. apply (proj2 (Hforeign o)). rewrite <- (annotate_fst pop_isctx post). apply in_map_iff. exists (PJump o l, last, pc). split; [reflexivity | apply (nth_error_In _ _ H2)]. }
    intros [[x last'] pc'] He. fold C1 in He.
    destruct (find_label_lt _ _ _ _ Fl) as [_ Hx]. rewrite Nat.sub_0_r in Hx.
    destruct (dead_is_mid _ _ He) as [Hr Hm].
    pose proof (all1_mid _ _ _ Hm) as Hx'. replace (np + (i - np)) with i in Hx' by lia. rewrite Hx in Hx'. cbn [fst] in Hx'. inversion Hx'; subst x.
    pose proof (M_facts l body None false false _ _ _ _ _ r_shape ltac:(destruct body as [|[| |] ?]; try exact I; reflexivity) Hm) as [(o' & Hc & _)|(Hc & _)]; [discriminate|].
    inversion Hc. congruence.
  Qed.

  Lemma round_repl : forall a x last pc sl x',
    nth_error C1 a = Some ((x, last, pc), ARepl sl x') ->
    exists o l0 i pcl, x = PJump o l0 /\ is_jump (code o) = true /\ find_label l0 (concat rs) 0 = Some i /\
      nth_error (annotate pop_isctx rs) i = Some (PLabel l0, true, pcl) /\ pc = false /\ exists z, x' = POp (mkOp z OP_RETURN []).
  Proof.
    intros a x last pc sl x' Ha. fold C1 in Ha.
    destruct (C1_cases _ _ _ Ha) as [(_ & Hk & _)|[(H1 & H2)|(_ & Hk & _)]]; [discriminate | | discriminate].
    pose proof (M_facts l body None false false _ _ _ _ _ r_shape ltac:(destruct body as [|[| |] ?]; try exact I; reflexivity) H2) as (o & -> & -> & -> & _).
    destruct (M_last l body None false false) as [pcl Hl].
    exists o, l, (np + length body), pcl. split; [reflexivity|]. split.
    - apply Hplain. pose proof (all1_mid _ _ _ H2) as Hx. cbn [fst] in Hx.
      unfold rs in Hx. rewrite concat_app in Hx. rewrite nth_error_app2 in Hx by (fold np; lia). fold np in Hx.
      replace (np + (a - np) - np) with (a - np) in Hx by lia. cbn [concat] in Hx.
      assert (Hlt : a - np < length body).
      { destruct (Nat.lt_ge_cases (a - np) (length body)) as [Hl1|Hl1]; [exact Hl1|]. exfalso.
        assert (a - np = length body) by lia. unfold Cmid in H2. rewrite H, Hl in H2. discriminate. }
      rewrite nth_error_app1 in Hx by (unfold r; rewrite app_length; cbn [length]; lia).
      unfold r in Hx. rewrite nth_error_app1 in Hx by exact Hlt. apply (nth_error_In _ _ Hx).
    - split; [apply label_pos|]. split.
      + pose proof (C1_mid _ _ _ Hl) as HC. destruct (nth_combine _ _ _ _ _ HC) as [HL _]. exact HL.
      + split; [reflexivity|]. exists (off o). reflexivity.
  Qed.

  Lemma round_next : forall a x pc act,
    nth_error C1 a = Some ((x, false, pc), act) -> act <> ADead -> falls_through (x, false, pc) = true ->
    match act with
    | AKeep true | ARepl true _ => deadlabel rs acts (S a)
    | _ => alive rs acts (S a)
    end.
  Proof.
    intros a x pc act Ha Hact Hft. fold C1 in Ha.
    destruct (C1_cases _ _ _ Ha) as [(H1 & -> & H2)|[(H1 & H2)|(H1 & -> & H2)]].
    - (* in the routines before: the next element is there too *)
      destruct (annotate_next _ _ _ _ H2) as [e' He']. pose proof (C1_pre _ _ He') as Hn.
      intros e Hd. fold C1 in Hd. rewrite Hn in Hd. discriminate.
    - pose proof (M_next l body None false false (a - np) x pc act eq_refl body_wf H2 Hact Hft) as Hn.
      replace (S a) with (np + S (a - np)) by lia.
      destruct act as [[|]|[|] x'|]; cbn [setlast] in Hn; try congruence.
      + destruct Hn as [pcl Hn]. exists l, pcl. fold C1. apply (C1_mid _ _ _ Hn).
      + intros e Hd. fold C1 in Hd. destruct (dead_is_mid _ _ Hd) as [_ Hm]. replace (np + S (a - np) - np) with (S (a - np)) in Hm by lia. apply (Hn e Hm).
      + destruct Hn as [pcl Hn]. exists l, pcl. fold C1. apply (C1_mid _ _ _ Hn).
      + intros e Hd. fold C1 in Hd. destruct (dead_is_mid _ _ Hd) as [_ Hm]. replace (np + S (a - np) - np) with (S (a - np)) in Hm by lia. apply (Hn e Hm).
    - destruct (annotate_next _ _ _ _ H2) as [e' He']. pose proof (C1_post _ _ He') as Hn.
      intros e Hd. fold C1 in Hd. replace (np + S (length body) + S (a - np - S (length body))) with (S a) in Hn by lia.
      rewrite Hn in Hd. discriminate.
  Qed.

  (* one round on one routine keeps the behaviour at all related positions *)
  Theorem round_preserves :
    (forall a, a <= S (length (concat rs)) -> exists o, reaches (cfg_of_pops rs) a o) ->
    forall a b, ARel rs rs2 acts a b -> beh_eq (cfg_of_pops rs) (cfg_of_pops rs2) a b.
  Proof.
    apply (act_preserves_behaviour rs rs2 acts acts_len HL2_round round_keptjump round_repl round_next Hdef).
  Qed.

  (* ---- the routine entries of the two programs are related ---- *)
  Hypothesis Hbody : body <> [].

  Lemma firstn_combine_repeat (X : list (pop * bool * bool)) : forall n a, length X = n -> a <= n ->
    firstn a (combine X (repeat (AKeep false) n)) = combine (firstn a X) (repeat (AKeep false) a).
  Proof.
    induction X as [|u X IH]; intros n a Hl Ha; [destruct n; [|discriminate]; assert (a = 0) by lia; subst; reflexivity|].
    destruct n as [|n]; [discriminate|]. destruct a as [|a]; [reflexivity|].
    cbn [repeat combine firstn]. rewrite IH by (cbn [length] in Hl; lia). reflexivity.
  Qed.

  Lemma ph_pre a : a <= np -> phi conv_act C1 a = a.
  Proof.
    intro Ha. unfold phi. rewrite C1_eq. rewrite firstn_app, Cpre_len. replace (a - np) with 0 by lia. cbn [firstn]. rewrite app_nil_r.
    unfold Cpre. rewrite firstn_combine_repeat by (rewrite ?annotate_length; fold np; lia).
    rewrite omap_keep by (rewrite firstn_length, annotate_length; fold np; lia).
    rewrite firstn_length, annotate_length. fold np. lia.
  Qed.

  Lemma ph_post t : t <= nq -> phi conv_act C1 (np + S (length body) + t) = np + length (strip_sweep l body None false) + t.
  Proof.
    intro Ht. unfold phi. rewrite C1_eq.
    rewrite firstn_app, Cpre_len. rewrite firstn_all2 by (rewrite Cpre_len; lia).
    replace (np + S (length body) + t - np) with (S (length body) + t) by lia.
    rewrite firstn_app, Cmid_len. rewrite (firstn_all2 Cmid) by (rewrite Cmid_len; lia).
    replace (S (length body) + t - S (length body)) with t by lia.
    rewrite !omap_app, !app_length. unfold Cpre. rewrite omap_keep by (rewrite annotate_length; reflexivity). rewrite annotate_length. fold np.
    unfold Cmid, M. rewrite <- annotate_r_sweep; [|apply r_shape | destruct body as [|[| |] ?]; try exact I; reflexivity].
    rewrite annotate_r_length. unfold Cpost. rewrite firstn_combine_repeat by (rewrite ?annotate_length; fold nq; lia).
    rewrite omap_keep by (rewrite firstn_length, annotate_length; fold nq; lia).
    rewrite firstn_length, annotate_length. fold nq. lia.
  Qed.

  Lemma alive_pre a : a < np -> alive rs acts a.
  Proof.
    intros Ha e He. fold C1 in He. destruct (dead_is_mid _ _ He) as [Hr _]. lia.
  Qed.
  Lemma alive_post a : np + S (length body) <= a -> alive rs acts a.
  Proof.
    intros Ha e He. fold C1 in He. destruct (dead_is_mid _ _ He) as [Hr _]. lia.
  Qed.
  Lemma alive_mid_start : alive rs acts np.
  Proof.
    intros e He. fold C1 in He. destruct (dead_is_mid _ _ He) as [_ Hm]. rewrite Nat.sub_diag in Hm.
    destruct body as [|y body'] eqn:Eb; [contradiction|].
    unfold Cmid in Hm. destruct (M_cons l y body' None false false) as (act0 & prev' & obe' & HM & _ & _ & Hd & _).
    rewrite HM in Hm. cbn [nth_error] in Hm. inversion Hm; subst. destruct (Hd eq_refl) as [Hf _]. discriminate.
  Qed.

  Lemma pop_entries_app X : forall Y g, pop_entries_of (X ++ Y) g = pop_entries_of X g ++ pop_entries_of Y (g + length (concat X)).
  Proof.
    induction X as [|x X IH]; intros Y g; [cbn [app pop_entries_of concat length]; rewrite Nat.add_0_r; reflexivity|].
    cbn [app pop_entries_of concat]. rewrite IH, app_length. do 3 f_equal. lia.
  Qed.

  Lemma sweep_nonempty : strip_sweep l body None false <> [].
  Proof.
    intro H. apply sweep_nil_iff in H. destruct body as [|y body'] eqn:Eb; [contradiction|].
    destruct (M_cons l y body' None false false) as (act0 & prev' & obe' & _ & _ & Hra & Hd & _).
    rewrite Hra in H. cbn [all_dead forallb] in H. apply andb_true_iff in H. destruct H as [H _].
    destruct act0; try discriminate. destruct (Hd eq_refl) as [Hf _]. discriminate.
  Qed.

  Lemma entries_pre : forall P g, (forall r', In r' P -> True) -> g + length (concat P) <= np ->
    Forall2 (entry_rel (ARel rs rs2 acts)) (pop_entries_of P g) (pop_entries_of P g).
  Proof.
    induction P as [|x P IH]; intros g _ Hg; [constructor|]. cbn [pop_entries_of concat] in *. rewrite app_length in Hg.
    constructor.
    - destruct x as [|y x']; [exact I|]. cbn [entry_rel]. right. left. cbn [length] in Hg.
      split; [unfold rs; rewrite concat_app, app_length; fold np; lia|].
      split; [apply alive_pre; lia | symmetry; apply ph_pre; lia].
    - apply IH; [trivial | lia].
  Qed.

  Lemma entries_post : forall Q t, t + length (concat Q) <= nq ->
    Forall2 (entry_rel (ARel rs rs2 acts))
      (pop_entries_of Q (np + S (length body) + t)) (pop_entries_of Q (np + length (strip_sweep l body None false) + t)).
  Proof.
    induction Q as [|x Q IH]; intros t Ht; [constructor|]. cbn [pop_entries_of concat] in *. rewrite app_length in Ht.
    constructor.
    - destruct x as [|y x']; [exact I|]. cbn [entry_rel]. right. left. cbn [length] in Ht.
      split; [unfold rs; rewrite concat_app, app_length; cbn [concat]; rewrite app_length; unfold r; rewrite app_length; cbn [length]; fold np; fold nq; lia|].
      split; [apply alive_post; lia | symmetry; apply ph_post; lia].
    - replace (np + S (length body) + t + length x) with (np + S (length body) + (t + length x)) by lia.
      replace (np + length (strip_sweep l body None false) + t + length x) with (np + length (strip_sweep l body None false) + (t + length x)) by lia.
      apply IH. lia.
  Qed.

  Lemma round_entries : Forall2 (entry_rel (ARel rs rs2 acts)) (pop_entries rs) (pop_entries rs2).
  Proof.
    unfold pop_entries, rs, rs2. rewrite !pop_entries_app. cbn [Nat.add]. apply Forall2_app.
    - apply entries_pre; [trivial | fold np; lia].
    - cbn [pop_entries_of]. fold np. constructor.
      + pose proof sweep_nonempty as Hsn. pose proof alive_mid_start as Ham. pose proof (ph_pre np (le_n _)) as Hph.
        assert (Hle : np <= length (concat rs)) by (unfold rs; rewrite concat_app, app_length; fold np; lia).
        assert (Hr : r <> []) by (unfold r; destruct body; discriminate).
        destruct r as [|y0 b0]; [contradiction|].
        destruct (strip_sweep l body None false) as [|z0 s0]; [contradiction|].
        cbn [entry_rel]. right. left. split; [exact Hle|]. split; [exact Ham | symmetry; exact Hph].
      + unfold r. rewrite app_length. cbn [length].
        replace (np + (length body + 1)) with (np + S (length body) + 0) by lia.
        replace (np + length (strip_sweep l body None false)) with (np + length (strip_sweep l body None false) + 0) by lia.
        apply entries_post. fold nq. lia.
  Qed.

  (* one round: every routine of the result behaves like the corresponding routine before *)
  Theorem round_preserves_entries :
    (forall a, a <= S (length (concat rs)) -> exists o, reaches (cfg_of_pops rs) a o) ->
    Forall2 (entry_rel (beh_eq (cfg_of_pops rs) (cfg_of_pops rs2))) (pop_entries rs) (pop_entries rs2).
  Proof.
    intro Hterm. pose proof round_entries as HE. revert HE. generalize (pop_entries rs) (pop_entries rs2).
    intros l1 l2 HE. induction HE as [|e1 e2 l1 l2 H1 HE IH]; constructor; [|exact IH].
    destruct e1 as [a|], e2 as [b|]; cbn [entry_rel] in *; try exact H1.
    apply (round_preserves Hterm a b H1).
  Qed.
End OneRound.

(* ---- the side conditions of one round as a boolean; all rounds of strip_last_label ---- *)
Definition jumps_to (l : nat) (x : pop) : bool := match x with PJump _ l' => Nat.eqb l' l | _ => false end.
Definition plain_if_to (l : nat) (x : pop) : bool :=
  match x with PJump o l' => if Nat.eqb l' l then is_jump (code o) else true | _ => true end.

Definition round_ok (pre : list (list pop)) (body : list pop) (l : nat) (post : list (list pop)) : bool :=
  let rs := pre ++ (body ++ [PLabel l]) :: post in
  forallb shape3 rs && forallb (forallb pop_wf) rs && nodup_nat (labels_of (concat rs)) && jumps_defined rs &&
  forallb (fun x => negb (jumps_to l x)) (concat pre ++ concat post) && forallb (plain_if_to l) body &&
  negb (silent_cycle (cfg_of_pops rs)) && match body with [] => false | _ => true end.

Lemma round_ok_sound pre body l post : round_ok pre body l post = true ->
  Forall2 (entry_rel (beh_eq (cfg_of_pops (pre ++ (body ++ [PLabel l]) :: post))
                             (cfg_of_pops (pre ++ strip_sweep l body None false :: post))))
          (pop_entries (pre ++ (body ++ [PLabel l]) :: post)) (pop_entries (pre ++ strip_sweep l body None false :: post)).
Proof.
  unfold round_ok. intro H.
  apply andb_true_iff in H. destruct H as [H Hbody]. apply andb_true_iff in H. destruct H as [H Hcyc].
  apply andb_true_iff in H. destruct H as [H Hplain]. apply andb_true_iff in H. destruct H as [H Hfor].
  apply andb_true_iff in H. destruct H as [H Hdef]. apply andb_true_iff in H. destruct H as [H Hlab].
  apply andb_true_iff in H. destruct H as [Hshape Hwf].
  apply round_preserves_entries.
  - intros r' Hr. rewrite forallb_forall in Hshape. apply Hshape. exact Hr.
  - intros r' Hr. rewrite forallb_forall in Hwf. apply Hwf. exact Hr.
  - apply nodup_nat_sound. exact Hlab.
  - intros o l' Hin. unfold jumps_defined in Hdef. rewrite forallb_forall in Hdef. specialize (Hdef _ Hin). cbn in Hdef.
    destruct (find_label l' (concat (pre ++ (body ++ [PLabel l]) :: post)) 0); [discriminate | discriminate].
  - intro o. rewrite forallb_forall in Hfor. split; intro Hin.
    + specialize (Hfor (PJump o l) (in_or_app _ _ _ (or_introl Hin))). cbn [jumps_to] in Hfor. rewrite Nat.eqb_refl in Hfor. discriminate.
    + specialize (Hfor (PJump o l) (in_or_app _ _ _ (or_intror Hin))). cbn [jumps_to] in Hfor. rewrite Nat.eqb_refl in Hfor. discriminate.
  - intros o Hin. rewrite forallb_forall in Hplain. specialize (Hplain _ Hin). cbn [plain_if_to] in Hplain. rewrite Nat.eqb_refl in Hplain. exact Hplain.
  - destruct body; [discriminate | discriminate].
  - intros a Ha. apply no_silent_cycle_reaches; [apply negb_true_iff; exact Hcyc | rewrite cfg_of_pops_length; lia].
Qed.

(* two programs are the same, or all their routines behave equally *)
Definition prog_rel (P Q : list (list pop)) : Prop :=
  P = Q \/ Forall2 (entry_rel (beh_eq (cfg_of_pops P) (cfg_of_pops Q))) (pop_entries P) (pop_entries Q).

Lemma prog_rel_trans P Q R : prog_rel P Q -> prog_rel Q R -> prog_rel P R.
Proof.
  intros [->|H1] [->|H2]; [left; reflexivity | right; exact H2 | right; exact H1|].
  right. apply (entries_trans _ (cfg_of_pops Q) _ _ (pop_entries Q) H1 _ H2).
Qed.

Fixpoint routine_rounds_ok (fuel : nat) (pre : list (list pop)) (r : list pop) (post : list (list pop)) : bool :=
  match fuel with
  | O => true
  | S f =>
      match last_label r with
      | None => true
      | Some l => round_ok pre (removelast r) l post && routine_rounds_ok f pre (strip_sweep l (removelast r) None false) post
      end
  end.

Lemma last_label_split r l : last_label r = Some l -> r = removelast r ++ [PLabel l].
Proof.
  unfold last_label. intro H. destruct r as [|x r'] using rev_ind; [discriminate|].
  rewrite rev_app_distr in H. cbn [rev app] in H. destruct x; try discriminate. inversion H; subst.
  rewrite removelast_last. reflexivity.
Qed.

Lemma routine_rounds fuel : forall pre r post, routine_rounds_ok fuel pre r post = true ->
  prog_rel (pre ++ r :: post) (pre ++ strip_routine fuel r :: post).
Proof.
  induction fuel as [|f IH]; intros pre r post H; [left; reflexivity|].
  cbn [routine_rounds_ok strip_routine] in *. destruct (last_label r) as [l|] eqn:E; [|left; reflexivity].
  apply andb_true_iff in H. destruct H as [H1 H2].
  apply (prog_rel_trans _ (pre ++ strip_sweep l (removelast r) None false :: post)).
  - right. rewrite (last_label_split r l E) at 1 3. apply round_ok_sound. exact H1.
  - apply IH. exact H2.
Qed.

Fixpoint all_rounds_ok (done todo : list (list pop)) : bool :=
  match todo with
  | [] => true
  | r :: rest => routine_rounds_ok (length r) done r rest && all_rounds_ok (done ++ [strip_routine (length r) r]) rest
  end.

Lemma all_rounds todo : forall done, all_rounds_ok done todo = true -> prog_rel (done ++ todo) (done ++ strip todo).
Proof.
  induction todo as [|r rest IH]; intros done H; [left; reflexivity|].
  cbn [all_rounds_ok] in H. apply andb_true_iff in H. destruct H as [H1 H2].
  unfold strip. cbn [map]. fold (strip rest).
  apply (prog_rel_trans _ (done ++ strip_routine (length r) r :: rest)).
  - apply routine_rounds. exact H1.
  - specialize (IH (done ++ [strip_routine (length r) r]) H2). rewrite <- !app_assoc in IH. exact IH.
Qed.

Definition strip_ok (rs : list (list pop)) : bool := all_rounds_ok [] rs.

(* strip_last_label keeps the behaviour of every routine (or changes nothing) *)
Theorem strip_preserves rs : strip_ok rs = true -> prog_rel rs (strip rs).
Proof. intro H. apply (all_rounds rs [] H). Qed.

(* the whole back end: strip_last_label, LabelFinalizer, OpsLabelJumpToRemover *)
Theorem back_end_preserves rs fin t P' :
  finalize (strip rs) = (fin, t) -> remove_all t fin = Ok P' ->
  strip_ok rs = true -> finalize_ok (strip rs) = true -> backend_ok fin P' = true ->
  Forall2 (entry_rel (beh_eq (cfg_of_pops rs) (cfg_of_ssb P'))) (pop_entries rs) (ssb_entries P').
Proof.
  intros Hfin Hrem H1 H2 H3.
  pose proof (finalize_and_remove_preserve (strip rs) fin t P' Hfin Hrem H2 H3) as HF.
  destruct (strip_preserves rs H1) as [E|HS].
  - rewrite <- E in HF. exact HF.
  - apply (entries_trans _ (cfg_of_pops (strip rs)) _ _ (pop_entries (strip rs)) HS _ HF).
Qed.
