(* Closedness of compilation results (C03): definition, boolean checker, and the theorem that the
   label passes produce closed programs. *)
From ES Require Import Base Ssb.Param Ssb.Tables Ssb.Machine Comp.Passes.

Definition last_param (o : op) : option param := last (map Some (params o)) None.

Definition has_off (P : program) (z : Z) : Prop := exists o, In o (all_ops P) /\ off o = z.

Fixpoint prefix_b (p s : string) : bool :=
  match p, s with
  | EmptyString, _ => true
  | String a p', String b s' => Ascii.eqb a b && prefix_b p' s'
  | _, _ => false
  end.
Definition is_pseudo_name (c : string) : bool := prefix_b "ES_" c.

Record Closed (P : program) : Prop := {
  cl_unique : NoDup (map off (all_ops P));
  cl_targets : forall o idx, In o (all_ops P) -> jump_index (code o) = Some idx ->
               exists z, last_param o = Some (PInt z) /\ has_off P z;
  cl_no_pseudo : forall o, In o (all_ops P) -> is_pseudo_name (code o) = false
}.

(* ---- executable checker, applied to real compiler output ---- *)
Fixpoint nodup_z (l : list Z) : bool :=
  match l with [] => true | x :: r => negb (existsb (Z.eqb x) r) && nodup_z r end.

Definition op_closed_b (all : list op) (o : op) : bool :=
  negb (is_pseudo_name (code o)) &&
  match jump_index (code o) with
  | None => true
  | Some _ => match last_param o with
              | Some (PInt z) => existsb (fun o' => Z.eqb (off o') z) all
              | _ => false
              end
  end.

Definition closed_b (P : program) : bool :=
  nodup_z (map off (all_ops P)) && forallb (op_closed_b (all_ops P)) (all_ops P).

Lemma nodup_z_sound l : nodup_z l = true -> NoDup l.
Proof.
  induction l as [|x r IH]; simpl; intro H; [constructor|].
  apply andb_true_iff in H. destruct H as [H1 H2]. constructor; [|apply IH; exact H2].
  intro Hin. apply negb_true_iff in H1.
  assert (existsb (Z.eqb x) r = true) as E.
  { apply existsb_exists. exists x. split; [exact Hin | apply Z.eqb_refl]. }
  congruence.
Qed.

Theorem closed_b_sound P : closed_b P = true -> Closed P.
Proof.
  unfold closed_b. intro H. apply andb_true_iff in H. destruct H as [Hn Hf].
  rewrite forallb_forall in Hf. constructor.
  - apply nodup_z_sound, Hn.
  - intros o idx Hin Hj. specialize (Hf o Hin). unfold op_closed_b in Hf.
    apply andb_true_iff in Hf. destruct Hf as [_ Hf]. rewrite Hj in Hf.
    destruct (last_param o) as [[z| | | | |]|] eqn:E; try discriminate.
    exists z. split; [reflexivity|]. apply existsb_exists in Hf. destruct Hf as [o' [Hin' E']].
    exists o'. split; [exact Hin' | apply Z.eqb_eq; exact E'].
  - intros o Hin. specialize (Hf o Hin). unfold op_closed_b in Hf.
    apply andb_true_iff in Hf. destruct Hf as [Hf _]. apply negb_true_iff in Hf. exact Hf.
Qed.

(* ---- subsequences ---- *)
Inductive subseq {A} : list A -> list A -> Prop :=
| ss_nil : forall l, subseq [] l
| ss_keep : forall x a b, subseq a b -> subseq (x :: a) (x :: b)
| ss_skip : forall x a b, subseq a b -> subseq a (x :: b).

Lemma subseq_refl {A} (l : list A) : subseq l l.
Proof. induction l; constructor; assumption. Qed.

Lemma subseq_In {A} (a b : list A) : subseq a b -> forall x, In x a -> In x b.
Proof.
  induction 1; intros y Hy; simpl in *; try contradiction.
  - destruct Hy as [Hy|Hy]; [left; exact Hy | right; apply IHsubseq; exact Hy].
  - right; apply IHsubseq; exact Hy.
Qed.

Lemma subseq_NoDup {A} (a b : list A) : subseq a b -> NoDup b -> NoDup a.
Proof.
  induction 1; intro Hb; [constructor| |].
  - inversion Hb; subst. constructor; [|apply IHsubseq; assumption].
    intro Hin. apply H2. eapply subseq_In; eassumption.
  - inversion Hb; subst. apply IHsubseq; assumption.
Qed.

Lemma subseq_trans {A} (a b c : list A) : subseq a b -> subseq b c -> subseq a c.
Proof.
  intros Hab Hbc. revert a Hab. induction Hbc; intros a' Hab.
  - inversion Hab; subst. constructor.
  - inversion Hab; subst; [constructor | apply ss_keep; apply IHHbc; assumption | apply ss_skip; apply IHHbc; assumption].
  - apply ss_skip. apply IHHbc. exact Hab.
Qed.

Lemma subseq_app {A} (a b c d : list A) : subseq a b -> subseq c d -> subseq (a ++ c) (b ++ d).
Proof.
  induction 1; intro H2; simpl.
  - induction l; simpl; [exact H2 | apply ss_skip; exact IHl].
  - apply ss_keep, IHsubseq, H2.
  - apply ss_skip, IHsubseq, H2.
Qed.

(* ---- offsets of the real (non-label) elements ---- *)
Fixpoint offs (r : list pop) : list Z :=
  match r with
  | [] => []
  | PLabel _ :: rest => offs rest
  | x :: rest => pop_off x :: offs rest
  end.

Definition offs_all (rs : list (list pop)) : list Z := concat (map offs rs).

Lemma offs_app a b : offs (a ++ b) = offs a ++ offs b.
Proof. induction a as [|x r IH]; simpl; [reflexivity|]. destruct x; simpl; rewrite ?IH; reflexivity. Qed.

(* strip *)
Lemma strip_sweep_subseq l r : forall prev obe, subseq (offs (strip_sweep l r prev obe)) (offs r).
Proof.
  induction r as [|x rest IH]; intros prev obe; simpl; [constructor|].
  destruct x as [o|l'|o l']; simpl.
  - apply ss_keep, IH.
  - apply IH.
  - destruct (Nat.eqb l' l).
    + destruct obe; simpl; [apply ss_skip, IH | apply ss_keep, IH].
    + simpl. apply ss_keep, IH.
Qed.

Lemma offs_removelast_label r l : last_label r = Some l -> offs (removelast r) = offs r.
Proof.
  unfold last_label. intro H.
  destruct (rev r) as [|y t] eqn:E; [discriminate|]. destruct y as [|l'|]; try discriminate.
  assert (r = rev t ++ [PLabel l']) as ->.
  { rewrite <- (rev_involutive r), E. reflexivity. }
  rewrite removelast_last, offs_app. simpl. rewrite app_nil_r. reflexivity.
Qed.

Lemma strip_routine_subseq fuel : forall r, subseq (offs (strip_routine fuel r)) (offs r).
Proof.
  induction fuel as [|f IH]; intro r; simpl; [apply subseq_refl|].
  destruct (last_label r) as [l|] eqn:E; [|apply subseq_refl].
  eapply subseq_trans; [apply IH|]. rewrite <- (offs_removelast_label r l E). apply strip_sweep_subseq.
Qed.

Lemma strip_subseq rs : subseq (offs_all (strip rs)) (offs_all rs).
Proof.
  unfold offs_all, strip. induction rs as [|r rest IH]; simpl; [constructor|].
  apply subseq_app; [apply strip_routine_subseq | exact IH].
Qed.

(* finalize: the output is a subsequence of the input; every table entry is the offset of a kept element *)
Definition table_ok (t : label_table) (kept : list Z) : Prop := forall l z, In (l, z) t -> In z kept.

Lemma assign_In ws z t l z' : In (l, z') (assign ws z t) -> In (l, z') t \/ z' = z.
Proof.
  revert t. induction ws as [|w r IH]; intros t H; simpl in H; [left; exact H|].
  apply IH in H. destruct H as [H|H]; [|right; exact H].
  destruct H as [H|H]; [inversion H; right; reflexivity | left; exact H].
Qed.

Lemma finalize_routine_spec r : forall waiting t out w t',
  finalize_routine r waiting t = (out, w, t') ->
  subseq (offs out) (offs r) /\
  (forall l z, In (l, z) t' -> In (l, z) t \/ In z (offs out)).
Proof.
  induction r as [|x rest IH]; intros waiting t out w t' H; simpl in H.
  - inversion H; subst. split; [constructor | intros; left; assumption].
  - destruct x as [o|l|o l].
    + (* POp *)
      simpl in H.
      destruct (finalize_routine rest [] (assign waiting (off o) t)) as [[out1 w1] t1] eqn:E.
      inversion H; subst. destruct (IH _ _ _ _ _ E) as [Hs Ht]. split; [simpl; apply ss_keep, Hs|].
      intros l z Hin. destruct (Ht l z Hin) as [H1|H1].
      * apply assign_In in H1. destruct H1 as [H1|H1]; [left; exact H1 | right; simpl; left; symmetry; exact H1].
      * right; simpl; right; exact H1.
    + (* PLabel *)
      destruct (finalize_routine rest (waiting ++ [l]) t) as [[out1 w1] t1] eqn:E.
      inversion H; subst. destruct (IH _ _ _ _ _ E) as [Hs Ht]. split; [simpl; exact Hs | exact Ht].
    + (* PJump *)
      destruct (is_plain_jump (PJump o l) && existsb (Nat.eqb l) (labels_after rest)).
      * destruct (IH _ _ _ _ _ H) as [Hs Ht]. split; [simpl; apply ss_skip, Hs | exact Ht].
      * destruct (finalize_routine rest [] (assign waiting (pop_off (PJump o l)) t)) as [[out1 w1] t1] eqn:E.
        inversion H; subst. destruct (IH _ _ _ _ _ E) as [Hs Ht]. split; [simpl; apply ss_keep, Hs|].
        intros l0 z Hin. destruct (Ht l0 z Hin) as [H1|H1].
        -- apply assign_In in H1. destruct H1 as [H1|H1]; [left; exact H1 | right; simpl; left; symmetry; exact H1].
        -- right; simpl; right; exact H1.
Qed.

Lemma finalize_all_spec rs : forall waiting t outs t',
  finalize_all rs waiting t = (outs, t') ->
  subseq (offs_all outs) (offs_all rs) /\
  (forall l z, In (l, z) t' -> In (l, z) t \/ In z (offs_all outs)).
Proof.
  induction rs as [|r rest IH]; intros waiting t outs t' H; simpl in H.
  - inversion H; subst. split; [constructor | intros; left; assumption].
  - destruct (finalize_routine r waiting t) as [[out w] t1] eqn:E1.
    destruct (finalize_all rest w t1) as [outs1 t2] eqn:E2. inversion H; subst.
    destruct (finalize_routine_spec _ _ _ _ _ _ E1) as [Hs1 Ht1].
    destruct (IH _ _ _ _ E2) as [Hs2 Ht2]. unfold offs_all in *. simpl. split.
    + apply subseq_app; assumption.
    + intros l z Hin. destruct (Ht2 l z Hin) as [H1|H1].
      * destruct (Ht1 l z H1) as [H2|H2]; [left; exact H2 | right; apply in_or_app; left; exact H2].
      * right; apply in_or_app; right; exact H1.
Qed.

(* remover *)
Lemma lookup_label_In l t z : lookup_label l t = Some z -> In (l, z) t.
Proof.
  induction t as [|[k v] r IH]; simpl; [discriminate|]. destruct (Nat.eqb k l) eqn:E.
  - intro H; inversion H; subst. apply Nat.eqb_eq in E; subst. left; reflexivity.
  - intro H; right; apply IH; exact H.
Qed.

(* plain operations must not use a jump-carrying or pseudo opcode name; label jumps no pseudo name *)
Definition pop_ok (x : pop) : Prop :=
  match x with
  | POp o => jump_index (code o) = None /\ is_pseudo_name (code o) = false
  | PJump o _ => is_pseudo_name (code o) = false
  | PLabel _ => True
  end.

Lemma remove_routine_offs t r : forall out, remove_routine t r = Ok out -> map off out = offs r.
Proof.
  induction r as [|x rest IH]; intros out H; simpl in H.
  - inversion H; reflexivity.
  - destruct x as [o|l|o l].
    + destruct (remove_routine t rest) as [o1|] eqn:E; simpl in H; [|discriminate].
      inversion H; subst. simpl. rewrite (IH _ eq_refl). reflexivity.
    + simpl. apply IH, H.
    + destruct (lookup_label l t) as [z|]; [|discriminate].
      destruct (remove_routine t rest) as [o1|] eqn:E; simpl in H; [|discriminate].
      inversion H; subst. simpl. rewrite (IH _ eq_refl). reflexivity.
Qed.

Lemma last_param_app ps z : last (map Some (ps ++ [PInt z])) None = Some (PInt z).
Proof. rewrite map_app. simpl. apply last_last. Qed.

Lemma remove_routine_ops t r : forall out, remove_routine t r = Ok out ->
  (forall x, In x r -> pop_ok x) ->
  forall o, In o out ->
    is_pseudo_name (code o) = false /\
    (forall idx, jump_index (code o) = Some idx -> exists z l, last_param o = Some (PInt z) /\ In (l, z) t).
Proof.
  induction r as [|x rest IH]; intros out H Hok o Hin; simpl in H.
  - inversion H; subst. destruct Hin.
  - destruct x as [o0|l|o0 l].
    + destruct (remove_routine t rest) as [o1|] eqn:E; simpl in H; [|discriminate].
      inversion H; subst. destruct Hin as [Hin|Hin].
      * subst o0. destruct (Hok (POp o) (or_introl eq_refl)) as [Hj Hp]. split; [exact Hp|].
        intros idx Hidx. congruence.
      * apply (IH _ eq_refl); [intros; apply Hok; right; assumption | exact Hin].
    + apply (IH _ H); [intros; apply Hok; right; assumption | exact Hin].
    + destruct (lookup_label l t) as [z|] eqn:El; [|discriminate].
      destruct (remove_routine t rest) as [o1|] eqn:E; simpl in H; [|discriminate].
      inversion H; subst. destruct Hin as [Hin|Hin].
      * subst o. simpl. split; [exact (Hok (PJump o0 l) (or_introl eq_refl))|].
        intros idx _. exists z, l. split; [apply last_param_app | apply lookup_label_In; exact El].
      * apply (IH _ eq_refl); [intros; apply Hok; right; assumption | exact Hin].
Qed.

Lemma remove_all_spec t rs : forall P, remove_all t rs = Ok P ->
  (forall r x, In r rs -> In x r -> pop_ok x) ->
  map off (all_ops P) = offs_all rs /\
  forall o, In o (all_ops P) ->
    is_pseudo_name (code o) = false /\
    (forall idx, jump_index (code o) = Some idx -> exists z l, last_param o = Some (PInt z) /\ In (l, z) t).
Proof.
  induction rs as [|r rest IH]; intros P H Hok; simpl in H.
  - inversion H; subst. split; [reflexivity | intros o []].
  - destruct (remove_routine t r) as [o1|] eqn:E1; simpl in H; [|discriminate].
    destruct (remove_all t rest) as [os|] eqn:E2; simpl in H; [|discriminate].
    inversion H; subst. unfold all_ops, offs_all in *. simpl.
    destruct (IH _ eq_refl) as [Ho Hs]; [intros; eapply Hok; [right; eassumption | assumption]|].
    split.
    + rewrite map_app, Ho, (remove_routine_offs _ _ _ E1). reflexivity.
    + intros o Hin. apply in_app_or in Hin. destruct Hin as [Hin|Hin].
      * eapply remove_routine_ops; [exact E1 | intros; eapply Hok; [left; reflexivity | assumption] | exact Hin].
      * apply Hs, Hin.
Qed.

(* elements of the outputs of strip and finalize satisfy pop_ok when the inputs do *)
Lemma strip_sweep_ok l r : forall prev obe, (forall x, In x r -> pop_ok x) ->
  forall x, In x (strip_sweep l r prev obe) -> pop_ok x.
Proof.
  induction r as [|y rest IH]; intros prev obe Hok x Hin; simpl in Hin; [destruct Hin|].
  assert (Hrest : forall x, In x rest -> pop_ok x) by (intros; apply Hok; right; assumption).
  destruct y as [o|l'|o l'].
  - destruct Hin as [Hin|Hin]; [subst; apply Hok; left; reflexivity | eapply IH; eassumption].
  - destruct Hin as [Hin|Hin]; [subst; exact I | eapply IH; eassumption].
  - destruct (Nat.eqb l' l).
    + destruct obe.
      * eapply IH; eassumption.
      * destruct Hin as [Hin|Hin]; [subst; simpl; split; reflexivity | eapply IH; eassumption].
    + destruct Hin as [Hin|Hin]; [subst; apply Hok; left; reflexivity | eapply IH; eassumption].
Qed.

Lemma In_removelast {A} (l : list A) x : In x (removelast l) -> In x l.
Proof.
  induction l as [|a r IH]; simpl; [intros []|]. destruct r as [|b r']; [intros []|].
  intros [H|H]; [left; exact H | right; apply IH; exact H].
Qed.

Lemma strip_routine_ok fuel : forall r, (forall x, In x r -> pop_ok x) ->
  forall x, In x (strip_routine fuel r) -> pop_ok x.
Proof.
  induction fuel as [|f IH]; intros r Hok x Hin; simpl in Hin; [apply Hok; exact Hin|].
  destruct (last_label r); [|apply Hok; exact Hin].
  eapply IH; [|exact Hin]. intros y Hy. eapply strip_sweep_ok; [|exact Hy].
  intros z Hz. apply Hok, In_removelast, Hz.
Qed.

Lemma finalize_routine_In r : forall waiting t out w t',
  finalize_routine r waiting t = (out, w, t') -> forall x, In x out -> In x r.
Proof.
  induction r as [|y rest IH]; intros waiting t out w t' H x Hin; simpl in H.
  - inversion H; subst. destruct Hin.
  - destruct y as [o|l|o l].
    + simpl in H. destruct (finalize_routine rest [] (assign waiting (off o) t)) as [[o1 w1] t1] eqn:E.
      inversion H; subst. destruct Hin as [Hin|Hin]; [left; exact Hin | right; eapply IH; eassumption].
    + destruct (finalize_routine rest (waiting ++ [l]) t) as [[o1 w1] t1] eqn:E.
      inversion H; subst. destruct Hin as [Hin|Hin]; [left; exact Hin | right; eapply IH; eassumption].
    + destruct (is_plain_jump (PJump o l) && existsb (Nat.eqb l) (labels_after rest)).
      * right; eapply IH; eassumption.
      * destruct (finalize_routine rest [] (assign waiting (pop_off (PJump o l)) t)) as [[o1 w1] t1] eqn:E.
        inversion H; subst. destruct Hin as [Hin|Hin]; [left; exact Hin | right; eapply IH; eassumption].
Qed.

Lemma finalize_all_In rs : forall waiting t outs t',
  finalize_all rs waiting t = (outs, t') ->
  (forall r x, In r rs -> In x r -> pop_ok x) -> forall r x, In r outs -> In x r -> pop_ok x.
Proof.
  induction rs as [|r0 rest IH]; intros waiting t outs t' H Hok r x Hr Hx; simpl in H.
  - inversion H; subst. destruct Hr.
  - destruct (finalize_routine r0 waiting t) as [[out w] t1] eqn:E1.
    destruct (finalize_all rest w t1) as [outs1 t2] eqn:E2. inversion H; subst.
    destruct Hr as [Hr|Hr].
    + subst r. eapply Hok; [left; reflexivity | eapply finalize_routine_In; eassumption].
    + eapply IH; [exact E2 | intros; eapply Hok; [right; eassumption | assumption] | exact Hr | exact Hx].
Qed.

(* ---- the theorem ---- *)
Theorem passes_closed rs P :
  NoDup (offs_all rs) ->
  (forall r x, In r rs -> In x r -> pop_ok x) ->
  passes rs = Ok P -> Closed P.
Proof.
  unfold passes, finalize. intros Hnd Hok H.
  destruct (finalize_all (strip rs) [] []) as [fin t] eqn:Ef.
  destruct (finalize_all_spec _ _ _ _ _ Ef) as [Hsub Ht].
  assert (Hok_strip : forall r x, In r (strip rs) -> In x r -> pop_ok x).
  { intros r x Hr Hx. unfold strip in Hr. apply in_map_iff in Hr. destruct Hr as [r0 [Er Hr0]]. subst r.
    eapply strip_routine_ok; [|exact Hx]. intros y Hy. eapply Hok; eassumption. }
  assert (Hok_fin := finalize_all_In _ _ _ _ _ Ef Hok_strip).
  destruct (remove_all_spec _ _ _ H Hok_fin) as [Hoffs Hops].
  constructor.
  - rewrite Hoffs. eapply subseq_NoDup; [exact Hsub|]. eapply subseq_NoDup; [apply strip_subseq | exact Hnd].
  - intros o idx Hin Hj. destruct (Hops o Hin) as [_ Hjmp]. destruct (Hjmp idx Hj) as [z [l [Hl Hz]]].
    exists z. split; [exact Hl|]. destruct (Ht l z Hz) as [[]|Hk].
    rewrite <- Hoffs in Hk. apply in_map_iff in Hk. destruct Hk as [o' [E Ho']]. exists o'. split; assumption.
  - intros o Hin. apply (Hops o Hin).
Qed.
