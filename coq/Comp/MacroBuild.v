(* The expansion of one macro call at the level of the compiler's pseudo code (explorerscript/macro.py
   ExplorerScriptMacro.build, _build_op, _process_parameters, _copy_blueprint_label): the blueprint of the macro - plain
   operations, labels, label jumps - is copied once per call; every operation gets the next operation number, every
   label the blueprint mentions (where it stands or as the target of a label jump, whichever comes first) gets the next
   label number and keeps it for the rest of this expansion, constants that name a macro variable are replaced by the
   argument, an operation called Return becomes a plain jump to the end label of this expansion, and the whole is put
   between a start label (which stores "operations of the blueprint + 1") and the end label.  Both counters are the
   compiler's: they return the incremented value.  Model file: definitions only. *)
From ES Require Import Base Ssb.Param Lang.Ast Lang.Inline.

Inductive lkind := LPlain | LStart (len : nat) | LEnd.

Inductive bitem :=
| BOp (code : string) (ps : list param)
| BLab (id : nat) (k : lkind)
| BJmp (code : string) (ps : list param) (id : nat) (k : lkind).

Inductive oitem :=
| OOp (n : nat) (code : string) (ps : list param)
| OLab (id : nat) (k : lkind)
| OJmp (n : nat) (code : string) (ps : list param) (id : nat).

Definition lmap := list (nat * (nat * lkind)).

Fixpoint lookup (m : lmap) (id : nat) : option (nat * lkind) :=
  match m with
  | [] => None
  | (k, v) :: r => if Nat.eqb id k then Some v else lookup r id
  end.

(* new_labels[id], created with the next label number when the id is seen for the first time *)
Definition fresh (m : lmap) (cl : nat) (id : nat) (k : lkind) : lmap * nat * (nat * lkind) :=
  match lookup m id with
  | Some v => (m, cl, v)
  | None => ((id, (S cl, k)) :: m, S cl, (S cl, k))
  end.

Definition is_return (code : string) : bool := String.eqb code "Return".

Fixpoint go (s : senv) (e : nat) (bp : list bitem) (m : lmap) (cl co : nat) : list oitem * (lmap * nat * nat) :=
  match bp with
  | [] => ([], (m, cl, co))
  | BOp code ps :: r =>
      let '(out, st) := go s e r m cl (S co) in
      ((if is_return code then OJmp (S co) "Jump" [] e else OOp (S co) code (subst_params s ps)) :: out, st)
  | BLab id k :: r =>
      let '(m1, cl1, v) := fresh m cl id k in
      let '(out, st) := go s e r m1 cl1 co in
      (OLab (fst v) (snd v) :: out, st)
  | BJmp code ps id k :: r =>
      let '(m1, cl1, v) := fresh m cl id k in
      let '(out, st) := go s e r m1 cl1 (S co) in
      (OJmp (S co) code (subst_params s ps) (fst v) :: out, st)
  end.

Fixpoint count_ops (bp : list bitem) : nat :=
  match bp with
  | [] => 0
  | BLab _ _ :: r => count_ops r
  | _ :: r => S (count_ops r)
  end.

(* build: (emitted items, label counter afterwards, operation counter afterwards) *)
Definition build (s : senv) (bp : list bitem) (cl co : nat) : list oitem * nat * nat :=
  let e := S (S cl) in
  let '(out, (_, cl1, co1)) := go s e bp [] e co in
  (OLab (S cl) (LStart (S (count_ops bp))) :: out ++ [OLab e LEnd], cl1, co1).

(* ---- what the property asks for: the expansion is the blueprint with its labels renamed by a function ---- *)

Definition ids_of (b : bitem) : list nat :=
  match b with BOp _ _ => [] | BLab id _ => [id] | BJmp _ _ id _ => [id] end.
Definition ids (bp : list bitem) : list nat := flat_map ids_of bp.

(* the copy of the blueprint under a renaming [rho] of its labels, operations numbered from co + 1 on *)
Fixpoint renamed (s : senv) (e : nat) (rho : nat -> nat * lkind) (bp : list bitem) (co : nat) : list oitem :=
  match bp with
  | [] => []
  | BOp code ps :: r =>
      (if is_return code then OJmp (S co) "Jump" [] e else OOp (S co) code (subst_params s ps)) :: renamed s e rho r (S co)
  | BLab id _ :: r => OLab (fst (rho id)) (snd (rho id)) :: renamed s e rho r co
  | BJmp code ps id _ :: r => OJmp (S co) code (subst_params s ps) (fst (rho id)) :: renamed s e rho r (S co)
  end.

(* the kind a copied label has: the kind of the first item of the blueprint that mentions its id *)
Fixpoint first_kind (bp : list bitem) (id : nat) : option lkind :=
  match bp with
  | [] => None
  | BOp _ _ :: r => first_kind r id
  | BLab i k :: r => if Nat.eqb id i then Some k else first_kind r id
  | BJmp _ _ i k :: r => if Nat.eqb id i then Some k else first_kind r id
  end.

Definition labels_of (o : oitem) : list nat :=
  match o with OOp _ _ _ => [] | OLab id _ => [id] | OJmp _ _ _ id => [id] end.
Definition out_labels (out : list oitem) : list nat := flat_map labels_of out.

Definition numbers_of (o : oitem) : list nat :=
  match o with OOp n _ _ => [n] | OLab _ _ => [] | OJmp n _ _ _ => [n] end.
Definition out_numbers (out : list oitem) : list nat := flat_map numbers_of out.
