(* an expansion defines each of its labels once (if the blueprint does), so the pseudo code that holds any number of
   expansions still has unique label definitions - a premise of the theorems about the label passes *)
From ES Require Import Base Ssb.Param Lang.Ast Lang.Inline Comp.MacroBuild Comp.MacroBuildProofs.
From Coq Require Import Lia.

Definition def_id (b : bitem) : list nat := match b with BLab id _ => [id] | _ => [] end.
Definition def_ids (bp : list bitem) : list nat := flat_map def_id bp.
Definition out_def (o : oitem) : list nat := match o with OLab id _ => [id] | _ => [] end.
Definition out_defs (out : list oitem) : list nat := flat_map out_def out.

Lemma def_ids_incl bp : incl (def_ids bp) (ids bp).
Proof.
  induction bp as [|b bp IH]; intros a Ha; [contradiction|].
  unfold def_ids, ids in *. cbn [flat_map] in *. apply in_app_or in Ha. apply in_or_app.
  destruct Ha as [Ha|Ha]; [left; destruct b; cbn in *; try contradiction; exact Ha | right; apply IH, Ha].
Qed.

Lemma renamed_defs s e rho : forall bp co, out_defs (renamed s e rho bp co) = map (fun i => fst (rho i)) (def_ids bp).
Proof.
  induction bp as [|b bp IH]; intros co; [reflexivity|].
  destruct b as [code ps | id k | code ps id k]; cbn [renamed out_defs flat_map out_def def_ids def_id app map].
  - destruct (is_return code); cbn [out_def app]; apply IH.
  - f_equal. apply IH.
  - apply IH.
Qed.

Lemma NoDup_map_inj_on (f : nat -> nat) : forall l,
  (forall a b, In a l -> In b l -> f a = f b -> a = b) -> NoDup l -> NoDup (map f l).
Proof.
  induction l as [|x l IH]; intros Hinj Hnd; [constructor|].
  inversion Hnd as [|? ? Hx Hl]; subst. cbn [map]. constructor.
  - intros Hin. apply in_map_iff in Hin. destruct Hin as (y & Ey & Hy).
    assert (y = x) by (apply Hinj; [right; exact Hy | left; reflexivity | exact Ey]). subst. contradiction.
  - apply IH; [|exact Hl]. intros a b Ha Hb. apply Hinj; right; assumption.
Qed.

Lemma out_defs_app a b : out_defs (a ++ b) = out_defs a ++ out_defs b.
Proof. unfold out_defs. apply flat_map_app. Qed.

Lemma NoDup_snoc_fresh (l : list nat) e : NoDup l -> (forall x, In x l -> e < x) -> NoDup (l ++ [e]).
Proof.
  induction l as [|x l IH]; intros N H; cbn [app]; [constructor; [intros []|constructor]|].
  inversion N; subst. constructor.
  - intros Hin. apply in_app_or in Hin. destruct Hin as [Hin|[Hin|[]]]; [contradiction|].
    specialize (H x (or_introl eq_refl)). lia.
  - apply IH; [assumption|]. intros y Hy. apply H. right. exact Hy.
Qed.

Theorem expansion_defines_each_label_once s bp cl co out cl' co' :
  build s bp cl co = (out, cl', co') -> NoDup (def_ids bp) -> NoDup (out_defs out).
Proof.
  intros B Hnd. destruct (build_is_renaming s bp cl co) as (rho & c1 & E & _ & R & I & _).
  rewrite E in B. inversion B; subst; clear B.
  change (NoDup (S cl :: out_defs (renamed s (S (S cl)) rho bp co ++ [OLab (S (S cl)) LEnd]))).
  rewrite out_defs_app, renamed_defs. cbn [out_defs flat_map out_def app].
  assert (Hr : forall x, In x (map (fun i => fst (rho i)) (def_ids bp)) -> S (S cl) < x).
  { intros x Hx. apply in_map_iff in Hx. destruct Hx as (i & <- & Hi). apply def_ids_incl in Hi. specialize (R _ Hi). lia. }
  constructor.
  - intros Hin. apply in_app_or in Hin. destruct Hin as [Hin|[Hin|[]]]; [apply Hr in Hin; lia | lia].
  - 
    assert (N1 : NoDup (map (fun i => fst (rho i)) (def_ids bp))).
    { apply NoDup_map_inj_on; [|exact Hnd]. intros a b Ha Hb. apply I; apply def_ids_incl; assumption. }
    apply NoDup_snoc_fresh; assumption.
Qed.
