(* LabelFinalizer's jump removal is an instance of the erasure theorem: the pseudo code it returns behaves like
   the pseudo code it was given. *)
From ES Require Import Base Ssb.Param Ssb.Cfg Ssb.Tables Ssb.Machine Ssb.EquivSound Ssb.Silent
  Comp.Passes Comp.PopSem Comp.Flat Comp.RemoveSem Comp.TableRight Comp.EraseSem Comp.BackEnd.

Definition rmF (x : pop) (rest : list pop) : bool :=
  match x with
  | PJump o l => is_plain_jump x && existsb (Nat.eqb l) (labels_after rest)
  | _ => false
  end.

Lemma la0_sub l r : existsb (Nat.eqb l) (labels_after0 r) = true -> existsb (Nat.eqb l) (labels_after r) = true.
Proof.
  induction r as [|x r IH]; [discriminate|]. destruct x as [o|l'|o l']; cbn [labels_after0 labels_after]; try discriminate.
  cbn [existsb]. intro H. apply orb_true_iff in H. apply orb_true_iff. destruct H as [H|H]; [left; exact H | right; apply IH; exact H].
Qed.

Lemma la_region l rest : existsb (Nat.eqb l) (labels_after rest) = true -> region rmF l rest.
Proof.
  induction rest as [|x r IH]; [discriminate|]. destruct x as [o|l'|o l']; cbn [labels_after]; try discriminate.
  - cbn [existsb]. intro H. apply orb_true_iff in H. destruct H as [H|H].
    + apply Nat.eqb_eq in H. subst l'. apply rg_here.
    + apply rg_label. apply IH. exact H.
  - destruct (String.eqb (code o) OP_JUMP && existsb (Nat.eqb l') (labels_after0 r)) eqn:E; [|discriminate].
    intro H. apply rg_removed; [|apply IH; exact H].
    apply andb_true_iff in E. destruct E as [E1 E2]. unfold rmF, is_plain_jump. rewrite E1. cbn [andb]. apply la0_sub. exact E2.
Qed.

Lemma rmF_spec x rest : rmF x rest = true ->
  exists o l, x = PJump o l /\ is_jump (code o) = true /\ region rmF l rest.
Proof.
  destruct x as [o|l|o l]; cbn [rmF]; try discriminate. intro H. apply andb_true_iff in H. destruct H as [H1 H2].
  exists o, l. split; [reflexivity|]. split; [exact H1 | apply la_region; exact H2].
Qed.

Lemma finalize_routine_kfilter r : forall w t out w' t',
  finalize_routine r w t = (out, w', t') -> out = kfilter rmF r.
Proof.
  induction r as [|x r IH]; intros w t out w' t' H; cbn [finalize_routine] in H; [inversion H; reflexivity|].
  destruct x as [o|l|o l].
  - cbn [kfilter rmF]. destruct (finalize_routine r [] (assign w (pop_off (POp o)) t)) as [[o1 w1] t1] eqn:E.
    inversion H; subst. f_equal. apply (IH _ _ _ _ _ E).
  - cbn [kfilter rmF]. destruct (finalize_routine r (w ++ [l]) t) as [[o1 w1] t1] eqn:E.
    inversion H; subst. f_equal. apply (IH _ _ _ _ _ E).
  - cbn [kfilter]. change (rmF (PJump o l) r) with (is_plain_jump (PJump o l) && existsb (Nat.eqb l) (labels_after r)).
    destruct (is_plain_jump (PJump o l) && existsb (Nat.eqb l) (labels_after r)).
    + apply (IH _ _ _ _ _ H).
    + destruct (finalize_routine r [] (assign w (pop_off (PJump o l)) t)) as [[o1 w1] t1] eqn:E.
      inversion H; subst. f_equal. apply (IH _ _ _ _ _ E).
Qed.

Lemma finalize_all_kfilter rs : forall w t outs t', finalize_all rs w t = (outs, t') -> outs = map (kfilter rmF) rs.
Proof.
  induction rs as [|r rs IH]; intros w t outs t' H; cbn [finalize_all] in H; [inversion H; reflexivity|].
  destruct (finalize_routine r w t) as [[out w1] t1] eqn:E. destruct (finalize_all rs w1 t1) as [outs' t2] eqn:E2.
  inversion H; subst. cbn [map]. f_equal; [apply (finalize_routine_kfilter _ _ _ _ _ _ E) | apply (IH _ _ _ _ E2)].
Qed.

(* routine entries of input and output are related *)
Section FEntries.
  Variable rs : list (list pop).
  Hypothesis Hshape : forall r, In r rs -> shape2 r = true.

  Lemma f_phi_prefix pre post : rs = pre ++ post ->
    phi (keep3 rmF) (combine (annotate pop_isctx rs) (rests rs)) (length (concat pre)) = length (concat (map (kfilter rmF) pre)).
  Proof.
    intro E. unfold phi. rewrite E. rewrite annotate_app. unfold rests. rewrite flat_map_app. fold (rests pre). fold (rests post).
    rewrite combine_app by (rewrite annotate_length, rests_length; reflexivity).
    assert (Hl : length (combine (annotate pop_isctx pre) (rests pre)) = length (concat pre))
      by (rewrite combine_length, annotate_length, rests_length; lia).
    rewrite <- Hl. rewrite firstn_app, Nat.sub_diag, firstn_all. cbn [firstn]. rewrite app_nil_r.
    rewrite <- (annotate_kfilter rmF rmF_spec).
    - rewrite annotate_length. reflexivity.
    - intros r Hr. apply Hshape. rewrite E. apply in_or_app. left. exact Hr.
  Qed.

  Lemma f_entries_related : forall post pre, rs = pre ++ post ->
    Forall2 (entry_rel (ERel rmF rs))
      (pop_entries_of post (length (concat pre)))
      (pop_entries_of (map (kfilter rmF) post) (length (concat (map (kfilter rmF) pre)))).
  Proof.
    induction post as [|r post IH]; intros pre E; [constructor|].
    cbn [pop_entries_of map]. constructor.
    - destruct r as [|x r'].
      + reflexivity.
      + assert (Hne : kfilter rmF (x :: r') <> []) by (apply (kfilter_nonempty rmF rmF_spec); discriminate).
        destruct (kfilter rmF (x :: r')) as [|y ys] eqn:Ek; [contradiction|].
        cbn [entry_rel]. right. split.
        * rewrite E, concat_app, app_length. lia.
        * symmetry. apply (f_phi_prefix pre ((x :: r') :: post) E).
    - specialize (IH (pre ++ [r])). rewrite <- app_assoc in IH. specialize (IH E).
      rewrite !concat_app, !map_app, !concat_app, !app_length in IH. cbn [map concat] in IH. rewrite !app_nil_r in IH.
      exact IH.
  Qed.
End FEntries.

Definition jumps_defined (rs : list (list pop)) : bool :=
  forallb (fun x => match x with PJump _ l => match find_label l (concat rs) 0 with Some _ => true | None => false end | _ => true end)
          (concat rs).

Definition finalize_ok (rs : list (list pop)) : bool :=
  forallb (shape2) rs && nodup_nat (labels_of (concat rs)) && jumps_defined rs && negb (silent_cycle (cfg_of_pops rs)).

(* LabelFinalizer returns pseudo code that behaves like its input, routine by routine *)
Theorem finalize_preserves rs fin t :
  finalize rs = (fin, t) -> finalize_ok rs = true ->
  Forall2 (entry_rel (beh_eq (cfg_of_pops rs) (cfg_of_pops fin))) (pop_entries rs) (pop_entries fin).
Proof.
  unfold finalize. intros Hfin Hok. pose proof (finalize_all_kfilter _ _ _ _ _ Hfin) as ->.
  unfold finalize_ok in Hok. apply andb_true_iff in Hok. destruct Hok as [Hok Hcyc].
  apply andb_true_iff in Hok. destruct Hok as [Hok Hdef]. apply andb_true_iff in Hok. destruct Hok as [Hshape Hlab].
  assert (Hshape' : forall r, In r rs -> shape2 r = true) by (rewrite forallb_forall in Hshape; exact Hshape).
  assert (Hdef' : forall o l, In (PJump o l) (concat rs) -> find_label l (concat rs) 0 <> None).
  { intros o l Hin. unfold jumps_defined in Hdef. rewrite forallb_forall in Hdef. specialize (Hdef _ Hin). cbn in Hdef.
    destruct (find_label l (concat rs) 0); [discriminate | discriminate]. }
  assert (Hterm : forall a, a <= S (length (concat rs)) -> exists o, reaches (cfg_of_pops rs) a o).
  { intros a Ha. apply no_silent_cycle_reaches; [apply negb_true_iff; exact Hcyc | rewrite cfg_of_pops_length; lia]. }
  pose proof (f_entries_related rs Hshape' rs [] eq_refl) as HE. cbn [concat map length] in HE.
  unfold pop_entries. revert HE. generalize (pop_entries_of rs 0) (pop_entries_of (map (kfilter rmF) rs) 0).
  intros l1 l2 HE. induction HE as [|e1 e2 l1 l2 H1 HE IH]; constructor; [|exact IH].
  destruct e1 as [a|], e2 as [b|]; cbn [entry_rel] in *; try exact H1.
  apply (erase_preserves_behaviour rmF rmF_spec rs Hshape' (nodup_nat_sound _ Hlab) Hdef' Hterm a b H1).
Qed.

Lemma entries_trans g1 g2 g3 l1 l2 : Forall2 (entry_rel (beh_eq g1 g2)) l1 l2 ->
  forall l3, Forall2 (entry_rel (beh_eq g2 g3)) l2 l3 -> Forall2 (entry_rel (beh_eq g1 g3)) l1 l3.
Proof.
  induction 1 as [|e1 e2 l1 l2 H12 HF IH]; intros l3 H23; inversion H23 as [|? e3 ? l3' H23' HF']; subst; constructor.
  - destruct e1 as [a|], e2 as [b|], e3 as [c|]; cbn [entry_rel] in *; try contradiction; try exact I.
    apply (beh_eq_trans g1 g2 g3 a b c H12 H23').
  - apply IH. exact HF'.
Qed.

(* LabelFinalizer and OpsLabelJumpToRemover together: from the pseudo code strip_last_label hands over to the
   final op list *)
Theorem finalize_and_remove_preserve rs fin t P' :
  finalize rs = (fin, t) -> remove_all t fin = Ok P' ->
  finalize_ok rs = true -> backend_ok fin P' = true ->
  Forall2 (entry_rel (beh_eq (cfg_of_pops rs) (cfg_of_ssb P'))) (pop_entries rs) (ssb_entries P').
Proof.
  intros Hfin Hrem Hok1 Hok2.
  apply (entries_trans _ (cfg_of_pops fin) _ _ (pop_entries fin)).
  - apply (finalize_preserves rs fin t Hfin Hok1).
  - apply (label_resolution_preserves_b rs fin t P' Hfin Hrem Hok2).
Qed.
