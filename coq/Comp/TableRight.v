(* The label table LabelFinalizer builds maps every label of its output to the offset of the first op after it. *)
From ES Require Import Base Ssb.Param Ssb.Tables Ssb.Machine Comp.Passes Comp.PopSem Comp.RemoveSem.

(* the table as a function of the output alone *)
Fixpoint assign_spec (out : list pop) (waiting : list nat) (t : label_table) : list nat * label_table :=
  match out with
  | [] => (waiting, t)
  | PLabel l :: rest => assign_spec rest (waiting ++ [l]) t
  | x :: rest => assign_spec rest [] (assign waiting (pop_off x) t)
  end.

Lemma finalize_routine_assign r : forall waiting t out w t',
  finalize_routine r waiting t = (out, w, t') -> assign_spec out waiting t = (w, t').
Proof.
  induction r as [|x r IH]; intros waiting t out w t' H; cbn [finalize_routine] in H.
  - inversion H; subst. reflexivity.
  - destruct x as [o|l|o l].
    + cbn [andb] in H.
      destruct (finalize_routine r [] (assign waiting (pop_off (POp o)) t)) as [[out' w'] t''] eqn:E.
      inversion H; subst. cbn [assign_spec]. apply IH. exact E.
    + destruct (finalize_routine r (waiting ++ [l]) t) as [[out' w'] t''] eqn:E.
      inversion H; subst. cbn [assign_spec]. apply IH. exact E.
    + destruct (is_plain_jump (PJump o l) && existsb (Nat.eqb l) (labels_after r)).
      * apply IH. exact H.
      * destruct (finalize_routine r [] (assign waiting (pop_off (PJump o l)) t)) as [[out' w'] t''] eqn:E.
        inversion H; subst. cbn [assign_spec]. apply IH. exact E.
Qed.

Lemma assign_spec_app a : forall b w t,
  assign_spec (a ++ b) w t = let '(w1, t1) := assign_spec a w t in assign_spec b w1 t1.
Proof.
  induction a as [|x a IH]; intros b w t; [reflexivity|].
  cbn [app assign_spec]. destruct x; apply IH.
Qed.

Lemma finalize_all_assign rs : forall waiting t outs t',
  finalize_all rs waiting t = (outs, t') -> exists w, assign_spec (concat outs) waiting t = (w, t').
Proof.
  induction rs as [|r rs IH]; intros waiting t outs t' H; cbn [finalize_all] in H.
  - inversion H; subst. exists waiting. reflexivity.
  - destruct (finalize_routine r waiting t) as [[out w] t1] eqn:E.
    destruct (finalize_all rs w t1) as [outs' t2] eqn:E2. inversion H; subst.
    destruct (IH _ _ _ _ E2) as [w' Hw]. exists w'.
    cbn [concat]. rewrite assign_spec_app, (finalize_routine_assign _ _ _ _ _ _ E). exact Hw.
Qed.

Lemma lookup_assign l ws z t :
  lookup_label l (assign ws z t) = if existsb (Nat.eqb l) ws then Some z else lookup_label l t.
Proof.
  revert t. induction ws as [|w ws IH]; intro t; [reflexivity|].
  cbn [assign existsb]. rewrite IH. cbn [lookup_label].
  destruct (existsb (Nat.eqb l) ws); [rewrite orb_true_r; reflexivity|]. rewrite orb_false_r.
  rewrite Nat.eqb_sym. destruct (Nat.eqb l w); reflexivity.
Qed.

Lemma NoDup_app_r {A} (a b : list A) : NoDup (a ++ b) -> NoDup b.
Proof. induction a as [|x a IH]; [trivial|]. cbn [app]. intro H. inversion H; subst. apply IH. assumption. Qed.

Fixpoint labels_of (ps : list pop) : list nat :=
  match ps with [] => [] | PLabel l :: r => l :: labels_of r | _ :: r => labels_of r end.

Lemma find_label_None l ps : forall s, ~ In l (labels_of ps) -> find_label l ps s = None.
Proof.
  induction ps as [|x ps IH]; intros s H; [reflexivity|]. cbn [find_label].
  destruct x as [o|l'|o l']; cbn [labels_of] in H; try (apply IH; exact H).
  destruct (Nat.eqb l' l) eqn:E; [apply Nat.eqb_eq in E; subst; exfalso; apply H; left; reflexivity|].
  apply IH. intro Hin. apply H. right. exact Hin.
Qed.

Lemma mem_app l a b : existsb (Nat.eqb l) (a ++ b) = existsb (Nat.eqb l) a || existsb (Nat.eqb l) b.
Proof. apply existsb_app. Qed.

(* a label that is waiting, or defined in [ps], gets the offset of the next op - or is still waiting at the end *)
Lemma assign_spec_inv ps : forall w0 t0 w t, assign_spec ps w0 t0 = (w, t) -> NoDup (w0 ++ labels_of ps) ->
  forall l,
    (existsb (Nat.eqb l) w0 = true ->
       match next_off ps with
       | Some z => lookup_label l t = Some z
       | None => existsb (Nat.eqb l) w = true
       end) /\
    (forall i s, find_label l ps s = Some i ->
       match next_off (skipn (i - s) ps) with
       | Some z => lookup_label l t = Some z
       | None => existsb (Nat.eqb l) w = true
       end) /\
    (existsb (Nat.eqb l) w0 = false -> ~ In l (labels_of ps) -> lookup_label l t = lookup_label l t0).
Proof.
  induction ps as [|x ps IH]; intros w0 t0 w t H Hnd l; cbn [assign_spec] in H.
  - inversion H; subst. cbn [next_off]. repeat split; [intro E; exact E | intros i s Hf; discriminate].
  - destruct x as [o|l'|o l'].
    + (* an op: everything waiting is assigned its offset *)
      cbn [labels_of] in Hnd.
      assert (Hnd' : NoDup ([] ++ labels_of ps)) by (apply NoDup_app_r in Hnd; exact Hnd).
      destruct (IH _ _ _ _ H Hnd' l) as (_ & I2 & I3).
      assert (Hl0 : existsb (Nat.eqb l) w0 = true -> ~ In l (labels_of ps)).
      { intros Hw Hin. apply existsb_exists in Hw. destruct Hw as [y [Hy Ey]]. apply Nat.eqb_eq in Ey. subst y.
        clear - Hnd Hy Hin. induction w0 as [|a w0 IHw]; [contradiction|]. cbn [app] in Hnd. inversion Hnd; subst.
        destruct Hy as [->|Hy]; [apply H1; apply in_or_app; right; exact Hin | apply IHw; assumption]. }
      split; [|split].
      * intro Hw. cbn [next_off]. rewrite (I3 eq_refl (Hl0 Hw)). rewrite lookup_assign, Hw. reflexivity.
      * intros i s Hf. cbn [find_label] in Hf. destruct (find_label_lt _ _ _ _ Hf) as [Hr _].
        specialize (I2 i (S s) Hf). replace (i - s) with (S (i - S s)) by lia. cbn [skipn]. exact I2.
      * intros Hw Hnin. cbn [labels_of] in Hnin. rewrite (I3 eq_refl Hnin). rewrite lookup_assign, Hw. reflexivity.
    + (* a label joins the waiting ones *)
      cbn [labels_of] in Hnd.
      assert (Hnd' : NoDup ((w0 ++ [l']) ++ labels_of ps)) by (rewrite <- app_assoc; exact Hnd).
      destruct (IH _ _ _ _ H Hnd' l) as (I1 & I2 & I3).
      split; [|split].
      * intro Hw. cbn [next_off]. apply I1. rewrite mem_app, Hw. reflexivity.
      * intros i s Hf. cbn [find_label] in Hf. destruct (Nat.eqb l' l) eqn:E.
        -- apply Nat.eqb_eq in E. subst l'. inversion Hf; subst i. rewrite Nat.sub_diag. cbn [skipn next_off].
           apply I1. rewrite mem_app. cbn [existsb]. rewrite Nat.eqb_refl. rewrite orb_true_r. reflexivity.
        -- destruct (find_label_lt _ _ _ _ Hf) as [Hr _].
           specialize (I2 i (S s) Hf). replace (i - s) with (S (i - S s)) by lia. cbn [skipn]. exact I2.
      * intros Hw Hnin. cbn [labels_of] in Hnin. apply I3.
        -- rewrite mem_app, Hw. cbn [existsb]. rewrite orb_false_r.
           apply Nat.eqb_neq. intro E. apply Hnin. left. symmetry. exact E.
        -- intro Hin. apply Hnin. right. exact Hin.
    + cbn [labels_of] in Hnd.
      assert (Hnd' : NoDup ([] ++ labels_of ps)) by (apply NoDup_app_r in Hnd; exact Hnd).
      destruct (IH _ _ _ _ H Hnd' l) as (_ & I2 & I3).
      assert (Hl0 : existsb (Nat.eqb l) w0 = true -> ~ In l (labels_of ps)).
      { intros Hw Hin. apply existsb_exists in Hw. destruct Hw as [y [Hy Ey]]. apply Nat.eqb_eq in Ey. subst y.
        clear - Hnd Hy Hin. induction w0 as [|a w0 IHw]; [contradiction|]. cbn [app] in Hnd. inversion Hnd; subst.
        destruct Hy as [->|Hy]; [apply H1; apply in_or_app; right; exact Hin | apply IHw; assumption]. }
      split; [|split].
      * intro Hw. cbn [next_off]. rewrite (I3 eq_refl (Hl0 Hw)). rewrite lookup_assign, Hw. reflexivity.
      * intros i s Hf. cbn [find_label] in Hf. destruct (find_label_lt _ _ _ _ Hf) as [Hr _].
        specialize (I2 i (S s) Hf). replace (i - s) with (S (i - S s)) by lia. cbn [skipn]. exact I2.
      * intros Hw Hnin. cbn [labels_of] in Hnin. rewrite (I3 eq_refl Hnin). rewrite lookup_assign, Hw. reflexivity.
Qed.

(* in well-shaped pseudo code every position is followed, in its own routine, by an op *)
Lemma next_off_app a b : next_off a <> None -> next_off (a ++ b) = next_off a.
Proof.
  induction a as [|x a IH]; intro H; [contradiction|]. destruct x as [o|l|o l]; cbn [app next_off] in *; try reflexivity.
  apply IH. exact H.
Qed.

Lemma shape_next r : shape_ok r = true -> forall j, j < length r -> next_off (skipn j r) <> None.
Proof.
  induction r as [|x r IH]; intros Hs j Hj; [cbn in Hj; lia|].
  cbn [shape_ok] in Hs. destruct r as [|y r'].
  - destruct j; [|cbn in Hj; lia]. cbn [skipn next_off]. destruct x; cbn [is_label negb] in Hs; discriminate.
  - apply andb_true_iff in Hs. destruct Hs as [_ Hs]. destruct j as [|j].
    + cbn [skipn next_off]. destruct x as [o|l|o l]; try discriminate.
      apply (IH Hs 0). cbn [length]. lia.
    + cbn [skipn]. apply IH; [exact Hs | cbn [length] in *; lia].
Qed.

Lemma flat_next rs : (forall r, In r rs -> shape_ok r = true) ->
  forall i, i < length (concat rs) -> next_off (skipn i (concat rs)) <> None.
Proof.
  induction rs as [|r rs IH]; intros Hs i Hi; [cbn in Hi; lia|].
  cbn [concat] in *. rewrite skipn_app. rewrite app_length in Hi.
  destruct (Nat.lt_ge_cases i (length r)) as [Hlt|Hge].
  - rewrite next_off_app; apply shape_next; try assumption; apply Hs; left; reflexivity.
  - rewrite (skipn_all2 r) by lia. cbn [app]. apply IH; [intros r' Hr; apply Hs; right; exact Hr | lia].
Qed.

(* ---- the table of the real pass ---- *)
Theorem finalize_table_right rs fin t :
  finalize rs = (fin, t) ->
  NoDup (labels_of (concat fin)) ->
  (forall r, In r fin -> shape_ok r = true) ->
  table_right (concat fin) t.
Proof.
  unfold finalize. intros H Hnd Hs.
  destruct (finalize_all_assign _ _ _ _ _ H) as [w Hw].
  intro l. pose proof (assign_spec_inv _ _ _ _ _ Hw Hnd l) as (_ & I2 & I3).
  destruct (find_label l (concat fin) 0) as [i|] eqn:F.
  - specialize (I2 i 0 F). rewrite Nat.sub_0_r in I2.
    destruct (find_label_lt _ _ _ _ F) as [Hr _]. cbn in Hr.
    pose proof (flat_next fin Hs i ltac:(lia)) as Hn.
    destruct (next_off (skipn i (concat fin))) as [z|]; [|contradiction]. exists z. split; [exact I2 | reflexivity].
  - rewrite I3; [reflexivity | reflexivity|].
    intro Hin. clear - F Hin. revert F. generalize 0. induction (concat fin) as [|x ps IH]; intros s F; [contradiction|].
    cbn [find_label] in F. destruct x as [o|l'|o l']; cbn [labels_of] in Hin; try (apply (IH Hin _ F)).
    destruct (Nat.eqb l' l) eqn:E; [discriminate|]. destruct Hin as [->|Hin]; [rewrite Nat.eqb_refl in E; discriminate|].
    apply (IH Hin _ F).
Qed.
