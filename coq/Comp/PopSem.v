(* The meaning of the compiler's pseudo code (operations, labels, label jumps) between the handlers and the
   label passes, as a control-flow graph in the common domain: a label is a silent node, a label jump goes
   to the node of its label (looked up over all routines), running past the end of a routine is the
   implicit return.  Model file: definitions only. *)
From ES Require Import Base Ssb.Param Ssb.Cfg Ssb.Tables Ssb.Machine Comp.Passes.

Fixpoint find_label (l : nat) (ps : list pop) (i : nat) : option nat :=
  match ps with
  | [] => None
  | PLabel l' :: r => if Nat.eqb l' l then Some i else find_label l r (S i)
  | _ :: r => find_label l r (S i)
  end.

Definition node_of_pop (all : list pop) (stopn : nat) (x : pop) (nxt : nat) (prev_ctx : bool) : node :=
  match x with
  | POp o => if ends_flow (code o) && negb prev_ctx then NOp (code o, params o) stopn
             else NOp (code o, params o) nxt
  | PLabel _ => NGoto nxt
  | PJump o l =>
      match find_label l all 0 with
      | Some t => if is_jump (code o) then NGoto t else NTest (code o, params o) t nxt
      | None => NStuck
      end
  end.

Fixpoint nodes_of_pops (all : list pop) (fall stopn : nat) (r : list pop) (g : nat) (prev_ctx : bool) : list node :=
  match r with
  | [] => []
  | x :: rest =>
      let nxt := match rest with [] => fall | _ => S g end in
      node_of_pop all stopn x nxt prev_ctx :: nodes_of_pops all fall stopn rest (S g) (is_ctx (pname x))
  end.

Fixpoint nodes_of_pop_program (all : list pop) (fall stopn : nat) (rs : list (list pop)) (g : nat) : list node :=
  match rs with
  | [] => []
  | r :: rest => nodes_of_pops all fall stopn r g false ++ nodes_of_pop_program all fall stopn rest (g + length r)
  end.

Definition cfg_of_pops (rs : list (list pop)) : cfg :=
  let all := concat rs in
  let n := length all in
  nodes_of_pop_program all n (S n) rs 0 ++ [implicit_return (S n); NStop].

(* entry node of every routine *)
Fixpoint pop_entries_of (rs : list (list pop)) (g : nat) : list (option nat) :=
  match rs with
  | [] => []
  | r :: rest => (match r with [] => None | _ => Some g end) :: pop_entries_of rest (g + length r)
  end.
Definition pop_entries (rs : list (list pop)) : list (option nat) := pop_entries_of rs 0.
