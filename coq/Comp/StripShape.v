(* strip_last_label leaves no routine that ends in a label (one of the premises of the back-end theorem). *)
From ES Require Import Base Ssb.Param Ssb.Tables Ssb.Machine Comp.Passes.

Lemma strip_sweep_length l r : forall prev obe, length (strip_sweep l r prev obe) <= length r.
Proof.
  induction r as [|x r IH]; intros prev obe; [cbn; lia|].
  cbn [strip_sweep]. destruct x as [o|l'|o l'].
  - cbn [length]. specialize (IH (Some (POp o)) (ends_cf (POp o) prev)). lia.
  - cbn [length]. specialize (IH (Some (PLabel l')) false). lia.
  - destruct (Nat.eqb l' l).
    + destruct obe.
      * specialize (IH (Some (PJump o l')) true). cbn [length]. lia.
      * cbn [length]. specialize (IH (Some (dummy_end (off o))) false). lia.
    + cbn [length]. specialize (IH (Some (PJump o l')) (ends_cf (PJump o l') prev)). lia.
Qed.

Lemma last_label_nonempty r l : last_label r = Some l -> r <> [].
Proof. intros H E. subst r. discriminate. Qed.

Lemma removelast_length {A} (l : list A) : l <> [] -> length (removelast l) = length l - 1.
Proof.
  intro H. destruct (exists_last H) as [l' [a ->]]. rewrite removelast_last, app_length. cbn [length]. lia.
Qed.

Theorem strip_routine_no_trailing_label : forall fuel r, length r <= fuel -> last_label (strip_routine fuel r) = None.
Proof.
  induction fuel as [|fuel IH]; intros r Hlen.
  - destruct r; [reflexivity | cbn in Hlen; lia].
  - cbn [strip_routine]. destruct (last_label r) as [l|] eqn:E; [|exact E].
    apply IH. pose proof (strip_sweep_length l (removelast r) None false).
    rewrite (removelast_length r (last_label_nonempty r l E)) in H.
    assert (r <> []) by (apply (last_label_nonempty r l E)). destruct r; [contradiction|]. cbn [length] in *. lia.
Qed.

Theorem strip_no_trailing_label rs : forall r, In r (strip rs) -> last_label r = None.
Proof.
  unfold strip. intros r Hin. apply in_map_iff in Hin. destruct Hin as [r0 [<- _]].
  apply strip_routine_no_trailing_label. lia.
Qed.
