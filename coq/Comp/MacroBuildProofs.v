(* What ExplorerScriptMacro.build produces, for every blueprint, argument list and pair of counters: the blueprint
   under an injective renaming of its labels into numbers nobody had before, between a start and an end label. *)
From ES Require Import Base Ssb.Param Lang.Ast Lang.Inline Comp.MacroBuild.
From Coq Require Import Lia.

Definition rho_of (m : lmap) (id : nat) : nat * lkind :=
  match lookup m id with Some v => v | None => (0, LPlain) end.

Definition Inv (e : nat) (m : lmap) (cl : nat) : Prop :=
  (forall id v, lookup m id = Some v -> e < fst v <= cl) /\
  (forall i j v w, lookup m i = Some v -> lookup m j = Some w -> fst v = fst w -> i = j).

Definition extends (m m' : lmap) : Prop := forall id v, lookup m id = Some v -> lookup m' id = Some v.

Lemma fresh_spec e m cl id k m1 cl1 v :
  fresh m cl id k = (m1, cl1, v) -> e <= cl -> Inv e m cl ->
  Inv e m1 cl1 /\ cl <= cl1 /\ extends m m1 /\ lookup m1 id = Some v /\
  (lookup m id = None -> snd v = k) /\
  (forall j, j <> id -> lookup m1 j = lookup m j).
Proof.
  unfold fresh. intros F Hle [Hb Hi]. destruct (lookup m id) as [v0|] eqn:L.
  - injection F as <- <- <-.
    split; [split; [exact Hb | exact Hi]|]. split; [lia|]. split; [intros ? ? H; exact H|]. split; [exact L|].
    split; [discriminate | reflexivity].
  - injection F as <- <- <-.
    assert (Lk : forall j, lookup ((id, (S cl, k)) :: m) j = if Nat.eqb j id then Some (S cl, k) else lookup m j) by reflexivity.
    split; [split|].
    + intros j w H. rewrite Lk in H. destruct (Nat.eqb j id); [injection H as <-; cbn; lia | apply Hb in H; lia].
    + intros i j v w Li Lj E. rewrite Lk in Li, Lj.
      destruct (Nat.eqb_spec i id) as [->|Ni]; destruct (Nat.eqb_spec j id) as [->|Nj]; auto.
      * injection Li as <-. apply Hb in Lj. cbn in E. lia.
      * injection Lj as <-. apply Hb in Li. cbn in E. lia.
      * eapply Hi; eauto.
    + split; [lia|]. split.
      { intros j w Lj. rewrite Lk. destruct (Nat.eqb_spec j id) as [->|]; [congruence | exact Lj]. }
      split; [rewrite Lk, Nat.eqb_refl; reflexivity|]. split; [reflexivity|].
      intros j Nj. rewrite Lk. destruct (Nat.eqb_spec j id); [contradiction | reflexivity].
Qed.

Lemma rho_of_ext m m' id v : extends m m' -> lookup m id = Some v -> rho_of m' id = v.
Proof. intros E L. unfold rho_of. rewrite (E _ _ L). reflexivity. Qed.

Lemma extends_trans a b c : extends a b -> extends b c -> extends a c.
Proof. intros H1 H2 id v L. apply H2, H1, L. Qed.

Lemma go_spec s e : forall bp m cl co out m' cl' co',
  go s e bp m cl co = (out, (m', cl', co')) -> e <= cl -> Inv e m cl ->
  Inv e m' cl' /\ cl <= cl' /\ co' = co + count_ops bp /\ extends m m' /\
  (forall id, In id (ids bp) -> lookup m' id <> None) /\
  (forall id k, lookup m id = None -> first_kind bp id = Some k -> snd (rho_of m' id) = k) /\
  out = renamed s e (rho_of m') bp co.
Proof.
  induction bp as [|b bp IH]; intros m cl co out m' cl' co' G Hle HI.
  - cbn in G. inversion G; subst; clear G. cbn.
    split; [exact HI|]. split; [lia|]. split; [lia|]. split; [intros ? ? H; exact H|].
    split; [intros ? []|]. split; [intros; discriminate | reflexivity].
  - destruct b as [code ps | id k | code ps id k]; cbn [go] in G.
    + destruct (go s e bp m cl (S co)) as [out1 st1] eqn:G1. inversion G; subst; clear G.
      destruct (IH _ _ _ _ _ _ _ G1 Hle HI) as (I1 & L1 & C1 & E1 & D1 & K1 & O1).
      cbn [count_ops ids flat_map ids_of app first_kind renamed].
      split; [exact I1|]. split; [lia|]. split; [lia|]. split; [exact E1|]. split; [exact D1|]. split; [exact K1|].
      rewrite O1. reflexivity.
    + destruct (fresh m cl id k) as [[m1 cl1] v] eqn:F.
      destruct (go s e bp m1 cl1 co) as [out1 st1] eqn:G1. inversion G; subst; clear G.
      destruct (fresh_spec _ _ _ _ _ _ _ _ F Hle HI) as (I0 & L0 & E0 & V0 & K0 & S0).
      destruct (IH _ _ _ _ _ _ _ G1 ltac:(lia) I0) as (I1 & L1 & C1 & E1 & D1 & K1 & O1).
      cbn [count_ops ids flat_map ids_of app first_kind renamed].
      split; [exact I1|]. split; [lia|]. split; [lia|]. split; [eapply extends_trans; eauto|].
      split; [intros j [<-|Hj]; [rewrite (E1 _ _ V0); discriminate | apply D1, Hj]|].
      split.
      * intros j kk Lj Fk. destruct (Nat.eqb_spec j id) as [->|Nj].
        -- injection Fk as <-. rewrite (rho_of_ext _ _ _ _ E1 V0). apply K0, Lj.
        -- apply K1; [rewrite S0; auto | exact Fk].
      * rewrite (rho_of_ext _ _ _ _ E1 V0), O1. reflexivity.
    + destruct (fresh m cl id k) as [[m1 cl1] v] eqn:F.
      destruct (go s e bp m1 cl1 (S co)) as [out1 st1] eqn:G1. inversion G; subst; clear G.
      destruct (fresh_spec _ _ _ _ _ _ _ _ F Hle HI) as (I0 & L0 & E0 & V0 & K0 & S0).
      destruct (IH _ _ _ _ _ _ _ G1 ltac:(lia) I0) as (I1 & L1 & C1 & E1 & D1 & K1 & O1).
      cbn [count_ops ids flat_map ids_of app first_kind renamed].
      split; [exact I1|]. split; [lia|]. split; [lia|]. split; [eapply extends_trans; eauto|].
      split; [intros j [<-|Hj]; [rewrite (E1 _ _ V0); discriminate | apply D1, Hj]|].
      split.
      * intros j kk Lj Fk. destruct (Nat.eqb_spec j id) as [->|Nj].
        -- injection Fk as <-. rewrite (rho_of_ext _ _ _ _ E1 V0). apply K0, Lj.
        -- apply K1; [rewrite S0; auto | exact Fk].
      * rewrite (rho_of_ext _ _ _ _ E1 V0), O1. reflexivity.
Qed.

Lemma Inv_empty e cl : Inv e [] cl.
Proof. split; intros; discriminate. Qed.

(* the expansion is the blueprint renamed: injectively, into label numbers above both labels of the expansion and above
   every number the counter had given out before, every copy with the kind of the first mention *)
Theorem build_is_renaming s bp cl co :
  exists rho cl',
    build s bp cl co =
      (OLab (S cl) (LStart (S (count_ops bp))) :: renamed s (S (S cl)) rho bp co ++ [OLab (S (S cl)) LEnd],
       cl', co + count_ops bp)
    /\ S (S cl) <= cl'
    /\ (forall i, In i (ids bp) -> S (S cl) < fst (rho i) <= cl')
    /\ (forall i j, In i (ids bp) -> In j (ids bp) -> fst (rho i) = fst (rho j) -> i = j)
    /\ (forall i k, first_kind bp i = Some k -> snd (rho i) = k).
Proof.
  unfold build. destruct (go s (S (S cl)) bp [] (S (S cl)) co) as [out [[m' cl'] co']] eqn:G.
  destruct (go_spec _ _ _ _ _ _ _ _ _ _ G (le_n _) (Inv_empty _ _)) as ([Hb Hi] & L1 & C1 & E1 & D1 & K1 & O1).
  exists (rho_of m'), cl'. subst out co'.
  split; [reflexivity|]. split; [exact L1|]. split; [|split].
  - intros i H. specialize (D1 _ H). unfold rho_of. destruct (lookup m' i) eqn:L; [apply (Hb _ _ L) | contradiction].
  - intros i j Hi' Hj' E. pose proof (D1 _ Hi') as Di. pose proof (D1 _ Hj') as Dj. unfold rho_of in E.
    destruct (lookup m' i) eqn:Li; [|contradiction]. destruct (lookup m' j) eqn:Lj; [|contradiction].
    eapply Hi; eauto.
  - intros i k Fk. apply K1; [reflexivity | exact Fk].
Qed.

(* ---- consequences ---- *)

Lemma renamed_labels s e rho : forall bp co l,
  In l (out_labels (renamed s e rho bp co)) -> l = e \/ exists i, In i (ids bp) /\ l = fst (rho i).
Proof.
  induction bp as [|b bp IH]; intros co l H; [contradiction|].
  destruct b as [code ps | id k | code ps id k]; cbn [renamed out_labels flat_map labels_of ids ids_of app] in *.
  - destruct (is_return code); cbn [labels_of app] in H.
    + destruct H as [<-|H]; [left; reflexivity|]. apply IH in H. exact H.
    + apply IH in H. exact H.
  - destruct H as [<-|H]; [right; exists id; split; [left|]; reflexivity|].
    apply IH in H. destruct H as [->|(i & Hi & ->)]; [left; reflexivity | right; exists i; split; [right|]; auto].
  - destruct H as [<-|H]; [right; exists id; split; [left|]; reflexivity|].
    apply IH in H. destruct H as [->|(i & Hi & ->)]; [left; reflexivity | right; exists i; split; [right|]; auto].
Qed.

Lemma out_labels_app a b : out_labels (a ++ b) = out_labels a ++ out_labels b.
Proof. unfold out_labels. apply flat_map_app. Qed.

(* every label an expansion emits or jumps to was handed out by the label counter during this very build *)
Theorem build_labels_fresh s bp cl co out cl' co' :
  build s bp cl co = (out, cl', co') -> forall l, In l (out_labels out) -> cl < l <= cl'.
Proof.
  intros B l H. destruct (build_is_renaming s bp cl co) as (rho & cl1 & E & Hle & Hr & _ & _).
  rewrite E in B. injection B as <- <- <-.
  change (In l (S cl :: out_labels (renamed s (S (S cl)) rho bp co ++ [OLab (S (S cl)) LEnd]))) in H.
  destruct H as [<-|H]; [lia|]. rewrite out_labels_app in H. apply in_app_or in H. destruct H as [H|H].
  - apply renamed_labels in H. destruct H as [->|(i & Hi & ->)]; [lia | specialize (Hr _ Hi); lia].
  - cbn in H. destruct H as [<-|[]]. lia.
Qed.

(* labels are private to each expansion: two builds - of the same macro or of different ones, one after the other with
   the compiler's counter, anything built in between - share no label *)
Theorem expansions_share_no_label s1 bp1 cl1 co1 out1 cl1' co1' s2 bp2 cl2 co2 out2 cl2' co2' :
  build s1 bp1 cl1 co1 = (out1, cl1', co1') -> build s2 bp2 cl2 co2 = (out2, cl2', co2') -> cl1' <= cl2 ->
  forall l, In l (out_labels out1) -> ~ In l (out_labels out2).
Proof.
  intros B1 B2 Hle l H1 H2.
  pose proof (build_labels_fresh _ _ _ _ _ _ _ B1 _ H1). pose proof (build_labels_fresh _ _ _ _ _ _ _ B2 _ H2). lia.
Qed.

(* `return` leaves only the macro: the end label of the expansion is no copy of a blueprint label, so it stands exactly
   once, at the end, and the jumps that replace Return operations go there *)
Theorem end_label_only_at_end s bp cl co rho cl' :
  (forall i, In i (ids bp) -> S (S cl) < fst (rho i) <= cl') ->
  forall k, ~ In (OLab (S (S cl)) k) (renamed s (S (S cl)) rho bp co).
Proof.
  intros Hr k. revert co. induction bp as [|b bp IH]; intros co H; [contradiction|].
  assert (Hr' : forall i, In i (ids bp) -> S (S cl) < fst (rho i) <= cl').
  { intros i Hi. apply Hr. unfold ids in *. cbn [flat_map]. apply in_or_app. right. exact Hi. }
  destruct b as [code ps | id kk | code ps id kk]; cbn [renamed] in H.
  - destruct H as [H|H]; [destruct (is_return code); discriminate | exact (IH Hr' _ H)].
  - destruct H as [H|H]; [|exact (IH Hr' _ H)].
    injection H as E _. specialize (Hr id ltac:(cbn; left; reflexivity)). lia.
  - destruct H as [H|H]; [discriminate | exact (IH Hr' _ H)].
Qed.

(* the operations of an expansion are numbered consecutively from the counter on *)
Lemma renamed_numbers s e rho : forall bp co, out_numbers (renamed s e rho bp co) = seq (S co) (count_ops bp).
Proof.
  induction bp as [|b bp IH]; intros co; [reflexivity|].
  destruct b as [code ps | id k | code ps id k]; cbn [renamed out_numbers flat_map numbers_of count_ops seq app].
  - destruct (is_return code); cbn [numbers_of app]; f_equal; apply IH.
  - apply IH.
  - f_equal. apply IH.
Qed.

Theorem build_numbers s bp cl co out cl' co' :
  build s bp cl co = (out, cl', co') -> out_numbers out = seq (S co) (count_ops bp) /\ co' = co + count_ops bp.
Proof.
  intros B. destruct (build_is_renaming s bp cl co) as (rho & cl1 & E & _).
  rewrite E in B. injection B as <- <- <-. split; [|reflexivity].
  unfold out_numbers. cbn [flat_map numbers_of app]. rewrite flat_map_app. cbn. rewrite app_nil_r. apply renamed_numbers.
Qed.

(* non-vacuity: a blueprint with a loop (label, jump back), a return, a variable, expanded twice in a row *)
Definition ex_bp : list bitem :=
  [BLab 7 LPlain; BOp "a" [PConst "$x"]; BJmp "Branch" [PInt 1] 9 LPlain; BOp "Return" []; BLab 9 LPlain; BJmp "Jump" [] 7 LPlain].
Example ex_build :
  build [("$x"%string, PInt 5)] ex_bp 10 100 =
  ([OLab 11 (LStart 5); OLab 13 LPlain; OOp 101 "a" [PInt 5]; OJmp 102 "Branch" [PInt 1] 14; OJmp 103 "Jump" [] 12;
    OLab 14 LPlain; OJmp 104 "Jump" [] 13; OLab 12 LEnd], 14, 104).
Proof. vm_compute. reflexivity. Qed.
