(* Label resolution (LabelFinalizer's table + OpsLabelJumpToRemover) keeps the behaviour of every routine. *)
From ES Require Import Base Ssb.Param Ssb.Cfg Ssb.Tables Ssb.Machine Ssb.Silent
  Comp.Passes Comp.PopSem Comp.Flat Comp.RemoveSem Comp.TableRight.

Definition entry_rel (R : nat -> nat -> Prop) (e1 e2 : option nat) : Prop :=
  match e1, e2 with
  | Some a, Some b => R a b
  | None, None => True
  | _, _ => False
  end.

Lemma annotate_app {A} (isctx : A -> bool) a b : annotate isctx (a ++ b) = annotate isctx a ++ annotate isctx b.
Proof. unfold annotate. apply flat_map_app. Qed.

Section Entries.
  Variable fin : list (list pop).
  Variable t : label_table.
  Variable P' : program.
  Hypothesis Hrem : remove_all t fin = Ok P'.
  Hypothesis Hshape : forall r, In r fin -> shape_ok r = true /\ forallb pop_wf r = true.

  Lemma good_routine r : In r fin -> shape_ok r = true /\ forallb pop_wf r = true /\ jumps_resolved t r.
  Proof.
    intro Hin. destruct (Hshape r Hin) as [H1 H2]. split; [exact H1|]. split; [exact H2|].
    apply (proj2 (remove_all_omap _ _ _ Hrem)). exact Hin.
  Qed.

  Lemma phi_prefix pre post : fin = pre ++ post ->
    phi (conv3 t) (annotate pop_isctx fin) (length (concat pre)) = length (concat (map (omap (conv t)) pre)).
  Proof.
    intro E. unfold phi. rewrite E, annotate_app.
    rewrite <- (annotate_length pop_isctx pre). rewrite firstn_app, Nat.sub_diag, firstn_all. cbn [firstn]. rewrite app_nil_r.
    rewrite <- annotate_omap.
    - rewrite annotate_length. reflexivity.
    - intros r Hr. apply good_routine. rewrite E. apply in_or_app. left. exact Hr.
  Qed.

  Lemma entries_related : forall post pre, fin = pre ++ post ->
    Forall2 (entry_rel (Rel fin t P'))
      (pop_entries_of post (length (concat pre)))
      (entries_of (map (omap (conv t)) post) (length (concat (map (omap (conv t)) pre)))).
  Proof.
    induction post as [|r post IH]; intros pre E; [constructor|].
    cbn [pop_entries_of map entries_of]. constructor.
    - assert (Hr : In r fin) by (rewrite E; apply in_or_app; right; left; reflexivity).
      destruct (good_routine r Hr) as (Hs & _ & Hj).
      destruct r as [|x r'].
      + reflexivity.
      + assert (Hne : omap (conv t) (x :: r') <> []) by (apply omap_nonempty; [exact Hs | exact Hj | discriminate]).
        destruct (omap (conv t) (x :: r')) as [|o os] eqn:Eo; [contradiction|].
        cbn [entry_rel]. right. split.
        * rewrite E, concat_app, app_length. lia.
        * symmetry. apply (phi_prefix pre (((x :: r')) :: post) E).
    - specialize (IH (pre ++ [r])). rewrite <- app_assoc in IH. specialize (IH E).
      rewrite !concat_app, !map_app, !concat_app, !app_length in IH. cbn [map concat] in IH. rewrite !app_nil_r in IH.
      exact IH.
  Qed.
End Entries.

(* The two passes together: for the table LabelFinalizer computes and the op list OpsLabelJumpToRemover builds
   from it, every routine of the op list behaves like the corresponding routine of the pseudo code. *)
Theorem label_resolution_preserves rs fin t P' :
  finalize rs = (fin, t) ->
  remove_all t fin = Ok P' ->
  (forall r, In r fin -> shape_ok r = true /\ forallb pop_wf r = true) ->
  NoDup (labels_of (concat fin)) ->
  NoDup (map off (all_ops P')) ->
  (forall a, a <= S (length (concat fin)) -> exists o, reaches (cfg_of_pops fin) a o) ->
  Forall2 (entry_rel (beh_eq (cfg_of_pops fin) (cfg_of_ssb P'))) (pop_entries fin) (ssb_entries P').
Proof.
  intros Hfin Hrem Hshape Hlab Hoffs Hterm.
  assert (Htable : table_right (concat fin) t).
  { apply (finalize_table_right rs fin t Hfin Hlab). intros r Hr. apply (Hshape r Hr). }
  pose proof (entries_related fin t P' Hrem Hshape fin [] eq_refl) as HE.
  cbn [concat map length] in HE. unfold pop_entries, ssb_entries.
  rewrite (proj1 (remove_all_omap _ _ _ Hrem)).
  revert HE. generalize (pop_entries_of fin 0) (entries_of (map (omap (conv t)) fin) 0).
  intros l1 l2 HE. induction HE as [|e1 e2 l1 l2 H1 HE IH]; constructor; [|exact IH].
  destruct e1 as [a|], e2 as [b|]; cbn [entry_rel] in *; try exact H1.
  rewrite <- (proj1 (remove_all_omap _ _ _ Hrem)).
  apply (remove_preserves_behaviour fin t P' Hrem Hshape Hoffs Htable Hterm a b H1).
Qed.

(* ---- the premises as one boolean, evaluated on every captured compilation ---- *)
Fixpoint nodup_nat (l : list nat) : bool :=
  match l with [] => true | x :: r => negb (existsb (Nat.eqb x) r) && nodup_nat r end.
Lemma nodup_nat_sound l : nodup_nat l = true -> NoDup l.
Proof.
  induction l as [|x r IH]; cbn [nodup_nat]; intro H; [constructor|].
  apply andb_true_iff in H. destruct H as [H1 H2]. constructor; [|apply IH; exact H2].
  intro Hin. apply negb_true_iff in H1.
  assert (existsb (Nat.eqb x) r = true) by (apply existsb_exists; exists x; split; [exact Hin | apply Nat.eqb_refl]). congruence.
Qed.
Fixpoint nodup_zb (l : list Z) : bool :=
  match l with [] => true | x :: r => negb (existsb (Z.eqb x) r) && nodup_zb r end.
Lemma nodup_zb_sound l : nodup_zb l = true -> NoDup l.
Proof.
  induction l as [|x r IH]; cbn [nodup_zb]; intro H; [constructor|].
  apply andb_true_iff in H. destruct H as [H1 H2]. constructor; [|apply IH; exact H2].
  intro Hin. apply negb_true_iff in H1.
  assert (existsb (Z.eqb x) r = true) by (apply existsb_exists; exists x; split; [exact Hin | apply Z.eqb_refl]). congruence.
Qed.

Definition backend_ok (fin : list (list pop)) (P' : program) : bool :=
  forallb (fun r => shape_ok r && forallb pop_wf r) fin &&
  nodup_nat (labels_of (concat fin)) &&
  nodup_zb (map off (all_ops P')) &&
  negb (silent_cycle (cfg_of_pops fin)).

Lemma cfg_of_pops_length fin : length (cfg_of_pops fin) = S (S (length (concat fin))).
Proof.
  unfold cfg_of_pops. rewrite app_length, nodes_of_pop_program_flat, mapi_from_length, annotate_length. cbn [length]. lia.
Qed.

Theorem label_resolution_preserves_b rs fin t P' :
  finalize rs = (fin, t) -> remove_all t fin = Ok P' -> backend_ok fin P' = true ->
  Forall2 (entry_rel (beh_eq (cfg_of_pops fin) (cfg_of_ssb P'))) (pop_entries fin) (ssb_entries P').
Proof.
  intros Hfin Hrem Hok. unfold backend_ok in Hok.
  apply andb_true_iff in Hok. destruct Hok as [Hok Hcyc]. apply andb_true_iff in Hok. destruct Hok as [Hok Hoffs].
  apply andb_true_iff in Hok. destruct Hok as [Hshape Hlab].
  apply (label_resolution_preserves rs fin t P' Hfin Hrem).
  - intros r Hr. rewrite forallb_forall in Hshape. specialize (Hshape r Hr). apply andb_true_iff in Hshape. exact Hshape.
  - apply nodup_nat_sound. exact Hlab.
  - apply nodup_zb_sound. exact Hoffs.
  - intros a Ha. apply no_silent_cycle_reaches; [apply negb_true_iff; exact Hcyc | rewrite cfg_of_pops_length; lia].
Qed.
