(* Label numbers carry no meaning: renaming the labels of pseudo code by a function that is injective on the labels
   that occur gives the same control-flow graph (node for node), hence the same behaviour.  With Comp/MacroBuild.v:
   all expansions of a macro with the same arguments are the same code. *)
From ES Require Import Base Ssb.Param Ssb.Cfg Ssb.Tables Ssb.Machine Comp.Passes Comp.PopSem Lang.Ast Lang.Inline Comp.MacroBuild.

Definition rename_pop (f : nat -> nat) (x : pop) : pop :=
  match x with
  | POp o => POp o
  | PLabel l => PLabel (f l)
  | PJump o l => PJump o (f l)
  end.

Definition pop_labels (x : pop) : list nat :=
  match x with POp _ => [] | PLabel l => [l] | PJump _ l => [l] end.

Definition inj_on (f : nat -> nat) (ls : list nat) : Prop :=
  forall a b, In a ls -> In b ls -> f a = f b -> a = b.

Lemma find_label_rename f : forall ps l i,
  inj_on f (l :: flat_map pop_labels ps) ->
  find_label (f l) (map (rename_pop f) ps) i = find_label l ps i.
Proof.
  induction ps as [|x ps IH]; intros l i Hinj; [reflexivity|].
  assert (Hinj' : inj_on f (l :: flat_map pop_labels ps)).
  { intros a b Ha Hb. apply Hinj; cbn [flat_map]; (destruct Ha as [<-|Ha]; [left; reflexivity | right; apply in_or_app; right; exact Ha])
      || (destruct Hb as [<-|Hb]; [left; reflexivity | right; apply in_or_app; right; exact Hb]). }
  destruct x as [o | l' | o l']; cbn [map rename_pop find_label].
  - apply IH, Hinj'.
  - destruct (Nat.eqb_spec l' l) as [->|Ne].
    + rewrite Nat.eqb_refl. reflexivity.
    + destruct (Nat.eqb_spec (f l') (f l)) as [E|_]; [|apply IH, Hinj'].
      exfalso. apply Ne. apply Hinj; [right; cbn; left; reflexivity | left; reflexivity | exact E].
  - apply IH, Hinj'.
Qed.

Definition rename_prog (f : nat -> nat) (rs : list (list pop)) : list (list pop) := map (map (rename_pop f)) rs.

Lemma pname_rename f x : pname (rename_pop f x) = pname x.
Proof. destruct x; reflexivity. Qed.

Lemma inj_on_incl f a b : incl a b -> inj_on f b -> inj_on f a.
Proof. intros I H x y Hx Hy. apply H; apply I; assumption. Qed.

Lemma node_of_pop_rename f all stopn x nxt pc :
  inj_on f (flat_map pop_labels all) -> incl (pop_labels x) (flat_map pop_labels all) ->
  node_of_pop (map (rename_pop f) all) stopn (rename_pop f x) nxt pc = node_of_pop all stopn x nxt pc.
Proof.
  intros Hinj Hin. destruct x as [o | l | o l]; cbn [rename_pop node_of_pop]; try reflexivity.
  rewrite find_label_rename; [reflexivity|].
  eapply inj_on_incl; [|exact Hinj]. intros a [<-|Ha]; [apply Hin; left; reflexivity | exact Ha].
Qed.

Lemma nodes_of_pops_rename f all fall stopn : forall r g pc,
  inj_on f (flat_map pop_labels all) -> incl (flat_map pop_labels r) (flat_map pop_labels all) ->
  nodes_of_pops (map (rename_pop f) all) fall stopn (map (rename_pop f) r) g pc = nodes_of_pops all fall stopn r g pc.
Proof.
  induction r as [|x r IH]; intros g pc Hinj Hin; [reflexivity|].
  cbn [map nodes_of_pops]. rewrite pname_rename. f_equal.
  - replace (match map (rename_pop f) r with [] => fall | _ :: _ => S g end) with (match r with [] => fall | _ :: _ => S g end)
      by (destruct r; reflexivity).
    apply node_of_pop_rename; [exact Hinj|]. intros a Ha. apply Hin. cbn [flat_map]. apply in_or_app. left. exact Ha.
  - apply IH; [exact Hinj|]. intros a Ha. apply Hin. cbn [flat_map]. apply in_or_app. right. exact Ha.
Qed.

Lemma nodes_of_pop_program_rename f all fall stopn : forall rs g,
  inj_on f (flat_map pop_labels all) -> incl (flat_map pop_labels (concat rs)) (flat_map pop_labels all) ->
  nodes_of_pop_program (map (rename_pop f) all) fall stopn (rename_prog f rs) g = nodes_of_pop_program all fall stopn rs g.
Proof.
  induction rs as [|r rs IH]; intros g Hinj Hin; [reflexivity|].
  cbn [rename_prog map nodes_of_pop_program]. rewrite map_length. f_equal.
  - apply nodes_of_pops_rename; [exact Hinj|]. intros a Ha. apply Hin. cbn [concat]. rewrite flat_map_app. apply in_or_app. left. exact Ha.
  - apply IH; [exact Hinj|]. intros a Ha. apply Hin. cbn [concat]. rewrite flat_map_app. apply in_or_app. right. exact Ha.
Qed.

Lemma concat_rename f rs : concat (rename_prog f rs) = map (rename_pop f) (concat rs).
Proof. unfold rename_prog. rewrite concat_map. reflexivity. Qed.

(* the graph of renamed pseudo code is the graph of the pseudo code, node for node *)
Theorem rename_same_cfg f rs :
  inj_on f (flat_map pop_labels (concat rs)) ->
  cfg_of_pops (rename_prog f rs) = cfg_of_pops rs /\ pop_entries (rename_prog f rs) = pop_entries rs.
Proof.
  intros Hinj. split.
  - unfold cfg_of_pops. rewrite concat_rename, map_length. f_equal.
    apply nodes_of_pop_program_rename; [exact Hinj | apply incl_refl].
  - unfold pop_entries. generalize 0. induction rs as [|r rs IH]; intros g; [reflexivity|].
    cbn [rename_prog map pop_entries_of]. rewrite map_length. f_equal; [destruct r; reflexivity|].
    apply IH. eapply inj_on_incl; [|exact Hinj]. intros a Ha. cbn [concat]. rewrite flat_map_app. apply in_or_app. right. exact Ha.
Qed.
