(* C06 - the fallback is marked: every text that starts with the two lines the decompiler puts in front of a fallback
   (the marker line and the first line of the warning) is handed to the SsbScript compiler by
   ExplorerScriptSsbCompiler.compile, whatever follows - over the model of the attribute parser and of the dispatch
   (Text/Meta.v, tied to the real ones by K-meta in harness/checks/c06.py, which also checks that every real fallback
   text starts with these two lines).  That the fallback is exact is C07's theorem (Props/C07.v), compiled by this check
   as well; that decompilation never raises is explored. *)
From ES Require Import Base Text.Str Text.MStr Text.Meta Text.MetaProofs.

Theorem C06_fallback_is_dispatched : forall rest, dispatches_to_ssbscript (FALLBACK_HEAD ++ rest) = true.
Proof. exact fallback_is_dispatched. Qed.
Print Assumptions C06_fallback_is_dispatched.

(* the second line matters: without it a later attribute line could switch the marker off again *)
Example C06_marker_can_be_overridden :
  dispatches_to_ssbscript (s2t "//?: is-ssb-script: true" ++ [LF] ++ s2t "//?: is-ssb-script: no" ++ [LF]) = false.
Proof. vm_compute. reflexivity. Qed.
