(* Obligation: the hand-written specification tables equal the tables regenerated from the source. *)
From ES Require Import Base Ssb.Tables Gen.SpecialOps Gen.Enums Lang.Ast Lang.Spec.

Theorem jump_table_agrees : jump_table = OPS_WITH_JUMP_TO_MEM_OFFSET.
Proof. reflexivity. Qed.
Theorem branch_table_agrees : branch_table = OPS_BRANCH.
Proof. reflexivity. Qed.
Theorem flow_end_agrees : flow_end_ops = OPS_THAT_END_CONTROL_FLOW.
Proof. reflexivity. Qed.
Theorem always_jump_agrees : always_jump_ops = OPS_THAT_WILL_JUMP_GUARANTEED.
Proof. reflexivity. Qed.
Theorem ctx_agrees : ctx_ops = OPS_CTX.
Proof. reflexivity. Qed.
Theorem switch_case_map_agrees : switch_case_map = OPS_SWITCH_CASE_MAP.
Proof. reflexivity. Qed.
Theorem switch_text_case_map_agrees : switch_text_case_map = OPS_SWITCH_TEXT_CASE_MAP.
Proof. reflexivity. Qed.
Theorem flag_ops_agree : flag_ops = OPS_FLAG_ALL.
Proof. reflexivity. Qed.
Theorem special_names_agree :
  Tables.OP_JUMP = SpecialOps.OP_JUMP /\ Tables.OP_CALL = SpecialOps.OP_CALL /\
  Tables.OP_RETURN = SpecialOps.OP_DUMMY_END /\ Tables.OP_RETURN = SpecialOps.OP_RETURN.
Proof. repeat split. Qed.

(* the operator numbering of the specification = the enums of ssb_data_types.py *)
Definition all_cops := [OpFalse; OpTrue; OpEq; OpGt; OpLt; OpGe; OpLe; OpNe; OpAnd; OpXor; OpBich].
Definition all_aops := [AAssign; AMinus; APlus; AMul; ADiv].
Theorem cop_values_agree : map cop_val all_cops = map (fun r => snd (fst r)) SsbOperator_table.
Proof. reflexivity. Qed.
Theorem aop_values_agree : map aop_val all_aops = map (fun r => snd (fst r)) SsbCalcOperator_table.
Proof. reflexivity. Qed.
Theorem cop_notations :
  map (fun r => snd r) SsbOperator_table =
  ["FALSE"; "TRUE"; "=="; ">"; "<"; ">="; "<="; "!="; "&"; "^"; "&<<"]%string.
Proof. reflexivity. Qed.
Theorem aop_notations :
  map (fun r => snd r) SsbCalcOperator_table = ["="; "-="; "+="; "*="; "/="]%string.
Proof. reflexivity. Qed.
Theorem spec_branch_ops_agree : branch_ops = map fst OPS_BRANCH.
Proof. reflexivity. Qed.
Theorem indent_is_four : NUMBER_OF_SPACES_PER_INDENT = 4.
Proof. reflexivity. Qed.

Print Assumptions jump_table_agrees.
Print Assumptions flow_end_agrees.
Print Assumptions cop_values_agree.
