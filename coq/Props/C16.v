(* C16 - alternative spellings do not change the compiled ops.  Proved for the number literals: all spellings of one
   integer (any base prefix in either case, leading zeros after the prefix, digits in either case, the zeros of the
   decimal rule) are read as the same parameter; redundant leading zeros of a fixed-point number do not change its
   value.  Layout, comments, label and routine-header forms, quote styles are decided on the real code
   (harness/checks/c16.py). *)
From ES Require Import Base Text.Num Text.NumProofs.

Theorem C16_integer_spellings_agree : forall s1 s2 z, spells s1 z -> spells s2 z -> read_int s1 = read_int s2.
Proof. exact spellings_agree. Qed.
Print Assumptions C16_integer_spellings_agree.

Theorem C16_every_spelling_reads_as_its_value : forall s z, spells s z -> read_int s = Some z.
Proof. exact spellings_read. Qed.
Print Assumptions C16_every_spelling_reads_as_its_value.

Theorem C16_fixed_point_leading_zeros : forall (neg : bool) k w f,
  forallb is_dec_digit w = true -> forallb is_dec_digit f = true ->
  read_fixed ((if neg then [MINUS] else []) ++ repeat ZERO k ++ w ++ DOT :: f) =
  read_fixed ((if neg then [MINUS] else []) ++ w ++ DOT :: f).
Proof. exact fixed_leading_zeros. Qed.
Print Assumptions C16_fixed_point_leading_zeros.

(* non-vacuity: five spellings of -26, and a fixed-point number with and without leading zeros *)
Example C16_spellings_example :
  spells (s2t "-26"%string) (-26)%Z /\ spells (s2t "-0x1a"%string) (-26)%Z /\ spells (s2t "-0X001A"%string) (-26)%Z /\
  spells (s2t "-0o32"%string) (-26)%Z /\ spells (s2t "-0B11010"%string) (-26)%Z /\
  read_int (s2t "-0B11010"%string) = Some (-26)%Z /\
  read_fixed (s2t "-007.50"%string) = read_fixed (s2t "-7.50"%string).
Proof.
  repeat split; try (vm_compute; reflexivity).
  - exact (sp_dec (-26)).
  - exact (sp_radix 16 true false false 0 26 (or_intror (or_intror eq_refl))).
  - exact (sp_radix 16 true true true 2 26 (or_intror (or_intror eq_refl))).
  - exact (sp_radix 8 true false false 0 26 (or_intror (or_introl eq_refl))).
  - exact (sp_radix 2 true true false 0 26 (or_introl eq_refl)).
Qed.
