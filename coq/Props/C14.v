(* C14 - source maps survive storage and offset rewriting. *)
From ES Require Import Base Text.Dec SM.Model SM.Proofs.

Theorem C14_roundtrip : forall m, deserialize (serialize m) = Some m.
Proof. exact deserialize_serialize. Qed.
Print Assumptions C14_roundtrip.

Theorem C14_reserialize : forall m m', deserialize (serialize m) = Some m' -> serialize m' = serialize m.
Proof. exact reserialize. Qed.
Print Assumptions C14_reserialize.

Theorem C14_rewrite_op_entries : forall f m k' v, f <> [] ->
  (In (k', v) (s_map (rewrite_offsets f m)) <-> exists k, In (k, v) (s_map m) /\ lookupZ k f = Some k').
Proof. exact rewrite_op_entries. Qed.
Print Assumptions C14_rewrite_op_entries.

Theorem C14_rewrite_macro_entries : forall f m k' v', f <> [] ->
  (In (k', v') (s_mmap (rewrite_offsets f m)) <->
   exists k v, In (k, v) (s_mmap m) /\ lookupZ k f = Some k' /\ v' = rewrite_mm f v).
Proof. exact rewrite_macro_entries. Qed.
Print Assumptions C14_rewrite_macro_entries.

Theorem C14_return_address_present : forall f a n, lookupZ a f = Some n -> rewrite_ret f (Some a) = Some n.
Proof. exact rewrite_ret_present. Qed.
Print Assumptions C14_return_address_present.

Theorem C14_return_address : forall f a,
  match rewrite_ret f (Some a) with
  | Some r' =>
      (exists j, lookupZ (a + Z.of_nat j) f = Some r' /\ forall i, (i < j)%nat -> lookupZ (a + Z.of_nat i) f = None)
      \/ (r' = a /\ forall b, (a <= b <= max_key f)%Z -> lookupZ b f = None)
  | None => False
  end.
Proof. exact rewrite_ret_spec. Qed.
Print Assumptions C14_return_address.

Theorem C14_marks_untouched : forall f m,
  s_marks (rewrite_offsets f m) = s_marks m /\ s_mmarks (rewrite_offsets f m) = s_mmarks m.
Proof. exact rewrite_keeps_marks. Qed.
Print Assumptions C14_marks_untouched.
