(* C18 - the printed form of a position mark, put in place of the delimited span, is read as that mark.  Proved for the
   two coordinates: the printed argument (tile number, ".5" for a half-tile offset) is read by the shared argument
   parser as the same tile and offset, for every tile number (negative ones included) and the offsets 0 and 2.  The
   spans themselves, the order of the listing and the name are decided on the real code (harness/checks/c18.py). *)
From ES Require Import Base Text.Num Text.NumProofs.

Theorem C18_printed_coordinate_reads_back : forall rel off, off = 0%N \/ off = 2%N ->
  read_pos_arg (print_pos_arg rel off) = Some (rel, off).
Proof. exact pos_arg_roundtrip. Qed.
Print Assumptions C18_printed_coordinate_reads_back.

(* whatever spelling the source uses for a whole tile number, the listing and the compiler read the same value *)
Theorem C18_integer_coordinates : forall s z, spells s z -> read_int s = Some z.
Proof. exact spellings_read. Qed.
Print Assumptions C18_integer_coordinates.

Example C18_negative_half_tile :
  print_pos_arg (-4) 2 = s2t "-4.5"%string /\ read_pos_arg (s2t "-4.5"%string) = Some ((-4)%Z, 2%N) /\
  read_pos_arg (s2t "-0.5"%string) = Some (0%Z, 2%N) /\ read_pos_arg (s2t "0x10"%string) = Some (16%Z, 0%N).
Proof. vm_compute. repeat split; reflexivity. Qed.
