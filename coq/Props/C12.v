(* C12 - concurrent calls give the sequential results.
   The theorem: threads whose steps read and write only the cells they own (their own objects and the
   memo entries keyed by graphs they built themselves) end, under every schedule, with the results
   they reach when run alone.  The ownership discipline is what the harness checks on the real memo
   table and shared containers while threads run (harness/audit.py). *)
From ES Require Import Base Hist.Frame.

Theorem C12_schedule_independent :
  forall (cell val loc : Type) (owner : cell -> nat) (step : nat -> loc -> (cell -> val) -> loc * (cell -> val)),
    (forall t l m m', agree_on cell val owner t m m' ->
        fst (step t l m) = fst (step t l m') /\ agree_on cell val owner t (snd (step t l m)) (snd (step t l m'))) ->
    (forall t l m k, owner k <> t -> snd (step t l m) k = m k) ->
    forall (sch : list nat) (ls : nat -> loc) (m : cell -> val) (t : nat),
      fst (run_sched cell val loc step sch ls m) t =
      fst (run_alone cell val loc step t (steps_of t sch) (ls t) m).
Proof. intros. eapply schedule_independent; eauto. Qed.
Print Assumptions C12_schedule_independent.

(* non-vacuity: two threads with one cell each; thread t adds its step count to its own cell *)
Definition ex_step (t : nat) (l : nat) (m : nat -> nat) : nat * (nat -> nat) :=
  (l + m t, fun k => if Nat.eqb k t then S (m k) else m k).

Example ex_step_owns :
  (forall t l m m', agree_on nat nat (fun k => k) t m m' ->
      fst (ex_step t l m) = fst (ex_step t l m') /\ agree_on nat nat (fun k => k) t (snd (ex_step t l m)) (snd (ex_step t l m'))) /\
  (forall t l m k, k <> t -> snd (ex_step t l m) k = m k).
Proof.
  split.
  - intros t l m m' H. unfold ex_step, agree_on in *. cbn [fst snd]. split.
    + rewrite (H t eq_refl). reflexivity.
    + intros k Hk. subst k. rewrite Nat.eqb_refl. rewrite (H t eq_refl). reflexivity.
  - intros t l m k Hk. unfold ex_step. cbn [snd]. destruct (Nat.eqb k t) eqn:E; [apply Nat.eqb_eq in E; contradiction | reflexivity].
Qed.

(* a step that reads another thread's cell is schedule dependent *)
Definition bad_step (t : nat) (l : nat) (m : nat -> nat) : nat * (nat -> nat) :=
  (l + m 0, fun k => if Nat.eqb k t then S (m k) else m k).
Example bad_depends_on_schedule :
  fst (run_sched nat nat nat bad_step [0; 1] (fun _ => 0) (fun _ => 0)) 1 <>
  fst (run_sched nat nat nat bad_step [1; 0] (fun _ => 0) (fun _ => 0)) 1.
Proof. vm_compute. discriminate. Qed.
