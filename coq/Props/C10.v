(* C10 - statically meaningless programs are rejected.  Proved over the specification (Lang/SrcSem.v, Lang/Inline.v),
   which the compiler is tied to on every run (whatever the compiler accepts, the specification must give a meaning to:
   harness/checks/c10.py, c01.py, c05.py): a program has a meaning only if it is well scoped, where [well_scoped] is
   a plain recursive predicate over the syntax - no break outside a switch case, no continue or break_loop outside a
   loop, no jump or call to a label not defined in the file, no switch ending in an empty case, at most one default,
   only an operation, assignment or return/end/hold in a with-block, no [not] on a bit of an ordinary variable, no
   label defined twice, no macro call left after expansion; and expansion fails for unknown macros, too few arguments
   and macros that call themselves directly or through others.  "Fails only in documented ways" (the exception types)
   is decided on the real compiler. *)
From ES Require Import Base Lang.Ast Lang.SrcSem Lang.Inline Lang.Static Lang.StaticProofs Lang.Domain Lang.DomainProofs Lang.MacroStatic Lang.MacroStaticProofs.

Theorem C10_meaning_only_if_well_scoped : forall perf p r,
  cfg_of_prog perf p = Ok r -> well_scoped perf p = true.
Proof. exact meaning_implies_well_scoped. Qed.
Print Assumptions C10_meaning_only_if_well_scoped.

(* ... and exactly those, once every condition, header, context, assignment and operation name has an event: the static
   predicates are not stricter than the specification (a well-scoped program is never left without a meaning) *)
Theorem C10_domain_exactly : forall perf p,
  (exists r, cfg_of_prog perf p = Ok r) <-> well_scoped perf p = true /\ events_ok perf p = true.
Proof. exact meaning_iff. Qed.
Print Assumptions C10_domain_exactly.

Theorem C10_unknown_macro_rejected : forall p,
  program_has (unknown_macro (p_macros p)) p = true -> is_err (inline p) = true.
Proof. exact unknown_macro_rejected. Qed.
Print Assumptions C10_unknown_macro_rejected.

Theorem C10_too_few_macro_arguments_rejected : forall p,
  program_has (too_few_args (p_macros p)) p = true -> is_err (inline p) = true.
Proof. exact too_few_arguments_rejected. Qed.
Print Assumptions C10_too_few_macro_arguments_rejected.

(* D: macro names each of whose bodies calls a member of D again - a macro calling itself, or a cycle of any length *)
Theorem C10_recursive_macros_rejected : forall p D,
  trap (p_macros p) D = true -> program_has (fun n _ => mem_string n D) p = true -> is_err (inline p) = true.
Proof. exact macro_cycle_rejected. Qed.
Print Assumptions C10_recursive_macros_rejected.

(* non-vacuity: one program of each class named by the property has no meaning *)
Example C10_classes : forall perf,
  let prog_of b := mkProg [] [mkRoutine 0 RGeneric None None false b] in
  let one s := SCons s SNil in
  (forall r, cfg_of_prog perf (prog_of (one (SCtrl KBreak))) <> Ok r) /\
  (forall r, cfg_of_prog perf (prog_of (one (SIf false [CNeg false KwDebug] (one (SCtrl KContinue)) ENil ONone))) <> Ok r) /\
  (forall r, cfg_of_prog perf (prog_of (one (SForever (one (SCtrl KBreak))))) <> Ok r) /\
  (forall r l, cfg_of_prog perf (prog_of (one (SCall l))) <> Ok r) /\
  (forall r h c, cfg_of_prog perf (prog_of (one (SSwitch h (KCase c SNil KNil)))) <> Ok r) /\
  (forall r h b1 b2, cfg_of_prog perf (prog_of (one (SSwitch h (KDefault b1 (KDefault b2 KNil))))) <> Ok r) /\
  (forall r k t l, cfg_of_prog perf (prog_of (SCons (SWith k t (SLabel l)) SNil)) <> Ok r) /\
  (forall r n a, cfg_of_prog perf (prog_of (one (SMacroCall n a))) <> Ok r).
Proof. exact no_meaning_examples. Qed.

(* a cycle through two macros, called from a routine inside a loop inside an if *)
Local Open Scope string_scope.
Example C10_cycle_example :
  let call n := SCons (SMacroCall n []) SNil in
  let p := mkProg [mkMacro "a" [] (SCons (SOp None "x" []) (call "b")); mkMacro "b" [] (SCons (SForever (call "a")) SNil)]
                  [mkRoutine 0 RGeneric None None false
                     (SCons (SIf false [CNeg false KwDebug] (SCons (SForever (call "a")) SNil) ENil ONone) SNil)] in
  trap (p_macros p) ["a"; "b"] = true /\ program_has (fun n _ => mem_string n ["a"; "b"]) p = true /\
  is_err (inline p) = true.
Proof. vm_compute. repeat split; reflexivity. Qed.
