(* C01 - obligations: the acceptance criterion applied to every compiled program is sound. *)
From ES Require Import Base Ssb.Param Ssb.Cfg Ssb.Equiv Ssb.EquivSound.

(* accepted pair => behavioural equivalence of every paired routine entry, for all test outcomes
   and unboundedly long executions *)
Theorem C01_validator_sound : forall g1 g2 entries,
  equiv_check g1 g2 entries = true -> forall a b, In (a, b) entries -> beh_eq g1 g2 a b.
Proof. exact equiv_check_sound. Qed.
Print Assumptions C01_validator_sound.

(* equivalence = equal sequences of operations and tests under every oracle, to every length *)
Theorem C01_equiv_is_trace_equality : forall g1 g2 a b,
  beh_eq g1 g2 a b -> forall steps orc i, trace steps orc i g1 a = trace steps orc i g2 b.
Proof. exact beh_eq_traces. Qed.
Print Assumptions C01_equiv_is_trace_equality.

Theorem C01_equiv_transitive : forall g1 g2 g3 a b c,
  beh_eq g1 g2 a b -> beh_eq g2 g3 b c -> beh_eq g1 g3 a c.
Proof. exact beh_eq_trans. Qed.
Print Assumptions C01_equiv_transitive.

(* ---- the label-resolution part of the compiler's back end, proved for all inputs ---- *)
From ES Require Import Ssb.Tables Ssb.Machine Comp.Passes Comp.PopSem Comp.RemoveSem Comp.TableRight Comp.BackEnd Comp.EraseSem Comp.FinalizeSem Comp.ActSem Comp.StripSem.

(* For the label table LabelFinalizer computes and the op list OpsLabelJumpToRemover builds from it: every
   routine of the op list behaves - for all outcomes of all tests, to every length - like the corresponding
   routine of the pseudo code it was built from (a label is a silent position, a label jump goes to its label).
   [backend_ok] collects the side conditions (no routine ends in a label, no label directly after a context
   op, plain ops carry no jump opcode, label jumps have the table's arity, labels and offsets are unique, no
   cycle of silent moves); it is evaluated on every captured compilation by the check. *)
Theorem C01_label_resolution_preserves : forall rs fin t P',
  finalize rs = (fin, t) -> remove_all t fin = Ok P' -> backend_ok fin P' = true ->
  Forall2 (entry_rel (beh_eq (cfg_of_pops fin) (cfg_of_ssb P'))) (pop_entries fin) (ssb_entries P').
Proof. exact label_resolution_preserves_b. Qed.
Print Assumptions C01_label_resolution_preserves.

(* LabelFinalizer (its removal of jumps to labels that directly follow) keeps the behaviour of every routine.
   [finalize_ok]: no routine ends in a label, nothing but an op directly follows a context op, labels are
   unique, every jumped-to label is defined, no cycle of silent moves. *)
Theorem C01_finalizer_preserves : forall rs fin t,
  finalize rs = (fin, t) -> finalize_ok rs = true ->
  Forall2 (entry_rel (beh_eq (cfg_of_pops rs) (cfg_of_pops fin))) (pop_entries rs) (pop_entries fin).
Proof. exact finalize_preserves. Qed.
Print Assumptions C01_finalizer_preserves.

(* both passes: from the pseudo code that strip_last_label hands over to the final op list *)
Theorem C01_finalize_and_remove_preserve : forall rs fin t P',
  finalize rs = (fin, t) -> remove_all t fin = Ok P' ->
  finalize_ok rs = true -> backend_ok fin P' = true ->
  Forall2 (entry_rel (beh_eq (cfg_of_pops rs) (cfg_of_ssb P'))) (pop_entries rs) (ssb_entries P').
Proof. exact finalize_and_remove_preserve. Qed.
Print Assumptions C01_finalize_and_remove_preserve.

(* strip_last_label keeps the behaviour of every routine (or changes nothing).  [strip_ok] collects, for every
   round on every routine, the side conditions of that round: shape, arities, unique labels, defined jump targets,
   the trailing label is only jumped to by plain jumps of its own routine, no cycle of silent moves. *)
Theorem C01_strip_preserves : forall rs, strip_ok rs = true -> prog_rel rs (strip rs).
Proof. exact strip_preserves. Qed.
Print Assumptions C01_strip_preserves.

(* The whole back end of the compiler - strip_last_label, LabelFinalizer, OpsLabelJumpToRemover: every routine of
   the final op list behaves, for all outcomes of all tests and to every length, like the corresponding routine of
   the pseudo code the handlers emitted. *)
Theorem C01_back_end_preserves : forall rs fin t P',
  finalize (strip rs) = (fin, t) -> remove_all t fin = Ok P' ->
  strip_ok rs = true -> finalize_ok (strip rs) = true -> backend_ok fin P' = true ->
  Forall2 (entry_rel (beh_eq (cfg_of_pops rs) (cfg_of_ssb P'))) (pop_entries rs) (ssb_entries P').
Proof. exact back_end_preserves. Qed.
Print Assumptions C01_back_end_preserves.

(* non-vacuity: a loop with a test, labels at several places, a cross-routine jump *)
Example C01_backend_example :
  let rs := [[PLabel 0; POp (mkOp 1 "a" []); PJump (mkOp 2 "Branch" [PInt 1; PInt 2]) 1; POp (mkOp 3 "b" []);
              PJump (mkOp 4 "Jump" []) 1; PLabel 1; PLabel 2; POp (mkOp 5 "End" []); PJump (mkOp 6 "Jump" []) 0];
             [PJump (mkOp 7 "Jump" []) 2]]%Z%string in
  let '(fin, t) := finalize rs in
  match remove_all t fin with
  | Ok P' => backend_ok fin P' = true /\ finalize_ok rs = true /\ Nat.ltb (length (concat fin)) (length (concat rs)) = true
  | Err _ => False
  end.
Proof. vm_compute. repeat split; reflexivity. Qed.

Example C01_strip_example :
  let rs := [[POp (mkOp 1 "a" []); PJump (mkOp 2 "Branch" [PInt 1; PInt 2]) 3; PJump (mkOp 3 "Jump" []) 9; PLabel 3;
              POp (mkOp 4 "End" []); PJump (mkOp 5 "Jump" []) 9; PLabel 9]]%Z%string in
  strip_ok rs = true /\ strip rs <> rs /\ finalize_ok (strip rs) = true.
Proof. vm_compute. repeat split; try reflexivity. discriminate. Qed.
