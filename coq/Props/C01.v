(* C01 - obligations: the acceptance criterion applied to every compiled program is sound. *)
From ES Require Import Base Ssb.Param Ssb.Cfg Ssb.Equiv Ssb.EquivSound.

(* accepted pair => behavioural equivalence of every paired routine entry, for all test outcomes
   and unboundedly long executions *)
Theorem C01_validator_sound : forall g1 g2 entries,
  equiv_check g1 g2 entries = true -> forall a b, In (a, b) entries -> beh_eq g1 g2 a b.
Proof. exact equiv_check_sound. Qed.
Print Assumptions C01_validator_sound.

(* equivalence = equal sequences of operations and tests under every oracle, to every length *)
Theorem C01_equiv_is_trace_equality : forall g1 g2 a b,
  beh_eq g1 g2 a b -> forall steps orc i, trace steps orc i g1 a = trace steps orc i g2 b.
Proof. exact beh_eq_traces. Qed.
Print Assumptions C01_equiv_is_trace_equality.

Theorem C01_equiv_transitive : forall g1 g2 g3 a b c,
  beh_eq g1 g2 a b -> beh_eq g2 g3 b c -> beh_eq g1 g3 a c.
Proof. exact beh_eq_trans. Qed.
Print Assumptions C01_equiv_transitive.
