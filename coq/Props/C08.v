(* C08 - return addresses of macro expansions.  Proved over the model of ExplorerScriptMacro.build and the context stack
   of the source-map builder (Comp/MacroRA.v, tied to every real invocation of build by K-ra in harness/checks/c08.py):
   for every nesting of expansions, every operation of an expansion is registered with the number of the first
   operation after the expansion it belongs to as its return address; that address lies after the operation and not
   after the first operation following the outermost expansion.  Positions, file names, call sites and position marks of
   the entries are decided on the real compiler. *)
From ES Require Import Base Comp.MacroRA Comp.MacroRAProofs.

(* building the expansion of body b when the operation counter is c: the stack machine with the stored lengths registers
   exactly what the structure prescribes - in an expansion that starts at counter c' and holds n operations (nested
   ones included), return address c' + n + 1 - and leaves counter and stack as they must be *)
Theorem C08_return_addresses : forall b c st,
  exec (flat_t (TCall b)) c st = spec_f b c (c + S (ops_f b)) /\
  after (flat_t (TCall b)) c st = (c + ops_f b, st).
Proof. exact call_return_addresses. Qed.
Print Assumptions C08_return_addresses.

Theorem C08_return_address_bounds : forall b c i r,
  In (i, r) (spec_f b c (c + S (ops_f b))) -> c < i <= c + ops_f b /\ i < r <= c + ops_f b + 1.
Proof. exact return_address_bounds. Qed.
Print Assumptions C08_return_address_bounds.

(* non-vacuity: op, call(op, call(op, op), label, op), op - built when 10 operations exist *)
Example C08_example :
  let inner := FCons TOp (FCons TOp FNil) in
  let mid := FCons TOp (FCons (TCall inner) (FCons TLab (FCons TOp FNil))) in
  let b := FCons TOp (FCons (TCall mid) (FCons TOp FNil)) in
  exec (flat_t (TCall b)) 10 [] = [(11, 17); (12, 16); (13, 15); (14, 15); (15, 16); (16, 17)].
Proof. vm_compute. reflexivity. Qed.
