(* C03 - compiled output is a closed, uniquely addressed op list. *)
From ES Require Import Base Ssb.Param Ssb.Tables Ssb.Machine Comp.Passes Comp.Closed Comp.StripShape.

(* For every list of routines of pseudo operations with pairwise distinct op offsets in which plain
   operations do not use reserved names: if strip_last_label ; LabelFinalizer ; OpsLabelJumpToRemover
   succeed, the result is closed (unique offsets; every jump-carrying op has an integer last parameter
   that is the offset of a present op; no pseudo op left). *)
Theorem C03_passes : forall rs P,
  NoDup (offs_all rs) ->
  (forall r x, In r rs -> In x r -> pop_ok x) ->
  passes rs = Ok P -> Closed P.
Proof. exact passes_closed. Qed.
Print Assumptions C03_passes.

(* the boolean used on real compilation results decides closedness soundly *)
Theorem C03_checker_sound : forall P, closed_b P = true -> Closed P.
Proof. exact closed_b_sound. Qed.
Print Assumptions C03_checker_sound.

(* after strip_last_label no routine ends in a label, for every input (the loop runs long enough) *)
Theorem C03_strip_leaves_no_trailing_label : forall rs r, In r (strip rs) -> last_label r = None.
Proof. exact strip_no_trailing_label. Qed.
Print Assumptions C03_strip_leaves_no_trailing_label.

(* non-vacuity: a routine with a removed jump, a label at the routine end and a cross-routine jump *)
Example C03_example :
  let o n c := mkOp n c [] in
  let rs := [[PJump (o 1 "BranchDebug") 0; POp (o 2 "a"); PJump (o 3 "Jump") 1; PLabel 1; PLabel 0; POp (o 4 "b");
              PJump (o 5 "Jump") 2; PLabel 3];
             [PLabel 2; POp (o 6 "c")]]%Z%string in
  match passes rs with Ok P => closed_b P = true /\ length (all_ops P) = 5 | Err _ => False end.
Proof. vm_compute. split; reflexivity. Qed.
