(* C17 - placeholder until the regex engine model is in place (see DESIGN 4/C17). *)
From ES Require Import Base.
