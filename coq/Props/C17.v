(* C17 - the highlighting lexer is total and loses no text.
   The rule table [pyg_table] is regenerated from the loaded lexer class on every run (Gen/PygTable.v), with two
   facts about its regular expressions computed by the translator.  Regular expressions are an oracle
   ([matcher rule position = Some length]); the theorems hold for every oracle. *)
From ES Require Import Base Pyg.Engine Pyg.Proofs Gen.PygTable.

(* obligations on the table as the source states it now *)
Lemma pyg_table_ok : table_ok pyg_table = true.
Proof. vm_compute. reflexivity. Qed.
Lemma pyg_regex_facts : pyg_min_widths_ok = true /\ pyg_states_cover = true.
Proof. split; vm_compute; reflexivity. Qed.
Lemma pyg_no_error_rule : existsb (String.eqb "Token.Error") (rule_types pyg_table) = false.
Proof. vm_compute. reflexivity. Qed.

(* the concatenation of the token texts equals the input - for every text, every matcher, any fuel *)
Theorem C17_lossless : forall matcher fuel s text pos toks,
  lex pyg_table matcher fuel s text pos = Some toks -> concat (map snd toks) = text.
Proof. intros matcher. exact (lex_lossless pyg_table matcher pyg_table_ok). Qed.
Print Assumptions C17_lossless.

(* the loop terminates on every text, given what pyg_min_widths_ok states (no rule matches the empty
   string) and that a match ends inside the text *)
Theorem C17_total : forall matcher (text : text),
  (forall r p n, matcher r p = Some n -> 0 < n) ->
  (forall r p n, matcher r p = Some n -> p + n <= length text) ->
  exists toks, lex pyg_table matcher (S (length text)) ["root"%string] text 0 = Some toks.
Proof.
  intros matcher text H1 H2.
  apply (lex_total pyg_table matcher (length text) H1 H2); [reflexivity | lia].
Qed.
Print Assumptions C17_total.

(* no error token at all, given what pyg_states_cover states (in every state some rule matches at every
   position inside the text) *)
Theorem C17_no_error_token : forall matcher (text : text) fuel toks,
  (forall r p n, matcher r p = Some n -> p + n <= length text) ->
  (forall st pos, has pyg_table st -> pos < length text -> first_match matcher (rules_of pyg_table st) pos <> None) ->
  lex pyg_table matcher fuel ["root"%string] text 0 = Some toks ->
  forall tk, In tk toks -> fst tk <> "Token.Error"%string.
Proof.
  intros matcher text fuel toks H2 Hc Hl tk Htk E.
  assert (Hg : good pyg_table ["root"%string]).
  { split; [discriminate|]. constructor; [|constructor]. unfold has. vm_compute. discriminate. }
  pose proof (lex_tokens_from_rules pyg_table matcher (length text) H2 Hc pyg_table_ok fuel _ text 0 toks eq_refl Hg Hl tk Htk) as Hin.
  rewrite E in Hin. pose proof pyg_no_error_rule as Hn.
  assert (existsb (String.eqb "Token.Error") (rule_types pyg_table) = true).
  { apply existsb_exists. exists "Token.Error"%string. split; [exact Hin | apply String.eqb_refl]. }
  congruence.
Qed.
Print Assumptions C17_no_error_token.
