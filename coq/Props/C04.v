(* C04 - parameter values survive print -> parse.  Proved: decimal integers; single-line string literals
   (the form repr_string chooses for a string without line feed that is single-line exact).  The multi-line
   forms, fixed-point numbers and position marks are decided on the real code (harness/checks/c04.py). *)
From ES Require Import Base Text.Dec Text.Str Text.StrProofs Text.MStr Text.MStrProofs.

Theorem C04_int_roundtrip : forall z, parse_Z (print_Z z) = Some z.
Proof. exact parse_print_Z. Qed.
Print Assumptions C04_int_roundtrip.

(* a string that is single-line exact and holds no line feed: the printed literal (either quote style) is one
   STRING_LITERAL for the lexer, and reading it gives the string back *)
Theorem C04_single_line_string_roundtrip : forall q s,
  (q = DQ \/ q = SQ) -> single_exact s = true -> mem LF s = false ->
  lex_body q (escape_quotes q s) = true /\ read_single (print_single q s) = s.
Proof.
  intros q s Hq He Hl. split; [apply single_lexes; assumption|].
  destruct Hq; subst; [apply single_roundtrip_dq | apply single_roundtrip_sq]; exact He.
Qed.
Print Assumptions C04_single_line_string_roundtrip.

(* a string that is multi-line exact (no line separator other than LF, some line does not start with a blank): the
   multi-line literal printed at any indentation depth, with either triple quote, is read back as the string by the
   reader's dedent rules (str.splitlines semantics included).  That the lexer takes the printed text as one literal
   needs the delimiter not to occur in the string; the lexer rule for multi-line literals is not modelled. *)
Theorem C04_multi_line_string_roundtrip : forall q indent s,
  multi_exact s = true -> read_multi (print_multi q indent s) = s.
Proof. exact multi_roundtrip. Qed.
Print Assumptions C04_multi_line_string_roundtrip.

Example C04_multi_example :
  let s := s2t "first"%string ++ [LF] ++ s2t "  indented"%string ++ [LF; LF] ++ s2t "last "%string ++ [LF] in
  multi_exact s = true /\ read_multi (print_multi SQ 2 s) = s /\ length (split LF s) = 5.
Proof. vm_compute. repeat split; reflexivity. Qed.

(* non-vacuity: a string with both quotes, a backslash before an ordinary letter, blanks at both ends *)
Example C04_string_example :
  let s := s2t " it's \a ""q"" "%string in
  single_exact s = true /\ mem LF s = false /\ read_single (print_single SQ s) = s.
Proof. vm_compute. repeat split; reflexivity. Qed.

(* the condition is needed: a backslash before the letter n is read as a line feed *)
Example C04_inexact_string :
  let s := [BS; LN] in single_exact s = false /\ read_single (print_single DQ s) <> s.
Proof. vm_compute. split; [reflexivity | discriminate]. Qed.
