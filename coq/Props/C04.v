(* C04 - obligations proved so far: decimal integers print and parse back. *)
From ES Require Import Base Text.Dec.

Theorem C04_int_roundtrip : forall z, parse_Z (print_Z z) = Some z.
Proof. exact parse_print_Z. Qed.
Print Assumptions C04_int_roundtrip.
