(* C04 - parameter values survive print -> parse; literal spellings parse to their values.  Proved: integers (printed
   form and every spelling of the token rule INTEGER), single-line and multi-line string literals, fixed-point values,
   the arguments of position marks.  Constants, the printing contexts and the lexer rule for multi-line literals are
   decided on the real code (harness/checks/c04.py). *)
From ES Require Import Base Text.Dec Text.Str Text.StrProofs Text.MStr Text.MStrProofs Text.MLex Text.MLexProofs Text.Num Text.NumProofs.

Theorem C04_int_roundtrip : forall z, parse_Z (print_Z z) = Some z.
Proof. exact parse_print_Z. Qed.
Print Assumptions C04_int_roundtrip.

(* a string that is single-line exact and holds no line feed: the printed literal (either quote style) is one
   STRING_LITERAL for the lexer, and reading it gives the string back *)
Theorem C04_single_line_string_roundtrip : forall q s,
  (q = DQ \/ q = SQ) -> single_exact s = true -> mem LF s = false ->
  lex_body q (escape_quotes q s) = true /\ read_single (print_single q s) = s.
Proof.
  intros q s Hq He Hl. split; [apply single_lexes; assumption|].
  destruct Hq; subst; [apply single_roundtrip_dq | apply single_roundtrip_sq]; exact He.
Qed.
Print Assumptions C04_single_line_string_roundtrip.

(* a string that is multi-line exact (no line separator other than LF, some line does not start with a blank): the
   multi-line literal printed at any indentation depth, with either triple quote, is read back as the string by the
   reader's dedent rules (str.splitlines semantics included). *)
Theorem C04_multi_line_string_roundtrip : forall q indent s,
  multi_exact s = true -> read_multi (print_multi q indent s) = s.
Proof. exact multi_roundtrip. Qed.
Print Assumptions C04_multi_line_string_roundtrip.

(* ... and the printed literal is exactly one token for the lexer rule (the non-greedy body ends at the first place where
   the delimiter follows), whatever text follows it, provided the delimiter does not occur in the string - the test
   _multiline_literal_is_exact makes before this form is chosen *)
Theorem C04_multi_line_literal_is_one_token : forall q indent s rest,
  (q = DQ \/ q = SQ) -> occurs3 q s = false ->
  lex_multi q (print_multi q indent s ++ rest) = Some (print_multi q indent s, rest).
Proof.
  intros q indent s rest Hq Ho. apply printed_literal_is_one_token; [| | exact Ho]; destruct Hq; subst; discriminate.
Qed.
Print Assumptions C04_multi_line_literal_is_one_token.

Example C04_multi_example :
  let s := s2t "first"%string ++ [LF] ++ s2t "  indented"%string ++ [LF; LF] ++ s2t "last "%string ++ [LF] in
  multi_exact s = true /\ read_multi (print_multi SQ 2 s) = s /\ length (split LF s) = 5.
Proof. vm_compute. repeat split; reflexivity. Qed.

(* non-vacuity: a string with both quotes, a backslash before an ordinary letter, blanks at both ends *)
Example C04_string_example :
  let s := s2t " it's \a ""q"" "%string in
  single_exact s = true /\ mem LF s = false /\ read_single (print_single SQ s) = s.
Proof. vm_compute. repeat split; reflexivity. Qed.

(* the condition is needed: a backslash before the letter n is read as a line feed *)
Example C04_inexact_string :
  let s := [BS; LN] in single_exact s = false /\ read_single (print_single DQ s) <> s.
Proof. vm_compute. split; [reflexivity | discriminate]. Qed.

(* integers as the compiler reads them (token rule INTEGER, int(tok, 0)): the printed form str(z) and every other
   spelling - base prefix in either case, leading zeros after it, digits in either case, a minus sign, the zeros of the
   decimal rule - read as the integer they spell *)
Theorem C04_integer_spellings : forall s z, spells s z -> read_int s = Some z.
Proof. exact spellings_read. Qed.
Print Assumptions C04_integer_spellings.

Theorem C04_printed_integer_reads_back : forall z, read_int (spell_dec z) = Some z.
Proof. exact read_int_spell_dec. Qed.
Print Assumptions C04_printed_integer_reads_back.

(* fixed-point parameters: whatever value the reader produces from a DECIMAL token is printed as a DECIMAL token that
   reads as the same value *)
Theorem C04_fixed_point_roundtrip : forall tok, is_decimal_token tok = true ->
  exists v, read_fixed tok = Some v /\ is_decimal_token v = true /\ read_fixed v = Some v.
Proof. exact fixed_roundtrip. Qed.
Print Assumptions C04_fixed_point_roundtrip.

(* position-mark arguments: tile number and half-tile offset survive for the offsets 0 and 2; what is read back for any
   other offset is stated exactly (the recorded finding: offsets other than 0 and 2 have no literal form) *)
Theorem C04_position_mark_argument_roundtrip : forall rel off, off = 0%N \/ off = 2%N ->
  read_pos_arg (print_pos_arg rel off) = Some (rel, off).
Proof. exact pos_arg_roundtrip. Qed.
Print Assumptions C04_position_mark_argument_roundtrip.

Theorem C04_position_mark_argument_read_back : forall rel off,
  read_pos_arg (print_pos_arg rel off) = Some (rel, if (1 <? off)%N then 2%N else 0%N).
Proof. exact read_print_pos_arg. Qed.

Theorem C04_position_mark_other_offsets_refuted :
  exists rel off, read_pos_arg (print_pos_arg rel off) <> Some (rel, off).
Proof. exact pos_arg_other_offsets_refuted. Qed.

Example C04_number_examples :
  read_int (s2t "-0X00fF"%string) = Some (-255)%Z /\ spells (s2t "-0X00FF"%string) (-255)%Z /\
  read_int (s2t "007"%string) = None /\
  read_fixed (s2t "-007.50"%string) = Some (s2t "-7.50"%string) /\ read_fixed (s2t "-.5"%string) = Some (s2t "-0.5"%string) /\
  print_pos_arg (-4) 2 = s2t "-4.5"%string /\ read_pos_arg (s2t "-4.5"%string) = Some ((-4)%Z, 2%N).
Proof.
  repeat split; try (vm_compute; reflexivity).
  exact (sp_radix 16 true true true 2 255 (or_intror (or_intror eq_refl))).
Qed.
