(* C15 - the numbering of the compile command's JSON: every jump parameter is the 1-based position of its target op,
   counted across all routines, and a consumer (the decompile command) numbers the ops it reads 1, 2, 3, ... in the same
   way.  Proved: that numbering ([cli_number] = position numbering shifted by one) keeps the machine's flow graph and the
   routine entries of every routine set whose jump-carrying ops have the table's arity and an existing target - so the
   document behaves like what the compiler produced.  Tie K-cli (harness/checks/c15.py): the document printed by the real
   command, numbered as documented, equals [cli_number] of the routines compiled in process.  The JSON structure, the
   exit statuses and the decompile command are decided on the real commands. *)
From ES Require Import Base Ssb.Param Ssb.Cfg Ssb.Tables Ssb.Machine Script.Model Script.Renumber Script.Shift.

Theorem C15_cli_numbering_preserves_flow : forall P,
  forallb (op_wf_script (all_ops P)) (all_ops P) = true ->
  cfg_of_ssb (cli_number P) = cfg_of_ssb P /\ ssb_entries (cli_number P) = ssb_entries P.
Proof. exact cli_number_same_cfg. Qed.
Print Assumptions C15_cli_numbering_preserves_flow.

(* any renumbering by a constant is harmless, for every routine set *)
Theorem C15_shift_preserves_flow : forall d P,
  cfg_of_ssb (shift d P) = cfg_of_ssb P /\ ssb_entries (shift d P) = ssb_entries P.
Proof. exact shift_same_cfg. Qed.
Print Assumptions C15_shift_preserves_flow.

Example C15_example :
  let P := [[mkOp 3 "Branch" [PInt 1; PInt 2; PInt 9]; mkOp 5 "a" []; mkOp 9 "Jump" [PInt 9]];
            [mkOp 12 "Call" [PInt 5]; mkOp 13 "Return" []]]%Z%string in
  forallb (op_wf_script (all_ops P)) (all_ops P) = true /\
  cli_number P = [[mkOp 1 "Branch" [PInt 1; PInt 2; PInt 3]; mkOp 2 "a" []; mkOp 3 "Jump" [PInt 3]];
                  [mkOp 4 "Call" [PInt 2]; mkOp 5 "Return" []]]%Z%string.
Proof. vm_compute. split; reflexivity. Qed.
