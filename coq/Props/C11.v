(* C11 - results depend only on the input, not on what was processed before.
   The theorem is the frame argument; the two frame conditions are what the harness checks on the
   real process state after every call (harness/audit.py). *)
From ES Require Import Base Hist.Frame.

Theorem C11_history_independent :
  forall (call st out view : Type) (exec : call -> st -> out * st) (obs : st -> view) (s0 : st),
    (forall c s s', obs s = obs s' -> fst (exec c s) = fst (exec c s')) ->
    (forall c s, obs s = obs s0 -> obs (snd (exec c s)) = obs s0) ->
    forall (h : list call) (c : call),
      fst (exec c (run call st out exec h s0)) = fst (exec c s0).
Proof. exact history_independent. Qed.
Print Assumptions C11_history_independent.

Theorem C11_results_pointwise :
  forall (call st out view : Type) (exec : call -> st -> out * st) (obs : st -> view) (s0 : st),
    (forall c s s', obs s = obs s' -> fst (exec c s) = fst (exec c s')) ->
    (forall c s, obs s = obs s0 -> obs (snd (exec c s)) = obs s0) ->
    forall (h : list call), results call st out exec h s0 = map (fun c => fst (exec c s0)) h.
Proof. intros. eapply results_pointwise; eauto. Qed.
Print Assumptions C11_results_pointwise.

(* ---- non-vacuity: a process with a shared stack and a memo table keyed by recycled ids ---- *)
Definition pstate := (list nat * (nat -> option nat))%type.      (* (class-level stack, memo table) *)
Definition set_memo (m : nat -> option nat) (g : nat) (v : option nat) : nat -> option nat :=
  fun k => if Nat.eqb k g then v else m k.

(* a well-behaved call: clears the memo entry of its graph id before use, pushes and pops the stack *)
Definition good_exec (c : nat) (s : pstate) : nat * pstate :=
  let g := Nat.modulo c 3 in
  let m1 := set_memo (snd s) g None in
  let r := c + length (fst s) in
  (r, (fst s, set_memo m1 g (Some r))).

Example good_satisfies_frame :
  (forall c s s', fst s = fst s' -> fst (good_exec c s) = fst (good_exec c s')) /\
  (forall c (s : pstate), fst s = @nil nat -> fst (snd (good_exec c s)) = @nil nat).
Proof. split; intros; unfold good_exec; cbn [fst snd]; congruence. Qed.

(* a call that leaves residue on the shared stack when it "fails" (odd inputs): results then depend on history *)
Definition leaky_exec (c : nat) (s : pstate) : nat * pstate :=
  let r := c + length (fst s) in
  (r, (if Nat.odd c then c :: fst s else fst s, snd s)).

Example leaky_depends_on_history :
  fst (leaky_exec 2 (run nat pstate nat leaky_exec [1] ([], fun _ => None))) <> fst (leaky_exec 2 ([], fun _ => None)).
Proof. vm_compute. discriminate. Qed.
