(* C05 - a macro call means its body inlined, in any definition order.
   The meaning of a program with macros is [inline p] (Lang/Inline.v); the compiled program is compared with it by
   the verified checker on every generated program.  Proved here about the meaning itself: it does not depend on
   the order in which the macros are written. *)
From ES Require Import Base Ssb.Param Lang.Ast Lang.Inline Lang.InlineProofs Lang.MacroStatic Lang.InlineFree.
From Coq Require Import Permutation.

Theorem C05_meaning_is_order_independent : forall ms ms' rs,
  NoDup (map m_name ms) -> Permutation ms ms' -> inline (mkProg ms rs) = inline (mkProg ms' rs).
Proof. exact inline_order_independent. Qed.
Print Assumptions C05_meaning_is_order_independent.

(* ... and it is a program without macros: no definition and no call is left (in any block, case, loop body or for
   header), so the meaning of a program with macros is the meaning of a macro-free program *)
Theorem C05_meaning_is_macro_free : forall p p', inline p = Ok p' ->
  p_macros p' = [] /\ program_has any_call p' = false.
Proof. exact inline_macro_free. Qed.
Print Assumptions C05_meaning_is_macro_free.

(* ... and about the compiler's own expansion step (explorerscript/macro.py ExplorerScriptMacro.build, model
   Comp/MacroBuild.v, tied to every real invocation by K-build): whatever the blueprint, the arguments and the counters,
   the expansion is the blueprint with its labels renamed by an injective function into label numbers handed out during
   this build (above the expansion's own start and end label), constants naming macro variables substituted (the
   specification's own substitution [subst_params]), operations numbered consecutively, Return replaced by a jump to the
   end label *)
From ES Require Import Comp.MacroBuild Comp.MacroBuildProofs.

Theorem C05_expansion_is_a_renaming : forall s bp cl co,
  exists rho cl',
    build s bp cl co =
      (OLab (S cl) (LStart (S (count_ops bp))) :: renamed s (S (S cl)) rho bp co ++ [OLab (S (S cl)) LEnd],
       cl', co + count_ops bp)
    /\ S (S cl) <= cl'
    /\ (forall i, In i (ids bp) -> S (S cl) < fst (rho i) <= cl')
    /\ (forall i j, In i (ids bp) -> In j (ids bp) -> fst (rho i) = fst (rho j) -> i = j)
    /\ (forall i k, first_kind bp i = Some k -> snd (rho i) = k).
Proof. exact build_is_renaming. Qed.
Print Assumptions C05_expansion_is_a_renaming.

(* the body's labels are private to each expansion: two expansions built one after the other with the compiler's label
   counter (the same macro twice, nested or not, anything built in between) share no label, defined or jumped to *)
Theorem C05_labels_private_per_expansion : forall s1 bp1 cl1 co1 out1 cl1' co1' s2 bp2 cl2 co2 out2 cl2' co2',
  build s1 bp1 cl1 co1 = (out1, cl1', co1') -> build s2 bp2 cl2 co2 = (out2, cl2', co2') -> cl1' <= cl2 ->
  forall l, In l (out_labels out1) -> ~ In l (out_labels out2).
Proof. exact expansions_share_no_label. Qed.
Print Assumptions C05_labels_private_per_expansion.

(* `return` leaves only the macro: the end label is no copy of a blueprint label - it stands once, at the end *)
Theorem C05_return_leaves_only_the_macro : forall s bp cl co rho cl',
  (forall i, In i (ids bp) -> S (S cl) < fst (rho i) <= cl') ->
  forall k, ~ In (OLab (S (S cl)) k) (renamed s (S (S cl)) rho bp co).
Proof. exact end_label_only_at_end. Qed.
Print Assumptions C05_return_leaves_only_the_macro.

Theorem C05_expansion_numbers_operations_consecutively : forall s bp cl co out cl' co',
  build s bp cl co = (out, cl', co') -> out_numbers out = seq (S co) (count_ops bp) /\ co' = co + count_ops bp.
Proof. exact build_numbers. Qed.
Print Assumptions C05_expansion_numbers_operations_consecutively.

(* label numbers carry no meaning: pseudo code whose labels are renamed by a function that is injective on the labels
   that occur has the same control-flow graph, node for node, and the same routine entries (Comp/RenameSem.v) *)
From ES Require Import Ssb.Cfg Comp.Passes Comp.PopSem Comp.RenameSem Comp.ExpandSame.

Theorem C05_label_numbers_carry_no_meaning : forall f rs,
  inj_on f (flat_map pop_labels (concat rs)) ->
  cfg_of_pops (rename_prog f rs) = cfg_of_pops rs /\ pop_entries (rename_prog f rs) = pop_entries rs.
Proof. exact rename_same_cfg. Qed.
Print Assumptions C05_label_numbers_carry_no_meaning.

(* hence every expansion of a macro with the same arguments is the same code: wherever two expansions are built -
   whatever the label counter and the operation counter say at the time - their graphs are equal node for node *)
Theorem C05_all_expansions_are_the_same_code : forall s bp cl1 co1 cl2 co2 out1 out2 a1 b1 a2 b2,
  build s bp cl1 co1 = (out1, a1, b1) -> build s bp cl2 co2 = (out2, a2, b2) ->
  cfg_of_pops [map pop_of_oitem out1] = cfg_of_pops [map pop_of_oitem out2].
Proof. exact expansions_are_the_same_code. Qed.
Print Assumptions C05_all_expansions_are_the_same_code.

(* `return` leaves only the macro, in the graph of the routine that holds the expansion: the label the jumps replacing
   Return go to is found at the last item of this expansion, whatever stands before (not defining that label) and after *)
From ES Require Import Comp.ReturnSem.

Theorem C05_return_goes_behind_the_expansion : forall s bp cl co out cl' co' pre post,
  build s bp cl co = (out, cl', co') ->
  (forall x, In x pre -> x <> PLabel (S (S cl))) ->
  find_label (S (S cl)) (pre ++ map pop_of_oitem out ++ post) 0 = Some (length pre + length out - 1) /\
  nth_error (map pop_of_oitem out) (length out - 1) = Some (PLabel (S (S cl))).
Proof. exact return_goes_behind_the_expansion. Qed.
Print Assumptions C05_return_goes_behind_the_expansion.

(* an expansion defines each of its labels once if the blueprint does (evaluated on every real blueprint): with the
   theorem about private labels, pseudo code holding any number of expansions keeps unique label definitions - a premise
   of the theorems about the label passes (C01, C03) *)
From ES Require Import Comp.DefsOnce.

Theorem C05_expansion_defines_each_label_once : forall s bp cl co out cl' co',
  build s bp cl co = (out, cl', co') -> NoDup (def_ids bp) -> NoDup (out_defs out).
Proof. exact expansion_defines_each_label_once. Qed.
Print Assumptions C05_expansion_defines_each_label_once.
