(* C05 - a macro call means its body inlined, in any definition order.
   The meaning of a program with macros is [inline p] (Lang/Inline.v); the compiled program is compared with it by
   the verified checker on every generated program.  Proved here about the meaning itself: it does not depend on
   the order in which the macros are written. *)
From ES Require Import Base Ssb.Param Lang.Ast Lang.Inline Lang.InlineProofs Lang.MacroStatic Lang.InlineFree.
From Coq Require Import Permutation.

Theorem C05_meaning_is_order_independent : forall ms ms' rs,
  NoDup (map m_name ms) -> Permutation ms ms' -> inline (mkProg ms rs) = inline (mkProg ms' rs).
Proof. exact inline_order_independent. Qed.
Print Assumptions C05_meaning_is_order_independent.

(* ... and it is a program without macros: no definition and no call is left (in any block, case, loop body or for
   header), so the meaning of a program with macros is the meaning of a macro-free program *)
Theorem C05_meaning_is_macro_free : forall p p', inline p = Ok p' ->
  p_macros p' = [] /\ program_has any_call p' = false.
Proof. exact inline_macro_free. Qed.
Print Assumptions C05_meaning_is_macro_free.
