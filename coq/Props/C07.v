(* C07 - SsbScript is a lossless spelling of SSB ops (statement-list level).
   Property theorems only; proofs live in Script/Proofs.v and Script/Renumber.v. *)
From ES Require Import Base Ssb.Param Ssb.Cfg Ssb.Tables Ssb.Machine Script.Model Script.Proofs Script.Renumber.

(* Printing a routine set as SsbScript statements and compiling those statements gives the same
   routine set in position numbering - for every routine set with unique offsets whose jump-carrying
   ops have the table's arity and an integer target that is the offset of an op of the set. *)
Theorem C07_roundtrip (P : program) :
  NoDup (map off (all_ops P)) ->
  forallb (op_wf_script (all_ops P)) (all_ops P) = true ->
  exists rs, print_script P = Ok rs /\ compile_script rs = Ok (renumber P).
Proof. exact (script_roundtrip P). Qed.
Print Assumptions C07_roundtrip.

(* ... and position numbering keeps the machine's flow graph and the routine entries: every jump
   parameter of the result denotes the op that corresponds to the input's target *)
Theorem C07_renumber_same_flow (P : program) :
  forallb (op_wf_script (all_ops P)) (all_ops P) = true ->
  cfg_of_ssb (renumber P) = cfg_of_ssb P /\ ssb_entries (renumber P) = ssb_entries P.
Proof. exact (renumber_same_cfg P). Qed.
Print Assumptions C07_renumber_same_flow.

(* non-vacuity / regression example: two routines, a cross-routine jump, a self loop *)
Example C07_example :
  let P := [[mkOp 3 "Branch" [PInt 1; PInt 2; PInt 9]; mkOp 5 "a" []; mkOp 9 "Jump" [PInt 9]];
            [mkOp 12 "Call" [PInt 5]; mkOp 13 "Return" []]]%Z%string in
  forallb (op_wf_script (all_ops P)) (all_ops P) = true /\
  match print_script P with
  | Ok rs => compile_script rs = Ok (renumber P)
  | Err _ => False
  end.
Proof. vm_compute. split; reflexivity. Qed.
