(* C07 - SsbScript is a lossless spelling of SSB ops (statement-list level). *)
From ES Require Import Base Ssb.Param Ssb.Tables Ssb.Machine Script.Model.

(* non-vacuity / regression example: two routines, a cross-routine jump, two labels on one op *)
Example C07_example :
  let P := [[mkOp 3 "Branch" [PInt 1; PInt 2; PInt 9]; mkOp 5 "a" []; mkOp 9 "Jump" [PInt 9]];
            [mkOp 12 "Call" [PInt 5]; mkOp 13 "Return" []]]%Z%string in
  match print_script P with
  | Ok rs => compile_script rs = Ok (renumber P)
  | Err _ => False
  end.
Proof. vm_compute. reflexivity. Qed.
