(* C09 - decompile-time source map.  Proved about the writer both decompilers share (Dec/Writer.v, tied to the
   real write_stmnt / write_line / source_map_add_opcode by correspondence): the hand-advanced line counter is in
   step with the text whatever is written (multi-line strings included), and an entry recorded before a statement
   gives the line and column at which that statement begins.  Which op an entry is recorded for, and that every
   printed op gets one, is decided on the real decompiler (harness/checks/c09.py). *)
From ES Require Import Base Dec.Writer Dec.WriterProofs.

Theorem C09_line_counter_in_step : forall ops prefix,
  line (wrun ops (winit prefix)) = S (count_lf (out (wrun ops (winit prefix)))).
Proof. exact line_counter_in_step. Qed.
Print Assumptions C09_line_counter_in_step.

Theorem C09_entry_points_at_statement : forall ops prefix off s later,
  let w := wrun ops (winit prefix) in
  let w' := wstep (wstep w (WAdd off false)) (WStmnt s true) in
  exists ln col, last (entries w') (0%Z, 0, 0) = (off, ln, col) /\
                 locate (out w' ++ later) ln col = Some (s ++ later).
Proof. intros. apply entry_points_at_statement. apply line_counter_in_step. Qed.
Print Assumptions C09_entry_points_at_statement.

(* non-vacuity: a statement holding a multi-line string, then an indented statement *)
Example C09_example :
  let w := wrun [WStmnt (s2t "def 0 {") true; WIndent; WAdd 3 false;
                 WStmnt [97; 40; 39; 10; 120; 39; 41; 59]%N true; WAdd 4 false; WStmnt (s2t "end;") true] (winit []) in
  entries w = [(3%Z, 2, 4); (4%Z, 4, 4)] /\ locate (out w) 4 4 = Some (s2t "end;").
Proof. vm_compute. split; reflexivity. Qed.
