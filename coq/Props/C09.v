(* C09 - placeholder until the writer line-accounting model is in place (DESIGN 4/C09). *)
From ES Require Import Base.
