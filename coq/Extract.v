(* Extraction of the executable models and checkers (run outside the main build:
   cd ocaml/extracted && coqc -Q ../../coq ES ../../coq/Extract.v). *)
From Coq Require Extraction ExtrOcamlBasic ExtrOcamlString.
From ES Require Import Base Ssb.Param Ssb.Cfg Ssb.Equiv Ssb.Machine Lang.Ast Lang.Spec Lang.SrcSem Lang.Inline Lang.Static Lang.Domain Lang.MacroStatic
  Comp.Passes Comp.Closed Text.Dec SM.Model Script.Model Script.Shift Pyg.Engine Gen.PygTable Text.Str Text.MStr Text.MLex Text.Meta Text.Num Dec.Writer Comp.PopSem Comp.BackEnd Comp.FinalizeSem Comp.ActSem Comp.StripSem Comp.MacroRA Comp.MacroBuild.
Extraction Language OCaml.
Extraction "extracted.ml"
  equiv_run cfg_of_ssb ssb_entries cfg_of_prog pair_entries silent_cycle observe param_eqb
  strip finalize remove_all passes ordered closed_b
  serialize deserialize rewrite_offsets
  print_script compile_script renumber cli_number
  inline well_scoped events_ok program_has unknown_macro too_few_args self_recursive trap
  lex pyg_table table_ok
  print_single read_single single_exact lex_body
  print_multi read_multi multi_exact lex_multi occurs3
  read_int read_pos_arg read_fixed is_decimal_token spell_dec spell_radix spell_zero print_pos_arg
  wrun winit
  cfg_of_pops pop_entries backend_ok finalize_ok strip_ok
  exec flat_t spec_f ops_f
  build
  parse_meta dispatches_to_ssbscript FALLBACK_HEAD
  Z.add Z.mul Z.opp Z.abs Z.div_eucl.
