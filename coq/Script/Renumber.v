(* Position numbering does not change the machine's view of a routine set: the flow graph of
   [renumber P] is the flow graph of [P], node for node.  (Used by C07, C15 and by the harness,
   which hands the decompiler routine sets numbered by position.) *)
From ES Require Import Base Ssb.Param Ssb.Cfg Ssb.Tables Ssb.Machine Script.Model.

Lemma find_pos z l : forall i k,
  match find_off z l i, pos_of_off z l k with
  | Some n, Some p => i <= n /\ p = (k + Z.of_nat (n - i))%Z
  | None, None => True
  | _, _ => False
  end.
Proof.
  induction l as [|o l IH]; intros i k; cbn [find_off pos_of_off]; [trivial|].
  destruct (Z.eqb (off o) z).
  - split; [lia|]. rewrite Nat.sub_diag. cbn. lia.
  - specialize (IH (S i) (k + 1)%Z).
    destruct (find_off z l (S i)) as [n|], (pos_of_off z l (k + 1)%Z) as [p|]; try exact IH.
    destruct IH as [? ->]. split; lia.
Qed.

Lemma pos_find z l p : pos_of_off z l 0 = Some p -> find_off z l 0 = Some (Z.to_nat p) /\ (0 <= p)%Z.
Proof.
  intro H. pose proof (find_pos z l 0 0%Z) as F. rewrite H in F.
  destruct (find_off z l 0) as [n|]; [|contradiction].
  destruct F as [_ ->]. rewrite Nat.sub_0_r. cbn [Z.add]. rewrite Nat2Z.id. split; [reflexivity|lia].
Qed.

Lemma pos_lt z l : forall k p, pos_of_off z l k = Some p -> (k <= p < k + Z.of_nat (length l))%Z.
Proof.
  induction l as [|o l IH]; intros k p H; cbn [pos_of_off] in H; [discriminate|].
  cbn [length]. destruct (Z.eqb (off o) z).
  - inversion H; subst. lia.
  - apply IH in H. lia.
Qed.

Lemma renumber_off all o k : off (renumber_op all o k) = k.
Proof.
  unfold renumber_op. destruct (jump_index (code o)); [|reflexivity].
  destruct (nth_error (params o) n) as [[z| | | | |]|]; try reflexivity.
  destruct (pos_of_off z all 0); reflexivity.
Qed.

Lemma renumber_code all o k : code (renumber_op all o k) = code o.
Proof.
  unfold renumber_op. destruct (jump_index (code o)); [|reflexivity].
  destruct (nth_error (params o) n) as [[z| | | | |]|]; try reflexivity.
  destruct (pos_of_off z all 0); reflexivity.
Qed.

Lemma renumber_routine_length all r : forall k, length (renumber_routine all r k) = length r.
Proof. induction r as [|o r IH]; intro k; cbn [renumber_routine length]; [reflexivity | rewrite IH; reflexivity]. Qed.

Lemma renumber_routine_app all r1 : forall r2 k,
  renumber_routine all (r1 ++ r2) k = renumber_routine all r1 k ++ renumber_routine all r2 (k + Z.of_nat (length r1))%Z.
Proof.
  induction r1 as [|o r1 IH]; intros r2 k.
  - cbn [app renumber_routine length Z.of_nat]. rewrite Z.add_0_r. reflexivity.
  - cbn [app renumber_routine]. rewrite IH. do 3 f_equal. cbn [length]. lia.
Qed.

Lemma renumber_from_concat all P : forall k,
  concat (renumber_from all P k) = renumber_routine all (concat P) k.
Proof.
  induction P as [|r P IH]; intro k; [reflexivity|].
  cbn [renumber_from concat]. rewrite IH, renumber_routine_app. reflexivity.
Qed.

(* in a position-numbered list the op with offset p is the p-th *)
Lemma find_off_renumbered all r : forall k i p,
  (k <= p < k + Z.of_nat (length r))%Z ->
  find_off p (renumber_routine all r k) i = Some (i + Z.to_nat (p - k)).
Proof.
  induction r as [|o r IH]; intros k i p H; cbn [length] in H; [cbn in H; lia|].
  cbn [renumber_routine find_off]. rewrite renumber_off.
  destruct (Z.eqb k p) eqn:E.
  - apply Z.eqb_eq in E. subst. rewrite Z.sub_diag. cbn. f_equal. lia.
  - apply Z.eqb_neq in E. rewrite IH by lia. f_equal.
    replace (p - k)%Z with (Z.succ (p - (k + 1)))%Z by lia. rewrite Z2Nat.inj_succ by lia. lia.
Qed.

Lemma remove_nth_app_last {A} (l : list A) x : remove_nth (length l) (l ++ [x]) = l.
Proof. induction l as [|y l IH]; cbn [length app remove_nth]; [reflexivity | rewrite IH; reflexivity]. Qed.

Lemma nth_error_app_last {A} (l : list A) x : nth_error (l ++ [x]) (length l) = Some x.
Proof. induction l as [|y l IH]; cbn [length app nth_error]; [reflexivity | exact IH]. Qed.

Lemma remove_nth_length {A} (l : list A) : forall n, n < length l -> length (remove_nth n l) = length l - 1.
Proof.
  induction l as [|y l IH]; intros n H; cbn [length] in *; [lia|].
  destruct n; cbn [remove_nth length]; [lia|]. rewrite IH by lia. lia.
Qed.

Lemma node_of_renumbered all0 all' stopn o k nxt pc :
  op_wf_script all0 o = true ->
  (forall z p, pos_of_off z all0 0 = Some p -> find_off p all' 0 = Some (Z.to_nat p)) ->
  node_of_op all' stopn (renumber_op all0 o k) nxt pc = node_of_op all0 stopn o nxt pc.
Proof.
  intros Hwf Hfind. unfold node_of_op. rewrite renumber_code.
  unfold op_wf_script in Hwf. unfold renumber_op.
  destruct (jump_index (code o)) as [idx|] eqn:J; [|cbn [code params]; reflexivity].
  apply andb_true_iff in Hwf. destruct Hwf as [Hlen Hex]. apply Nat.eqb_eq in Hlen.
  destruct (nth_error (params o) idx) as [[z| | | | |]|] eqn:N; try discriminate.
  apply existsb_exists in Hex.
  assert (Hp : exists p, pos_of_off z all0 0 = Some p).
  { pose proof (find_pos z all0 0 0%Z) as F.
    destruct (pos_of_off z all0 0) as [p|]; [exists p; reflexivity|].
    destruct (find_off z all0 0) eqn:Ef; [contradiction|]. exfalso.
    destruct Hex as [o' [Hin E]]. clear - Hin E Ef. revert Ef. generalize 0.
    induction all0 as [|a l IH]; intros i Ef; [contradiction|]. cbn [find_off] in Ef.
    destruct Hin as [->|Hin]; [rewrite E in Ef; discriminate|].
    destruct (Z.eqb (off a) z); [discriminate|]. apply (IH Hin _ Ef). }
  destruct Hp as [p Hp]. rewrite Hp. cbn [code params].
  assert (Hl : length (remove_nth idx (params o)) = idx) by (rewrite remove_nth_length; lia).
  assert (E1 : nth_error (remove_nth idx (params o) ++ [PInt p]) idx = Some (PInt p)).
  { rewrite <- Hl at 2. apply nth_error_app_last. }
  assert (E2 : remove_nth idx (remove_nth idx (params o) ++ [PInt p]) = remove_nth idx (params o)).
  { rewrite <- Hl at 1. apply remove_nth_app_last. }
  rewrite E1, E2.
  rewrite (Hfind z p Hp). destruct (pos_find z all0 p Hp) as [Hf _]. rewrite Hf. reflexivity.
Qed.

Lemma nodes_of_renumbered_routine all0 all' fall stopn r : forall k g pc,
  forallb (op_wf_script all0) r = true ->
  (forall z p, pos_of_off z all0 0 = Some p -> find_off p all' 0 = Some (Z.to_nat p)) ->
  nodes_of_routine all' fall stopn (renumber_routine all0 r k) g pc = nodes_of_routine all0 fall stopn r g pc.
Proof.
  induction r as [|o r IH]; intros k g pc Hwf Hf; [reflexivity|].
  cbn [forallb] in Hwf. apply andb_true_iff in Hwf. destruct Hwf as [Ho Hr].
  cbn [renumber_routine nodes_of_routine]. rewrite renumber_code, IH by assumption.
  rewrite node_of_renumbered by assumption.
  destruct r; reflexivity.
Qed.

Lemma nodes_of_renumbered_program all0 all' fall stopn P : forall k g,
  forallb (op_wf_script all0) (concat P) = true ->
  (forall z p, pos_of_off z all0 0 = Some p -> find_off p all' 0 = Some (Z.to_nat p)) ->
  nodes_of_program all' fall stopn (renumber_from all0 P k) g = nodes_of_program all0 fall stopn P g.
Proof.
  induction P as [|r P IH]; intros k g Hwf Hf; [reflexivity|].
  cbn [concat] in Hwf. rewrite forallb_app in Hwf. apply andb_true_iff in Hwf. destruct Hwf as [Hr HP].
  cbn [renumber_from nodes_of_program]. rewrite nodes_of_renumbered_routine by assumption.
  rewrite renumber_routine_length, IH by assumption. reflexivity.
Qed.

Lemma entries_renumbered all0 P : forall k g, entries_of (renumber_from all0 P k) g = entries_of P g.
Proof.
  induction P as [|r P IH]; intros k g; [reflexivity|].
  cbn [renumber_from entries_of]. rewrite renumber_routine_length, IH. destruct r; reflexivity.
Qed.

Theorem renumber_same_cfg (P : program) :
  forallb (op_wf_script (all_ops P)) (all_ops P) = true ->
  cfg_of_ssb (renumber P) = cfg_of_ssb P /\ ssb_entries (renumber P) = ssb_entries P.
Proof.
  intro Hwf. split; [|apply entries_renumbered].
  unfold cfg_of_ssb, renumber, all_ops in *.
  rewrite renumber_from_concat, renumber_routine_length.
  rewrite nodes_of_renumbered_program; [reflexivity | exact Hwf |].
  intros z p Hp. pose proof (pos_lt _ _ _ _ Hp) as Hlt.
  rewrite find_off_renumbered by lia. f_equal. rewrite Z.sub_0_r. reflexivity.
Qed.
