(* Adding a constant to every offset and every jump target does not change the machine's view of a routine set; the
   numbering of the compile command's JSON output - every jump parameter is the 1-based position of its target,
   counted across all routines, and the decompile command numbers the ops it reads in the same way - is the position
   numbering of Script/Model.v shifted by one. *)
From ES Require Import Base Ssb.Param Ssb.Cfg Ssb.Tables Ssb.Machine Script.Model Script.Renumber.

Fixpoint replace_nth {A} (n : nat) (x : A) (l : list A) : list A :=
  match l, n with
  | [], _ => []
  | _ :: r, O => x :: r
  | y :: r, S n' => y :: replace_nth n' x r
  end.

Definition shift_op (d : Z) (o : op) : op :=
  match jump_index (code o) with
  | Some idx =>
      match nth_error (params o) idx with
      | Some (PInt z) => mkOp (off o + d) (code o) (replace_nth idx (PInt (z + d)%Z) (params o))
      | _ => mkOp (off o + d) (code o) (params o)
      end
  | None => mkOp (off o + d) (code o) (params o)
  end.

Definition shift (d : Z) (P : program) : program := map (map (shift_op d)) P.

(* the numbering of the command line tools *)
Definition cli_number (P : program) : program := shift 1 (renumber P).

Lemma shift_off d o : off (shift_op d o) = (off o + d)%Z.
Proof.
  unfold shift_op. destruct (jump_index (code o)); [|reflexivity].
  destruct (nth_error (params o) n) as [[z| | | | |]|]; reflexivity.
Qed.

Lemma shift_code d o : code (shift_op d o) = code o.
Proof.
  unfold shift_op. destruct (jump_index (code o)); [|reflexivity].
  destruct (nth_error (params o) n) as [[z| | | | |]|]; reflexivity.
Qed.

Lemma find_off_shift d z l : forall i, find_off (z + d) (map (shift_op d) l) i = find_off z l i.
Proof.
  induction l as [|o l IH]; intro i; [reflexivity|]. cbn [map find_off]. rewrite shift_off.
  replace (Z.eqb (off o + d) (z + d)) with (Z.eqb (off o) z); [rewrite IH; reflexivity|].
  destruct (Z.eqb (off o) z) eqn:E.
  - apply Z.eqb_eq in E. symmetry. apply Z.eqb_eq. lia.
  - apply Z.eqb_neq in E. symmetry. apply Z.eqb_neq. lia.
Qed.

Lemma nth_error_replace {A} (x : A) l : forall n y, nth_error l n = Some y -> nth_error (replace_nth n x l) n = Some x.
Proof.
  induction l as [|a l IH]; intros n y H; [destruct n; discriminate H|].
  destruct n; cbn [replace_nth nth_error] in *; [reflexivity | eapply IH; exact H].
Qed.

Lemma remove_replace {A} (x : A) l : forall n, remove_nth n (replace_nth n x l) = remove_nth n l.
Proof.
  induction l as [|a l IH]; intro n; [destruct n; reflexivity|].
  destruct n; cbn [replace_nth remove_nth]; [reflexivity | rewrite IH; reflexivity].
Qed.

Lemma node_of_shift d all stopn o nxt pc :
  node_of_op (map (shift_op d) all) stopn (shift_op d o) nxt pc = node_of_op all stopn o nxt pc.
Proof.
  unfold node_of_op. rewrite shift_code. unfold shift_op.
  destruct (jump_index (code o)) as [idx|] eqn:J; [|reflexivity].
  destruct (nth_error (params o) idx) as [[z| | | | |]|] eqn:N; cbn [params code]; rewrite ?N; try reflexivity.
  rewrite (nth_error_replace _ _ _ _ N), find_off_shift, remove_replace. reflexivity.
Qed.

Lemma nodes_of_routine_shift d all fall stopn r : forall g pc,
  nodes_of_routine (map (shift_op d) all) fall stopn (map (shift_op d) r) g pc = nodes_of_routine all fall stopn r g pc.
Proof.
  induction r as [|o r IH]; intros g pc; [reflexivity|].
  cbn [map nodes_of_routine]. rewrite node_of_shift, shift_code, IH. destruct r; reflexivity.
Qed.

Lemma nodes_of_program_shift d all fall stopn P : forall g,
  nodes_of_program (map (shift_op d) all) fall stopn (shift d P) g = nodes_of_program all fall stopn P g.
Proof.
  induction P as [|r P IH]; intro g; [reflexivity|].
  cbn [shift map nodes_of_program]. rewrite nodes_of_routine_shift, map_length. fold (shift d P). rewrite IH. reflexivity.
Qed.

Lemma all_ops_shift d P : all_ops (shift d P) = map (shift_op d) (all_ops P).
Proof. unfold all_ops, shift. rewrite concat_map. reflexivity. Qed.

Lemma entries_shift d P : forall g, entries_of (shift d P) g = entries_of P g.
Proof.
  induction P as [|r P IH]; intro g; [reflexivity|].
  cbn [shift map entries_of]. fold (shift d P). rewrite map_length, IH. destruct r; reflexivity.
Qed.

Theorem shift_same_cfg d P : cfg_of_ssb (shift d P) = cfg_of_ssb P /\ ssb_entries (shift d P) = ssb_entries P.
Proof.
  split; [|apply entries_shift].
  unfold cfg_of_ssb. rewrite all_ops_shift, map_length, nodes_of_program_shift. reflexivity.
Qed.

Theorem cli_number_same_cfg P :
  forallb (op_wf_script (all_ops P)) (all_ops P) = true ->
  cfg_of_ssb (cli_number P) = cfg_of_ssb P /\ ssb_entries (cli_number P) = ssb_entries P.
Proof.
  intro Hwf. unfold cli_number. destruct (shift_same_cfg 1 (renumber P)) as [E1 E2].
  destruct (renumber_same_cfg P Hwf) as [E3 E4]. rewrite E1, E2, E3, E4. split; reflexivity.
Qed.
