(* SsbScript: model of printing (OpsLabelJumpToResolver + process_op_for_jump + SsbScriptSsbDecompiler,
   at the level of statement lists) and of compiling (SsbScriptCompilerListener + OpsLabelJumpToRemover).
   Model file: definitions only. *)
From ES Require Import Base Ssb.Param Ssb.Tables Ssb.Machine.

Inductive sstmt :=
| SLab (l : nat)                                           (* @label_l; *)
| SOpS (code : string) (ps : list param) (jump : option nat).   (* code(ps.., @label_j); *)

Definition table := list (Z * nat).       (* target offset -> label id, newest first *)

Fixpoint tlookup (z : Z) (t : table) : option nat :=
  match t with [] => None | (k, l) :: r => if Z.eqb k z then Some l else tlookup z r end.

(* next label id: 0 for the empty table, else max id + 1 *)
Definition next_id (t : table) : nat :=
  match t with [] => 0 | _ => S (fold_right (fun kl m => Nat.max (snd kl) m) 0 t) end.

(* process_op_for_jump *)
Definition resolve_op (o : op) (t : table) : result (op * option nat * table) :=
  match jump_index (code o) with
  | None => Ok (o, None, t)
  | Some idx =>
      if Nat.ltb (length (params o)) idx then Err "ValueError: jump address missing"
      else match nth_error (params o) idx with
           | None => Err "IndexError"
           | Some (PInt z) =>
               let o' := mkOp (off o) (code o) (remove_nth idx (params o)) in
               match tlookup z t with
               | Some l => Ok (o', Some l, t)
               | None => let l := next_id t in Ok (o', Some l, (z, l) :: t)
               end
           | Some _ => Err "AssertionError: jump address is not an integer"
           end
  end.

Fixpoint resolve_ops (r : list op) (t : table) : result (list (op * option nat) * table) :=
  match r with
  | [] => Ok ([], t)
  | o :: rest =>
      do x <- resolve_op o t;
      let '(o', j, t') := x in
      do y <- resolve_ops rest t';
      let '(outs, t'') := y in
      Ok ((o', j) :: outs, t'')
  end.

Fixpoint resolve_all (P : program) (t : table) : result (list (list (op * option nat)) * table) :=
  match P with
  | [] => Ok ([], t)
  | r :: rest =>
      do x <- resolve_ops r t;
      let '(out, t') := x in
      do y <- resolve_all rest t';
      let '(outs, t'') := y in
      Ok (out :: outs, t'')
  end.

(* labels are written before the op at their offset *)
Fixpoint interleave (r : list (op * option nat)) (t : table) : list sstmt :=
  match r with
  | [] => []
  | (o, j) :: rest =>
      match tlookup (off o) t with
      | Some l => SLab l :: SOpS (code o) (params o) j :: interleave rest t
      | None => SOpS (code o) (params o) j :: interleave rest t
      end
  end.

Definition print_script (P : program) : result (list (list sstmt)) :=
  do x <- resolve_all P [];
  let '(rs, t) := x in
  Ok (map (fun r => interleave r t) rs).

(* ---- the listener: ops are numbered 0.. in text order; a label stands for the next op ---- *)
Record lstate := mkL { l_total : Z; l_pending : list nat; l_offsets : list (nat * Z) }.

Inductive lop := LOp (o : op) | LJump (o : op) (l : nat).

Fixpoint assign_all (ls : list nat) (z : Z) (t : list (nat * Z)) : list (nat * Z) :=
  match ls with [] => t | l :: r => assign_all r z ((l, z) :: t) end.

Fixpoint listen (r : list sstmt) (s : lstate) : list lop * lstate :=
  match r with
  | [] => ([], s)
  | SLab l :: rest => listen rest (mkL (l_total s) (l :: l_pending s) (l_offsets s))
  | SOpS c ps j :: rest =>
      let idx := l_total s in
      let o := mkOp idx c ps in
      let s' := mkL (idx + 1)%Z [] (assign_all (l_pending s) idx (l_offsets s)) in
      let '(outs, s'') := listen rest s' in
      ((match j with Some l => LJump o l | None => LOp o end) :: outs, s'')
  end.

Fixpoint listen_all (rs : list (list sstmt)) (s : lstate) : list (list lop) * lstate :=
  match rs with
  | [] => ([], s)
  | r :: rest =>
      let '(out, s') := listen r s in
      let '(outs, s'') := listen_all rest s' in
      (out :: outs, s'')
  end.

Fixpoint olookup (l : nat) (t : list (nat * Z)) : option Z :=
  match t with [] => None | (k, z) :: r => if Nat.eqb k l then Some z else olookup l r end.

Fixpoint remove_labels (t : list (nat * Z)) (r : list lop) : result (list op) :=
  match r with
  | [] => Ok []
  | LOp o :: rest => do out <- remove_labels t rest; Ok (o :: out)
  | LJump o l :: rest =>
      match olookup l t with
      | None => Err "Label does not exist, but a jump to it does"
      | Some z => do out <- remove_labels t rest; Ok (mkOp (off o) (code o) (params o ++ [PInt z]) :: out)
      end
  end.

Fixpoint remove_labels_all (t : list (nat * Z)) (rs : list (list lop)) : result program :=
  match rs with
  | [] => Ok []
  | r :: rest => do o <- remove_labels t r; do os <- remove_labels_all t rest; Ok (o :: os)
  end.

Definition compile_script (rs : list (list sstmt)) : result program :=
  let '(outs, s) := listen_all rs (mkL 0 [] []) in
  remove_labels_all (l_offsets s) outs.

(* ---- specification: the same routine set with position numbering ---- *)
Fixpoint pos_of_off (z : Z) (l : list op) (k : Z) : option Z :=
  match l with [] => None | o :: r => if Z.eqb (off o) z then Some k else pos_of_off z r (k + 1)%Z end.

Definition renumber_op (all : list op) (o : op) (k : Z) : op :=
  match jump_index (code o) with
  | Some idx =>
      match nth_error (params o) idx with
      | Some (PInt z) =>
          match pos_of_off z all 0 with
          | Some p => mkOp k (code o) (remove_nth idx (params o) ++ [PInt p])
          | None => mkOp k (code o) (params o)
          end
      | _ => mkOp k (code o) (params o)
      end
  | None => mkOp k (code o) (params o)
  end.

Fixpoint renumber_routine (all : list op) (r : list op) (k : Z) : list op :=
  match r with [] => [] | o :: rest => renumber_op all o k :: renumber_routine all rest (k + 1)%Z end.

Fixpoint renumber_from (all : list op) (P : program) (k : Z) : program :=
  match P with
  | [] => []
  | r :: rest => renumber_routine all r k :: renumber_from all rest (k + Z.of_nat (length r))%Z
  end.

Definition renumber (P : program) : program := renumber_from (all_ops P) P 0.

(* inputs of C07: unique offsets, every jump-carrying op has exactly the arity of the table and an
   integer target that is the offset of an op of the set *)
Definition op_wf_script (all : list op) (o : op) : bool :=
  match jump_index (code o) with
  | None => true
  | Some idx =>
      Nat.eqb (length (params o)) (S idx) &&
      match nth_error (params o) idx with
      | Some (PInt z) => existsb (fun o' => Z.eqb (off o') z) all
      | _ => false
      end
  end.
