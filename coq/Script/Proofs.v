(* SsbScript round trip: compiling the statement lists printed for a routine set gives the same
   routine set with position numbering (Script.Model.renumber), for every routine set with unique
   offsets whose jump-carrying ops have an integer target that is the offset of an op of the set. *)
From ES Require Import Base Ssb.Param Ssb.Tables Ssb.Machine Script.Model.

(* ---------- what the resolver does to one op, stated directly ---------- *)
Definition tgt (o : op) : option Z :=
  match jump_index (code o) with
  | Some idx => match nth_error (params o) idx with Some (PInt z) => Some z | _ => None end
  | None => None
  end.

Definition strip_op (o : op) : op :=
  match jump_index (code o) with
  | Some idx => mkOp (off o) (code o) (remove_nth idx (params o))
  | None => o
  end.

Definition op_ok (o : op) : Prop :=
  match jump_index (code o) with
  | None => True
  | Some idx => exists z, nth_error (params o) idx = Some (PInt z)
  end.

Definition ext_op (t : table) (o : op) : table :=
  match tgt o with
  | Some z => match tlookup z t with Some _ => t | None => (z, next_id t) :: t end
  | None => t
  end.
Definition ext_ops (t : table) (r : list op) : table := fold_left ext_op r t.
Definition ext_all (t : table) (P : program) : table := fold_left ext_ops P t.

(* the label printed as jump argument of [o], under table [T] *)
Definition jl (T : table) (o : op) : option nat :=
  match tgt o with Some z => tlookup z T | None => None end.

Lemma strip_off o : off (strip_op o) = off o.
Proof. unfold strip_op. destruct (jump_index (code o)); reflexivity. Qed.
Lemma strip_code o : code (strip_op o) = code o.
Proof. unfold strip_op. destruct (jump_index (code o)); reflexivity. Qed.

Lemma resolve_op_spec o t :
  op_ok o -> resolve_op o t = Ok (strip_op o, jl (ext_op t o) o, ext_op t o).
Proof.
  unfold op_ok, resolve_op, strip_op, jl, ext_op, tgt.
  destruct (jump_index (code o)) as [idx|]; [|reflexivity].
  intros [z Hz]. rewrite Hz.
  assert (Hlt : Nat.ltb (length (params o)) idx = false).
  { apply Nat.ltb_ge. assert (idx < length (params o)) by (apply nth_error_Some; congruence). lia. }
  rewrite Hlt.
  destruct (tlookup z t) as [l|] eqn:E.
  - rewrite E. reflexivity.
  - cbn [tlookup]. rewrite Z.eqb_refl. reflexivity.
Qed.

(* ---------- the table only grows, and never changes an answer ---------- *)
Lemma ext_op_stable t o z l : tlookup z t = Some l -> tlookup z (ext_op t o) = Some l.
Proof.
  intro H. unfold ext_op. destruct (tgt o) as [z'|]; [|exact H].
  destruct (tlookup z' t) eqn:E; [exact H|].
  cbn [tlookup]. destruct (Z.eqb z' z) eqn:Ez; [|exact H].
  apply Z.eqb_eq in Ez. subst. congruence.
Qed.

Lemma ext_ops_stable r : forall t z l, tlookup z t = Some l -> tlookup z (ext_ops t r) = Some l.
Proof.
  induction r as [|o r IH]; intros t z l H; [exact H|].
  cbn [ext_ops fold_left]. apply IH. apply ext_op_stable. exact H.
Qed.

Lemma ext_all_stable P : forall t z l, tlookup z t = Some l -> tlookup z (ext_all t P) = Some l.
Proof.
  induction P as [|r P IH]; intros t z l H; [exact H|].
  cbn [ext_all fold_left]. apply IH. apply ext_ops_stable. exact H.
Qed.

Lemma ext_op_has t o z : tgt o = Some z -> exists l, tlookup z (ext_op t o) = Some l.
Proof.
  intro H. unfold ext_op. rewrite H. destruct (tlookup z t) as [l|] eqn:E.
  - exists l. exact E.
  - exists (next_id t). cbn [tlookup]. rewrite Z.eqb_refl. reflexivity.
Qed.

Lemma ext_ops_has r : forall t o z, In o r -> tgt o = Some z -> exists l, tlookup z (ext_ops t r) = Some l.
Proof.
  induction r as [|o' r IH]; intros t o z Hin Ht; [contradiction|].
  cbn [ext_ops fold_left]. destruct Hin as [->|Hin].
  - destruct (ext_op_has t o z Ht) as [l Hl]. exists l. apply ext_ops_stable. exact Hl.
  - apply (IH _ o z Hin Ht).
Qed.

Lemma ext_all_concat P : forall t, ext_all t P = ext_ops t (concat P).
Proof.
  induction P as [|r P IH]; intro t; [reflexivity|].
  change (ext_all (ext_ops t r) P = ext_ops t (r ++ concat P)). rewrite IH.
  unfold ext_ops. rewrite fold_left_app. reflexivity.
Qed.

Lemma jl_stable_op t o r : jl (ext_ops (ext_op t o) r) o = jl (ext_op t o) o.
Proof.
  unfold jl. destruct (tgt o) as [z|] eqn:E; [|reflexivity].
  destruct (ext_op_has t o z E) as [l Hl]. rewrite Hl. apply ext_ops_stable. exact Hl.
Qed.

(* ---------- labels are fresh: distinct targets get distinct labels ---------- *)
Lemma In_lt_next_id t : forall z l, In (z, l) t -> l < next_id t.
Proof.
  intros z l H. unfold next_id. destruct t as [|p t]; [contradiction|].
  apply Nat.lt_succ_r. revert H. generalize (p :: t). intros t' H.
  induction t' as [|[z' l'] t' IH]; [contradiction|].
  cbn [fold_right snd]. destruct H as [E|H].
  - inversion E; subst. apply Nat.le_max_l.
  - etransitivity; [apply IH; exact H | apply Nat.le_max_r].
Qed.

Lemma ext_op_nodup t o : NoDup (map snd t) -> NoDup (map snd (ext_op t o)).
Proof.
  intro H. unfold ext_op. destruct (tgt o) as [z|]; [|exact H].
  destruct (tlookup z t); [exact H|].
  cbn [map snd]. constructor; [|exact H].
  intro Hin. apply in_map_iff in Hin. destruct Hin as [[z' l'] [E Hin]]. cbn [snd] in E. subst l'.
  apply In_lt_next_id in Hin. lia.
Qed.

Lemma ext_ops_nodup r : forall t, NoDup (map snd t) -> NoDup (map snd (ext_ops t r)).
Proof.
  induction r as [|o r IH]; intros t H; [exact H|].
  cbn [ext_ops fold_left]. apply IH. apply ext_op_nodup. exact H.
Qed.

Lemma tlookup_In z l : forall t, tlookup z t = Some l -> In (z, l) t.
Proof.
  induction t as [|[k v] t IH]; cbn [tlookup]; [discriminate|].
  destruct (Z.eqb k z) eqn:E.
  - intro H. inversion H; subst. apply Z.eqb_eq in E. subst. left. reflexivity.
  - intro H. right. apply IH. exact H.
Qed.

Lemma nodup_snd_inj (t : table) : NoDup (map snd t) ->
  forall z1 z2 l, In (z1, l) t -> In (z2, l) t -> z1 = z2.
Proof.
  induction t as [|[k v] t IH]; intros Hnd z1 z2 l H1 H2; [contradiction|].
  cbn [map snd] in Hnd. inversion Hnd as [|? ? Hnot Hnd']; subst.
  destruct H1 as [E1|H1], H2 as [E2|H2].
  - congruence.
  - inversion E1; subst. exfalso. apply Hnot. apply in_map_iff. exists (z2, l). split; [reflexivity|exact H2].
  - inversion E2; subst. exfalso. apply Hnot. apply in_map_iff. exists (z1, l). split; [reflexivity|exact H1].
  - apply (IH Hnd' z1 z2 l H1 H2).
Qed.

Definition label_inj (T : table) : Prop :=
  forall z1 z2 l, tlookup z1 T = Some l -> tlookup z2 T = Some l -> z1 = z2.

Lemma nodup_label_inj T : NoDup (map snd T) -> label_inj T.
Proof.
  intros H z1 z2 l H1 H2. apply (nodup_snd_inj T H z1 z2 l); apply tlookup_In; assumption.
Qed.

(* ---------- the resolver on routines and programs ---------- *)
Definition res (T : table) (o : op) : op * option nat := (strip_op o, jl T o).

Lemma resolve_ops_spec r : forall t, Forall op_ok r ->
  resolve_ops r t = Ok (map (res (ext_ops t r)) r, ext_ops t r).
Proof.
  induction r as [|o r IH]; intros t H; [reflexivity|].
  inversion H as [|? ? Ho Hr]; subst.
  cbn [resolve_ops]. rewrite (resolve_op_spec o t Ho). cbn [bind].
  rewrite (IH (ext_op t o) Hr). cbn [bind map ext_ops fold_left].
  unfold res at 2. fold (ext_ops (ext_op t o) r). rewrite jl_stable_op. reflexivity.
Qed.

Lemma res_ext_stable r T r' : (forall o, In o r -> forall z, tgt o = Some z -> exists l, tlookup z T = Some l) ->
  map (res (ext_ops T r')) r = map (res T) r.
Proof.
  intro H. apply map_ext_in. intros o Hin. unfold res, jl. destruct (tgt o) as [z|] eqn:E; [|reflexivity].
  destruct (H o Hin z E) as [l Hl]. rewrite Hl. rewrite (ext_ops_stable r' T z l Hl). reflexivity.
Qed.

Lemma resolve_all_spec P : forall t, Forall op_ok (concat P) ->
  resolve_all P t = Ok (map (map (res (ext_all t P))) P, ext_all t P).
Proof.
  induction P as [|r P IH]; intros t H; [reflexivity|].
  cbn [concat] in H. apply Forall_app in H. destruct H as [Hr HP].
  cbn [resolve_all]. rewrite (resolve_ops_spec r t Hr). cbn [bind].
  rewrite (IH (ext_ops t r) HP). cbn [bind map].
  change (ext_all t (r :: P)) with (ext_all (ext_ops t r) P).
  replace (map (res (ext_all (ext_ops t r) P)) r) with (map (res (ext_ops t r)) r); [reflexivity|].
  rewrite ext_all_concat. symmetry. apply res_ext_stable.
  intros o Hin z Hz. apply (ext_ops_has r t o z Hin Hz).
Qed.

(* ---------- the printed statements of a routine ---------- *)
Definition stm_of (T : table) (o : op) : list sstmt :=
  match tlookup (off o) T with
  | Some l => [SLab l; SOpS (code o) (params (strip_op o)) (jl T o)]
  | None => [SOpS (code o) (params (strip_op o)) (jl T o)]
  end.

Lemma interleave_spec T r : interleave (map (res T) r) T = flat_map (stm_of T) r.
Proof.
  induction r as [|o r IH]; [reflexivity|].
  cbn [map interleave flat_map]. unfold res at 1. unfold stm_of at 1.
  rewrite strip_off, strip_code. destruct (tlookup (off o) T); cbn [app]; rewrite IH; reflexivity.
Qed.

(* ---------- the listener on printed statements ---------- *)
Definition lop_of (T : table) (o : op) (k : Z) : lop :=
  let o' := mkOp k (code o) (params (strip_op o)) in
  match jl T o with Some l => LJump o' l | None => LOp o' end.

Fixpoint lops (T : table) (r : list op) (k : Z) : list lop :=
  match r with [] => [] | o :: rest => lop_of T o k :: lops T rest (k + 1)%Z end.

Fixpoint loffs (T : table) (r : list op) (k : Z) (O : list (nat * Z)) : list (nat * Z) :=
  match r with
  | [] => O
  | o :: rest => loffs T rest (k + 1)%Z (match tlookup (off o) T with Some l => (l, k) :: O | None => O end)
  end.

Lemma listen_spec T r : forall k O,
  listen (flat_map (stm_of T) r) (mkL k [] O) =
  (lops T r k, mkL (k + Z.of_nat (length r))%Z [] (loffs T r k O)).
Proof.
  induction r as [|o r IH]; intros k O.
  - cbn [flat_map listen lops loffs length Z.of_nat]. rewrite Z.add_0_r. reflexivity.
  - cbn [flat_map lops loffs]. unfold stm_of at 1.
    replace (k + Z.of_nat (length (o :: r)))%Z with ((k + 1) + Z.of_nat (length r))%Z
      by (cbn [length]; lia).
    destruct (tlookup (off o) T) as [l|]; cbn [app listen l_total l_pending l_offsets assign_all];
      rewrite IH; unfold lop_of; destruct (jl T o); reflexivity.
Qed.

Fixpoint lops_all (T : table) (P : program) (k : Z) : list (list lop) :=
  match P with [] => [] | r :: rest => lops T r k :: lops_all T rest (k + Z.of_nat (length r))%Z end.

Lemma loffs_app T r1 : forall r2 k O,
  loffs T (r1 ++ r2) k O = loffs T r2 (k + Z.of_nat (length r1))%Z (loffs T r1 k O).
Proof.
  induction r1 as [|o r1 IH]; intros r2 k O.
  - cbn [app loffs length Z.of_nat]. rewrite Z.add_0_r. reflexivity.
  - cbn [app loffs]. rewrite IH. f_equal. cbn [length]. lia.
Qed.

Lemma listen_all_spec T P : forall k O,
  listen_all (map (fun r => flat_map (stm_of T) r) P) (mkL k [] O) =
  (lops_all T P k, mkL (k + Z.of_nat (length (concat P)))%Z [] (loffs T (concat P) k O)).
Proof.
  induction P as [|r P IH]; intros k O.
  - cbn [map listen_all lops_all concat length Z.of_nat loffs]. rewrite Z.add_0_r. reflexivity.
  - cbn [map listen_all lops_all concat]. rewrite listen_spec. rewrite IH.
    rewrite loffs_app. rewrite app_length. f_equal. f_equal. lia.
Qed.

(* ---------- what the label offsets say ---------- *)
Lemma loffs_other T l r : forall k O,
  (forall o, In o r -> tlookup (off o) T <> Some l) ->
  olookup l (loffs T r k O) = olookup l O.
Proof.
  induction r as [|o r IH]; intros k O H; [reflexivity|].
  cbn [loffs]. rewrite IH by (intros o' Hin; apply H; right; exact Hin).
  destruct (tlookup (off o) T) as [l'|] eqn:E; [|reflexivity].
  cbn [olookup]. destruct (Nat.eqb l' l) eqn:El; [|reflexivity].
  apply Nat.eqb_eq in El. subst. exfalso. apply (H o); [left; reflexivity | exact E].
Qed.

Lemma pos_of_off_In z r : forall k p, pos_of_off z r k = Some p -> exists o, In o r /\ off o = z.
Proof.
  induction r as [|o r IH]; intros k p H; cbn [pos_of_off] in H; [discriminate|].
  destruct (Z.eqb (off o) z) eqn:E.
  - exists o. split; [left; reflexivity | apply Z.eqb_eq; exact E].
  - destruct (IH _ _ H) as [o' [Hin Ho]]. exists o'. split; [right; exact Hin | exact Ho].
Qed.

Lemma loffs_lookup T (Hinj : label_inj T) r : forall k O z l p,
  NoDup (map off r) -> tlookup z T = Some l -> pos_of_off z r k = Some p ->
  olookup l (loffs T r k O) = Some p.
Proof.
  induction r as [|o r IH]; intros k O z l p Hnd Hl Hp; cbn [pos_of_off] in Hp; [discriminate|].
  cbn [map] in Hnd. inversion Hnd as [|? ? Hnot Hnd']; subst.
  cbn [loffs]. destruct (Z.eqb (off o) z) eqn:E.
  - apply Z.eqb_eq in E. inversion Hp; subst. rewrite Hl.
    rewrite loffs_other; [cbn [olookup]; rewrite Nat.eqb_refl; reflexivity|].
    intros o' Hin Ho'. apply Hnot. rewrite (Hinj _ _ _ Hl Ho'). apply in_map. exact Hin.
  - apply (IH _ _ z l p Hnd' Hl Hp).
Qed.

Lemma pos_of_off_exists z r : forall k, (exists o, In o r /\ off o = z) -> exists p, pos_of_off z r k = Some p.
Proof.
  induction r as [|o r IH]; intros k [o' [Hin Ho]]; [contradiction|].
  cbn [pos_of_off]. destruct (Z.eqb (off o) z) eqn:E; [eexists; reflexivity|].
  apply IH. destruct Hin as [->|Hin]; [apply Z.eqb_neq in E; contradiction|].
  exists o'. split; assumption.
Qed.

(* ---------- removing the labels gives the renumbered routine ---------- *)
Definition op_wf (all : list op) (o : op) : Prop :=
  match jump_index (code o) with
  | None => True
  | Some idx => exists z, nth_error (params o) idx = Some (PInt z) /\ exists o', In o' all /\ off o' = z
  end.

Lemma remove_labels_spec T O all r : forall k,
  (forall o, In o r -> op_wf all o) ->
  (forall o z, In o r -> tgt o = Some z ->
     exists l p, tlookup z T = Some l /\ olookup l O = Some p /\ pos_of_off z all 0 = Some p) ->
  remove_labels O (lops T r k) = Ok (renumber_routine all r k).
Proof.
  induction r as [|o r IH]; intros k Hwf Hl; [reflexivity|].
  cbn [lops remove_labels renumber_routine].
  assert (IH' : remove_labels O (lops T r (k + 1)%Z) = Ok (renumber_routine all r (k + 1)%Z)).
  { apply IH.
    - intros o' Hin. apply Hwf. right. exact Hin.
    - intros o' z' Hin Hz. apply (Hl o' z'); [right; exact Hin | exact Hz]. }
  unfold lop_of, jl, renumber_op, strip_op.
  specialize (Hwf o (or_introl eq_refl)). specialize (Hl o).
  unfold op_wf in Hwf. unfold tgt in Hl |- *.
  destruct (jump_index (code o)) as [idx|].
  - destruct Hwf as [z [Hz _]]. rewrite Hz in Hl |- *.
    destruct (Hl z (or_introl eq_refl) eq_refl) as [l [p [H1 [H2 H3]]]].
    rewrite H1. cbn [remove_labels off code params]. rewrite H2, IH'. cbn [bind]. rewrite H3. reflexivity.
  - cbn [remove_labels]. rewrite IH'. cbn [bind]. destruct o; reflexivity.
Qed.

Lemma remove_labels_all_spec T O all P : forall k,
  (forall o, In o (concat P) -> op_wf all o) ->
  (forall o z, In o (concat P) -> tgt o = Some z ->
     exists l p, tlookup z T = Some l /\ olookup l O = Some p /\ pos_of_off z all 0 = Some p) ->
  remove_labels_all O (lops_all T P k) = Ok (renumber_from all P k).
Proof.
  induction P as [|r P IH]; intros k Hwf Hl; [reflexivity|].
  cbn [lops_all remove_labels_all renumber_from].
  rewrite (remove_labels_spec T O all r k).
  - cbn [bind]. rewrite IH; [reflexivity| |].
    + intros o Hin. apply Hwf. cbn [concat]. apply in_or_app. right. exact Hin.
    + intros o z Hin. apply Hl. cbn [concat]. apply in_or_app. right. exact Hin.
  - intros o Hin. apply Hwf. cbn [concat]. apply in_or_app. left. exact Hin.
  - intros o z Hin. apply Hl. cbn [concat]. apply in_or_app. left. exact Hin.
Qed.

Lemma op_wf_ok all o : op_wf all o -> op_ok o.
Proof.
  unfold op_wf, op_ok. destruct (jump_index (code o)); [|trivial].
  intros [z [H _]]. exists z. exact H.
Qed.

(* ---------- the round trip ---------- *)
Theorem script_roundtrip_prop (P : program) :
  NoDup (map off (all_ops P)) ->
  (forall o, In o (all_ops P) -> op_wf (all_ops P) o) ->
  exists rs, print_script P = Ok rs /\ compile_script rs = Ok (renumber P).
Proof.
  intros Hnd Hwf. unfold all_ops in *.
  set (T := ext_all [] P).
  exists (map (fun r => flat_map (stm_of T) r) P). split.
  - unfold print_script. rewrite resolve_all_spec.
    + cbn [bind]. fold T. f_equal. rewrite map_map. apply map_ext. intro r. apply interleave_spec.
    + apply Forall_forall. intros o Hin. apply (op_wf_ok (concat P)). apply Hwf. exact Hin.
  - unfold compile_script. rewrite listen_all_spec. cbn [l_offsets].
    unfold renumber, all_ops. apply remove_labels_all_spec; [exact Hwf|].
    intros o z Hin Hz.
    assert (HT : exists l, tlookup z T = Some l).
    { unfold T. rewrite ext_all_concat. apply (ext_ops_has _ _ o z Hin Hz). }
    destruct HT as [l Hl].
    assert (Hp : exists p, pos_of_off z (concat P) 0 = Some p).
    { apply pos_of_off_exists. specialize (Hwf o Hin). unfold op_wf in Hwf. unfold tgt in Hz.
      destruct (jump_index (code o)); [|discriminate].
      destruct Hwf as [z' [Hn Hex]]. rewrite Hn in Hz. inversion Hz; subst. exact Hex. }
    destruct Hp as [p Hp]. exists l, p. split; [exact Hl|]. split; [|exact Hp].
    apply (loffs_lookup T) with (z := z); [| exact Hnd | exact Hl | exact Hp].
    apply nodup_label_inj. unfold T. rewrite ext_all_concat. apply ext_ops_nodup. constructor.
Qed.

(* the boolean form used by the check: [op_wf_script] (which also fixes the arity) implies [op_wf] *)
Lemma op_wf_script_wf all o : op_wf_script all o = true -> op_wf all o.
Proof.
  unfold op_wf_script, op_wf. destruct (jump_index (code o)) as [idx|]; [|trivial].
  intro H. apply andb_true_iff in H. destruct H as [_ H].
  destruct (nth_error (params o) idx) as [[z| | | | |]|]; try discriminate.
  exists z. split; [reflexivity|]. apply existsb_exists in H. destruct H as [o' [Hin E]].
  exists o'. split; [exact Hin | apply Z.eqb_eq; exact E].
Qed.

Theorem script_roundtrip (P : program) :
  NoDup (map off (all_ops P)) ->
  forallb (op_wf_script (all_ops P)) (all_ops P) = true ->
  exists rs, print_script P = Ok rs /\ compile_script rs = Ok (renumber P).
Proof.
  intros Hnd H. apply script_roundtrip_prop; [exact Hnd|].
  intros o Hin. apply op_wf_script_wf. rewrite forallb_forall in H. apply H. exact Hin.
Qed.
