(* cfg_of_prog answers exactly for the programs that are well scoped and whose parts have events. *)
From ES Require Import Base Ssb.Param Ssb.Cfg Ssb.Machine Lang.Ast Lang.Spec Lang.SrcSem Lang.Static Lang.StaticProofs Lang.Domain.

Lemma mbind_intro {A B} (m : M A) (f : A -> M B) st a st' :
  m st = Ok (a, st') -> (exists r, f a st' = Ok r) -> exists r, mbind m f st = Ok r.
Proof. intros H [r Hr]. exists r. unfold mbind. rewrite H. exact Hr. Qed.

Lemma mem_assoc {A} l (t : list (string * A)) : mem_string l (map fst t) = true -> exists v, assoc_string l t = Some v.
Proof.
  induction t as [|[k x] t IH]; cbn [map fst mem_string existsb assoc_string]; [discriminate|].
  destruct (String.eqb l k); [intros _; eexists; reflexivity|]. cbn [orb]. exact IH.
Qed.

Lemma need_some {A} (o : option A) msg st a : o = Some a -> need o msg st = Ok (a, st).
Proof. intros ->. reflexivity. Qed.

Lemma lift_some {A} (x : result A) st : is_ok x = true -> exists a, lift x st = Ok (a, st).
Proof. destruct x; [intros _; eexists; reflexivity | discriminate]. Qed.

Lemma is_some_some {A} (o : option A) : is_some o = true -> exists a, o = Some a.
Proof. destruct o; [intros _; eexists; reflexivity | discriminate]. Qed.

Lemma tr_conds_total perf neg cs : cs <> [] -> forallb (fun c => is_ok (cond_event perf c)) cs = true ->
  forall yes no st, exists r, tr_conds perf neg cs yes no st = Ok r.
Proof.
  induction cs as [|c rest IH]; intros NE H yes no st; [contradiction|].
  cbn [forallb] in H. apply andb_true_iff in H. destruct H as [Hc Hr].
  destruct rest as [|c2 rest'].
  - cbn [tr_conds]. destruct (lift_some _ st Hc) as [ev Hev]. eapply mbind_intro; [exact Hev|].
    destruct neg; eexists; reflexivity.
  - change (tr_conds perf neg (c :: c2 :: rest') yes no) with
      (mbind (tr_conds perf neg (c2 :: rest') yes no) (fun nxt =>
         mbind (lift (cond_event perf c)) (fun ev =>
           if neg then alloc (NTest ev no nxt) else alloc (NTest ev yes nxt)))).
    destruct (IH ltac:(discriminate) Hr yes no st) as [[nxt st1] H1].
    eapply mbind_intro; [exact H1|]. destruct (lift_some _ st1 Hc) as [ev Hev]. eapply mbind_intro; [exact Hev|].
    destruct neg; eexists; reflexivity.
Qed.

Lemma tr_case_tests_total sw lst : forall dflt st, exists r, tr_case_tests sw lst dflt st = Ok r.
Proof.
  induction lst as [|[[h|] e] rest IH]; intros dflt st; cbn [tr_case_tests]; [eexists; reflexivity | | apply IH].
  destruct (IH dflt st) as [[nxt st1] H1]. eapply mbind_intro; [exact H1|]. eexists; reflexivity.
Qed.

Lemma tr_msg_cases_total cs : forall k st, exists r, tr_msg_cases cs k st = Ok r.
Proof.
  induction cs as [|[v s] rest IH]; intros k st; cbn [tr_msg_cases]; [eexists; reflexivity|].
  destruct (IH k st) as [[nxt st1] H1]. eapply mbind_intro; [exact H1|]. eexists; reflexivity.
Qed.

Lemma conds_ok_nonempty perf cs : conds_ok perf cs = true -> cs <> [].
Proof. unfold conds_ok. destruct cs; [discriminate | discriminate]. Qed.

Lemma tr_inctx_total e s k st :
  inctx_ok (scope_L e) (scope_sw e) (scope_ct e) (scope_bl e) s = true -> ev_inctx (e_perf e) s = true ->
  exists r, tr_inctx e s k st = Ok r.
Proof.
  unfold scope_L, scope_sw, scope_ct, scope_bl. destruct s; try discriminate; cbn [inctx_ok ev_inctx tr_inctx]; intros Hw He.
  - destruct c; [discriminate Hw|]. rewrite He. eexists; reflexivity.
  - destruct (mem_assoc _ _ Hw) as [v Hv]. rewrite (need_some _ _ _ _ Hv). eexists; reflexivity.
  - destruct (mem_assoc _ _ Hw) as [v Hv]. eapply mbind_intro; [apply need_some; exact Hv|]. eexists; reflexivity.
  - destruct k0; try (eexists; reflexivity);
      (destruct (is_some_some _ Hw) as [a Ha]; rewrite (need_some _ _ _ _ Ha); eexists; reflexivity).
  - destruct (lift_some _ st He) as [ev Hev]. eapply mbind_intro; [exact Hev|]. eexists; reflexivity.
Qed.

Section EvEqs.
Variable perf : string.
Lemma ev_SIf n cs b el els : ev_stmt perf (SIf n cs b el els) =
  forallb (fun c => is_ok (cond_event perf c)) cs && ev_stmts perf b && ev_elifs perf el && ev_ostmts perf els.
Proof. reflexivity. Qed.
Lemma ev_SSwitch h cs : ev_stmt perf (SSwitch h cs) = is_ok (switch_event h) && ev_cases perf cs. Proof. reflexivity. Qed.
Lemma ev_SForever b : ev_stmt perf (SForever b) = ev_stmts perf b. Proof. reflexivity. Qed.
Lemma ev_SWhile n c b : ev_stmt perf (SWhile n c b) = is_ok (cond_event perf c) && ev_stmts perf b. Proof. reflexivity. Qed.
Lemma ev_SFor i c d b : ev_stmt perf (SFor i c d b) =
  ev_stmt perf i && ev_stmt perf d && is_ok (cond_event perf c) && ev_stmts perf b. Proof. reflexivity. Qed.
Lemma ev_SCons s r : ev_stmts perf (SCons s r) = ev_stmt perf s && ev_stmts perf r. Proof. reflexivity. Qed.
Lemma ev_ECons n cs b r : ev_elifs perf (ECons n cs b r) =
  forallb (fun c => is_ok (cond_event perf c)) cs && ev_stmts perf b && ev_elifs perf r. Proof. reflexivity. Qed.
Lemma ev_OSome b : ev_ostmts perf (OSome b) = ev_stmts perf b. Proof. reflexivity. Qed.
Lemma ev_KCase h b r : ev_cases perf (KCase h b r) = ev_stmts perf b && ev_cases perf r. Proof. reflexivity. Qed.
Lemma ev_KDefault b r : ev_cases perf (KDefault b r) = ev_stmts perf b && ev_cases perf r. Proof. reflexivity. Qed.
End EvEqs.

Ltac split_and H :=
  repeat match type of H with
         | andb _ _ = true => let H1 := fresh "W" in let H2 := fresh "W" in apply andb_true_iff in H; destruct H as [H1 H2]; try split_and H1; try split_and H2
         end.

Definition WS e := ws_stmt (e_perf e) (scope_L e) (scope_sw e) (scope_ct e) (scope_bl e).

Lemma scoped_has_meaning :
  (forall s e k st, ws_stmt (e_perf e) (scope_L e) (scope_sw e) (scope_ct e) (scope_bl e) s = true ->
     ev_stmt (e_perf e) s = true -> exists r, tr_stmt e s k st = Ok r) /\
  (forall ss e k st, ws_stmts (e_perf e) (scope_L e) (scope_sw e) (scope_ct e) (scope_bl e) ss = true ->
     ev_stmts (e_perf e) ss = true -> exists r, tr_stmts e ss k st = Ok r) /\
  (forall el e else_e k st, ws_elifs (e_perf e) (scope_L e) (scope_sw e) (scope_ct e) (scope_bl e) el = true ->
     ev_elifs (e_perf e) el = true -> exists r, tr_elifs e el else_e k st = Ok r) /\
  (forall o e k st, ws_ostmts (e_perf e) (scope_L e) (scope_sw e) (scope_ct e) (scope_bl e) o = true ->
     ev_ostmts (e_perf e) o = true -> exists r, tr_ostmts e o k st = Ok r) /\
  (forall cs e k st, ws_cases (e_perf e) (scope_L e) (scope_sw e) (scope_ct e) (scope_bl e) cs = true ->
     ev_cases (e_perf e) cs = true -> exists r, tr_cases e cs k st = Ok r).
Proof.
  apply ast_mutind.
  - (* SOp *) intros c name args e k st _ He. cbn [tr_stmt]. destruct c as [[kind target]|].
    + cbn [ev_stmt] in He. apply andb_true_iff in He. destruct He as [Hp Hc]. rewrite Hp.
      destruct (lift_some _ st Hc) as [ce Hce]. eapply mbind_intro; [exact Hce|].
      eapply mbind_intro; [reflexivity|]. eexists; reflexivity.
    + cbn [ev_stmt] in He. rewrite He. eexists; reflexivity.
  - (* SLabel *) intros l e k st Hw _. cbn [tr_stmt]. cbn [ws_stmt] in Hw. destruct (mem_assoc _ _ Hw) as [v Hv].
    eapply mbind_intro; [apply need_some; exact Hv|]. eapply mbind_intro; [reflexivity|]. eexists; reflexivity.
  - (* SJump *) intros l e k st Hw _. cbn [tr_stmt]. cbn [ws_stmt] in Hw. destruct (mem_assoc _ _ Hw) as [v Hv].
    rewrite (need_some _ _ _ _ Hv). eexists; reflexivity.
  - (* SCall *) intros l e k st Hw _. cbn [tr_stmt]. cbn [ws_stmt] in Hw. destruct (mem_assoc _ _ Hw) as [v Hv].
    eapply mbind_intro; [apply need_some; exact Hv|]. eexists; reflexivity.
  - (* SCtrl *) intros c e k st Hw _. destruct c; cbn [tr_stmt]; try (eexists; reflexivity);
      cbn [ws_stmt] in Hw; unfold scope_sw, scope_ct, scope_bl in Hw;
      (destruct (is_some_some _ Hw) as [a Ha]; rewrite (need_some _ _ _ _ Ha); eexists; reflexivity).
  - (* SAssign *) intros a e k st _ He. cbn [tr_stmt]. cbn [ev_stmt] in He.
    destruct (lift_some _ st He) as [ev Hev]. eapply mbind_intro; [exact Hev|]. eexists; reflexivity.
  - (* SWith *) intros kind target s _ e k st Hw He. cbn [tr_stmt]. cbn [ws_stmt] in Hw. cbn [ev_stmt] in He.
    apply andb_true_iff in He. destruct He as [Hc Hi].
    destruct (lift_some _ st Hc) as [ce Hce]. eapply mbind_intro; [exact Hce|].
    destruct (tr_inctx_total e s k st Hw Hi) as [[i st1] H1]. eapply mbind_intro; [exact H1|]. eexists; reflexivity.
  - (* SIf *) intros neg cs body IHb el IHel els IHels e k st Hw He. cbn [tr_stmt]. rewrite ws_SIf in Hw. rewrite ev_SIf in He.
    split_and Hw. split_and He.
    destruct (IHels e k st) as [[else_e st1] H1]; [assumption | assumption|]. eapply mbind_intro; [exact H1|].
    destruct (IHel e else_e k st1) as [[elif_e st2] H2]; [assumption | assumption|]. eapply mbind_intro; [exact H2|].
    destruct (IHb e k st2) as [[b st3] H3]; [assumption | assumption|]. eapply mbind_intro; [exact H3|].
    apply tr_conds_total; [eapply conds_ok_nonempty; eassumption | assumption].
  - (* SSwitch *) intros h cs IH e k st Hw He. cbn [tr_stmt]. rewrite ws_SSwitch in Hw. rewrite ev_SSwitch in He.
    split_and Hw. split_and He.
    destruct (lift_some _ st ltac:(eassumption)) as [hev Hhev]. eapply mbind_intro; [exact Hhev|].
    match goal with H : Nat.leb _ 1 = true |- _ => apply Nat.leb_le in H; apply Nat.ltb_ge in H; rewrite H end.
    destruct (IH (with_break e k) k st) as [[[[lst fall] have] st1] H1]; [assumption | assumption|].
    eapply mbind_intro; [exact H1|]. cbv beta iota.
    destruct (tr_case_tests_total (fst hev) lst (match default_entry lst with Some d => d | None => k end) st1) as [[first st2] H2].
    eapply mbind_intro; [exact H2|]. eexists; reflexivity.
  - (* SMsgSwitch *) intros mono v cs dflt e k st _ _. cbn [tr_stmt].
    assert (Hd : exists d st1, (match dflt with Some s => alloc (NOp ("DefaultText"%string, [s]) k) | None => ret k end) st = Ok (d, st1))
      by (destruct dflt; eexists _, _; reflexivity).
    destruct Hd as [d [st1 Hd]]. eapply mbind_intro; [exact Hd|].
    destruct (tr_msg_cases_total cs d st1) as [[first st2] H2]. eapply mbind_intro; [exact H2|]. eexists; reflexivity.
  - (* SForever *) intros body IH e k st Hw He. cbn [tr_stmt]. rewrite ws_SForever in Hw. rewrite ev_SForever in He.
    eapply mbind_intro; [reflexivity|].
    destruct (IH (with_loop e (length st) k) (length st) (st ++ [NStuck])) as [[b st1] H1]; [exact Hw | exact He|].
    eapply mbind_intro; [exact H1|]. eapply mbind_intro; [reflexivity|]. eexists; reflexivity.
  - (* SWhile *) intros neg c body IH e k st Hw He. cbn [tr_stmt]. rewrite ws_SWhile in Hw. rewrite ev_SWhile in He.
    split_and Hw. split_and He. eapply mbind_intro; [reflexivity|].
    destruct (IH (with_loop e (length st) k) (length st) (st ++ [NStuck])) as [[b st1] H1]; [assumption | assumption|].
    eapply mbind_intro; [exact H1|].
    destruct (lift_some _ st1 ltac:(eassumption)) as [ev Hev]. eapply mbind_intro; [exact Hev|].
    eapply mbind_intro; [reflexivity|]. eexists; reflexivity.
  - (* SFor *) intros init IHi c incr IHn body IHb e k st Hw He. cbn [tr_stmt]. rewrite ws_SFor in Hw. rewrite ev_SFor in He.
    split_and Hw. split_and He. eapply mbind_intro; [reflexivity|].
    destruct (IHn e (length st) (st ++ [NStuck])) as [[i_e st1] H1]; [assumption | assumption|]. eapply mbind_intro; [exact H1|].
    destruct (IHb (with_loop e i_e k) i_e st1) as [[b st2] H2]; [assumption | assumption|]. eapply mbind_intro; [exact H2|].
    destruct (lift_some _ st2 ltac:(eassumption)) as [ev Hev]. eapply mbind_intro; [exact Hev|].
    eapply mbind_intro; [reflexivity|]. apply IHi; assumption.
  - (* SMacroCall *) intros; discriminate.
  - (* SNil *) intros; eexists; reflexivity.
  - (* SCons *) intros s IHs r0 IHr e k st Hw He. cbn [tr_stmts]. rewrite ws_SCons in Hw. rewrite ev_SCons in He.
    split_and Hw. split_and He.
    destruct (IHr e k st) as [[rest st1] H1]; [assumption | assumption|]. eapply mbind_intro; [exact H1|]. apply IHs; assumption.
  - (* ENil *) intros; eexists; reflexivity.
  - (* ECons *) intros neg cs body IHb r0 IHr e else_e k st Hw He. cbn [tr_elifs]. rewrite ws_ECons in Hw. rewrite ev_ECons in He.
    split_and Hw. split_and He.
    destruct (IHr e else_e k st) as [[rest st1] H1]; [assumption | assumption|]. eapply mbind_intro; [exact H1|].
    destruct (IHb e k st1) as [[b st2] H2]; [assumption | assumption|]. eapply mbind_intro; [exact H2|].
    apply tr_conds_total; [eapply conds_ok_nonempty; eassumption | assumption].
  - (* ONone *) intros; eexists; reflexivity.
  - (* OSome *) intros b IH e k st Hw He. cbn [tr_ostmts]. rewrite ws_OSome in Hw. rewrite ev_OSome in He. apply IH; assumption.
  - (* KNil *) intros; eexists; reflexivity.
  - (* KCase *) intros h body IHb r0 IHr e k st Hw He. cbn [tr_cases]. rewrite ws_KCase in Hw. rewrite ev_KCase in He.
    split_and Hw. split_and He.
    destruct (IHr e k st) as [[[[lst fall] have] st1] H1]; [assumption | assumption|]. eapply mbind_intro; [exact H1|]. cbv beta iota.
    destruct body as [|s0 b0].
    + destruct meaning_implies_scoped as [_ [_ [_ [_ Hc]]]]. destruct (Hc _ _ _ _ _ H1) as [_ Hh]. cbn [fst snd] in Hh.
      match goal with H : negb (is_snil SNil && is_knil r0) = true |- _ => cbn [is_snil andb] in H; rewrite H in Hh end.
      subst have. eexists; reflexivity.
    + destruct (IHb e fall st1) as [[b st2] H2]; [assumption | assumption|]. eapply mbind_intro; [exact H2|]. eexists; reflexivity.
  - (* KDefault *) intros body IHb r0 IHr e k st Hw He. cbn [tr_cases]. rewrite ws_KDefault in Hw. rewrite ev_KDefault in He.
    split_and Hw. split_and He.
    destruct (IHr e k st) as [[[[lst fall] have] st1] H1]; [assumption | assumption|]. eapply mbind_intro; [exact H1|]. cbv beta iota.
    destruct body as [|s0 b0].
    + destruct meaning_implies_scoped as [_ [_ [_ [_ Hc]]]]. destruct (Hc _ _ _ _ _ H1) as [_ Hh]. cbn [fst snd] in Hh.
      match goal with H : negb (is_snil SNil && is_knil r0) = true |- _ => cbn [is_snil andb] in H; rewrite H in Hh end.
      subst have. eexists; reflexivity.
    + destruct (IHb e fall st1) as [[b st2] H2]; [assumption | assumption|]. eapply mbind_intro; [exact H2|]. eexists; reflexivity.
Qed.

Lemma tr_routines_total e rs : forall n st,
  ids_in_order rs n = true ->
  forallb (fun rd => ws_stmts (e_perf e) (scope_L e) (scope_sw e) (scope_ct e) (scope_bl e) (r_body rd)) rs = true ->
  forallb (fun rd => ev_stmts (e_perf e) (r_body rd) && (is_snil (r_body rd) || negb (r_alias rd))) rs = true ->
  exists r, tr_routines e rs n st = Ok r.
Proof.
  induction rs as [|rd rest IH]; intros n st Hi Hw He; [eexists; reflexivity|].
  cbn [ids_in_order forallb] in *. split_and Hi. split_and Hw. split_and He.
  cbn [tr_routines]. match goal with H : Z.eqb (r_id rd) n = true |- _ => rewrite H end. cbn [negb].
  assert (Hb : exists en st1, (match r_body rd with
                               | SNil => ret None
                               | b => if r_alias rd then fail "alias with statements"
                                      else dom en <- tr_stmts e b FALL; ret (Some en)
                               end) st = Ok (en, st1)).
  { destruct (r_body rd) as [|s0 b0] eqn:Eb; [eexists _, _; reflexivity|].
    match goal with H : is_snil _ || negb (r_alias rd) = true |- _ => cbn [is_snil orb] in H; destruct (r_alias rd); [discriminate H|] end.
    destruct scoped_has_meaning as [_ [Hss _]].
    destruct (Hss (SCons s0 b0) e FALL st) as [[en st1] H1]; [assumption | assumption|].
    eexists _, _. unfold mbind. rewrite H1. reflexivity. }
  destruct Hb as [en [st1 Hb]]. eapply mbind_intro; [exact Hb|].
  destruct (IH (n + 1)%Z st1) as [[others st2] H2]; [assumption | assumption | assumption|].
  eapply mbind_intro; [exact H2|]. eexists; reflexivity.
Qed.

(* every well-scoped program whose parts have events has a meaning *)
Theorem well_scoped_has_meaning perf p :
  well_scoped perf p = true -> events_ok perf p = true -> exists r, cfg_of_prog perf p = Ok r.
Proof.
  unfold well_scoped, events_ok, cfg_of_prog. fold (file_labels p). intros Hw He. split_and Hw.
  match goal with H : negb (has_dup (file_labels p)) = true |- _ => apply negb_true_iff in H; rewrite H end.
  set (e := mkEnv None None None (number_from 2 (file_labels p)) perf).
  destruct (tr_routines_total e (p_routines p) 0%Z
              (NStop :: implicit_return STOP :: map (fun _ => NStuck) (file_labels p))) as [[entries g] H1].
  - assumption.
  - unfold scope_L, scope_sw, scope_ct, scope_bl, e. cbn [e_labels e_break e_cont e_brkloop e_perf is_some].
    rewrite number_from_fst. assumption.
  - exact He.
  - rewrite H1. eexists; reflexivity.
Qed.

(* ... and only those *)
Lemma lift_is_ok {A} (x : result A) st r : lift x st = Ok r -> is_ok x = true.
Proof. destruct x; [reflexivity | discriminate]. Qed.

Lemma tr_conds_events perf neg cs : forall yes no st r,
  tr_conds perf neg cs yes no st = Ok r -> forallb (fun c => is_ok (cond_event perf c)) cs = true.
Proof.
  induction cs as [|c rest IH]; intros yes no st r H; [reflexivity|]. cbn [forallb].
  destruct rest as [|c2 rest'].
  - cbn [tr_conds] in H. binds. match goal with H : lift _ _ = Ok _ |- _ => apply lift_is_ok in H; rewrite H end. reflexivity.
  - change (tr_conds perf neg (c :: c2 :: rest') yes no) with
      (mbind (tr_conds perf neg (c2 :: rest') yes no) (fun nxt =>
         mbind (lift (cond_event perf c)) (fun ev =>
           if neg then alloc (NTest ev no nxt) else alloc (NTest ev yes nxt)))) in H.
    binds. match goal with H : lift _ _ = Ok _ |- _ => apply lift_is_ok in H; rewrite H end.
    match goal with H : tr_conds _ _ _ _ _ _ = Ok _ |- _ => apply IH in H; rewrite H end. reflexivity.
Qed.

Lemma tr_inctx_events e s k st r : tr_inctx e s k st = Ok r -> ev_inctx (e_perf e) s = true.
Proof.
  destruct s; try reflexivity; cbn [tr_inctx ev_inctx]; intro H.
  - destruct c; [reflexivity|]. destruct (plain_op_name name); [reflexivity | discriminate H].
  - binds. match goal with H : lift _ _ = Ok _ |- _ => apply lift_is_ok in H; exact H end.
Qed.

Ltac evfin :=
  repeat match goal with |- andb _ _ = true => apply andb_true_iff; split end;
  try reflexivity;
  try match goal with
      | H : tr_conds _ _ _ _ _ _ = Ok _ |- forallb _ _ = true => exact (tr_conds_events _ _ _ _ _ _ _ H)
      | H : lift ?x _ = Ok _ |- is_ok ?x = true => exact (lift_is_ok _ _ _ H)
      | H : tr_stmt _ ?s _ _ = Ok _, IH : forall e k st r, tr_stmt e ?s k st = Ok r -> _ |- ev_stmt _ ?s = true => exact (IH _ _ _ _ H)
      | H : tr_stmts _ ?s _ _ = Ok _, IH : forall e k st r, tr_stmts e ?s k st = Ok r -> _ |- ev_stmts _ ?s = true => exact (IH _ _ _ _ H)
      | H : tr_elifs _ ?s _ _ _ = Ok _, IH : forall e x k st r, tr_elifs e ?s x k st = Ok r -> _ |- ev_elifs _ ?s = true => exact (IH _ _ _ _ _ H)
      | H : tr_ostmts _ ?s _ _ = Ok _, IH : forall e k st r, tr_ostmts e ?s k st = Ok r -> _ |- ev_ostmts _ ?s = true => exact (IH _ _ _ _ H)
      | H : tr_cases _ ?s _ _ = Ok _, IH : forall e k st r, tr_cases e ?s k st = Ok r -> _ |- ev_cases _ ?s = true => exact (IH _ _ _ _ H)
      end.

Lemma meaning_implies_events :
  (forall s e k st r, tr_stmt e s k st = Ok r -> ev_stmt (e_perf e) s = true) /\
  (forall ss e k st r, tr_stmts e ss k st = Ok r -> ev_stmts (e_perf e) ss = true) /\
  (forall el e else_e k st r, tr_elifs e el else_e k st = Ok r -> ev_elifs (e_perf e) el = true) /\
  (forall o e k st r, tr_ostmts e o k st = Ok r -> ev_ostmts (e_perf e) o = true) /\
  (forall cs e k st r, tr_cases e cs k st = Ok r -> ev_cases (e_perf e) cs = true).
Proof.
  apply ast_mutind.
  - intros c name args e k st r H. cbn [tr_stmt] in H. destruct c as [[kind target]|]; cbn [ev_stmt].
    + destruct (plain_op_name name); [|discriminate H]. binds. evfin.
    + destruct (plain_op_name name); [reflexivity | discriminate H].
  - reflexivity.
  - reflexivity.
  - reflexivity.
  - reflexivity.
  - intros a e k st r H. cbn [tr_stmt] in H. binds. cbn [ev_stmt]. evfin.
  - intros kind target s _ e k st r H. cbn [tr_stmt] in H. binds. cbn [ev_stmt]. evfin. eapply tr_inctx_events. eassumption.
  - intros neg cs body IHb el IHel els IHels e k st r H. cbn [tr_stmt] in H. binds. rewrite ev_SIf. evfin.
  - intros h cs IH e k st r H. cbn [tr_stmt] in H. binds. rewrite ev_SSwitch.
    destruct (Nat.ltb 1 (count_defaults cs)); [discriminate|]. binds. evfin; try match goal with H : tr_cases _ _ _ _ = Ok _ |- _ => exact (IH _ _ _ _ H) end.
  - reflexivity.
  - intros body IH e k st r H. cbn [tr_stmt] in H. binds. rewrite ev_SForever.
    match goal with H : tr_stmts _ _ _ _ = Ok _ |- _ => exact (IH _ _ _ _ H) end.
  - intros neg c body IH e k st r H. cbn [tr_stmt] in H. binds. rewrite ev_SWhile. evfin; try match goal with H : tr_stmts _ _ _ _ = Ok _ |- _ => exact (IH _ _ _ _ H) end.
  - intros init IHi c incr IHn body IHb e k st r H. cbn [tr_stmt] in H. binds. rewrite ev_SFor. evfin; try match goal with H : tr_stmts _ _ _ _ = Ok _ |- _ => exact (IHb _ _ _ _ H) end.
  - intros; discriminate.
  - reflexivity.
  - intros s IHs r0 IHr e k st r H. cbn [tr_stmts] in H. binds. rewrite ev_SCons. evfin.
  - reflexivity.
  - intros neg cs body IHb r0 IHr e else_e k st r H. cbn [tr_elifs] in H. binds. rewrite ev_ECons. evfin.
  - reflexivity.
  - intros b IH e k st r H. cbn [tr_ostmts] in H. rewrite ev_OSome. evfin.
  - reflexivity.
  - intros h body IHb r0 IHr e k st r H. cbn [tr_cases] in H. binds. rewrite ev_KCase.
    destruct a as [[lst fall] have]. destruct body as [|s0 b0]; [evfin | binds; evfin].
  - intros body IHb r0 IHr e k st r H. cbn [tr_cases] in H. binds. rewrite ev_KDefault.
    destruct a as [[lst fall] have]. destruct body as [|s0 b0]; [evfin | binds; evfin].
Qed.

Lemma tr_routines_events e rs : forall n st r, tr_routines e rs n st = Ok r ->
  forallb (fun rd => ev_stmts (e_perf e) (r_body rd) && (is_snil (r_body rd) || negb (r_alias rd))) rs = true.
Proof.
  induction rs as [|rd rest IH]; intros n st r H; [reflexivity|].
  cbn [tr_routines] in H. destruct (Z.eqb (r_id rd) n); [|discriminate H]. cbn [negb] in H. binds.
  match goal with H : tr_routines _ _ _ _ = Ok _ |- _ => apply IH in H; cbn [forallb]; rewrite H end.
  rewrite andb_true_r. destruct (r_body rd) as [|s0 b0] eqn:Eb; [reflexivity|].
  destruct (r_alias rd); [discriminate|]. binds. cbn [is_snil negb orb]. rewrite andb_true_r.
  destruct meaning_implies_events as [_ [Hss _]]. eapply Hss. eassumption.
Qed.

Theorem meaning_implies_events_ok perf p r : cfg_of_prog perf p = Ok r -> events_ok perf p = true.
Proof.
  unfold cfg_of_prog, events_ok. destruct (has_dup _); [discriminate|].
  set (e := mkEnv None None None _ perf).
  destruct (tr_routines e (p_routines p) 0%Z _) as [[entries g]|m] eqn:E; [|discriminate]. intros _.
  apply tr_routines_events in E. exact E.
Qed.

(* the domain of the specification, exactly *)
Theorem meaning_iff perf p :
  (exists r, cfg_of_prog perf p = Ok r) <-> well_scoped perf p = true /\ events_ok perf p = true.
Proof.
  split.
  - intros [r H]. split; [eapply meaning_implies_well_scoped; exact H | eapply meaning_implies_events_ok; exact H].
  - intros [Hw He]. apply well_scoped_has_meaning; assumption.
Qed.
