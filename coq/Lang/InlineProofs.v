(* The inlined program does not depend on the order in which the macros are defined. *)
From ES Require Import Base Ssb.Param Lang.Ast Lang.Inline.
From Coq Require Import Permutation.

Lemma find_macro_perm ms ms' : Permutation ms ms' -> NoDup (map m_name ms) ->
  forall n, find_macro n ms = find_macro n ms'.
Proof.
  induction 1 as [|x l l' Hp IH|x y l|l l' l'' H1 IH1 H2 IH2]; intros Hnd n.
  - reflexivity.
  - cbn [find_macro]. destruct (String.eqb (m_name x) n); [reflexivity|].
    apply IH. cbn [map] in Hnd. inversion Hnd; assumption.
  - cbn [find_macro]. destruct (String.eqb (m_name y) n) eqn:Ey, (String.eqb (m_name x) n) eqn:Ex; try reflexivity.
    apply String.eqb_eq in Ey, Ex. exfalso. cbn [map] in Hnd. inversion Hnd as [|? ? Hnot _]; subst.
    apply Hnot. left. congruence.
  - rewrite IH1 by exact Hnd. apply IH2.
    apply (Permutation_NoDup (Permutation_map m_name H1) Hnd).
Qed.

Section SameLookup.
  Variables ms ms' : list macro_def.
  Hypothesis same : forall n, find_macro n ms = find_macro n ms'.

  Lemma inl_same : forall fuel,
    (forall c s k, inl_stmt fuel ms c s k = inl_stmt fuel ms' c s k) /\
    (forall c ss k, inl_stmts fuel ms c ss k = inl_stmts fuel ms' c ss k) /\
    (forall c el k, inl_elifs fuel ms c el k = inl_elifs fuel ms' c el k) /\
    (forall c o k, inl_ostmts fuel ms c o k = inl_ostmts fuel ms' c o k) /\
    (forall c cs k, inl_cases fuel ms c cs k = inl_cases fuel ms' c cs k).
  Proof.
    induction fuel as [|f IH]; [repeat split; reflexivity|].
    destruct IH as (I1 & I2 & I3 & I4 & I5). repeat split.
    - intros c s k. destruct s as [cx nm args|l|l|l|kk|a|kind target inner|neg cs body el els|h cs|mono v cs d|body|neg cd body|s1 cd s2 body|name args]; cbn [inl_stmt]; try reflexivity.
      + rewrite I2. destruct (inl_stmts f ms' c body k) as [b|]; cbn [bind]; [|reflexivity].
        rewrite I3. destruct (inl_elifs f ms' c el (snd b)) as [l|]; cbn [bind]; [|reflexivity].
        rewrite I4. reflexivity.
      + rewrite I5. reflexivity.
      + rewrite I2. reflexivity.
      + rewrite I2. reflexivity.
      + rewrite I1. destruct (inl_stmt f ms' c s1 k) as [i1|]; cbn [bind]; [|reflexivity].
        rewrite I1. destruct (inl_stmt f ms' c s2 (snd i1)) as [i2|]; cbn [bind]; [|reflexivity].
        rewrite I2. reflexivity.
      + rewrite same. destruct (find_macro name ms') as [m|]; [|reflexivity].
        destruct (zip_env (m_vars m) (subst_params (i_env c) args)) as [e'|]; [|reflexivity].
        rewrite I2. reflexivity.
    - intros c ss k. destruct ss as [|s r]; cbn [inl_stmts]; [reflexivity|].
      rewrite I1. destruct (inl_stmt f ms' c s k) as [a|]; cbn [bind]; [|reflexivity]. rewrite I2. reflexivity.
    - intros c el k. destruct el as [|neg cs body r]; cbn [inl_elifs]; [reflexivity|].
      rewrite I2. destruct (inl_stmts f ms' c body k) as [b|]; cbn [bind]; [|reflexivity]. rewrite I3. reflexivity.
    - intros c o k. destruct o as [|b]; cbn [inl_ostmts]; [reflexivity|]. rewrite I2. reflexivity.
    - intros c cs k. destruct cs as [|h body r|body r]; cbn [inl_cases]; [reflexivity| |].
      + rewrite I2. destruct (inl_stmts f ms' c body k) as [b|]; cbn [bind]; [|reflexivity]. rewrite I5. reflexivity.
      + rewrite I2. destruct (inl_stmts f ms' c body k) as [b|]; cbn [bind]; [|reflexivity]. rewrite I5. reflexivity.
  Qed.

  Lemma inl_routines_same rs : forall k, inl_routines ms rs k = inl_routines ms' rs k.
  Proof.
    induction rs as [|r rs IH]; intro k; [reflexivity|]. cbn [inl_routines].
    destruct (inl_same INLINE_FUEL) as (_ & I2 & _). rewrite I2.
    destruct (inl_stmts INLINE_FUEL ms' (mkI [] None) (r_body r) k) as [b|]; cbn [bind]; [|reflexivity].
    rewrite IH. reflexivity.
  Qed.
End SameLookup.

(* a program means the same whatever the order of its macro definitions *)
Theorem inline_order_independent ms ms' rs :
  NoDup (map m_name ms) -> Permutation ms ms' -> inline (mkProg ms rs) = inline (mkProg ms' rs).
Proof.
  intros Hnd Hp. unfold inline. cbn [p_macros p_routines].
  rewrite (inl_routines_same ms ms' (find_macro_perm ms ms' Hp Hnd)). reflexivity.
Qed.
