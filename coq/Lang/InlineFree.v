(* What [inline] returns contains no macro call and no macro definition: the meaning of a program with macros is the
   meaning of a program without. *)
From ES Require Import Base Ssb.Param Lang.Ast Lang.Inline Lang.MacroStatic.

Definition any_call (_ : string) (_ : nat) : bool := true.

Section Eqs.
Variable bad : string -> nat -> bool.
Lemma hc_cons s r : has_calls bad (SCons s r) = has_call bad s || has_calls bad r. Proof. reflexivity. Qed.
Lemma hc_one s : has_calls bad (SCons s SNil) = has_call bad s. Proof. rewrite hc_cons. apply orb_false_r. Qed.
Lemma hc_if n cs b el els : has_call bad (SIf n cs b el els) = has_calls bad b || has_call_elifs bad el || has_call_ostmts bad els.
Proof. reflexivity. Qed.
Lemma hc_switch h cs : has_call bad (SSwitch h cs) = has_call_cases bad cs. Proof. reflexivity. Qed.
Lemma hc_forever b : has_call bad (SForever b) = has_calls bad b. Proof. reflexivity. Qed.
Lemma hc_while n c b : has_call bad (SWhile n c b) = has_calls bad b. Proof. reflexivity. Qed.
Lemma hc_for i c d b : has_call bad (SFor i c d b) = has_call bad i || has_call bad d || has_calls bad b. Proof. reflexivity. Qed.
Lemma hce_cons n cs b r : has_call_elifs bad (ECons n cs b r) = has_calls bad b || has_call_elifs bad r. Proof. reflexivity. Qed.
Lemma hco_some b : has_call_ostmts bad (OSome b) = has_calls bad b. Proof. reflexivity. Qed.
Lemma hcc_case h b r : has_call_cases bad (KCase h b r) = has_calls bad b || has_call_cases bad r. Proof. reflexivity. Qed.
Lemma hcc_default b r : has_call_cases bad (KDefault b r) = has_calls bad b || has_call_cases bad r. Proof. reflexivity. Qed.
End Eqs.

Lemma has_calls_sapp bad a : forall b, has_calls bad (sapp a b) = has_calls bad a || has_calls bad b.
Proof.
  induction a as [|s r IH] using (stmts_ind); intro b; [reflexivity|].
  change (sapp (SCons s r) b) with (SCons s (sapp r b)). rewrite !hc_cons, IH, orb_assoc. reflexivity.
Qed.

Ltac inv_bind H :=
  match type of H with
  | bind ?r _ = Ok _ => let x := fresh "x" in let E := fresh "E" in destruct r as [x|?] eqn:E; [cbn [bind] in H | discriminate H]
  end.

Lemma inline_free ms : forall f,
  (forall c s k r, inl_stmt f ms c s k = Ok r -> has_calls any_call (fst r) = false) /\
  (forall c ss k r, inl_stmts f ms c ss k = Ok r -> has_calls any_call (fst r) = false) /\
  (forall c el k r, inl_elifs f ms c el k = Ok r -> has_call_elifs any_call (fst r) = false) /\
  (forall c o k r, inl_ostmts f ms c o k = Ok r -> has_call_ostmts any_call (fst r) = false) /\
  (forall c cs k r, inl_cases f ms c cs k = Ok r -> has_call_cases any_call (fst r) = false).
Proof.
  induction f as [|f IH]; [repeat split; intros; discriminate|].
  destruct IH as [I1 [I2 [I3 [I4 I5]]]].
  repeat split.
  - intros c s k r H. destruct s; cbn [inl_stmt] in H.
    + inversion H; reflexivity.
    + inversion H; reflexivity.
    + inversion H; reflexivity.
    + inversion H; reflexivity.
    + destruct k0; try (inversion H; reflexivity). destruct (i_exp c); inversion H; reflexivity.
    + inversion H; reflexivity.
    + destruct s as [cx nm args| | | |k1|a| | | | | | | |]; try (inversion H; reflexivity).
      * destruct cx; inversion H; reflexivity.
      * destruct k1; try (inversion H; reflexivity). destruct (i_exp c); inversion H; reflexivity.
    + inv_bind H. inv_bind H. inv_bind H. inversion H; subst. cbn [fst]. rewrite hc_one, hc_if.
      rewrite (I2 _ _ _ _ E), (I3 _ _ _ _ E0), (I4 _ _ _ _ E1). reflexivity.
    + inv_bind H. inversion H; subst. cbn [fst]. rewrite hc_one, hc_switch. exact (I5 _ _ _ _ E).
    + inversion H; reflexivity.
    + inv_bind H. inversion H; subst. cbn [fst]. rewrite hc_one, hc_forever. exact (I2 _ _ _ _ E).
    + inv_bind H. inversion H; subst. cbn [fst]. rewrite hc_one, hc_while. exact (I2 _ _ _ _ E).
    + inv_bind H. inv_bind H. inv_bind H.
      destruct (fst x) as [|a [|? ?]] eqn:Ea; try discriminate H.
      destruct (fst x0) as [|d [|? ?]] eqn:Ed; try discriminate H.
      inversion H; subst. cbn [fst]. rewrite hc_one, hc_for.
      pose proof (I1 _ _ _ _ E) as Ha. rewrite Ea, hc_one in Ha.
      pose proof (I1 _ _ _ _ E0) as Hd. rewrite Ed, hc_one in Hd.
      rewrite Ha, Hd, (I2 _ _ _ _ E1). reflexivity.
    + destruct (find_macro name ms) as [m|]; [|discriminate H].
      destruct (zip_env (m_vars m) (subst_params (i_env c) args)) as [e'|]; [|discriminate H].
      inv_bind H. inversion H; subst. cbn [fst]. rewrite has_calls_sapp, (I2 _ _ _ _ E). reflexivity.
  - intros c ss k r H. destruct ss as [|s r0]; cbn [inl_stmts] in H; [inversion H; reflexivity|].
    inv_bind H. inv_bind H. inversion H; subst. cbn [fst]. rewrite has_calls_sapp, (I1 _ _ _ _ E), (I2 _ _ _ _ E0). reflexivity.
  - intros c el k r H. destruct el as [|n cs b r0]; cbn [inl_elifs] in H; [inversion H; reflexivity|].
    inv_bind H. inv_bind H. inversion H; subst. cbn [fst]. rewrite hce_cons, (I2 _ _ _ _ E), (I3 _ _ _ _ E0). reflexivity.
  - intros c o k r H. destruct o as [|b]; cbn [inl_ostmts] in H; [inversion H; reflexivity|].
    inv_bind H. inversion H; subst. cbn [fst]. rewrite hco_some. exact (I2 _ _ _ _ E).
  - intros c cs k r H. destruct cs as [|h b r0|b r0]; cbn [inl_cases] in H; [inversion H; reflexivity| |];
      inv_bind H; inv_bind H; inversion H; subst; cbn [fst]; rewrite ?hcc_case, ?hcc_default, (I2 _ _ _ _ E), (I5 _ _ _ _ E0); reflexivity.
Qed.

Lemma inl_routines_cons ms r rest k : inl_routines ms (r :: rest) k =
  (do b <- inl_stmts INLINE_FUEL ms (mkI [] None) (r_body r) k;
   do others <- inl_routines ms rest (snd b);
   Ok (mkRoutine (r_id r) (r_kind r) (r_target r) (r_name r) (r_alias r) (fst b) :: others)).
Proof. reflexivity. Qed.

Lemma inl_routines_free ms rs : forall k rs', inl_routines ms rs k = Ok rs' ->
  existsb (fun r => has_calls any_call (r_body r)) rs' = false.
Proof.
  pose proof (inline_free ms INLINE_FUEL) as [_ [I2 _]].
  induction rs as [|r rest IH]; intros k rs' H; [inversion H; reflexivity|].
  rewrite inl_routines_cons in H.
  destruct (inl_stmts INLINE_FUEL ms (mkI [] None) (r_body r) k) as [b|e] eqn:E; [|discriminate H].
  cbn [bind] in H. destruct (inl_routines ms rest (snd b)) as [others|e] eqn:E0; [|discriminate H].
  cbn [bind] in H. injection H as <-. cbn [existsb r_body].
  rewrite (I2 _ _ _ _ E), (IH _ _ E0). reflexivity.
Qed.

Theorem inline_macro_free p p' : inline p = Ok p' ->
  p_macros p' = [] /\ program_has any_call p' = false.
Proof.
  unfold inline. intro H. inv_bind H. inversion H; subst. split; [reflexivity|].
  unfold program_has. cbn [p_routines]. eapply inl_routines_free. exact E.
Qed.
