(* [cfg_of_prog] answers only for well-scoped programs; macro-free output of [inline]. *)
From ES Require Import Base Ssb.Param Ssb.Cfg Ssb.Machine Lang.Ast Lang.Spec Lang.SrcSem Lang.Static.

Scheme stmt_mind := Induction for stmt Sort Prop
with stmts_mind := Induction for stmts Sort Prop
with elifs_mind := Induction for elifs Sort Prop
with ostmts_mind := Induction for option_stmts Sort Prop
with cases_mind := Induction for cases Sort Prop.
Combined Scheme ast_mutind from stmt_mind, stmts_mind, elifs_mind, ostmts_mind, cases_mind.

(* ---- the monad *)
Lemma mbind_ok {A B} (m : M A) (f : A -> M B) st r :
  mbind m f st = Ok r -> exists a st', m st = Ok (a, st') /\ f a st' = Ok r.
Proof.
  unfold mbind. destruct (m st) as [[a st']|e]; [|discriminate]. intro H. exists a, st'. split; [reflexivity | exact H].
Qed.

Lemma need_ok {A} (o : option A) msg st r : need o msg st = Ok r -> o = Some (fst r).
Proof. destruct o; cbn; intro H; [inversion H; reflexivity | discriminate]. Qed.

Lemma lift_ok {A} (x : result A) st r : lift x st = Ok r -> x = Ok (fst r).
Proof. destruct x; cbn; intro H; [inversion H; reflexivity | discriminate]. Qed.

Ltac binds :=
  repeat match goal with
         | H : mbind _ _ _ = Ok _ |- _ =>
             let a := fresh "a" in let st := fresh "st" in let H1 := fresh "H" in let H2 := fresh "H" in
             apply mbind_ok in H; destruct H as [a [st [H1 H2]]]
         end.

Lemma assoc_mem {A} l (t : list (string * A)) v : assoc_string l t = Some v -> mem_string l (map fst t) = true.
Proof.
  induction t as [|[k x] t IH]; cbn [assoc_string map fst mem_string existsb]; [discriminate|].
  destruct (String.eqb l k); [reflexivity|]. intro H. cbn. apply IH. exact H.
Qed.

Lemma cond_event_not_bad perf c ev : cond_event perf c = Ok ev -> bad_not_bit perf c = false.
Proof.
  destruct c as [| | neg v i | |]; try reflexivity. cbn [cond_event bad_not_bit].
  destruct neg; [|reflexivity]. destruct (is_perf perf v); [reflexivity | discriminate].
Qed.

Lemma tr_conds_ok perf neg cs : forall yes no st r,
  tr_conds perf neg cs yes no st = Ok r -> conds_ok perf cs = true.
Proof.
  induction cs as [|c rest IH]; intros yes no st r H; [discriminate H|].
  unfold conds_ok. cbn [negb andb forallb].
  destruct rest as [|c2 rest'].
  - cbn [tr_conds] in H. binds.
    match goal with H : lift _ _ = Ok _ |- _ => apply lift_ok in H; apply cond_event_not_bad in H; rewrite H end.
    reflexivity.
  - change (tr_conds perf neg (c :: c2 :: rest') yes no) with
      (mbind (tr_conds perf neg (c2 :: rest') yes no) (fun nxt =>
         mbind (lift (cond_event perf c)) (fun ev =>
           if neg then alloc (NTest ev no nxt) else alloc (NTest ev yes nxt)))) in H.
    binds.
    match goal with H : lift _ _ = Ok _ |- _ => apply lift_ok in H; apply cond_event_not_bad in H; rewrite H end.
    match goal with H : tr_conds _ _ _ _ _ _ = Ok _ |- _ => apply IH in H; unfold conds_ok in H; cbn [negb andb] in H; rewrite H end.
    reflexivity.
Qed.

Lemma tr_inctx_ok e s k st r : tr_inctx e s k st = Ok r ->
  inctx_ok (map fst (e_labels e)) (is_some (e_break e)) (is_some (e_cont e)) (is_some (e_brkloop e)) s = true.
Proof.
  destruct s; try discriminate; cbn [tr_inctx inctx_ok]; intro H.
  - destruct c; [discriminate | reflexivity].
  - apply need_ok in H. apply assoc_mem in H. exact H.
  - binds. match goal with H : need _ _ _ = Ok _ |- _ => apply need_ok in H; apply assoc_mem in H; exact H end.
  - destruct k0; try reflexivity; apply need_ok in H; rewrite H; reflexivity.
  - reflexivity.
Qed.

(* unfolding equations of the mutual predicate *)
Section Eqs.
Variables (perf : string) (L : list string) (sw ct bl : bool).
Lemma ws_SIf n cs b el els : ws_stmt perf L sw ct bl (SIf n cs b el els) =
  conds_ok perf cs && ws_stmts perf L sw ct bl b && ws_elifs perf L sw ct bl el && ws_ostmts perf L sw ct bl els.
Proof. reflexivity. Qed.
Lemma ws_SSwitch h cs : ws_stmt perf L sw ct bl (SSwitch h cs) = Nat.leb (count_defaults cs) 1 && ws_cases perf L true ct bl cs.
Proof. reflexivity. Qed.
Lemma ws_SForever b : ws_stmt perf L sw ct bl (SForever b) = ws_stmts perf L sw true true b.
Proof. reflexivity. Qed.
Lemma ws_SWhile n c b : ws_stmt perf L sw ct bl (SWhile n c b) = negb (bad_not_bit perf c) && ws_stmts perf L sw true true b.
Proof. reflexivity. Qed.
Lemma ws_SFor i c n b : ws_stmt perf L sw ct bl (SFor i c n b) =
  ws_stmt perf L sw ct bl i && ws_stmt perf L sw ct bl n && negb (bad_not_bit perf c) && ws_stmts perf L sw true true b.
Proof. reflexivity. Qed.
Lemma ws_SCons s r : ws_stmts perf L sw ct bl (SCons s r) = ws_stmt perf L sw ct bl s && ws_stmts perf L sw ct bl r.
Proof. reflexivity. Qed.
Lemma ws_ECons n cs b r : ws_elifs perf L sw ct bl (ECons n cs b r) =
  conds_ok perf cs && ws_stmts perf L sw ct bl b && ws_elifs perf L sw ct bl r.
Proof. reflexivity. Qed.
Lemma ws_OSome b : ws_ostmts perf L sw ct bl (OSome b) = ws_stmts perf L sw ct bl b.
Proof. reflexivity. Qed.
Lemma ws_KCase h b r : ws_cases perf L sw ct bl (KCase h b r) =
  negb (is_snil b && is_knil r) && ws_stmts perf L sw ct bl b && ws_cases perf L sw ct bl r.
Proof. reflexivity. Qed.
Lemma ws_KDefault b r : ws_cases perf L sw ct bl (KDefault b r) =
  negb (is_snil b && is_knil r) && ws_stmts perf L sw ct bl b && ws_cases perf L sw ct bl r.
Proof. reflexivity. Qed.
End Eqs.

Definition scope_sw (e : env) := is_some (e_break e).
Definition scope_ct (e : env) := is_some (e_cont e).
Definition scope_bl (e : env) := is_some (e_brkloop e).
Definition scope_L (e : env) := map fst (e_labels e).

Ltac fin :=
  repeat match goal with |- andb _ _ = true => apply andb_true_iff; split end;
  try reflexivity;
  try match goal with
      | H : tr_conds _ _ _ _ _ _ = Ok _ |- conds_ok _ _ = true => exact (tr_conds_ok _ _ _ _ _ _ _ H)
      | H : lift (cond_event _ _) _ = Ok _ |- negb _ = true =>
          apply lift_ok in H; apply cond_event_not_bad in H; rewrite H; reflexivity
      | H : tr_stmt _ ?s _ _ = Ok _, IH : forall e k st r, tr_stmt e ?s k st = Ok r -> _ |- ws_stmt _ _ _ _ _ ?s = true =>
          exact (IH _ _ _ _ H)
      | H : tr_stmts _ ?s _ _ = Ok _, IH : forall e k st r, tr_stmts e ?s k st = Ok r -> _ |- ws_stmts _ _ _ _ _ ?s = true =>
          exact (IH _ _ _ _ H)
      | H : tr_elifs _ ?s _ _ _ = Ok _, IH : forall e x k st r, tr_elifs e ?s x k st = Ok r -> _ |- ws_elifs _ _ _ _ _ ?s = true =>
          exact (IH _ _ _ _ _ H)
      | H : tr_ostmts _ ?s _ _ = Ok _, IH : forall e k st r, tr_ostmts e ?s k st = Ok r -> _ |- ws_ostmts _ _ _ _ _ ?s = true =>
          exact (IH _ _ _ _ H)
      | H : tr_cases _ ?s _ _ = Ok _, IH : forall e k st r, tr_cases e ?s k st = Ok r -> _ |- ws_cases _ _ _ _ _ ?s = true =>
          exact (proj1 (IH _ _ _ _ H))
      end.

Lemma meaning_implies_scoped :
  (forall s e k st r, tr_stmt e s k st = Ok r ->
     ws_stmt (e_perf e) (scope_L e) (scope_sw e) (scope_ct e) (scope_bl e) s = true) /\
  (forall ss e k st r, tr_stmts e ss k st = Ok r ->
     ws_stmts (e_perf e) (scope_L e) (scope_sw e) (scope_ct e) (scope_bl e) ss = true) /\
  (forall el e else_e k st r, tr_elifs e el else_e k st = Ok r ->
     ws_elifs (e_perf e) (scope_L e) (scope_sw e) (scope_ct e) (scope_bl e) el = true) /\
  (forall o e k st r, tr_ostmts e o k st = Ok r ->
     ws_ostmts (e_perf e) (scope_L e) (scope_sw e) (scope_ct e) (scope_bl e) o = true) /\
  (forall cs e k st r, tr_cases e cs k st = Ok r ->
     ws_cases (e_perf e) (scope_L e) (scope_sw e) (scope_ct e) (scope_bl e) cs = true /\
     snd (fst r) = negb (is_knil cs)).
Proof.
  apply ast_mutind.
  - (* SOp *) reflexivity.
  - (* SLabel *) intros l e k st r H. cbn [tr_stmt] in H. binds.
    match goal with H : need _ _ _ = Ok _ |- _ => apply need_ok in H; apply assoc_mem in H end. assumption.
  - (* SJump *) intros l e k st r H. cbn [tr_stmt] in H. apply need_ok in H. apply assoc_mem in H. exact H.
  - (* SCall *) intros l e k st r H. cbn [tr_stmt] in H. binds.
    match goal with H : need _ _ _ = Ok _ |- _ => apply need_ok in H; apply assoc_mem in H end. assumption.
  - (* SCtrl *) intros c e k st r H. destruct c; try reflexivity; cbn [tr_stmt] in H; apply need_ok in H;
      cbn [ws_stmt]; unfold scope_sw, scope_ct, scope_bl; rewrite H; reflexivity.
  - (* SAssign *) reflexivity.
  - (* SWith *) intros kind target s _ e k st r H. cbn [tr_stmt] in H. binds. cbn [ws_stmt].
    eapply tr_inctx_ok. eassumption.
  - (* SIf *) intros neg cs body IHb el IHel els IHels e k st r H. cbn [tr_stmt] in H. binds. rewrite ws_SIf. fin.
  - (* SSwitch *) intros h cs IH e k st r H. cbn [tr_stmt] in H. binds. rewrite ws_SSwitch.
    destruct (Nat.ltb 1 (count_defaults cs)) eqn:Ed; [discriminate|].
    apply Nat.ltb_ge in Ed. apply Nat.leb_le in Ed. binds. fin. exact Ed.
  - (* SMsgSwitch *) reflexivity.
  - (* SForever *) intros body IH e k st r H. cbn [tr_stmt] in H. binds. rewrite ws_SForever. fin.
  - (* SWhile *) intros neg c body IH e k st r H. cbn [tr_stmt] in H. binds. rewrite ws_SWhile. fin.
  - (* SFor *) intros init IHi c incr IHn body IHb e k st r H. cbn [tr_stmt] in H. binds. rewrite ws_SFor. fin.
  - (* SMacroCall *) intros; discriminate.
  - (* SNil *) reflexivity.
  - (* SCons *) intros s IHs r0 IHr e k st r H. cbn [tr_stmts] in H. binds. rewrite ws_SCons. fin.
  - (* ENil *) reflexivity.
  - (* ECons *) intros neg cs body IHb r0 IHr e else_e k st r H. cbn [tr_elifs] in H. binds. rewrite ws_ECons. fin.
  - (* ONone *) reflexivity.
  - (* OSome *) intros b IH e k st r H. cbn [tr_ostmts] in H. rewrite ws_OSome. fin.
  - (* KNil *) intros e k st r H. cbn in H. inversion H. split; reflexivity.
  - (* KCase *) intros h body IHb r0 IHr e k st r H. cbn [tr_cases] in H. binds. rewrite ws_KCase.
    match goal with H : tr_cases _ _ _ _ = Ok _ |- _ => pose proof (proj2 (IHr _ _ _ _ H)) as Hh end.
    destruct a as [[lst fall] have]. cbn [fst snd] in Hh.
    destruct body as [|s0 b0].
    + destruct have; [|discriminate]. match goal with H : ret _ _ = Ok _ |- _ => cbn in H; inversion H; subst end.
      split; [|reflexivity]. destruct r0; [discriminate Hh | |]; fin.
    + binds. match goal with H : ret _ _ = Ok _ |- _ => cbn in H; inversion H; subst end.
      split; [|reflexivity]. fin.
  - (* KDefault *) intros body IHb r0 IHr e k st r H. cbn [tr_cases] in H. binds. rewrite ws_KDefault.
    match goal with H : tr_cases _ _ _ _ = Ok _ |- _ => pose proof (proj2 (IHr _ _ _ _ H)) as Hh end.
    destruct a as [[lst fall] have]. cbn [fst snd] in Hh.
    destruct body as [|s0 b0].
    + destruct have; [|discriminate]. match goal with H : ret _ _ = Ok _ |- _ => cbn in H; inversion H; subst end.
      split; [|reflexivity]. destruct r0; [discriminate Hh | |]; fin.
    + binds. match goal with H : ret _ _ = Ok _ |- _ => cbn in H; inversion H; subst end.
      split; [|reflexivity]. fin.
Qed.

Lemma number_from_fst l : forall n, map fst (number_from n l) = l.
Proof. induction l as [|x r IH]; intro n; cbn [number_from map fst]; [reflexivity | rewrite IH; reflexivity]. Qed.

Lemma tr_routines_scoped e rs : forall n st r,
  tr_routines e rs n st = Ok r ->
  ids_in_order rs n = true /\
  forallb (fun rd => ws_stmts (e_perf e) (scope_L e) (scope_sw e) (scope_ct e) (scope_bl e) (r_body rd)) rs = true.
Proof.
  induction rs as [|rd rest IH]; intros n st r H; [split; reflexivity|].
  cbn [tr_routines] in H. destruct (Z.eqb (r_id rd) n) eqn:En; [|discriminate H]. cbn [negb] in H. binds.
  match goal with H : tr_routines _ _ _ _ = Ok _ |- _ => apply IH in H; destruct H as [Hi Hf] end.
  cbn [ids_in_order forallb]. rewrite En, Hi, Hf. split; [reflexivity|]. rewrite andb_true_r.
  destruct (r_body rd) as [|s0 b0] eqn:Eb; [reflexivity|].
  destruct (r_alias rd); [discriminate|]. binds.
  destruct meaning_implies_scoped as [_ [Hss _]]. eapply Hss. eassumption.
Qed.

(* the specification gives a meaning only to well-scoped programs *)
Theorem meaning_implies_well_scoped perf p r : cfg_of_prog perf p = Ok r -> well_scoped perf p = true.
Proof.
  unfold cfg_of_prog, well_scoped. fold (file_labels p).
  destruct (has_dup (file_labels p)); [discriminate|]. cbn [negb andb].
  set (e := mkEnv None None None (number_from 2 (file_labels p)) perf).
  destruct (tr_routines e (p_routines p) 0%Z _) as [[entries g]|m] eqn:E; [|discriminate]. intros _.
  apply tr_routines_scoped in E. destruct E as [Hi Hf]. rewrite Hi. cbn [andb].
  unfold scope_L, scope_sw, scope_ct, scope_bl, e in Hf. cbn [e_labels e_break e_cont e_brkloop e_perf is_some] in Hf.
  rewrite number_from_fst in Hf. exact Hf.
Qed.

(* each class of meaningless construct named by the property, as a consequence *)
Corollary no_meaning_examples perf :
  let prog_of b := mkProg [] [mkRoutine 0 RGeneric None None false b] in
  let one s := SCons s SNil in
  (forall r, cfg_of_prog perf (prog_of (one (SCtrl KBreak))) <> Ok r) /\
  (forall r, cfg_of_prog perf (prog_of (one (SIf false [CNeg false KwDebug] (one (SCtrl KContinue)) ENil ONone))) <> Ok r) /\
  (forall r, cfg_of_prog perf (prog_of (one (SForever (one (SCtrl KBreak))))) <> Ok r) /\
  (forall r l, cfg_of_prog perf (prog_of (one (SCall l))) <> Ok r) /\
  (forall r h c, cfg_of_prog perf (prog_of (one (SSwitch h (KCase c SNil KNil)))) <> Ok r) /\
  (forall r h b1 b2, cfg_of_prog perf (prog_of (one (SSwitch h (KDefault b1 (KDefault b2 KNil))))) <> Ok r) /\
  (forall r k t l, cfg_of_prog perf (prog_of (SCons (SWith k t (SLabel l)) SNil)) <> Ok r) /\
  (forall r n a, cfg_of_prog perf (prog_of (one (SMacroCall n a))) <> Ok r).
Proof.
  cbv zeta. repeat split; intros; intro H; apply meaning_implies_well_scoped in H;
    unfold well_scoped in H; cbn in H; rewrite ?andb_false_r in H; discriminate H.
Qed.
