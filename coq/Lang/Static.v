(* Statically meaningless programs have no meaning: whenever the specification gives a program a flow graph
   ([cfg_of_prog] answers [Ok]), the program is well scoped - no break outside a switch case, no continue or
   break_loop outside a loop, no jump or call to a label that is not defined in the file, no switch that ends in an
   empty case or has two defaults, no label (or block) as the statement of a with-block, no [not] on a bit of an
   ordinary variable, no macro call left, no label defined twice.  [well_scoped] is written independently of the
   translation, as a plain recursive predicate over the syntax. *)
From ES Require Import Base Ssb.Param Ssb.Cfg Ssb.Machine Lang.Ast Lang.Spec Lang.SrcSem.

Definition is_some {A} (o : option A) : bool := match o with Some _ => true | None => false end.
Definition is_snil (ss : stmts) : bool := match ss with SNil => true | _ => false end.
Definition is_knil (cs : cases) : bool := match cs with KNil => true | _ => false end.

Definition bad_not_bit (perf : string) (c : cond) : bool :=
  match c with
  | CBit true v _ => negb (is_perf perf v)
  | _ => false
  end.

Definition conds_ok (perf : string) (cs : list cond) : bool :=
  negb (match cs with [] => true | _ => false end) && forallb (fun c => negb (bad_not_bit perf c)) cs.

Section Scoped.
Variable perf : string.
Variable L : list string.      (* the labels defined in the file *)

(* the statement of a with-block: no label, no block; jumps and loop / case control are scoped as anywhere else *)
Definition inctx_ok (sw ct bl : bool) (s : stmt) : bool :=
  match s with
  | SOp None _ _ => true
  | SCtrl KBreak => sw
  | SCtrl KContinue => ct
  | SCtrl KBreakLoop => bl
  | SCtrl _ => true
  | SAssign _ => true
  | SJump l => mem_string l L
  | SCall l => mem_string l L
  | _ => false
  end.

Fixpoint ws_stmt (sw ct bl : bool) (s : stmt) {struct s} : bool :=
  match s with
  | SOp _ _ _ => true
  | SLabel l => mem_string l L
  | SJump l => mem_string l L
  | SCall l => mem_string l L
  | SCtrl KBreak => sw
  | SCtrl KContinue => ct
  | SCtrl KBreakLoop => bl
  | SCtrl _ => true
  | SAssign _ => true
  | SWith _ _ inner => inctx_ok sw ct bl inner
  | SIf _ cs body el els =>
      conds_ok perf cs && ws_stmts sw ct bl body && ws_elifs sw ct bl el && ws_ostmts sw ct bl els
  | SSwitch _ cs => Nat.leb (count_defaults cs) 1 && ws_cases true ct bl cs
  | SMsgSwitch _ _ _ _ => true
  | SForever body => ws_stmts sw true true body
  | SWhile _ c body => negb (bad_not_bit perf c) && ws_stmts sw true true body
  | SFor init c incr body =>
      ws_stmt sw ct bl init && ws_stmt sw ct bl incr && negb (bad_not_bit perf c) && ws_stmts sw true true body
  | SMacroCall _ _ => false
  end
with ws_stmts (sw ct bl : bool) (ss : stmts) {struct ss} : bool :=
  match ss with
  | SNil => true
  | SCons s r => ws_stmt sw ct bl s && ws_stmts sw ct bl r
  end
with ws_elifs (sw ct bl : bool) (el : elifs) {struct el} : bool :=
  match el with
  | ENil => true
  | ECons _ cs body r => conds_ok perf cs && ws_stmts sw ct bl body && ws_elifs sw ct bl r
  end
with ws_ostmts (sw ct bl : bool) (o : option_stmts) {struct o} : bool :=
  match o with
  | ONone => true
  | OSome b => ws_stmts sw ct bl b
  end
(* a case with an empty body falls into the next case: there must be one *)
with ws_cases (sw ct bl : bool) (cs : cases) {struct cs} : bool :=
  match cs with
  | KNil => true
  | KCase _ body r => negb (is_snil body && is_knil r) && ws_stmts sw ct bl body && ws_cases sw ct bl r
  | KDefault body r => negb (is_snil body && is_knil r) && ws_stmts sw ct bl body && ws_cases sw ct bl r
  end.
End Scoped.

Fixpoint ids_in_order (rs : list routine_def) (n : Z) : bool :=
  match rs with
  | [] => true
  | r :: rest => Z.eqb (r_id r) n && ids_in_order rest (n + 1)
  end.

Definition file_labels (p : prog) : list string :=
  concat (map (fun r => labels_stmts (r_body r)) (p_routines p)).

Definition well_scoped (perf : string) (p : prog) : bool :=
  negb (has_dup (file_labels p)) &&
  ids_in_order (p_routines p) 0 &&
  forallb (fun r => ws_stmts perf (file_labels p) false false false (r_body r)) (p_routines p).
