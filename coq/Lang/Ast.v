(* Abstract syntax of ExplorerScript, along explorerscript/antlr/ExplorerScript.g4.
   Literal values are already semantic (Z, text, ...): integer_like atoms are [param]s
   (PInt / PFixed / PConst). *)
From ES Require Import Base Ssb.Param.

(* conditional_operator, in the order of the documentation table *)
Inductive cop := OpFalse | OpTrue | OpEq | OpGt | OpLt | OpGe | OpLe | OpNe | OpAnd | OpXor | OpBich.
(* assign_operator *)
Inductive aop := AAssign | AMinus | APlus | AMul | ADiv.

Inductive negkw := KwDebug | KwEdit | KwVariation.

(* if_header *)
Inductive cond :=
| CNeg (neg : bool) (kw : negkw)                         (* [not] debug | edit | variation *)
| COp (v : param) (o : cop) (isvar : bool) (x : param)   (* v <op> x   |  v <op> value(x) *)
| CBit (neg : bool) (v : param) (i : Z)                  (* [not] v[i] *)
| CScn (v : param) (o : cop) (a b : Z)                   (* scn(v) <op> [a, b] *)
| COperation (name : string) (args : list param).        (* operation used as condition *)

Definition ctxspec := option (string * param).           (* <actor X> / with (actor X) *)

(* switch_header *)
Inductive swhdr :=
| SwVar (v : param)
| SwScn (v : param) (idx : Z)
| SwRandom (v : param)
| SwDungeonMode (v : param)
| SwSector
| SwOperation (c : ctxspec) (name : string) (args : list param).

(* case_header *)
Inductive casehdr :=
| CaInt (v : param)
| CaOp (o : cop) (isvar : bool) (x : param)
| CaMenu (s : param)
| CaMenu2 (v : param).

Inductive ctrl := KReturn | KEnd | KHold | KContinue | KBreak | KBreakLoop.

Inductive assign :=
| AsRegular (v : param) (idx : option Z) (o : aop) (isvar : bool) (x : param)
| AsClear (v : param)
| AsInit (v : param)
| AsResetDungeonResult
| AsResetScn (v : param)
| AsAdvLog (x : param)
| AsDungeonMode (v : param) (x : param)
| AsScn (v : param) (a b : Z).

Inductive stmt :=
| SOp (c : ctxspec) (name : string) (args : list param)
| SLabel (l : string)
| SJump (l : string)
| SCall (l : string)
| SCtrl (k : ctrl)
| SAssign (a : assign)
| SWith (kind : string) (target : param) (s : stmt)
| SIf (neg : bool) (cs : list cond) (body : stmts) (elifs : elifs) (els : option_stmts)
| SSwitch (h : swhdr) (cs : cases)
| SMsgSwitch (monologue : bool) (v : param) (cs : list (param * param)) (dflt : option param)
| SForever (body : stmts)
| SWhile (neg : bool) (c : cond) (body : stmts)
| SFor (init : stmt) (c : cond) (incr : stmt) (body : stmts)
| SMacroCall (name : string) (args : list param)
with stmts :=
| SNil
| SCons (s : stmt) (r : stmts)
with elifs :=
| ENil
| ECons (neg : bool) (cs : list cond) (body : stmts) (r : elifs)
with option_stmts :=
| ONone
| OSome (b : stmts)
with cases :=
| KNil
| KCase (h : casehdr) (body : stmts) (r : cases)
| KDefault (body : stmts) (r : cases).

Inductive rkind := RGeneric | RActor | RObject | RPerformer | RCoroutine.

Record routine_def := mkRoutine {
  r_id : Z;                    (* def N; for coroutines: position among the routines *)
  r_kind : rkind;
  r_target : option param;     (* for actor/object/performer *)
  r_name : option string;      (* coroutine name *)
  r_alias : bool;              (* alias previous; *)
  r_body : stmts
}.

Record macro_def := mkMacro {
  m_name : string;
  m_vars : list string;        (* with the leading $ *)
  m_body : stmts
}.

Record prog := mkProg {
  p_macros : list macro_def;
  p_routines : list routine_def
}.

Fixpoint stmts_of_list (l : list stmt) : stmts :=
  match l with [] => SNil | s :: r => SCons s (stmts_of_list r) end.
Fixpoint list_of_stmts (ss : stmts) : list stmt :=
  match ss with SNil => [] | SCons s r => s :: list_of_stmts r end.
