(* Meaning of ExplorerScript routines as control-flow graphs: a direct structural translation with
   no layout decisions.  Continuation-passing: [tr_stmts env ss k] allocates the nodes of [ss] so
   that control continues at node [k] afterwards, and returns the entry node. *)
From ES Require Import Base Ssb.Param Ssb.Cfg Ssb.Machine Lang.Ast Lang.Spec.

Definition M (A : Type) := list node -> result (A * list node).
Definition ret {A} (a : A) : M A := fun st => Ok (a, st).
Definition mbind {A B} (m : M A) (f : A -> M B) : M B :=
  fun st => match m st with Ok (a, st') => f a st' | Err e => Err e end.
Definition fail {A} (msg : string) : M A := fun _ => Err msg.
Definition lift {A} (r : result A) : M A :=
  fun st => match r with Ok a => Ok (a, st) | Err e => Err e end.
Notation "'dom' x <- r ; k" := (mbind r (fun x => k)) (at level 200, x pattern, r at level 100, k at level 200).

Fixpoint set_nth {A} (i : nat) (x : A) (l : list A) : list A :=
  match l, i with
  | [], _ => []
  | _ :: r, O => x :: r
  | y :: r, S i' => y :: set_nth i' x r
  end.

Definition alloc (n : node) : M nat := fun st => Ok (length st, st ++ [n]).
Definition patch (i : nat) (n : node) : M unit := fun st => Ok (tt, set_nth i n st).

Record env := mkEnv {
  e_break : option nat;       (* target of break: end of the innermost switch *)
  e_cont : option nat;        (* target of continue in the innermost loop *)
  e_brkloop : option nat;     (* target of break_loop *)
  e_labels : list (string * nat);
  e_perf : string
}.

Definition with_break (e : env) (k : nat) : env :=
  mkEnv (Some k) (e_cont e) (e_brkloop e) (e_labels e) (e_perf e).
Definition with_loop (e : env) (c b : nat) : env :=
  mkEnv (e_break e) (Some c) (Some b) (e_labels e) (e_perf e).

(* node 0 is the stop node of every graph built here; node 1 is the implicit return performed when
   a routine runs off its end ("stops the routine like return") *)
Definition STOP : nat := 0.
Definition FALL : nat := 1.

Definition need {A} (o : option A) (msg : string) : M A :=
  match o with Some a => ret a | None => fail msg end.

(* operations with a special meaning on the machine are reserved words of the source language *)
Definition plain_op_name (name : string) : bool :=
  match jump_index name with Some _ => false | None => true end.

Definition ctrl_event (k : ctrl) : option event :=
  match k with
  | KReturn => Some ("Return"%string, [])
  | KEnd => Some ("End"%string, [])
  | KHold => Some ("Hold"%string, [])
  | _ => None
  end.

(* the single statement of a with-block / the operand of an inline context: an operation, assignment or
   return/end/hold is one event and never ends the routine; a jump, call, break, continue or break_loop goes where it
   goes anywhere else (the compiler puts the context op in front of the Jump / Call op) *)
Definition tr_inctx (e : env) (s : stmt) (k : nat) : M nat :=
  match s with
  | SOp None name args =>
      if plain_op_name name then alloc (NOp (name, args) k) else fail "reserved operation name"
  | SCtrl KContinue => need (e_cont e) "continue outside a loop"
  | SCtrl KBreak => need (e_break e) "break outside a switch case"
  | SCtrl KBreakLoop => need (e_brkloop e) "break_loop outside a loop"
  | SCtrl c =>
      match ctrl_event c with
      | Some ev => alloc (NOp ev k)
      | None => fail "unsupported control statement in with-block"
      end
  | SAssign a => dom ev <- lift (assign_event (e_perf e) a); alloc (NOp ev k)
  | SJump l => need (assoc_string l (e_labels e)) "jump to undefined label"
  | SCall l =>
      dom idx <- need (assoc_string l (e_labels e)) "call to undefined label";
      alloc (NTest ("Call"%string, []) idx k)
  | _ => fail "unsupported statement in with-block"
  end.

(* condition chain of an if: [yes] when the block is to be entered, [no] otherwise *)
Fixpoint tr_conds (perf : string) (neg : bool) (cs : list cond) (yes no : nat) : M nat :=
  match cs with
  | [] => fail "if without condition"
  | [c] =>
      dom ev <- lift (cond_event perf c);
      if neg then alloc (NTest ev no yes) else alloc (NTest ev yes no)
  | c :: rest =>
      dom nxt <- tr_conds perf neg rest yes no;
      dom ev <- lift (cond_event perf c);
      if neg then alloc (NTest ev no nxt) else alloc (NTest ev yes nxt)
  end.

(* tests of a switch in source order; [lst] pairs each case header (None = default) with the
   entry of the body it leads to *)
Fixpoint tr_case_tests (sw : string) (lst : list (option casehdr * nat)) (dflt : nat) : M nat :=
  match lst with
  | [] => ret dflt
  | (None, _) :: rest => tr_case_tests sw rest dflt
  | (Some h, e) :: rest =>
      dom nxt <- tr_case_tests sw rest dflt;
      alloc (NTest (case_event sw h) e nxt)
  end.

Fixpoint default_entry (lst : list (option casehdr * nat)) : option nat :=
  match lst with
  | [] => None
  | (None, e) :: _ => Some e
  | _ :: rest => default_entry rest
  end.

Fixpoint count_defaults (cs : cases) : nat :=
  match cs with
  | KNil => 0
  | KCase _ _ r => count_defaults r
  | KDefault _ r => S (count_defaults r)
  end.

Fixpoint tr_msg_cases (cs : list (param * param)) (k : nat) : M nat :=
  match cs with
  | [] => ret k
  | (v, s) :: rest =>
      dom nxt <- tr_msg_cases rest k;
      alloc (NOp ("CaseText"%string, [v; s]) nxt)
  end.

Fixpoint tr_stmt (e : env) (s : stmt) (k : nat) {struct s} : M nat :=
  match s with
  | SOp None name args =>
      if plain_op_name name then
        alloc (NOp (name, args) (if ends_flow name then STOP else k))
      else fail "reserved operation name"
  | SOp (Some (kind, target)) name args =>
      if plain_op_name name then
        dom ce <- lift (ctx_event kind target);
        dom inner <- alloc (NOp (name, args) k);
        alloc (NOp ce inner)
      else fail "reserved operation name"
  | SLabel l =>
      dom idx <- need (assoc_string l (e_labels e)) "label not collected";
      dom _ <- patch idx (NGoto k);
      ret idx
  | SJump l => need (assoc_string l (e_labels e)) "jump to undefined label"
  | SCall l =>
      dom idx <- need (assoc_string l (e_labels e)) "call to undefined label";
      alloc (NTest ("Call"%string, []) idx k)
  | SCtrl KReturn => alloc (NOp ("Return"%string, []) STOP)
  | SCtrl KEnd => alloc (NOp ("End"%string, []) STOP)
  | SCtrl KHold => alloc (NOp ("Hold"%string, []) STOP)
  | SCtrl KContinue => need (e_cont e) "continue outside a loop"
  | SCtrl KBreak => need (e_break e) "break outside a switch case"
  | SCtrl KBreakLoop => need (e_brkloop e) "break_loop outside a loop"
  | SAssign a => dom ev <- lift (assign_event (e_perf e) a); alloc (NOp ev k)
  | SWith kind target inner =>
      dom ce <- lift (ctx_event kind target);
      dom i <- tr_inctx e inner k;
      alloc (NOp ce i)
  | SIf neg cs body el els =>
      dom else_e <- tr_ostmts e els k;
      dom elif_e <- tr_elifs e el else_e k;
      dom b <- tr_stmts e body k;
      tr_conds (e_perf e) neg cs b elif_e
  | SSwitch h cs =>
      dom hev <- lift (switch_event h);
      if Nat.ltb 1 (count_defaults cs) then fail "two defaults" else
      dom res <- tr_cases (with_break e k) cs k;
      let '(lst, _, _) := res in
      let dflt := match default_entry lst with Some d => d | None => k end in
      dom first <- tr_case_tests (fst hev) lst dflt;
      alloc (NOp hev first)
  | SMsgSwitch mono v cs dflt =>
      dom d <- match dflt with
               | Some s => alloc (NOp ("DefaultText"%string, [s]) k)
               | None => ret k
               end;
      dom first <- tr_msg_cases cs d;
      alloc (NOp (msg_switch_code mono, [v]) first)
  | SForever body =>
      dom h <- alloc NStuck;
      dom b <- tr_stmts (with_loop e h k) body h;
      dom _ <- patch h (NGoto b);
      ret h
  | SWhile neg c body =>
      dom h <- alloc NStuck;
      dom b <- tr_stmts (with_loop e h k) body h;
      dom ev <- lift (cond_event (e_perf e) c);
      dom _ <- patch h (if neg then NTest ev k b else NTest ev b k);
      ret h
  | SFor init c incr body =>
      dom t <- alloc NStuck;
      dom i_e <- tr_stmt e incr t;
      dom b <- tr_stmts (with_loop e i_e k) body i_e;
      dom ev <- lift (cond_event (e_perf e) c);
      dom _ <- patch t (NTest ev b k);
      tr_stmt e init t
  | SMacroCall _ _ => fail "macro call (inline first)"
  end
with tr_stmts (e : env) (ss : stmts) (k : nat) {struct ss} : M nat :=
  match ss with
  | SNil => ret k
  | SCons s r =>
      dom rest <- tr_stmts e r k;
      tr_stmt e s rest
  end
with tr_elifs (e : env) (el : elifs) (else_e k : nat) {struct el} : M nat :=
  match el with
  | ENil => ret else_e
  | ECons neg cs body r =>
      dom rest <- tr_elifs e r else_e k;
      dom b <- tr_stmts e body k;
      tr_conds (e_perf e) neg cs b rest
  end
with tr_ostmts (e : env) (o : option_stmts) (k : nat) {struct o} : M nat :=
  match o with
  | ONone => ret k
  | OSome b => tr_stmts e b k
  end
(* returns (header/entry list in source order, entry of the first body at or after this point,
   whether there is such a body) *)
with tr_cases (e : env) (cs : cases) (k : nat) {struct cs} : M (list (option casehdr * nat) * nat * bool) :=
  match cs with
  | KNil => ret ([], k, false)
  | KCase h body r =>
      dom res <- tr_cases e r k;
      let '(lst, fall, have) := res in
      match body with
      | SNil => if have then ret ((Some h, fall) :: lst, fall, true)
                else fail "switch ends in an empty case"
      | _ => dom b <- tr_stmts e body fall; ret ((Some h, b) :: lst, b, true)
      end
  | KDefault body r =>
      dom res <- tr_cases e r k;
      let '(lst, fall, have) := res in
      match body with
      | SNil => if have then ret ((None, fall) :: lst, fall, true)
                else fail "switch ends in an empty case"
      | _ => dom b <- tr_stmts e body fall; ret ((None, b) :: lst, b, true)
      end
  end.

(* ---- labels: file-global, one silent node each ---- *)
Fixpoint labels_stmt (s : stmt) : list string :=
  match s with
  | SLabel l => [l]
  | SIf _ _ body el els => labels_stmts body ++ labels_elifs el ++ labels_ostmts els
  | SSwitch _ cs => labels_cases cs
  | SForever body => labels_stmts body
  | SWhile _ _ body => labels_stmts body
  | SFor init _ incr body => labels_stmt init ++ labels_stmt incr ++ labels_stmts body
  | _ => []
  end
with labels_stmts (ss : stmts) : list string :=
  match ss with SNil => [] | SCons s r => labels_stmt s ++ labels_stmts r end
with labels_elifs (el : elifs) : list string :=
  match el with ENil => [] | ECons _ _ b r => labels_stmts b ++ labels_elifs r end
with labels_ostmts (o : option_stmts) : list string :=
  match o with ONone => [] | OSome b => labels_stmts b end
with labels_cases (cs : cases) : list string :=
  match cs with
  | KNil => []
  | KCase _ b r => labels_stmts b ++ labels_cases r
  | KDefault b r => labels_stmts b ++ labels_cases r
  end.

Fixpoint has_dup (l : list string) : bool :=
  match l with [] => false | x :: r => mem_string x r || has_dup r end.

Fixpoint number_from (n : nat) (l : list string) : list (string * nat) :=
  match l with [] => [] | x :: r => (x, n) :: number_from (S n) r end.

Fixpoint tr_routines (e : env) (rs : list routine_def) (expect_id : Z) : M (list (option nat)) :=
  match rs with
  | [] => ret []
  | r :: rest =>
      if negb (Z.eqb (r_id r) expect_id) then fail "routine ids are not 0,1,2,.. in order" else
      dom entry <- (match r_body r with
                    | SNil => ret None
                    | b => if r_alias r then fail "alias with statements"
                           else dom en <- tr_stmts e b FALL; ret (Some en)
                    end);
      dom others <- tr_routines e rest (expect_id + 1)%Z;
      ret (entry :: others)
  end.

(* The graph of a (macro-free) program and the entry node of every routine. *)
Definition cfg_of_prog (perf : string) (p : prog) : result (cfg * list (option nat)) :=
  let labels := concat (map (fun r => labels_stmts (r_body r)) (p_routines p)) in
  if has_dup labels then Err "label defined twice" else
  let table := number_from 2 labels in
  let init := NStop :: implicit_return STOP :: map (fun _ => NStuck) labels in
  let e := mkEnv None None None table perf in
  match tr_routines e (p_routines p) 0%Z init with
  | Ok (entries, g) => Ok (g, entries)
  | Err m => Err m
  end.

(* pairing the routines of two sides; alias/empty routines must coincide *)
Fixpoint pair_entries (l1 l2 : list (option nat)) : option (list (nat * nat)) :=
  match l1, l2 with
  | [], [] => Some []
  | None :: r1, None :: r2 => pair_entries r1 r2
  | Some a :: r1, Some b :: r2 =>
      match pair_entries r1 r2 with Some l => Some ((a, b) :: l) | None => None end
  | _, _ => None
  end.
