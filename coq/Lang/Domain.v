(* The domain of the specification, exactly: a macro-free program has a meaning if and only if it is well scoped
   (Lang/Static.v) and each of its conditions, headers, contexts, assignments and operation names has an event
   (the functions of Lang/Spec.v answer).  Model file: the second predicate. *)
From ES Require Import Base Ssb.Param Ssb.Cfg Ssb.Machine Lang.Ast Lang.Spec Lang.SrcSem Lang.Static.

Definition is_ok {A} (r : result A) : bool := match r with Ok _ => true | Err _ => false end.

Section Events.
Variable perf : string.

Definition ev_inctx (s : stmt) : bool :=
  match s with
  | SOp None name _ => plain_op_name name
  | SAssign a => is_ok (assign_event perf a)
  | _ => true
  end.

Fixpoint ev_stmt (s : stmt) {struct s} : bool :=
  match s with
  | SOp None name _ => plain_op_name name
  | SOp (Some (kind, target)) name _ => plain_op_name name && is_ok (ctx_event kind target)
  | SAssign a => is_ok (assign_event perf a)
  | SWith kind target inner => is_ok (ctx_event kind target) && ev_inctx inner
  | SIf _ cs body el els =>
      forallb (fun c => is_ok (cond_event perf c)) cs && ev_stmts body && ev_elifs el && ev_ostmts els
  | SSwitch h cs => is_ok (switch_event h) && ev_cases cs
  | SForever body => ev_stmts body
  | SWhile _ c body => is_ok (cond_event perf c) && ev_stmts body
  | SFor init c incr body => ev_stmt init && ev_stmt incr && is_ok (cond_event perf c) && ev_stmts body
  | _ => true
  end
with ev_stmts (ss : stmts) {struct ss} : bool :=
  match ss with SNil => true | SCons s r => ev_stmt s && ev_stmts r end
with ev_elifs (el : elifs) {struct el} : bool :=
  match el with
  | ENil => true
  | ECons _ cs b r => forallb (fun c => is_ok (cond_event perf c)) cs && ev_stmts b && ev_elifs r
  end
with ev_ostmts (o : option_stmts) {struct o} : bool :=
  match o with ONone => true | OSome b => ev_stmts b end
with ev_cases (cs : cases) {struct cs} : bool :=
  match cs with
  | KNil => true
  | KCase _ b r => ev_stmts b && ev_cases r
  | KDefault b r => ev_stmts b && ev_cases r
  end.
End Events.

Definition events_ok (perf : string) (p : prog) : bool :=
  forallb (fun r => ev_stmts perf (r_body r) && (is_snil (r_body r) || negb (r_alias r))) (p_routines p).
