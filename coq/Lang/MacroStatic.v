(* Macro calls that can not be expanded have no meaning: a program that contains (anywhere in a routine: in blocks,
   cases, loop bodies and for headers) a call to an unknown macro, a call with too few arguments, or a call to a macro
   whose body calls itself, is rejected by [inline] - whatever the rest of the program is. *)
From ES Require Import Base Ssb.Param Lang.Ast Lang.Inline.

Definition is_err {A} (r : result A) : bool := match r with Err _ => true | Ok _ => false end.

Section Calls.
Variable bad : string -> nat -> bool.     (* macro name, number of arguments *)

Fixpoint has_call (s : stmt) {struct s} : bool :=
  match s with
  | SMacroCall n a => bad n (length a)
  | SIf _ _ body el els => has_calls body || has_call_elifs el || has_call_ostmts els
  | SSwitch _ cs => has_call_cases cs
  | SForever body => has_calls body
  | SWhile _ _ body => has_calls body
  | SFor init _ incr body => has_call init || has_call incr || has_calls body
  | _ => false
  end
with has_calls (ss : stmts) {struct ss} : bool :=
  match ss with SNil => false | SCons s r => has_call s || has_calls r end
with has_call_elifs (el : elifs) {struct el} : bool :=
  match el with ENil => false | ECons _ _ b r => has_calls b || has_call_elifs r end
with has_call_ostmts (o : option_stmts) {struct o} : bool :=
  match o with ONone => false | OSome b => has_calls b end
with has_call_cases (cs : cases) {struct cs} : bool :=
  match cs with
  | KNil => false
  | KCase _ b r => has_calls b || has_call_cases r
  | KDefault b r => has_calls b || has_call_cases r
  end.
End Calls.

Definition unknown_macro (ms : list macro_def) (n : string) (_ : nat) : bool :=
  match find_macro n ms with None => true | Some _ => false end.

Definition too_few_args (ms : list macro_def) (n : string) (k : nat) : bool :=
  match find_macro n ms with Some m => Nat.ltb k (length (m_vars m)) | None => false end.

(* the macro calls itself in its own body *)
Definition self_recursive (ms : list macro_def) (n : string) (_ : nat) : bool :=
  match find_macro n ms with
  | Some m => has_calls (fun n' _ => String.eqb n' n) (m_body m)
  | None => false
  end.

(* a set of macro names each of whose bodies calls a member of the set again (or is not defined): expansion can not
   end.  A macro calling itself is the set of one; a cycle through several macros is the set of its members. *)
Definition trap (ms : list macro_def) (D : list string) : bool :=
  forallb (fun n => match find_macro n ms with
                    | Some m => has_calls (fun n' _ => mem_string n' D) (m_body m)
                    | None => true
                    end) D.

(* some routine of the program contains a bad call *)
Definition program_has (bad : string -> nat -> bool) (p : prog) : bool :=
  existsb (fun r => has_calls bad (r_body r)) (p_routines p).

