From ES Require Import Base Ssb.Param Lang.Ast Lang.Inline Lang.MacroStatic.

Lemma bind_err {A B} (r : result A) (f : A -> result B) : is_err r = true -> is_err (bind r f) = true.
Proof. destruct r; [discriminate | reflexivity]. Qed.

Section Fails.
Variable ms : list macro_def.
Variable bad : string -> nat -> bool.

(* if calls to bad macros fail with every amount of fuel up to f, so does everything that contains one *)
Definition calls_fail (f : nat) : Prop :=
  forall f' c k n a, f' <= f -> bad n (length a) = true -> is_err (inl_stmt f' ms c (SMacroCall n a) k) = true.

Ltac step E :=
  match goal with
  | |- is_err (bind ?r _) = true => destruct r as [?|?] eqn:E; [cbn [bind]|reflexivity]
  end.

Lemma containment : forall f, calls_fail f ->
  (forall s c k, has_call bad s = true -> is_err (inl_stmt f ms c s k) = true) /\
  (forall ss c k, has_calls bad ss = true -> is_err (inl_stmts f ms c ss k) = true) /\
  (forall el c k, has_call_elifs bad el = true -> is_err (inl_elifs f ms c el k) = true) /\
  (forall o c k, has_call_ostmts bad o = true -> is_err (inl_ostmts f ms c o k) = true) /\
  (forall cs c k, has_call_cases bad cs = true -> is_err (inl_cases f ms c cs k) = true).
Proof.
  induction f as [|f IH]; intro CF.
  - repeat split; intros; reflexivity.
  - assert (CF' : calls_fail f) by (intros f' c k n a Hle Hb; apply CF; [lia | exact Hb]).
    destruct (IH CF') as [I1 [I2 [I3 [I4 I5]]]].
    repeat split.
    + intros s c k H. destruct s; try discriminate H.
      * (* SIf *) cbn [has_call] in H. cbn [inl_stmt].
        apply orb_true_iff in H. destruct H as [H|H]; [apply orb_true_iff in H; destruct H as [H|H]|].
        -- apply bind_err. apply I2. exact H.
        -- step E1. apply bind_err. apply I3. exact H.
        -- step E1. step E2. apply bind_err. apply I4. exact H.
      * (* SSwitch *) cbn [has_call] in H. cbn [inl_stmt]. apply bind_err. apply I5. exact H.
      * (* SForever *) cbn [has_call] in H. cbn [inl_stmt]. apply bind_err. apply I2. exact H.
      * (* SWhile *) cbn [has_call] in H. cbn [inl_stmt]. apply bind_err. apply I2. exact H.
      * (* SFor *) cbn [has_call] in H. cbn [inl_stmt].
        apply orb_true_iff in H. destruct H as [H|H]; [apply orb_true_iff in H; destruct H as [H|H]|].
        -- apply bind_err. apply I1. exact H.
        -- step E1. apply bind_err. apply I1. exact H.
        -- step E1. step E2. apply bind_err. apply I2. exact H.
      * (* SMacroCall *) cbn [has_call] in H. apply CF; [lia | exact H].
    + intros ss c k H. destruct ss as [|s r]; [discriminate H|]. cbn [has_calls] in H. cbn [inl_stmts].
      apply orb_true_iff in H. destruct H as [H|H].
      * apply bind_err. apply I1. exact H.
      * step E1. apply bind_err. apply I2. exact H.
    + intros el c k H. destruct el as [|n cs b r]; [discriminate H|]. cbn [has_call_elifs] in H. cbn [inl_elifs].
      apply orb_true_iff in H. destruct H as [H|H].
      * apply bind_err. apply I2. exact H.
      * step E1. apply bind_err. apply I3. exact H.
    + intros o c k H. destruct o as [|b]; [discriminate H|]. cbn [has_call_ostmts] in H. cbn [inl_ostmts].
      apply bind_err. apply I2. exact H.
    + intros cs c k H. destruct cs as [|h b r|b r]; [discriminate H| |]; cbn [has_call_cases] in H; cbn [inl_cases];
        (apply orb_true_iff in H; destruct H as [H|H]; [apply bind_err; apply I2; exact H | step E1; apply bind_err; apply I5; exact H]).
Qed.

Lemma routines_fail rs : (forall f, calls_fail f) ->
  existsb (fun r => has_calls bad (r_body r)) rs = true -> forall k, is_err (inl_routines ms rs k) = true.
Proof.
  intros CF. induction rs as [|r rest IH]; intros H k; [discriminate H|].
  cbn [existsb] in H. cbn [inl_routines]. apply orb_true_iff in H. destruct H as [H|H].
  - apply bind_err. apply (containment _ (CF _)). exact H.
  - destruct (inl_stmts INLINE_FUEL ms _ (r_body r) k) as [b|e]; [cbn [bind]|reflexivity].
    apply bind_err. apply IH. exact H.
Qed.
End Fails.

Lemma subst_params_length e a : length (subst_params e a) = length a.
Proof. apply map_length. Qed.

Lemma zip_env_few vars : forall args, length args < length vars -> zip_env vars args = None.
Proof.
  induction vars as [|v vr IH]; intros args H; [cbn in H; lia|].
  destruct args as [|a ar]; [reflexivity|]. cbn [zip_env]. rewrite IH; [reflexivity | cbn [length] in H; lia].
Qed.

Lemma unknown_calls_fail ms f : calls_fail ms (unknown_macro ms) f.
Proof.
  intros f' c k n a _ H. unfold unknown_macro in H. destruct f' as [|f']; [reflexivity|].
  cbn [inl_stmt]. destruct (find_macro n ms); [discriminate H | reflexivity].
Qed.

Lemma too_few_calls_fail ms f : calls_fail ms (too_few_args ms) f.
Proof.
  intros f' c k n a _ H. unfold too_few_args in H. destruct f' as [|f']; [reflexivity|].
  cbn [inl_stmt]. destruct (find_macro n ms) as [m|]; [|discriminate H].
  apply Nat.ltb_lt in H. rewrite zip_env_few; [reflexivity | rewrite subst_params_length; exact H].
Qed.

Lemma recursive_calls_fail ms f : calls_fail ms (self_recursive ms) f.
Proof.
  induction f as [|f IH]; intros f' c k n a Hle H.
  - assert (f' = 0) by lia. subst. reflexivity.
  - destruct f' as [|f'']; [reflexivity|]. unfold self_recursive in H.
    cbn [inl_stmt]. destruct (find_macro n ms) as [m|] eqn:Ef; [|reflexivity].
    destruct (zip_env (m_vars m) (subst_params (i_env c) a)) as [e'|]; [|reflexivity].
    apply bind_err.
    (* the body contains a call to n; calls to n fail with all fuel up to f'' <= f *)
    assert (CF : calls_fail ms (fun n' _ => String.eqb n' n) f'').
    { intros g c' k' n' a' Hg Hb. apply String.eqb_eq in Hb. subst n'.
      apply IH; [lia|]. unfold self_recursive. rewrite Ef. exact H. }
    apply (containment ms _ f'' CF). exact H.
Qed.

Theorem inline_rejects bad p : (forall f, calls_fail (p_macros p) bad f) ->
  program_has bad p = true -> is_err (inline p) = true.
Proof. intros CF H. unfold inline. apply bind_err. apply (routines_fail _ bad _ CF). exact H. Qed.

Theorem unknown_macro_rejected p : program_has (unknown_macro (p_macros p)) p = true -> is_err (inline p) = true.
Proof. apply inline_rejects. intro f. apply unknown_calls_fail. Qed.

Theorem too_few_arguments_rejected p : program_has (too_few_args (p_macros p)) p = true -> is_err (inline p) = true.
Proof. apply inline_rejects. intro f. apply too_few_calls_fail. Qed.

Theorem recursive_macro_rejected p : program_has (self_recursive (p_macros p)) p = true -> is_err (inline p) = true.
Proof. apply inline_rejects. intro f. apply recursive_calls_fail. Qed.

(* cycles through any number of macros *)
Lemma trap_calls_fail ms D : trap ms D = true -> forall f, calls_fail ms (fun n _ => mem_string n D) f.
Proof.
  intros HT f. induction f as [|f IH]; intros f' c k n a Hle H.
  - assert (f' = 0) by lia. subst. reflexivity.
  - destruct f' as [|f'']; [reflexivity|].
    cbn [inl_stmt]. destruct (find_macro n ms) as [m|] eqn:Ef; [|reflexivity].
    destruct (zip_env (m_vars m) (subst_params (i_env c) a)) as [e'|]; [|reflexivity].
    apply bind_err.
    assert (CF : calls_fail ms (fun n' _ => mem_string n' D) f'') by (intros g c' k' n' a' Hg Hb; apply IH; [lia | exact Hb]).
    apply (containment ms _ f'' CF).
    unfold trap in HT. rewrite forallb_forall in HT. apply mem_string_In in H. specialize (HT n H). rewrite Ef in HT. exact HT.
Qed.

Theorem macro_cycle_rejected p D : trap (p_macros p) D = true ->
  program_has (fun n _ => mem_string n D) p = true -> is_err (inline p) = true.
Proof. intros HT. apply inline_rejects. apply trap_calls_fail. exact HT. Qed.
