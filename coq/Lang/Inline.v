(* Macro semantics as the language specification states it: a call is replaced by the macro's body
   with the macro variables substituted by the call's arguments, `return` leaving only the macro
   (a jump to a fresh end label of that expansion), and the body's labels private to each expansion. *)
From ES Require Import Base Ssb.Param Lang.Ast.

Definition senv := list (string * param).

Definition subst_param (e : senv) (p : param) : param :=
  match p with
  | PConst n => match assoc_string n e with Some v => v | None => p end
  | _ => p
  end.
Definition subst_params (e : senv) (ps : list param) : list param := map (subst_param e) ps.

Definition subst_cond (e : senv) (c : cond) : cond :=
  match c with
  | CNeg n k => CNeg n k
  | COp v o b x => COp (subst_param e v) o b (subst_param e x)
  | CBit n v i => CBit n (subst_param e v) i
  | CScn v o a b => CScn (subst_param e v) o a b
  | COperation nm args => COperation nm (subst_params e args)
  end.

Definition subst_ctx (e : senv) (c : ctxspec) : ctxspec :=
  match c with Some (k, t) => Some (k, subst_param e t) | None => None end.

Definition subst_swhdr (e : senv) (h : swhdr) : swhdr :=
  match h with
  | SwVar v => SwVar (subst_param e v)
  | SwScn v i => SwScn (subst_param e v) i
  | SwRandom v => SwRandom (subst_param e v)
  | SwDungeonMode v => SwDungeonMode (subst_param e v)
  | SwSector => SwSector
  | SwOperation c nm args => SwOperation (subst_ctx e c) nm (subst_params e args)
  end.

Definition subst_casehdr (e : senv) (h : casehdr) : casehdr :=
  match h with
  | CaInt v => CaInt (subst_param e v)
  | CaOp o b x => CaOp o b (subst_param e x)
  | CaMenu s => CaMenu (subst_param e s)
  | CaMenu2 v => CaMenu2 (subst_param e v)
  end.

Definition subst_assign (e : senv) (a : assign) : assign :=
  match a with
  | AsRegular v i o b x => AsRegular (subst_param e v) i o b (subst_param e x)
  | AsClear v => AsClear (subst_param e v)
  | AsInit v => AsInit (subst_param e v)
  | AsResetDungeonResult => AsResetDungeonResult
  | AsResetScn v => AsResetScn (subst_param e v)
  | AsAdvLog x => AsAdvLog (subst_param e x)
  | AsDungeonMode v x => AsDungeonMode (subst_param e v) (subst_param e x)
  | AsScn v a b => AsScn (subst_param e v) a b
  end.

(* decimal suffix for fresh names *)
Fixpoint nat_digits (fuel n : nat) (acc : string) : string :=
  match fuel with
  | O => acc
  | S f =>
      let d := String (ascii_of_nat (48 + n mod 10)) acc in
      if Nat.ltb n 10 then d else nat_digits f (n / 10) d
  end.
Definition nat_to_string (n : nat) : string := nat_digits (S n) n EmptyString.

(* labels of expansion k carry the suffix "#k" (not an identifier character: no clash with user labels) *)
Definition private_label (k : nat) (l : string) : string := (l ++ "#" ++ nat_to_string k)%string.
Definition end_label (k : nat) : string := ("$end#" ++ nat_to_string k)%string.

Fixpoint find_macro (n : string) (ms : list macro_def) : option macro_def :=
  match ms with
  | [] => None
  | m :: r => if String.eqb (m_name m) n then Some m else find_macro n r
  end.

Fixpoint zip_env (vars : list string) (args : list param) : option senv :=
  match vars, args with
  | [], _ => Some []
  | _ :: _, [] => None                       (* too few arguments *)
  | v :: vr, a :: ar => match zip_env vr ar with Some e => Some ((v, a) :: e) | None => None end
  end.

Fixpoint sapp (a b : stmts) : stmts :=
  match a with SNil => b | SCons s r => SCons s (sapp r b) end.

(* context of the statement being inlined: substitution, label renaming, return target *)
Record ictx := mkI { i_env : senv; i_exp : option nat }.

Definition ren (c : ictx) (l : string) : string :=
  match i_exp c with Some k => private_label k l | None => l end.

(* [inl_*] return the rewritten statements and the next free expansion number.
   All functions recurse on [fuel]; running out of fuel is the error "fuel" (cyclic macros). *)
Fixpoint inl_stmt (fuel : nat) (ms : list macro_def) (c : ictx) (s : stmt) (k : nat) {struct fuel}
  : result (stmts * nat) :=
  match fuel with
  | O => Err "fuel"
  | S f =>
      let e := i_env c in
      match s with
      | SOp cx nm args => Ok (SCons (SOp (subst_ctx e cx) nm (subst_params e args)) SNil, k)
      | SLabel l => Ok (SCons (SLabel (ren c l)) SNil, k)
      | SJump l => Ok (SCons (SJump (ren c l)) SNil, k)
      | SCall l => Ok (SCons (SCall (ren c l)) SNil, k)
      | SCtrl KReturn =>
          match i_exp c with
          | Some x => Ok (SCons (SJump (end_label x)) SNil, k)
          | None => Ok (SCons s SNil, k)
          end
      | SCtrl _ => Ok (SCons s SNil, k)
      | SAssign a => Ok (SCons (SAssign (subst_assign e a)) SNil, k)
      | SWith kind t inner =>
          match inner with
          | SCtrl KReturn =>
              match i_exp c with
              | Some x => Ok (SCons (SWith kind (subst_param e t) (SJump (end_label x))) SNil, k)
              | None => Ok (SCons (SWith kind (subst_param e t) inner) SNil, k)
              end
          | SJump l => Ok (SCons (SWith kind (subst_param e t) (SJump (ren c l))) SNil, k)
          | SCall l => Ok (SCons (SWith kind (subst_param e t) (SCall (ren c l))) SNil, k)
          | SOp None nm args => Ok (SCons (SWith kind (subst_param e t) (SOp None nm (subst_params e args))) SNil, k)
          | SAssign a => Ok (SCons (SWith kind (subst_param e t) (SAssign (subst_assign e a))) SNil, k)
          | _ => Ok (SCons (SWith kind (subst_param e t) inner) SNil, k)
          end
      | SIf neg cs body el els =>
          do b <- inl_stmts f ms c body k;
          do l <- inl_elifs f ms c el (snd b);
          do o <- inl_ostmts f ms c els (snd l);
          Ok (SCons (SIf neg (map (subst_cond e) cs) (fst b) (fst l) (fst o)) SNil, snd o)
      | SSwitch h cs =>
          do r <- inl_cases f ms c cs k;
          Ok (SCons (SSwitch (subst_swhdr e h) (fst r)) SNil, snd r)
      | SMsgSwitch mono v cs d =>
          Ok (SCons (SMsgSwitch mono (subst_param e v)
                      (map (fun vs => (subst_param e (fst vs), snd vs)) cs) d) SNil, k)
      | SForever body =>
          do b <- inl_stmts f ms c body k; Ok (SCons (SForever (fst b)) SNil, snd b)
      | SWhile neg cd body =>
          do b <- inl_stmts f ms c body k; Ok (SCons (SWhile neg (subst_cond e cd) (fst b)) SNil, snd b)
      | SFor init cd incr body =>
          do i1 <- inl_stmt f ms c init k;
          do i2 <- inl_stmt f ms c incr (snd i1);
          do b <- inl_stmts f ms c body (snd i2);
          match fst i1, fst i2 with
          | SCons a SNil, SCons d SNil => Ok (SCons (SFor a (subst_cond e cd) d (fst b)) SNil, snd b)
          | _, _ => Err "macro call in a for header"
          end
      | SMacroCall nm args =>
          match find_macro nm ms with
          | None => Err "macro not found"
          | Some m =>
              match zip_env (m_vars m) (subst_params e args) with
              | None => Err "too few macro arguments"
              | Some e' =>
                  do b <- inl_stmts f ms (mkI e' (Some k)) (m_body m) (S k);
                  Ok (sapp (fst b) (SCons (SLabel (end_label k)) SNil), snd b)
              end
          end
      end
  end
with inl_stmts (fuel : nat) (ms : list macro_def) (c : ictx) (ss : stmts) (k : nat) {struct fuel}
  : result (stmts * nat) :=
  match fuel with
  | O => Err "fuel"
  | S f =>
      match ss with
      | SNil => Ok (SNil, k)
      | SCons s r =>
          do a <- inl_stmt f ms c s k;
          do b <- inl_stmts f ms c r (snd a);
          Ok (sapp (fst a) (fst b), snd b)
      end
  end
with inl_elifs (fuel : nat) (ms : list macro_def) (c : ictx) (el : elifs) (k : nat) {struct fuel}
  : result (elifs * nat) :=
  match fuel with
  | O => Err "fuel"
  | S f =>
      match el with
      | ENil => Ok (ENil, k)
      | ECons neg cs body r =>
          do b <- inl_stmts f ms c body k;
          do rr <- inl_elifs f ms c r (snd b);
          Ok (ECons neg (map (subst_cond (i_env c)) cs) (fst b) (fst rr), snd rr)
      end
  end
with inl_ostmts (fuel : nat) (ms : list macro_def) (c : ictx) (o : option_stmts) (k : nat) {struct fuel}
  : result (option_stmts * nat) :=
  match fuel with
  | O => Err "fuel"
  | S f =>
      match o with
      | ONone => Ok (ONone, k)
      | OSome b => do r <- inl_stmts f ms c b k; Ok (OSome (fst r), snd r)
      end
  end
with inl_cases (fuel : nat) (ms : list macro_def) (c : ictx) (cs : cases) (k : nat) {struct fuel}
  : result (cases * nat) :=
  match fuel with
  | O => Err "fuel"
  | S f =>
      match cs with
      | KNil => Ok (KNil, k)
      | KCase h body r =>
          do b <- inl_stmts f ms c body k;
          do rr <- inl_cases f ms c r (snd b);
          Ok (KCase (subst_casehdr (i_env c) h) (fst b) (fst rr), snd rr)
      | KDefault body r =>
          do b <- inl_stmts f ms c body k;
          do rr <- inl_cases f ms c r (snd b);
          Ok (KDefault (fst b) (fst rr), snd rr)
      end
  end.

Definition INLINE_FUEL : nat := 400.

Fixpoint inl_routines (ms : list macro_def) (rs : list routine_def) (k : nat) : result (list routine_def) :=
  match rs with
  | [] => Ok []
  | r :: rest =>
      do b <- inl_stmts INLINE_FUEL ms (mkI [] None) (r_body r) k;
      do others <- inl_routines ms rest (snd b);
      Ok (mkRoutine (r_id r) (r_kind r) (r_target r) (r_name r) (r_alias r) (fst b) :: others)
  end.

(* the macro-free program a program with macros stands for *)
Definition inline (p : prog) : result prog :=
  do rs <- inl_routines (p_macros p) (p_routines p) 0;
  Ok (mkProg [] rs).
