(* The documented opcode and parameter order of every condition, switch header, case header,
   assignment, context and control statement (docs/language_spec.rst, "EoS Compiler" boxes).
   Hand-written specification; [Props/SpecTables.v] proves it consistent with the generated tables. *)
From ES Require Import Base Ssb.Param Ssb.Cfg Lang.Ast.

Definition cop_val (o : cop) : Z :=
  match o with
  | OpFalse => 0 | OpTrue => 1 | OpEq => 2 | OpGt => 3 | OpLt => 4 | OpGe => 5 | OpLe => 6
  | OpNe => 7 | OpAnd => 8 | OpXor => 9 | OpBich => 10
  end%Z.

Definition aop_val (o : aop) : Z :=
  match o with AAssign => 0 | AMinus => 1 | APlus => 2 | AMul => 3 | ADiv => 4 end%Z.

Definition b2z (positive : bool) : Z := if positive then 1%Z else 0%Z.

Definition is_perf (perf : string) (v : param) : bool :=
  match v with PConst n => String.eqb n perf | _ => false end.

(* operations that may be used as if-conditions: the Branch family *)
Definition branch_ops : list string :=
  ["Branch"; "BranchBit"; "BranchDebug"; "BranchEdit"; "BranchExecuteSub"; "BranchPerformance";
   "BranchScenarioNow"; "BranchScenarioNowAfter"; "BranchScenarioNowBefore"; "BranchScenarioAfter";
   "BranchScenarioBefore"; "BranchSum"; "BranchValue"; "BranchVariable"; "BranchVariation"]%string.

Definition cond_event (perf : string) (c : cond) : result event :=
  match c with
  | CNeg neg KwDebug => Ok ("BranchDebug"%string, [PInt (b2z (negb neg))])
  | CNeg neg KwEdit => Ok ("BranchEdit"%string, [PInt (b2z (negb neg))])
  | CNeg neg KwVariation => Ok ("BranchVariation"%string, [PInt (b2z (negb neg))])
  | COp v o true x => Ok ("BranchVariable"%string, [v; PInt (cop_val o); x])
  | COp v OpEq false x => Ok ("Branch"%string, [v; x])
  | COp v o false x => Ok ("BranchValue"%string, [v; PInt (cop_val o); x])
  | CBit neg v i =>
      if is_perf perf v then Ok ("BranchPerformance"%string, [PInt i; PInt (b2z (negb neg))])
      else if neg then Err "not on a bit of an ordinary variable"
      else Ok ("BranchBit"%string, [v; PInt i])
  | CScn v OpEq a b => Ok ("BranchScenarioNow"%string, [v; PInt a; PInt b])
  | CScn v OpGe a b => Ok ("BranchScenarioNowAfter"%string, [v; PInt a; PInt b])
  | CScn v OpLe a b => Ok ("BranchScenarioNowBefore"%string, [v; PInt a; PInt b])
  | CScn v OpGt a b => Ok ("BranchScenarioAfter"%string, [v; PInt a; PInt b])
  | CScn v OpLt a b => Ok ("BranchScenarioBefore"%string, [v; PInt a; PInt b])
  | CScn _ _ _ _ => Err "operator not allowed for scn condition"
  | COperation name args =>
      if mem_string name branch_ops then Ok (name, args) else Err "operation is not a branch"
  end.

Definition ctx_event (kind : string) (target : param) : result event :=
  if String.eqb kind "actor" then Ok ("lives"%string, [target])
  else if String.eqb kind "object" then Ok ("object"%string, [target])
  else if String.eqb kind "performer" then Ok ("performer"%string, [target])
  else Err "invalid context kind".

(* header event(s) of a switch: the header is one operation *)
Definition switch_event (h : swhdr) : result event :=
  match h with
  | SwVar v => Ok ("Switch"%string, [v])
  | SwScn v idx =>
      if Z.eqb idx 0 then Ok ("SwitchScenario"%string, [v])
      else if Z.eqb idx 1 then Ok ("SwitchScenarioLevel"%string, [v])
      else Err "scn index must be 0 or 1"
  | SwRandom v => Ok ("SwitchRandom"%string, [v])
  | SwDungeonMode v => Ok ("SwitchDungeonMode"%string, [v])
  | SwSector => Ok ("SwitchSector"%string, [])
  | SwOperation None name args => Ok (name, args)
  | SwOperation (Some _) _ _ => Err "inline context in switch header"
  end.

Definition case_event (switch_code : string) (h : casehdr) : event :=
  match h with
  | CaInt v => ("Case"%string, [v])
  | CaOp o true x => ("CaseVariable"%string, [PInt (cop_val o); x])
  | CaOp o false x =>
      if String.eqb switch_code "SwitchScenario" then ("CaseScenario"%string, [PInt (cop_val o); x])
      else ("CaseValue"%string, [PInt (cop_val o); x])
  | CaMenu s => ("CaseMenu"%string, [s])
  | CaMenu2 v => ("CaseMenu2"%string, [v])
  end.

Definition assign_event (perf : string) (a : assign) : result event :=
  match a with
  | AsRegular v (Some i) _ true _ => Err "value() with an indexed assignment"
  | AsRegular v (Some i) _ false x =>
      if is_perf perf v then Ok ("flag_SetPerformance"%string, [PInt i; x])
      else Ok ("flag_CalcBit"%string, [v; PInt i; x])
  | AsRegular v None o true x => Ok ("flag_CalcVariable"%string, [v; PInt (aop_val o); x])
  | AsRegular v None AAssign false x => Ok ("flag_Set"%string, [v; x])
  | AsRegular v None o false x => Ok ("flag_CalcValue"%string, [v; PInt (aop_val o); x])
  | AsClear v => Ok ("flag_Clear"%string, [v])
  | AsInit v => Ok ("flag_Initial"%string, [v])
  | AsResetDungeonResult => Ok ("flag_ResetDungeonResult"%string, [])
  | AsResetScn v => Ok ("flag_ResetScenario"%string, [v])
  | AsAdvLog x => Ok ("flag_SetAdventureLog"%string, [x])
  | AsDungeonMode v x => Ok ("flag_SetDungeonMode"%string, [v; x])
  | AsScn v a b => Ok ("flag_SetScenario"%string, [v; PInt a; PInt b])
  end.

Definition msg_switch_code (monologue : bool) : string :=
  if monologue then "message_SwitchMonologue"%string else "message_SwitchTalk"%string.
