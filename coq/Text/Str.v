(* Single-line string literals: model of the printer (ssb_data_types.repr_string on strings without a
   line feed, escape_quotes) and of the reader (compiler/utils.singleline_string_literal, and the lexer
   rule STRING_LITERAL of SsbCommon.g4).  Model file: definitions only. *)
From ES Require Import Base.

Definition BS : N := 92%N.      (* backslash *)
Definition DQ : N := 34%N.
Definition SQ : N := 39%N.
Definition LF : N := 10%N.
Definition CR : N := 13%N.
Definition FF : N := 12%N.
Definition LN : N := 110%N.     (* the letter n *)

(* str.replace with a one-character pattern *)
Definition replace1 (a : N) (c : text) (s : text) : text :=
  flat_map (fun x => if N.eqb x a then c else [x]) s.

(* str.replace with a two-character pattern: left to right, non-overlapping *)
Fixpoint replace2 (a b : N) (c : text) (s : text) : text :=
  match s with
  | [] => []
  | x :: t =>
      match t with
      | [] => [x]
      | y :: r => if N.eqb x a && N.eqb y b then c ++ replace2 a b c r else x :: replace2 a b c t
      end
  end.

Definition escape_quotes (q : N) (s : text) : text := replace1 q [BS; q] s.

(* repr_string for a string without line feed that is single-line exact: quote, escaped body, quote *)
Definition print_single (q : N) (s : text) : text := q :: escape_quotes q s ++ [q].

(* singleline_string_literal on the body (the literal without its first and last character) *)
Definition unescape (body : text) : text :=
  replace2 BS LN [LF] (replace2 BS SQ [SQ] (replace2 BS DQ [DQ] body)).

Definition read_single (lit : text) : text := unescape (removelast (tl lit)).

(* the lexer rule STRING_LITERAL: quote, then escape sequences (backslash and any character) or characters other
   than backslash, CR, LF, FF and the quote, then the quote - does [body] followed by the quote form exactly one literal? *)
Fixpoint lex_body (q : N) (body : text) : bool :=
  match body with
  | [] => true
  | x :: t =>
      if N.eqb x BS then
        match t with [] => false | _ :: r => lex_body q r end
      else if N.eqb x CR || N.eqb x LF || N.eqb x FF || N.eqb x q then false
      else lex_body q t
  end.

(* _single_line_literal_is_exact *)
Fixpoint has_pair (a b : N) (s : text) : bool :=
  match s with
  | [] => false
  | x :: t => match t with [] => false | y :: _ => (N.eqb x a && N.eqb y b) || has_pair a b t end
  end.
Definition mem (a : N) (s : text) : bool := existsb (N.eqb a) s.
Definition ends_with (a : N) (s : text) : bool := match rev s with x :: _ => N.eqb x a | [] => false end.

Definition single_exact (s : text) : bool :=
  negb (mem CR s || mem FF s || has_pair BS LN s || has_pair BS SQ s || has_pair BS DQ s || has_pair BS LF s
        || ends_with BS s).
