(* Number literals: model of the token rules INTEGER and DECIMAL (SsbCommon.g4), of the readers
   util.exps_int (= int(tok, 0)), common_syntax.parse_position_marker_arg and
   SsbOpParamFixedPoint.from_str, and of the printers str(int), SsbOpParamPositionMarker.x_final / y_final
   and SsbOpParamFixedPoint.__str__.  Model file: definitions only. *)
From ES Require Import Base.

Local Open Scope N_scope.

Definition MINUS : N := 45.
Definition DOT : N := 46.
Definition ZERO : N := 48.

(* value of a digit character 0-9 a-f A-F *)
Definition digit_val (c : N) : option N :=
  if (48 <=? c) && (c <=? 57) then Some (c - 48)
  else if (97 <=? c) && (c <=? 102) then Some (c - 87)
  else if (65 <=? c) && (c <=? 70) then Some (c - 55)
  else None.

Definition digit_char (up : bool) (d : N) : N :=
  if d <? 10 then 48 + d else if up then 55 + d else 87 + d.

Definition is_dec_digit (c : N) : bool := (48 <=? c) && (c <=? 57).

(* digits of base b, most significant first *)
Fixpoint read_digits_from (b : N) (acc : N) (s : text) : option N :=
  match s with
  | [] => Some acc
  | c :: r =>
      match digit_val c with
      | Some d => if d <? b then read_digits_from b (acc * b + d) r else None
      | None => None
      end
  end.

Definition read_digits (b : N) (s : text) : option N :=
  match s with [] => None | _ => read_digits_from b 0 s end.

Definition radix_of_letter (c : N) : option N :=
  if (c =? 120) || (c =? 88) then Some 16
  else if (c =? 111) || (c =? 79) then Some 8
  else if (c =? 98) || (c =? 66) then Some 2
  else None.

(* INTEGER without its sign: DECIMAL_INTEGER | OCT_INTEGER | HEX_INTEGER | BIN_INTEGER, with the value int(tok, 0) gives *)
Definition read_nat_token (s : text) : option N :=
  match s with
  | [] => None
  | c :: r =>
      if c =? ZERO then
        match r with
        | [] => Some 0
        | x :: ds =>
            match radix_of_letter x with
            | Some b => read_digits b ds
            | None => if forallb (N.eqb ZERO) r then Some 0 else None
            end
        end
      else read_digits 10 s
  end.

Definition read_int (s : text) : option Z :=
  match s with
  | [] => None
  | c :: r =>
      if c =? MINUS then option_map (fun n => (- Z.of_N n)%Z) (read_nat_token r)
      else option_map Z.of_N (read_nat_token s)
  end.

(* ---- printers *)
Fixpoint to_digits_fuel (b : N) (fuel : nat) (n : N) (acc : list N) : list N :=
  match fuel with
  | O => acc
  | S f => if n <? b then n :: acc else to_digits_fuel b f (n / b) (n mod b :: acc)
  end.

Definition to_digits (b n : N) : list N := to_digits_fuel b (S (N.to_nat (N.size n))) n [].

Definition spell_nat (b : N) (up : bool) (n : N) : text := map (digit_char up) (to_digits b n).

Definition signed (neg : bool) (n : N) : Z := if neg then (- Z.of_N n)%Z else Z.of_N n.

(* str(z) *)
Definition spell_dec (z : Z) : text :=
  (if (z <? 0)%Z then [MINUS] else []) ++ spell_nat 10 false (Z.abs_N z).

Definition radix_letter (b : N) (up : bool) : N :=
  if b =? 16 then (if up then 88 else 120)
  else if b =? 8 then (if up then 79 else 111)
  else (if up then 66 else 98).

(* every spelling with a base prefix: sign, 0, the letter in either case, any number of leading zeros, the digits
   with letters in either case *)
Definition spell_radix (b : N) (neg upp upd : bool) (k : nat) (n : N) : text :=
  (if neg then [MINUS] else []) ++ [ZERO; radix_letter b upp] ++ repeat ZERO k ++ spell_nat b upd n.

(* the spellings of zero in the decimal rule: '-'? '0'+ *)
Definition spell_zero (neg : bool) (k : nat) : text := (if neg then [MINUS] else []) ++ repeat ZERO (S k).

(* ---- position mark arguments *)
Fixpoint split_dot (s : text) : text * option text :=
  match s with
  | [] => ([], None)
  | c :: r => if c =? DOT then ([], Some r) else let (w, f) := split_dot r in (c :: w, f)
  end.

Fixpoint rstrip0 (s : text) : text :=
  match s with
  | [] => []
  | c :: r =>
      match rstrip0 r with
      | [] => if c =? ZERO then [] else [c]
      | r' => c :: r'
      end
  end.

Fixpoint lstrip0 (s : text) : text :=
  match s with
  | [] => []
  | c :: r => if c =? ZERO then lstrip0 r else s
  end.

(* Python int(s) for an optional minus sign and decimal digits (leading zeros allowed) *)
Definition read_dec_signed (s : text) : option Z :=
  match s with
  | [] => None
  | c :: r =>
      if c =? MINUS then option_map (fun n => (- Z.of_N n)%Z) (read_digits 10 r)
      else option_map Z.of_N (read_digits 10 s)
  end.

Definition read_pos_arg (tok : text) : option (Z * N) :=
  match split_dot tok with
  | (_, None) => option_map (fun z => (z, 0)) (read_int tok)
  | (w, Some f) =>
      match (match w with [] => Some 0%Z | _ => read_dec_signed w end) with
      | None => None
      | Some pos =>
          match (match rstrip0 f with [] => Some 0 | fs => read_digits 10 fs end) with
          | Some d => if d =? 5 then Some (pos, 2) else if d =? 0 then Some (pos, 0) else None
          | None => None
          end
      end
  end.

(* x_final / y_final *)
Definition print_pos_arg (rel : Z) (off : N) : text :=
  spell_dec rel ++ (if 1 <? off then [DOT; 53] else []).

(* ---- fixed point numbers: the value is the canonical text *)
Definition read_fixed (tok : text) : option text :=
  let (w, fo) := split_dot tok in
  let fract := match fo with Some f => f | None => [ZERO] end in
  let w1 := lstrip0 w in
  let w2 := match w1 with
            | [] => [ZERO]
            | _ => if text_eqb (rstrip0 w1) [MINUS] then [MINUS; ZERO] else w1
            end in
  if forallb is_dec_digit fract then
    if text_eqb w2 [MINUS; ZERO] then Some ([MINUS; ZERO; DOT] ++ fract)
    else match read_dec_signed w2 with
         | Some z => Some (spell_dec z ++ [DOT] ++ fract)
         | None => None
         end
  else None.

(* the token rule DECIMAL: '-'? DIGIT+ '.' DIGIT+ | '-'? '.' DIGIT+ *)
Definition is_decimal_token (tok : text) : bool :=
  let body := match tok with c :: r => if c =? MINUS then r else tok | [] => tok end in
  match split_dot body with
  | (w, Some f) => forallb is_dec_digit w && forallb is_dec_digit f && negb (match f with [] => true | _ => false end)
  | (_, None) => false
  end.
