(* The meta attributes of a source text (compiler/meta_attributes.parse_exps_meta_attributes): leading lines of the form
   "//?: key: value" - and the dispatch of ExplorerScriptSsbCompiler.compile to the SsbScript compiler when the attribute
   is-ssb-script is "true" or "1".  Model file: definitions only. *)
From ES Require Import Base Text.Str Text.MStr.

(* str.isspace() / the class \s of the re module for str patterns *)
Definition is_space (c : N) : bool :=
  ((9 <=? c) && (c <=? 13) || (28 <=? c) && (c <=? 32) || (c =? 133) || (c =? 160) || (c =? 5760) ||
   (8192 <=? c) && (c <=? 8202) || (c =? 8232) || (c =? 8233) || (c =? 8239) || (c =? 8287) || (c =? 12288))%N.

Fixpoint lstrip (s : text) : text :=
  match s with c :: r => if is_space c then lstrip r else s | [] => [] end.
Definition strip (s : text) : text := rev (lstrip (rev (lstrip s))).

Definition MARK : text := [47; 47; 63; 58]%N.      (* //?: *)
Definition COLON : N := 58%N.

Fixpoint starts_with (p s : text) : bool :=
  match p, s with
  | [], _ => true
  | a :: p', b :: s' => N.eqb a b && starts_with p' s'
  | _ :: _, [] => false
  end.

(* the text after the first occurrence of p *)
Fixpoint after_first (p s : text) : option text :=
  if starts_with p s then Some (skipn (length p) s)
  else match s with [] => None | _ :: r => after_first p r end.

(* text up to the first colon, text after it *)
Fixpoint cut_colon (s : text) : option (text * text) :=
  match s with
  | [] => None
  | c :: r => if N.eqb c COLON then Some ([], r)
              else match cut_colon r with Some (k, v) => Some (c :: k, v) | None => None end
  end.

(* the regular expression search for  //?:  blanks  key (shortest)  :  blanks  value (rest of the line); both stripped *)
Definition attr_of_line (line : text) : option (text * text) :=
  match after_first MARK line with
  | None => None
  | Some r =>
      match cut_colon (lstrip r) with
      | Some (k, v) => Some (strip k, strip v)
      | None => None
      end
  end.

(* the loop over the leading attribute lines; later lines override earlier ones *)
Fixpoint attrs_of_lines (lines : list text) (acc : list (text * text)) : list (text * text) :=
  match lines with
  | [] => acc
  | l :: r =>
      if starts_with MARK (strip l) then
        match attr_of_line l with
        | Some kv => attrs_of_lines r (kv :: acc)
        | None => acc
        end
      else acc
  end.

Definition parse_meta (src : text) : list (text * text) := attrs_of_lines (splitlines src) [].

Fixpoint lookup (k : text) (l : list (text * text)) : option text :=
  match l with
  | [] => None
  | (k', v) :: r => if text_eqb k k' then Some v else lookup k r
  end.

Definition IS_SSB_SCRIPT : text := s2t "is-ssb-script".

(* ExplorerScriptSsbCompiler.compile hands the text to the SsbScript compiler *)
Definition dispatches_to_ssbscript (src : text) : bool :=
  match lookup IS_SSB_SCRIPT (parse_meta src) with
  | Some v => text_eqb v (s2t "true") || text_eqb v (s2t "1")
  | None => false
  end.

(* the first two lines of every fallback text (ssb_decompiler.convert) *)
Definition FALLBACK_HEAD : text := s2t "//?: is-ssb-script: true" ++ [LF] ++ s2t "// WARNING:" ++ [LF].
