(* Number literals: every spelling of an integer reads as that integer; printed position-mark arguments and
   fixed-point values read back. *)
From Coq Require Import ZifyBool ZifyN.
From ES Require Import Base Text.Num.

Local Open Scope N_scope.

Ltac case_ifs :=
  repeat match goal with
         | |- context [if ?c then _ else _] => let E := fresh "E" in destruct c eqn:E
         end.

Lemma digit_val_char up d : d < 16 -> digit_val (digit_char up d) = Some d.
Proof.
  intro H. unfold digit_val, digit_char. destruct (d <? 10) eqn:E1.
  - case_ifs; try lia. f_equal. lia.
  - destruct up; case_ifs; try lia; f_equal; lia.
Qed.

Lemma digit_char_dec up d : d < 10 -> is_dec_digit (digit_char up d) = true /\ digit_char up d = 48 + d.
Proof. intro H. unfold is_dec_digit, digit_char. destruct (d <? 10) eqn:E; [split; lia | lia]. Qed.

Definition step (b a d : N) : N := a * b + d.

Lemma read_digits_from_app b s1 : forall acc s2,
  read_digits_from b acc (s1 ++ s2) =
  match read_digits_from b acc s1 with Some a => read_digits_from b a s2 | None => None end.
Proof.
  induction s1 as [|c r IH]; intros acc s2; cbn [app read_digits_from]; [reflexivity|].
  destruct (digit_val c) as [d|]; [|reflexivity]. destruct (d <? b); [apply IH | reflexivity].
Qed.

Lemma read_spelled b up ds : b <= 16 -> Forall (fun d => d < b) ds ->
  forall acc, read_digits_from b acc (map (digit_char up) ds) = Some (fold_left (step b) ds acc).
Proof.
  intros Hb H. induction H as [|d r Hd Hr IH]; intro acc; cbn [map read_digits_from fold_left]; [reflexivity|].
  rewrite digit_val_char by lia. destruct (d <? b) eqn:E; [|lia]. apply IH.
Qed.

Lemma read_zeros b k s acc : 0 < b -> read_digits_from b acc (repeat ZERO k ++ s) = read_digits_from b (acc * b ^ N.of_nat k) s.
Proof.
  intro Hb. revert acc. induction k as [|k IH]; intro acc.
  - cbn [repeat app N.of_nat]. rewrite N.pow_0_r, N.mul_1_r. reflexivity.
  - cbn [repeat app read_digits_from]. change (digit_val ZERO) with (Some 0).
    assert (E : (0 <? b) = true) by lia. cbv beta iota. rewrite E, IH.
    replace ((acc * b + 0) * b ^ N.of_nat k) with (acc * b ^ N.of_nat (S k)); [reflexivity|].
    rewrite Nat2N.inj_succ, N.pow_succ_r'. ring.
Qed.

(* ---- the digits of a number *)
Lemma to_digits_fuel_value b : 2 <= b -> forall f n acc,
  n < 2 ^ N.of_nat f ->
  fold_left (step b) (to_digits_fuel b f n acc) 0 = fold_left (step b) acc n.
Proof.
  intros Hb f. induction f as [|f IH]; intros n acc Hn.
  - cbn in Hn. assert (n = 0) by lia. subst. reflexivity.
  - cbn [to_digits_fuel]. destruct (n <? b) eqn:E.
    + cbn [fold_left]. unfold step at 2. rewrite N.mul_0_l, N.add_0_l. reflexivity.
    + rewrite IH.
      * cbn [fold_left]. f_equal. unfold step. pose proof (N.div_mod' n b). lia.
      * rewrite Nat2N.inj_succ, N.pow_succ_r' in Hn.
        apply N.div_lt_upper_bound; [lia|]. nia.
Qed.

Lemma to_digits_fuel_lt b : 2 <= b -> forall f n acc,
  Forall (fun d => d < b) acc -> Forall (fun d => d < b) (to_digits_fuel b f n acc).
Proof.
  intros Hb f. induction f as [|f IH]; intros n acc H; cbn [to_digits_fuel]; [exact H|].
  destruct (n <? b) eqn:E.
  - constructor; [lia | exact H].
  - apply IH. constructor; [apply N.mod_lt; lia | exact H].
Qed.

Lemma to_digits_fuel_length b f : forall n acc, (length acc <= length (to_digits_fuel b f n acc))%nat.
Proof.
  induction f as [|f IH]; intros n acc; cbn [to_digits_fuel]; [lia|].
  destruct (n <? b); [cbn [length]; lia|]. specialize (IH (n / b) (n mod b :: acc)). cbn [length] in IH. lia.
Qed.

Lemma to_digits_fuel_head b : 2 <= b -> forall f n acc,
  0 < n -> n < 2 ^ N.of_nat f ->
  exists d r, to_digits_fuel b f n acc = d :: r /\ 0 < d.
Proof.
  intros Hb f. induction f as [|f IH]; intros n acc Hpos Hn.
  - cbn in Hn. lia.
  - cbn [to_digits_fuel]. destruct (n <? b) eqn:E.
    + exists n, acc. split; [reflexivity | exact Hpos].
    + apply IH.
      * apply N.div_str_pos. lia.
      * rewrite Nat2N.inj_succ, N.pow_succ_r' in Hn. apply N.div_lt_upper_bound; [lia|]. nia.
Qed.

Lemma size_bound n : n < 2 ^ N.of_nat (S (N.to_nat (N.size n))).
Proof.
  rewrite Nat2N.inj_succ, N2Nat.id, N.pow_succ_r'. pose proof (N.size_gt n). lia.
Qed.

Lemma to_digits_value b n : 2 <= b -> fold_left (step b) (to_digits b n) 0 = n.
Proof. intro Hb. unfold to_digits. rewrite to_digits_fuel_value; [reflexivity | exact Hb | apply size_bound]. Qed.

Lemma to_digits_lt b n : 2 <= b -> Forall (fun d => d < b) (to_digits b n).
Proof. intro Hb. apply to_digits_fuel_lt; [exact Hb | constructor]. Qed.

Lemma to_digits_zero b : 2 <= b -> to_digits b 0 = [0].
Proof. intro Hb. unfold to_digits. cbn [N.size N.to_nat to_digits_fuel]. destruct (0 <? b) eqn:E; [reflexivity | lia]. Qed.

Lemma to_digits_head b n : 2 <= b -> 0 < n -> exists d r, to_digits b n = d :: r /\ 0 < d /\ d < b.
Proof.
  intros Hb Hn. destruct (to_digits_fuel_head b Hb _ n [] Hn (size_bound n)) as [d [r [E Hd]]].
  exists d, r. split; [exact E|]. split; [exact Hd|].
  pose proof (to_digits_lt b n Hb) as F. unfold to_digits in F. rewrite E in F. inversion F; assumption.
Qed.

(* the digits, spelled, read back as the number; the first character of a positive number is a digit other than 0 *)
Lemma read_spell_nat b up n acc : 2 <= b <= 16 ->
  read_digits_from b acc (spell_nat b up n) = Some (fold_left (step b) (to_digits b n) acc).
Proof. intros Hb. unfold spell_nat. apply read_spelled; [lia | apply to_digits_lt; lia]. Qed.

Lemma read_spell_nat0 b up n : 2 <= b <= 16 -> read_digits_from b 0 (spell_nat b up n) = Some n.
Proof. intro Hb. rewrite read_spell_nat by exact Hb. rewrite to_digits_value by lia. reflexivity. Qed.

Lemma spell_nat_nonempty b up n : spell_nat b up n <> [].
Proof.
  unfold spell_nat, to_digits. cbn [to_digits_fuel]. destruct (n <? b); [discriminate|].
  pose proof (to_digits_fuel_length b (N.to_nat (N.size n)) (n / b) [n mod b]) as L.
  destruct (to_digits_fuel b _ _ _); [cbn in L; lia | discriminate].
Qed.

Lemma read_digits_spell_nat b up n : 2 <= b <= 16 -> read_digits b (spell_nat b up n) = Some n.
Proof.
  intro Hb. unfold read_digits. pose proof (spell_nat_nonempty b up n) as NE.
  destruct (spell_nat b up n) eqn:E; [contradiction|]. rewrite <- E. apply read_spell_nat0. exact Hb.
Qed.

Lemma spell_nat_pos_head up n : 0 < n ->
  exists c r, spell_nat 10 up n = c :: r /\ 49 <= c <= 57.
Proof.
  intro Hn. destruct (to_digits_head 10 n ltac:(lia) Hn) as [d [r [E [H1 H2]]]].
  unfold spell_nat. rewrite E. cbn [map]. eexists _, _. split; [reflexivity|].
  destruct (digit_char_dec up d H2) as [_ ->]. lia.
Qed.

Lemma spell_nat_dec_chars up n : forallb is_dec_digit (spell_nat 10 up n) = true.
Proof.
  unfold spell_nat. apply forallb_forall. intros c Hc. apply in_map_iff in Hc. destruct Hc as [d [<- Hd]].
  pose proof (to_digits_lt 10 n ltac:(lia)) as F. rewrite Forall_forall in F.
  apply (digit_char_dec up d). apply F. exact Hd.
Qed.

(* ---- integers *)
Lemma read_nat_token_dec up n : read_nat_token (spell_nat 10 up n) = Some n.
Proof.
  destruct (N.eq_dec n 0) as [->|Hn].
  - unfold spell_nat. rewrite to_digits_zero by lia. reflexivity.
  - destruct (spell_nat_pos_head up n ltac:(lia)) as [c [r [E Hc]]].
    pose proof (read_digits_spell_nat 10 up n ltac:(lia)) as R. rewrite E in *.
    unfold read_nat_token. destruct (c =? ZERO) eqn:E0; [unfold ZERO in E0; lia | exact R].
Qed.

Theorem read_int_spell_dec z : read_int (spell_dec z) = Some z.
Proof.
  unfold spell_dec. destruct (z <? 0)%Z eqn:Ez.
  - cbn [app read_int]. change (MINUS =? MINUS) with true. cbv iota.
    rewrite read_nat_token_dec. cbn [option_map]. f_equal. lia.
  - cbn [app]. pose proof (read_nat_token_dec false (Z.abs_N z)) as R.
    destruct (N.eq_dec (Z.abs_N z) 0) as [E0|Hn].
    + rewrite E0 in *. unfold spell_nat in *. rewrite to_digits_zero in * by lia. cbn. f_equal. lia.
    + destruct (spell_nat_pos_head false (Z.abs_N z) ltac:(lia)) as [c [r [E Hc]]]. rewrite E in *.
      unfold read_int. destruct (c =? MINUS) eqn:E1; [unfold MINUS in E1; lia|].
      rewrite R. cbn [option_map]. f_equal. lia.
Qed.

Definition radix_ok (b : N) : Prop := b = 2 \/ b = 8 \/ b = 16.

Lemma radix_letter_ok b up : radix_ok b -> radix_of_letter (radix_letter b up) = Some b.
Proof. intros [-> | [-> | ->]]; destruct up; reflexivity. Qed.

Lemma read_nat_token_radix b upp upd k n : radix_ok b ->
  read_nat_token ([ZERO; radix_letter b upp] ++ repeat ZERO k ++ spell_nat b upd n) = Some n.
Proof.
  intro Hb. assert (Hb' : 2 <= b <= 16) by (destruct Hb as [-> | [-> | ->]]; lia).
  cbn [app read_nat_token]. change (ZERO =? ZERO) with true. cbv iota.
  rewrite radix_letter_ok by exact Hb.
  unfold read_digits. pose proof (spell_nat_nonempty b upd n) as NE.
  destruct (repeat ZERO k ++ spell_nat b upd n) eqn:E.
  - apply app_eq_nil in E. destruct E as [_ E]. contradiction.
  - rewrite <- E. rewrite read_zeros by lia. rewrite N.mul_0_l. apply read_spell_nat0. exact Hb'.
Qed.

Theorem read_int_spell_radix b neg upp upd k n : radix_ok b ->
  read_int (spell_radix b neg upp upd k n) = Some (signed neg n).
Proof.
  intro Hb. unfold spell_radix, signed. pose proof (read_nat_token_radix b upp upd k n Hb) as R. destruct neg.
  - cbn [app read_int]. change (MINUS =? MINUS) with true. cbv iota.
    cbn [app] in R. rewrite R. reflexivity.
  - cbn [app] in *. unfold read_int. change (ZERO =? MINUS) with false. cbv iota. rewrite R. reflexivity.
Qed.

Lemma read_nat_token_zeros k : read_nat_token (repeat ZERO (S k)) = Some 0.
Proof.
  cbn [repeat read_nat_token]. change (ZERO =? ZERO) with true. cbv iota.
  destruct k as [|k]; [reflexivity|]. cbn [repeat]. change (radix_of_letter ZERO) with (@None N). cbv iota.
  assert (H : forallb (N.eqb ZERO) (ZERO :: repeat ZERO k) = true).
  { apply forallb_forall. intros x Hx. change (ZERO :: repeat ZERO k) with (repeat ZERO (S k)) in Hx.
    apply repeat_spec in Hx. subst. reflexivity. }
  rewrite H. reflexivity.
Qed.

Theorem read_int_spell_zero neg k : read_int (spell_zero neg k) = Some 0%Z.
Proof.
  unfold spell_zero. pose proof (read_nat_token_zeros k) as R. destruct neg.
  - cbn [app read_int]. change (MINUS =? MINUS) with true. cbv iota. rewrite R. reflexivity.
  - cbn [app]. cbn [repeat] in *. unfold read_int. change (ZERO =? MINUS) with false. cbv iota. rewrite R. reflexivity.
Qed.

(* all spellings of one integer denote the same parameter *)
Inductive spells : text -> Z -> Prop :=
| sp_dec z : spells (spell_dec z) z
| sp_radix b neg upp upd k n : radix_ok b -> spells (spell_radix b neg upp upd k n) (signed neg n)
| sp_zero neg k : spells (spell_zero neg k) 0%Z.

Theorem spellings_read s z : spells s z -> read_int s = Some z.
Proof.
  intros [z' | b neg upp upd k n Hb | neg k];
    [apply read_int_spell_dec | apply read_int_spell_radix; exact Hb | apply read_int_spell_zero].
Qed.

Corollary spellings_agree s1 s2 z : spells s1 z -> spells s2 z -> read_int s1 = read_int s2.
Proof. intros H1 H2. rewrite (spellings_read _ _ H1), (spellings_read _ _ H2). reflexivity. Qed.

(* ---- texts without a dot *)
Lemma split_dot_nodot s t : (forall c, In c s -> c <> DOT) -> split_dot (s ++ DOT :: t) = (s, Some t).
Proof.
  induction s as [|c r IH]; intro H; cbn [app split_dot].
  - change (DOT =? DOT) with true. reflexivity.
  - destruct (c =? DOT) eqn:E; [exfalso; apply (H c); [left; reflexivity | lia]|].
    rewrite IH; [reflexivity | intros x Hx; apply H; right; exact Hx].
Qed.

Lemma split_dot_none s : (forall c, In c s -> c <> DOT) -> split_dot s = (s, None).
Proof.
  induction s as [|c r IH]; intro H; cbn [split_dot]; [reflexivity|].
  destruct (c =? DOT) eqn:E; [exfalso; apply (H c); [left; reflexivity | lia]|].
  rewrite IH; [reflexivity | intros x Hx; apply H; right; exact Hx].
Qed.

Lemma digits_nodot s : forallb is_dec_digit s = true -> forall c, In c s -> c <> DOT.
Proof.
  intros H c Hc. rewrite forallb_forall in H. specialize (H c Hc). unfold is_dec_digit, DOT in *. lia.
Qed.

Lemma spell_dec_nodot z : forall c, In c (spell_dec z) -> c <> DOT.
Proof.
  intros c Hc. unfold spell_dec in Hc. apply in_app_or in Hc. destruct Hc as [Hc|Hc].
  - destruct (z <? 0)%Z; [|contradiction]. destruct Hc as [<-|[]]. unfold MINUS, DOT. lia.
  - exact (digits_nodot _ (spell_nat_dec_chars false _) c Hc).
Qed.

Lemma spell_dec_nonempty z : spell_dec z <> [].
Proof.
  unfold spell_dec. intro H. apply app_eq_nil in H. destruct H as [_ H]. exact (spell_nat_nonempty _ _ _ H).
Qed.

(* shape of str(z) *)
Lemma spell_dec_shape z :
  (z = 0%Z /\ spell_dec z = [ZERO]) \/
  (exists c r, (0 < z)%Z /\ spell_dec z = c :: r /\ 49 <= c <= 57 /\ forallb is_dec_digit (c :: r) = true) \/
  (exists c r, (z < 0)%Z /\ spell_dec z = MINUS :: c :: r /\ 49 <= c <= 57 /\ forallb is_dec_digit (c :: r) = true).
Proof.
  unfold spell_dec. destruct (z <? 0)%Z eqn:Ez.
  - right; right. destruct (spell_nat_pos_head false (Z.abs_N z) ltac:(lia)) as [c [r [E Hc]]].
    exists c, r. rewrite E. repeat split; try lia. rewrite <- E. apply spell_nat_dec_chars.
  - destruct (Z.eq_dec z 0) as [->|Hz].
    + left. split; [reflexivity|]. cbn [Z.abs_N app]. unfold spell_nat. rewrite to_digits_zero by lia. reflexivity.
    + right; left. destruct (spell_nat_pos_head false (Z.abs_N z) ltac:(lia)) as [c [r [E Hc]]].
      exists c, r. cbn [app]. rewrite E. repeat split; try lia. rewrite <- E. apply spell_nat_dec_chars.
Qed.

Lemma read_dec_signed_spell z : read_dec_signed (spell_dec z) = Some z.
Proof.
  unfold spell_dec. destruct (z <? 0)%Z eqn:Ez.
  - cbn [app read_dec_signed]. change (MINUS =? MINUS) with true. cbv iota.
    rewrite read_digits_spell_nat by lia. cbn [option_map]. f_equal. lia.
  - cbn [app]. pose proof (read_digits_spell_nat 10 false (Z.abs_N z) ltac:(lia)) as R.
    pose proof (spell_nat_dec_chars false (Z.abs_N z)) as D.
    destruct (spell_nat 10 false (Z.abs_N z)) as [|c r] eqn:E; [discriminate R|].
    unfold read_dec_signed. cbn [forallb] in D. apply andb_true_iff in D. destruct D as [Dc _].
    destruct (c =? MINUS) eqn:E1; [unfold is_dec_digit, MINUS in *; lia|].
    rewrite R. cbn [option_map]. f_equal. lia.
Qed.

(* ---- position-mark arguments *)
Theorem read_print_pos_arg rel off :
  read_pos_arg (print_pos_arg rel off) = Some (rel, if 1 <? off then 2 else 0).
Proof.
  unfold print_pos_arg, read_pos_arg. destruct (1 <? off).
  - rewrite split_dot_nodot by apply spell_dec_nodot.
    pose proof (spell_dec_nonempty rel) as NE. destruct (spell_dec rel) eqn:E; [contradiction|]. rewrite <- E.
    rewrite read_dec_signed_spell. reflexivity.
  - rewrite app_nil_r. rewrite split_dot_none by apply spell_dec_nodot.
    rewrite read_int_spell_dec. reflexivity.
Qed.

Corollary pos_arg_roundtrip rel off : off = 0 \/ off = 2 ->
  read_pos_arg (print_pos_arg rel off) = Some (rel, off).
Proof. intros [-> | ->]; rewrite read_print_pos_arg; reflexivity. Qed.

(* offsets other than 0 and 2 do not survive (the recorded finding for C04) *)
Lemma pos_arg_other_offsets_refuted :
  exists rel off, read_pos_arg (print_pos_arg rel off) <> Some (rel, off).
Proof. exists 0%Z, 1. rewrite read_print_pos_arg. discriminate. Qed.

(* ---- fixed-point numbers *)
Lemma text_eqb_head_false c r t : c <> MINUS -> text_eqb (c :: r) (MINUS :: t) = false.
Proof. intro H. unfold text_eqb. cbn [list_eqb]. destruct (c =? MINUS) eqn:E; [lia | reflexivity]. Qed.

Lemma rstrip0_cons c r : rstrip0 (c :: r) = [] \/ exists r', rstrip0 (c :: r) = c :: r'.
Proof.
  cbn [rstrip0]. destruct (rstrip0 r) as [|x r'].
  - destruct (c =? ZERO); [left; reflexivity | right; exists []; reflexivity].
  - right. eexists. reflexivity.
Qed.

Lemma rstrip0_nonzero c r : c <> ZERO -> rstrip0 (c :: r) <> [].
Proof.
  intro H. cbn [rstrip0]. destruct (rstrip0 r); [|discriminate].
  destruct (c =? ZERO) eqn:E; [lia | discriminate].
Qed.

Lemma read_digits_from_total s : forallb is_dec_digit s = true ->
  forall acc, exists n, read_digits_from 10 acc s = Some n.
Proof.
  induction s as [|c r IH]; intros H acc; [exists acc; reflexivity|].
  cbn [forallb] in H. apply andb_true_iff in H. destruct H as [Hc Hr].
  cbn [read_digits_from]. unfold is_dec_digit in Hc.
  assert (Ed : digit_val c = Some (c - 48)) by (unfold digit_val; rewrite Hc; reflexivity).
  rewrite Ed. assert (El : (c - 48 <? 10) = true) by lia. rewrite El. apply IH. exact Hr.
Qed.

(* the canonical texts *)
Definition canon_fixed (v f : text) : Prop :=
  v = [MINUS; ZERO; DOT] ++ f \/ exists z, v = spell_dec z ++ DOT :: f.

Lemma read_fixed_canon_int z f : forallb is_dec_digit f = true ->
  read_fixed (spell_dec z ++ DOT :: f) = Some (spell_dec z ++ DOT :: f).
Proof.
  intro Hf. unfold read_fixed. rewrite split_dot_nodot by apply spell_dec_nodot. rewrite Hf.
  pose proof (read_dec_signed_spell z) as R.
  destruct (spell_dec_shape z) as [[-> E] | [[c [r [Hz [E [Hc Hd]]]]] | [c [r [Hz [E [Hc Hd]]]]]]]; rewrite E in *.
  - cbn. reflexivity.
  - cbn [lstrip0]. destruct (c =? ZERO) eqn:E0; [unfold ZERO in E0; lia|].
    assert (E1 : text_eqb (rstrip0 (c :: r)) [MINUS] = false).
    { destruct (rstrip0_cons c r) as [-> | [r' ->]]; [reflexivity | apply text_eqb_head_false; unfold MINUS; lia]. }
    rewrite E1. rewrite text_eqb_head_false by (unfold MINUS; lia). rewrite R, E. reflexivity.
  - cbn [lstrip0]. change (MINUS =? ZERO) with false. cbv iota.
    assert (E1 : text_eqb (rstrip0 (MINUS :: c :: r)) [MINUS] = false).
    { pose proof (rstrip0_nonzero c r ltac:(unfold ZERO; lia)) as NE.
      change (rstrip0 (MINUS :: c :: r)) with
        (match rstrip0 (c :: r) with [] => if MINUS =? ZERO then [] else [MINUS] | r' => MINUS :: r' end).
      destruct (rstrip0 (c :: r)); [contradiction | reflexivity]. }
    rewrite E1.
    assert (E2 : text_eqb (MINUS :: c :: r) [MINUS; ZERO] = false).
    { unfold text_eqb. cbn [list_eqb]. destruct (c =? ZERO) eqn:E0; [unfold ZERO in E0; lia|].
      rewrite andb_false_r. reflexivity. }
    rewrite E2, R, E. reflexivity.
Qed.

Lemma read_fixed_canon_negzero f : forallb is_dec_digit f = true ->
  read_fixed ([MINUS; ZERO; DOT] ++ f) = Some ([MINUS; ZERO; DOT] ++ f).
Proof. intro Hf. unfold read_fixed. cbn. rewrite Hf. reflexivity. Qed.

Lemma canon_is_token v f : f <> [] -> forallb is_dec_digit f = true -> canon_fixed v f -> is_decimal_token v = true.
Proof.
  intros NE Hf [-> | [z ->]].
  - unfold is_decimal_token. cbn. rewrite Hf. destruct f; [contradiction | reflexivity].
  - unfold is_decimal_token.
    assert (Hfin : forall w, forallb is_dec_digit w = true ->
              match split_dot (w ++ DOT :: f) with
              | (w0, Some f0) => forallb is_dec_digit w0 && forallb is_dec_digit f0 && negb (match f0 with [] => true | _ => false end)
              | (_, None) => false
              end = true).
    { intros w Hw. rewrite split_dot_nodot by (apply digits_nodot; exact Hw). rewrite Hw, Hf. destruct f; [contradiction | reflexivity]. }
    destruct (spell_dec_shape z) as [[-> E] | [[c [r [Hz [E [Hc Hd]]]]] | [c [r [Hz [E [Hc Hd]]]]]]]; rewrite E.
    + cbn [app]. change (ZERO =? MINUS) with false. cbv iota. apply (Hfin [ZERO]). reflexivity.
    + cbn [app]. destruct (c =? MINUS) eqn:E1; [unfold MINUS in E1; lia|]. apply (Hfin (c :: r)). exact Hd.
    + cbn [app]. change (MINUS =? MINUS) with true. cbv iota. apply (Hfin (c :: r)). exact Hd.
Qed.

Lemma read_fixed_token tok : is_decimal_token tok = true ->
  exists v f, read_fixed tok = Some v /\ f <> [] /\ forallb is_dec_digit f = true /\ canon_fixed v f.
Proof.
  unfold is_decimal_token. intro H.
  assert (Hnn : forall w f, forallb is_dec_digit w = true -> forallb is_dec_digit f = true -> f <> [] ->
            exists v, read_fixed (w ++ DOT :: f) = Some v /\ canon_fixed v f).
  { intros w f Hw Hf NE. unfold read_fixed. rewrite split_dot_nodot by (apply digits_nodot; exact Hw). rewrite Hf.
    assert (Hl : forallb is_dec_digit (lstrip0 w) = true).
    { clear - Hw. induction w as [|c r IH]; [reflexivity|]. cbn [forallb] in Hw. apply andb_true_iff in Hw.
      destruct Hw as [Hc Hr]. cbn [lstrip0]. destruct (c =? ZERO); [apply IH; exact Hr|].
      cbn [forallb]. rewrite Hc, Hr. reflexivity. }
    destruct (lstrip0 w) as [|c r] eqn:El.
    - cbn. exists (spell_dec 0 ++ DOT :: f). split; [reflexivity | right; exists 0%Z; reflexivity].
    - cbn [forallb] in Hl. apply andb_true_iff in Hl. destruct Hl as [Hc Hr].
      assert (Hm : c <> MINUS) by (unfold is_dec_digit, MINUS in *; lia).
      assert (E1 : text_eqb (rstrip0 (c :: r)) [MINUS] = false).
      { destruct (rstrip0_cons c r) as [-> | [r' ->]]; [reflexivity | apply text_eqb_head_false; exact Hm]. }
      rewrite E1, text_eqb_head_false by exact Hm.
      unfold read_dec_signed. destruct (c =? MINUS) eqn:E2; [lia|].
      destruct (read_digits_from_total (c :: r)) with (acc := 0) as [n Hn]; [cbn [forallb]; rewrite Hc, Hr; reflexivity|].
      unfold read_digits. rewrite Hn. cbn [option_map]. eexists. split; [reflexivity|]. right. eexists. reflexivity. }
  destruct tok as [|c0 body]; [discriminate H|].
  destruct (c0 =? MINUS) eqn:Em.
  - assert (c0 = MINUS) by lia. subst c0.
    destruct (split_dot body) as [w [f|]] eqn:Es; [|discriminate H].
    apply andb_true_iff in H. destruct H as [H Hne]. apply andb_true_iff in H. destruct H as [Hw Hf].
    assert (NE : f <> []) by (destruct f; [discriminate Hne | discriminate]).
    exists (match rstrip0 w with [] => [MINUS; ZERO; DOT] ++ f | _ =>
              match read_digits 10 w with Some n => spell_dec (- Z.of_N n) ++ DOT :: f | None => [] end end), f.
    split; [|split; [exact NE | split; [exact Hf|]]].
    + unfold read_fixed. cbn [split_dot]. change (MINUS =? DOT) with false. cbv iota. rewrite Es, Hf.
      cbn [lstrip0]. change (MINUS =? ZERO) with false. cbv iota.
      change (rstrip0 (MINUS :: w)) with
        (match rstrip0 w with [] => if MINUS =? ZERO then [] else [MINUS] | r' => MINUS :: r' end).
      destruct (rstrip0 w) as [|x r'] eqn:Er.
      * change (MINUS =? ZERO) with false. cbv iota. reflexivity.
      * assert (E1 : text_eqb (MINUS :: x :: r') [MINUS] = false) by reflexivity. rewrite E1.
        assert (E2 : text_eqb (MINUS :: w) [MINUS; ZERO] = false).
        { destruct w as [|a [|b w']]; [discriminate Er| |].
          - unfold text_eqb. cbn [list_eqb]. destruct (a =? ZERO) eqn:Ea; [|reflexivity].
            cbn [rstrip0] in Er. rewrite Ea in Er. discriminate Er.
          - unfold text_eqb. cbn [list_eqb]. rewrite !andb_false_r. reflexivity. }
        rewrite E2. cbn [read_dec_signed]. change (MINUS =? MINUS) with true. cbv iota.
        assert (Hwne : w <> []) by (intros ->; discriminate Er).
        destruct (read_digits_from_total w Hw 0) as [n Hn].
        unfold read_digits. destruct w; [contradiction|]. rewrite Hn. reflexivity.
    + destruct (rstrip0 w) as [|x r'] eqn:Er; [left; reflexivity|].
      assert (Hwne : w <> []) by (intros ->; discriminate Er).
      destruct (read_digits_from_total w Hw 0) as [n Hn].
      unfold read_digits. destruct w; [contradiction|]. rewrite Hn. right. eexists. reflexivity.
  - destruct (split_dot (c0 :: body)) as [w [f|]] eqn:Es; [|discriminate H].
    apply andb_true_iff in H. destruct H as [H Hne]. apply andb_true_iff in H. destruct H as [Hw Hf].
    assert (NE : f <> []) by (destruct f; [discriminate Hne | discriminate]).
    assert (Et : c0 :: body = w ++ DOT :: f).
    { clear - Es. revert w f Es. generalize (c0 :: body) as s. induction s as [|c r IH]; intros w f Es; [discriminate Es|].
      cbn [split_dot] in Es. destruct (c =? DOT) eqn:E.
      - inversion Es; subst. cbn [app]. f_equal. lia.
      - destruct (split_dot r) as [w' fo] eqn:Er. inversion Es; subst. cbn [app]. f_equal. apply IH. reflexivity. }
    rewrite Et. destruct (Hnn w f Hw Hf NE) as [v [Hv Hc]]. exists v, f. repeat split; assumption.
Qed.

(* every value the reader produces from a DECIMAL token is printed as a DECIMAL token that reads as the same value *)
Theorem fixed_roundtrip tok : is_decimal_token tok = true ->
  exists v, read_fixed tok = Some v /\ is_decimal_token v = true /\ read_fixed v = Some v.
Proof.
  intro H. destruct (read_fixed_token tok H) as [v [f [Hv [NE [Hf Hc]]]]].
  exists v. split; [exact Hv|]. split; [exact (canon_is_token v f NE Hf Hc)|].
  destruct Hc as [-> | [z ->]]; [apply read_fixed_canon_negzero | apply read_fixed_canon_int]; exact Hf.
Qed.

(* ---- redundant leading zeros of a DECIMAL do not change its value *)
Lemma lstrip0_zeros k w : lstrip0 (repeat ZERO k ++ w) = lstrip0 w.
Proof. induction k as [|k IH]; [reflexivity|]. cbn [repeat app lstrip0]. change (ZERO =? ZERO) with true. exact IH. Qed.

Lemma rstrip0_zeros_nil k w : rstrip0 (repeat ZERO k ++ w) = [] <-> rstrip0 w = [].
Proof.
  induction k as [|k IH]; [reflexivity|]. cbn [repeat app rstrip0]. change (ZERO =? ZERO) with true.
  destruct (rstrip0 (repeat ZERO k ++ w)) eqn:E.
  - split; [intros _; apply IH; reflexivity | reflexivity].
  - split; [discriminate|]. intro H. apply IH in H. discriminate H.
Qed.

Lemma digits_app a b : forallb is_dec_digit a = true -> forallb is_dec_digit b = true -> forallb is_dec_digit (a ++ b) = true.
Proof. intros Ha Hb. rewrite forallb_app, Ha, Hb. reflexivity. Qed.

Lemma zeros_digits k : forallb is_dec_digit (repeat ZERO k) = true.
Proof. induction k as [|k IH]; [reflexivity|]. cbn [repeat forallb]. rewrite IH. reflexivity. Qed.

Lemma read_fixed_neg X f : forallb is_dec_digit X = true -> forallb is_dec_digit f = true ->
  read_fixed (MINUS :: X ++ DOT :: f) =
  match rstrip0 X with
  | [] => Some ([MINUS; ZERO; DOT] ++ f)
  | _ => match read_digits 10 X with Some n => Some (spell_dec (- Z.of_N n) ++ DOT :: f) | None => None end
  end.
Proof.
  intros HX Hf. unfold read_fixed. cbn [split_dot]. change (MINUS =? DOT) with false. cbv iota.
  rewrite split_dot_nodot by (apply digits_nodot; exact HX). rewrite Hf.
  cbn [lstrip0]. change (MINUS =? ZERO) with false. cbv iota.
  change (rstrip0 (MINUS :: X)) with
    (match rstrip0 X with [] => if MINUS =? ZERO then [] else [MINUS] | r' => MINUS :: r' end).
  destruct (rstrip0 X) as [|x r'] eqn:Er.
  - change (MINUS =? ZERO) with false. cbv iota. reflexivity.
  - assert (E1 : text_eqb (MINUS :: x :: r') [MINUS] = false) by reflexivity. rewrite E1.
    assert (E2 : text_eqb (MINUS :: X) [MINUS; ZERO] = false).
    { destruct X as [|a [|b w']]; [discriminate Er| |].
      - unfold text_eqb. cbn [list_eqb]. destruct (a =? ZERO) eqn:Ea; [|reflexivity].
        cbn [rstrip0] in Er. rewrite Ea in Er. discriminate Er.
      - unfold text_eqb. cbn [list_eqb]. rewrite !andb_false_r. reflexivity. }
    rewrite E2. cbn [read_dec_signed]. change (MINUS =? MINUS) with true. cbv iota.
    destruct (read_digits 10 X); reflexivity.
Qed.

Theorem fixed_leading_zeros (neg : bool) k w f :
  forallb is_dec_digit w = true -> forallb is_dec_digit f = true ->
  read_fixed ((if neg then [MINUS] else []) ++ repeat ZERO k ++ w ++ DOT :: f) =
  read_fixed ((if neg then [MINUS] else []) ++ w ++ DOT :: f).
Proof.
  intros Hw Hf. destruct neg; cbn [app].
  - rewrite app_assoc. rewrite !read_fixed_neg by (try apply digits_app; try apply zeros_digits; assumption).
    destruct (rstrip0 w) as [|x r] eqn:Er.
    + assert (E : rstrip0 (repeat ZERO k ++ w) = []) by (apply rstrip0_zeros_nil; exact Er). rewrite E. reflexivity.
    + destruct (rstrip0 (repeat ZERO k ++ w)) as [|y r2] eqn:E; [apply rstrip0_zeros_nil in E; rewrite E in Er; discriminate Er|].
      assert (Hne : w <> []) by (intros ->; discriminate Er).
      assert (R : read_digits 10 (repeat ZERO k ++ w) = read_digits 10 w).
      { unfold read_digits. destruct (repeat ZERO k ++ w) eqn:Ea; [apply app_eq_nil in Ea; destruct Ea; contradiction|].
        rewrite <- Ea. rewrite read_zeros by lia. destruct w; [contradiction | reflexivity]. }
      rewrite R. reflexivity.
  - unfold read_fixed. rewrite app_assoc.
    rewrite !split_dot_nodot by (apply digits_nodot; try apply digits_app; try apply zeros_digits; assumption).
    rewrite lstrip0_zeros. reflexivity.
Qed.
