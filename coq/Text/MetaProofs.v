(* Every fallback text is handed to the SsbScript compiler, whatever follows its first two lines. *)
From ES Require Import Base Text.Str Text.MStr Text.MStrProofs Text.Meta.

Lemma breakfree_b (l : text) : forallb (fun c => negb (is_break c)) l = true -> breakfree l.
Proof.
  intros H c Hc. rewrite forallb_forall in H. specialize (H c Hc). destruct (is_break c); [discriminate | reflexivity].
Qed.

Lemma splitlines_line l rest : forallb (fun c => negb (is_break c)) l = true ->
  splitlines_aux (l ++ LF :: rest) [] false = l :: splitlines_aux rest [] false.
Proof.
  intro H. rewrite splitlines_aux_run; [|apply breakfree_b; exact H | right; reflexivity].
  rewrite splitlines_aux_lf, app_nil_r, rev_involutive. reflexivity.
Qed.

Theorem fallback_is_dispatched rest : dispatches_to_ssbscript (FALLBACK_HEAD ++ rest) = true.
Proof.
  unfold dispatches_to_ssbscript, parse_meta, splitlines, FALLBACK_HEAD.
  rewrite <- !app_assoc. cbn [app]. rewrite splitlines_line by (vm_compute; reflexivity).
  rewrite splitlines_line by (vm_compute; reflexivity).
  set (tl := splitlines_aux rest [] false).
  cbn [attrs_of_lines].
  replace (starts_with MARK (strip (s2t "//?: is-ssb-script: true"))) with true by (vm_compute; reflexivity).
  replace (attr_of_line (s2t "//?: is-ssb-script: true")) with (Some (IS_SSB_SCRIPT, s2t "true")) by (vm_compute; reflexivity).
  replace (starts_with MARK (strip (s2t "// WARNING:"))) with false by (vm_compute; reflexivity).
  vm_compute. reflexivity.
Qed.
