(* Decimal spelling of integers (Python str(int) / int(str)), through the standard library's
   verified decimal conversions. *)
From Coq Require Import DecimalString DecimalZ DecimalPos Decimal.
From ES Require Import Base.

Definition print_Z (z : Z) : string := NilZero.string_of_int (Z.to_int z).
Definition parse_Z (s : string) : option Z := option_map Z.of_int (NilZero.int_of_string s).

Lemma to_int_not_nil z : Z.to_int z <> Pos Nil /\ Z.to_int z <> Neg Nil.
Proof.
  destruct z as [|p|p]; simpl; split; try discriminate;
    intro H; inversion H as [H1]; exact (Unsigned.to_uint_nonnil p H1).
Qed.

Theorem parse_print_Z z : parse_Z (print_Z z) = Some z.
Proof.
  unfold parse_Z, print_Z. destruct (to_int_not_nil z) as [H1 H2].
  rewrite (NilZero.isi _ H1 H2). simpl. rewrite DecimalZ.of_to. reflexivity.
Qed.

Example print_Z_examples : print_Z 0 = "0"%string /\ print_Z (-12) = "-12"%string /\ print_Z 1050 = "1050"%string.
Proof. vm_compute. repeat split. Qed.
