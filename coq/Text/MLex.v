(* The lexer rule MULTILINE_STRING_LITERAL of SsbCommon.g4: ''' .*? ''' | """ .*? """ - the non-greedy body ends at the
   first place where the delimiter follows.  Model file: definitions only. *)
From ES Require Import Base Text.Str.

Definition is3 (q a b c : N) : bool := N.eqb a q && N.eqb b q && N.eqb c q.

(* number of characters before the first occurrence of the delimiter *)
Fixpoint scan (q : N) (t : text) : option nat :=
  match t with
  | [] => None
  | a :: t' =>
      match t' with
      | b :: c :: _ => if is3 q a b c then Some 0 else option_map S (scan q t')
      | _ => None
      end
  end.

(* the token at the start of the text and the rest, if the text starts with a complete multi-line literal *)
Definition lex_multi (q : N) (t : text) : option (text * text) :=
  match t with
  | a :: b :: c :: body =>
      if is3 q a b c then
        match scan q body with
        | Some n => Some (firstn (n + 6) t, skipn (n + 6) t)
        | None => None
        end
      else None
  | _ => None
  end.

(* the delimiter occurs in the text *)
Fixpoint occurs3 (q : N) (t : text) : bool :=
  match t with
  | [] => false
  | a :: t' =>
      match t' with
      | b :: c :: _ => is3 q a b c || occurs3 q t'
      | _ => false
      end
  end.
