(* A printed multi-line literal is one token: if the delimiter does not occur in the string, the lexer rule takes
   exactly the printed text, whatever follows. *)
From ES Require Import Base Text.Str Text.MStr Text.MStrProofs Text.MLex.

Lemma is3_sep_l q c a b : c <> q -> is3 q c a b = false.
Proof. intro H. unfold is3. destruct (N.eqb c q) eqn:E; [apply N.eqb_eq in E; contradiction | reflexivity]. Qed.
Lemma is3_sep_m q c a b : c <> q -> is3 q a c b = false.
Proof. intro H. unfold is3. destruct (N.eqb c q) eqn:E; [apply N.eqb_eq in E; contradiction | rewrite andb_false_r; reflexivity]. Qed.
Lemma is3_sep_r q c a b : c <> q -> is3 q a b c = false.
Proof. intro H. unfold is3. destruct (N.eqb c q) eqn:E; [apply N.eqb_eq in E; contradiction | rewrite andb_false_r; reflexivity]. Qed.

Lemma occurs3_short q a : (length a < 3)%nat -> occurs3 q a = false.
Proof. destruct a as [|x [|y [|z a]]]; cbn [length]; intro H; try reflexivity. lia. Qed.

(* a character other than the quote separates occurrences *)
Lemma occurs3_sep q c : c <> q -> forall a b, occurs3 q (a ++ c :: b) = occurs3 q a || occurs3 q b.
Proof.
  intros Hc. assert (H0 : forall b, occurs3 q (c :: b) = occurs3 q b).
  { intro b. cbn [occurs3]. destruct b as [|b1 [|b2 b']]; try reflexivity.
    rewrite is3_sep_l by exact Hc. reflexivity. }
  induction a as [|x a IH]; intro b; [apply H0|].
  destruct a as [|y [|z a']].
  - cbn [app]. specialize (H0 b). cbn [occurs3] in *. destruct b as [|b1 b'].
    + reflexivity.
    + rewrite is3_sep_m by exact Hc. cbn [orb]. exact H0.
  - specialize (IH b). cbn [app] in *. cbn [occurs3] in *. rewrite is3_sep_r by exact Hc. cbn [orb]. exact IH.
  - specialize (IH b). cbn [app] in *.
    change (occurs3 q (x :: y :: z :: a' ++ c :: b)) with (is3 q x y z || occurs3 q (y :: z :: a' ++ c :: b)).
    change (occurs3 q (x :: y :: z :: a')) with (is3 q x y z || occurs3 q (y :: z :: a')).
    rewrite IH. rewrite orb_assoc. reflexivity.
Qed.

Lemma occurs3_join q ls : q <> LF -> occurs3 q (join LF ls) = existsb (occurs3 q) ls.
Proof.
  intro Hq. induction ls as [|x r IH]; [reflexivity|].
  destruct r as [|y r']; [cbn [join existsb]; rewrite orb_false_r; reflexivity|].
  rewrite join_cons by discriminate. rewrite occurs3_sep by (intro E; apply Hq; symmetry; exact E).
  rewrite IH. reflexivity.
Qed.

Lemma occurs3_pad q k x : q <> SPC -> occurs3 q (spaces k ++ x) = occurs3 q x.
Proof.
  intro Hq. induction k as [|k IH]; [reflexivity|].
  change (spaces (S k) ++ x) with ([] ++ SPC :: (spaces k ++ x)).
  rewrite occurs3_sep by (intro E; apply Hq; symmetry; exact E). exact IH.
Qed.

Lemma existsb_map_pad q pad ls : q <> SPC ->
  existsb (occurs3 q) (map (fun o => spaces pad ++ o) ls) = existsb (occurs3 q) ls.
Proof.
  intro Hq. induction ls as [|x r IH]; [reflexivity|]. cbn [map existsb]. rewrite occurs3_pad by exact Hq. rewrite IH. reflexivity.
Qed.

(* the scan stops exactly at the closing delimiter when no occurrence starts earlier *)
Lemma scan_first q rest : forall body, occurs3 q (body ++ [q; q]) = false ->
  scan q (body ++ q :: q :: q :: rest) = Some (length body).
Proof.
  induction body as [|x b IH]; intro H.
  - cbn [app scan]. unfold is3. rewrite !N.eqb_refl. reflexivity.
  - assert (Hb : occurs3 q (b ++ [q; q]) = false /\
                 match b ++ q :: q :: q :: rest with y :: z :: _ => is3 q x y z = false | _ => True end).
    { destruct b as [|y [|z b']]; cbn [app] in *; cbn [occurs3] in H.
      - split; [reflexivity|]. apply orb_false_iff in H. apply H.
      - apply orb_false_iff in H. destruct H as [H1 H2]. split; [exact H2 | exact H1].
      - apply orb_false_iff in H. destruct H as [H1 H2]. split; [exact H2 | exact H1]. }
    destruct Hb as [Hb1 Hb2]. specialize (IH Hb1).
    cbn [app length]. cbn [scan].
    destruct (b ++ q :: q :: q :: rest) as [|y [|z t]] eqn:E.
    + destruct b; discriminate E.
    + destruct b as [|? [|? ?]]; discriminate E.
    + rewrite Hb2. rewrite IH. reflexivity.
Qed.

Theorem printed_literal_is_one_token q indent s rest :
  q <> LF -> q <> SPC -> occurs3 q s = false ->
  lex_multi q (print_multi q indent s ++ rest) = Some (print_multi q indent s, rest).
Proof.
  intros Hl Hs Ho.
  set (body := LF :: join LF (map (fun o => spaces (4 * indent + 4) ++ o) (split LF s)) ++ LF :: spaces (4 * indent)).
  assert (Hp : print_multi q indent s = q :: q :: q :: body ++ [q; q; q]).
  { unfold print_multi, body. cbv zeta. cbn [app]. do 4 f_equal. rewrite <- app_assoc. reflexivity. }
  rewrite Hp.
  assert (Hocc : occurs3 q (body ++ [q; q]) = false).
  { unfold body. change (LF :: ?x) with ([] ++ LF :: x).
    cbn [app]. rewrite <- app_assoc. cbn [app].
    change (LF :: ?x) with ([] ++ LF :: x) at 1.
    rewrite occurs3_sep by (intro E; apply Hl; symmetry; exact E). cbn [occurs3 orb].
    rewrite occurs3_sep by (intro E; apply Hl; symmetry; exact E).
    rewrite occurs3_join by exact Hl. rewrite existsb_map_pad by exact Hs.
    rewrite <- occurs3_join by exact Hl. rewrite split_join, Ho. cbn [orb].
    rewrite occurs3_pad by exact Hs. reflexivity. }
  cbn [app]. unfold lex_multi. unfold is3 at 1. rewrite !N.eqb_refl. cbn [andb].
  replace ((body ++ [q; q; q]) ++ rest) with (body ++ q :: q :: q :: rest) by (rewrite <- app_assoc; reflexivity).
  rewrite scan_first by exact Hocc.
  replace (q :: q :: q :: body ++ q :: q :: q :: rest) with ((q :: q :: q :: body ++ [q; q; q]) ++ rest)
    by (cbn [app]; rewrite <- app_assoc; reflexivity).
  assert (Hlen : length (q :: q :: q :: body ++ [q; q; q]) = length body + 6) by (cbn [length]; rewrite app_length; cbn [length]; lia).
  rewrite <- Hlen. rewrite firstn_app, skipn_app, Nat.sub_diag, firstn_all, skipn_all. cbn [firstn skipn]. rewrite app_nil_r. reflexivity.
Qed.
