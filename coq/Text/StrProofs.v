(* Single-line string literals survive print -> lex -> read, for every string that is single-line exact. *)
From ES Require Import Base Text.Str.

Lemma replace1_cons a c x s : replace1 a c (x :: s) = (if N.eqb x a then c else [x]) ++ replace1 a c s.
Proof. reflexivity. Qed.

Lemma replace2_cons2 a b c x y r :
  replace2 a b c (x :: y :: r) = if N.eqb x a && N.eqb y b then c ++ replace2 a b c r else x :: replace2 a b c (y :: r).
Proof. reflexivity. Qed.

(* the head of an escaped string is never the escaped character itself *)
Lemma escaped_head a b s : a <> b -> match replace1 b [a; b] s with y :: _ => y <> b | [] => s = [] end.
Proof.
  intro Hab. destruct s as [|x s]; [reflexivity|]. rewrite replace1_cons.
  destruct (N.eqb x b) eqn:E; cbn [app]; [exact Hab | apply N.eqb_neq; exact E].
Qed.

(* undoing one escape: replace "ab" by "b" after replacing "b" by "ab" *)
Lemma replace2_escape a b s : a <> b -> replace2 a b [b] (replace1 b [a; b] s) = s.
Proof.
  intro Hab. induction s as [|x s IH]; [reflexivity|]. rewrite replace1_cons.
  destruct (N.eqb x b) eqn:E.
  - apply N.eqb_eq in E. subst x. cbn [app]. rewrite replace2_cons2, !N.eqb_refl. cbn [andb app]. rewrite IH. reflexivity.
  - cbn [app]. pose proof (escaped_head a b s Hab) as Hh.
    destruct (replace1 b [a; b] s) as [|y r] eqn:R.
    + subst s. reflexivity.
    + rewrite replace2_cons2. assert (Ey : N.eqb y b = false) by (apply N.eqb_neq; exact Hh).
      rewrite Ey, andb_false_r. rewrite IH. reflexivity.
Qed.

Lemma has_pair_cons2 a b x y r : has_pair a b (x :: y :: r) = (N.eqb x a && N.eqb y b) || has_pair a b (y :: r).
Proof. reflexivity. Qed.

Lemma replace2_noop a b c s : has_pair a b s = false -> replace2 a b c s = s.
Proof.
  induction s as [|x s IH]; [reflexivity|]. destruct s as [|y r]; [reflexivity|].
  rewrite has_pair_cons2, replace2_cons2. intro H. apply orb_false_iff in H. destruct H as [H1 H2].
  rewrite H1. rewrite (IH H2). reflexivity.
Qed.

(* escaping one character does not create pairs "ac" for another character c *)
Lemma has_pair_escaped a b c s : a <> b -> c <> b -> c <> a ->
  has_pair a c s = false -> has_pair a c (replace1 b [a; b] s) = false.
Proof.
  intros Hab Hcb Hca. induction s as [|x s IH]; [reflexivity|]. intro H.
  assert (Hs : has_pair a c s = false).
  { destruct s as [|y r]; [reflexivity|]. rewrite has_pair_cons2 in H. apply orb_false_iff in H. apply H. }
  specialize (IH Hs). rewrite replace1_cons.
  pose proof (escaped_head a b s Hab) as Hh.
  destruct (N.eqb x b) eqn:E.
  - cbn [app]. rewrite has_pair_cons2.
    assert (E1 : N.eqb b c = false) by (apply N.eqb_neq; congruence). rewrite E1, andb_false_r. cbn [orb].
    destruct (replace1 b [a; b] s) as [|y r] eqn:R; [reflexivity|].
    rewrite has_pair_cons2. apply N.eqb_eq in E. subst x.
    assert (E2 : N.eqb b a = false) by (apply N.eqb_neq; congruence). rewrite E2. cbn [andb orb]. exact IH.
  - cbn [app]. destruct (replace1 b [a; b] s) as [|y r] eqn:R; [reflexivity|].
    rewrite has_pair_cons2, IH, orb_false_r.
    destruct s as [|y0 r0]; [discriminate|]. rewrite has_pair_cons2 in H. apply orb_false_iff in H. destruct H as [H1 _].
    rewrite replace1_cons in R. destruct (N.eqb y0 b) eqn:E0.
    + cbn [app] in R. inversion R; subst y. apply andb_false_iff. right. apply N.eqb_neq. congruence.
    + cbn [app] in R. inversion R; subst y. exact H1.
Qed.

Lemma removelast_snoc {A} (l : list A) x : removelast (l ++ [x]) = l.
Proof. apply removelast_last. Qed.

Lemma exact_parts s : single_exact s = true ->
  mem CR s = false /\ mem FF s = false /\ has_pair BS LN s = false /\ has_pair BS SQ s = false /\
  has_pair BS DQ s = false /\ has_pair BS LF s = false /\ ends_with BS s = false.
Proof.
  unfold single_exact. intro H. apply negb_true_iff in H.
  repeat (apply orb_false_iff in H; destruct H as [H ?]). repeat split; assumption.
Qed.

(* ---- print, then read ---- *)
Theorem single_roundtrip_dq s : single_exact s = true -> read_single (print_single DQ s) = s.
Proof.
  intro H. destruct (exact_parts s H) as (_ & _ & Hn & Hs & _ & _ & _).
  unfold read_single, print_single. cbn [tl]. rewrite removelast_snoc. unfold unescape, escape_quotes.
  rewrite replace2_escape by discriminate. rewrite (replace2_noop _ _ _ _ Hs). apply replace2_noop. exact Hn.
Qed.

Theorem single_roundtrip_sq s : single_exact s = true -> read_single (print_single SQ s) = s.
Proof.
  intro H. destruct (exact_parts s H) as (_ & _ & Hn & _ & Hd & _ & _).
  unfold read_single, print_single. cbn [tl]. rewrite removelast_snoc. unfold unescape, escape_quotes.
  rewrite (replace2_noop BS DQ) by (apply has_pair_escaped; [discriminate | discriminate | discriminate | exact Hd]).
  rewrite replace2_escape by discriminate. apply replace2_noop. exact Hn.
Qed.

(* ---- the printed text is one literal for the lexer ---- *)
Lemma ends_with_cons a x l : l <> [] -> ends_with a (x :: l) = ends_with a l.
Proof.
  intro H. unfold ends_with. cbn [rev]. destruct (rev l) as [|z r] eqn:R.
  - exfalso. apply H. apply (f_equal (@rev N)) in R. rewrite rev_involutive in R. exact R.
  - reflexivity.
Qed.

Lemma mem_cons a x s : mem a (x :: s) = N.eqb a x || mem a s.
Proof. reflexivity. Qed.

Lemma lex_escaped q : q <> BS -> forall n s, length s <= n ->
  mem CR s = false -> mem LF s = false -> mem FF s = false -> has_pair BS q s = false -> ends_with BS s = false ->
  lex_body q (replace1 q [BS; q] s) = true.
Proof.
  intro Hq. induction n as [|n IH]; intros s Hlen Hcr Hlf Hff Hp He.
  - destruct s; [reflexivity | cbn in Hlen; lia].
  - destruct s as [|x t]; [reflexivity|]. cbn [length] in Hlen.
    rewrite mem_cons in Hcr, Hlf, Hff.
    apply orb_false_iff in Hcr, Hlf, Hff. destruct Hcr as [Xcr Tcr], Hlf as [Xlf Tlf], Hff as [Xff Tff].
    assert (Tp : has_pair BS q t = false).
    { destruct t as [|y r]; [reflexivity|]. rewrite has_pair_cons2 in Hp. apply orb_false_iff in Hp. apply Hp. }
    assert (Te : t <> [] -> ends_with BS t = false) by (intro Hne; rewrite <- (ends_with_cons BS x t Hne); exact He).
    assert (Te' : ends_with BS t = false) by (destruct t as [|y r]; [reflexivity | apply Te; discriminate]).
    rewrite replace1_cons. destruct (N.eqb x q) eqn:Exq.
    + (* the quote itself: printed as backslash, quote *)
      cbn [app lex_body]. rewrite N.eqb_refl. apply IH; try assumption; lia.
    + cbn [app lex_body]. destruct (N.eqb x BS) eqn:Exb.
      * (* a backslash of the string: the lexer takes it together with the next character *)
        apply N.eqb_eq in Exb. subst x.
        destruct t as [|y r].
        { unfold ends_with in He. cbn in He. discriminate. }
        rewrite has_pair_cons2 in Hp. apply orb_false_iff in Hp. destruct Hp as [Hxy Hp'].
        rewrite N.eqb_refl in Hxy. cbn [andb] in Hxy.
        rewrite replace1_cons, Hxy. cbn [app].
        rewrite mem_cons in Tcr, Tlf, Tff. apply orb_false_iff in Tcr, Tlf, Tff.
        cbn [length] in Hlen.
        assert (Rp : has_pair BS q r = false).
        { destruct r as [|z r']; [reflexivity|]. rewrite has_pair_cons2 in Hp'. apply orb_false_iff in Hp'. apply Hp'. }
        assert (Re : ends_with BS r = false).
        { destruct r as [|z r']; [reflexivity|]. rewrite <- (ends_with_cons BS y (z :: r')) by discriminate. exact Te'. }
        apply IH; try tauto; lia.
      * rewrite N.eqb_sym in Xcr, Xlf, Xff. rewrite Xcr, Xlf, Xff, Exq. cbn [orb].
        apply IH; try assumption; lia.
Qed.

Theorem single_lexes q s : (q = DQ \/ q = SQ) -> single_exact s = true -> mem LF s = false ->
  lex_body q (escape_quotes q s) = true.
Proof.
  intros Hq H Hlf. destruct (exact_parts s H) as (Hcr & Hff & _ & Hs & Hd & _ & He).
  unfold escape_quotes. apply (lex_escaped q) with (n := length s); try assumption; try lia.
  - destruct Hq; subst; discriminate.
  - destruct Hq; subst; assumption.
Qed.
