(* Multi-line string literals survive print -> read, for every string that is multi-line exact, at every indent. *)
From ES Require Import Base Text.Str Text.MStr.

Lemma split_aux_nonempty sep s : forall cur, split_aux sep s cur <> [].
Proof. induction s as [|c r IH]; intro cur; cbn [split_aux]; [discriminate|]. destruct (N.eqb c sep); [discriminate | apply IH]. Qed.

Lemma join_cons sep x r : r <> [] -> join sep (x :: r) = x ++ sep :: join sep r.
Proof. destruct r; [contradiction | reflexivity]. Qed.

Lemma split_aux_join sep s : forall cur, join sep (split_aux sep s cur) = rev cur ++ s.
Proof.
  induction s as [|c r IH]; intro cur; cbn [split_aux].
  - cbn [join]. rewrite app_nil_r. reflexivity.
  - destruct (N.eqb c sep) eqn:E.
    + apply N.eqb_eq in E. subst c. rewrite join_cons by apply split_aux_nonempty. rewrite IH. reflexivity.
    + rewrite IH. cbn [rev]. rewrite <- app_assoc. reflexivity.
Qed.

Lemma split_join s : join LF (split LF s) = s.
Proof. unfold split. rewrite split_aux_join. reflexivity. Qed.

Definition breakfree (ln : text) : Prop := forall c, In c ln -> is_break c = false.

Lemma split_aux_breakfree s : forall cur,
  (forall c, In c s -> is_break c = false \/ c = LF) -> breakfree cur ->
  Forall breakfree (split_aux LF s cur).
Proof.
  induction s as [|c r IH]; intros cur Hs Hc; cbn [split_aux].
  - constructor; [|constructor]. intros x Hx. apply Hc. apply in_rev. exact Hx.
  - destruct (N.eqb c LF) eqn:E.
    + constructor; [intros x Hx; apply Hc; apply in_rev; exact Hx|].
      apply IH; [intros x Hx; apply Hs; right; exact Hx | intros x Hx; destruct Hx].
    + apply IH; [intros x Hx; apply Hs; right; exact Hx|].
      intros x [<-|Hx]; [|apply Hc; exact Hx]. destruct (Hs c (or_introl eq_refl)) as [H|H]; [exact H|]. subst c. rewrite N.eqb_refl in E. discriminate.
Qed.

(* ---- splitlines on text without breaks, and across one LF ---- *)
Lemma splitlines_aux_run ln : forall rest cur sk, breakfree ln -> ln <> [] \/ sk = false ->
  splitlines_aux (ln ++ rest) cur sk = splitlines_aux rest (rev ln ++ cur) false.
Proof.
  induction ln as [|c ln IH]; intros rest cur sk Hb Hne.
  - destruct Hne as [H|H]; [contradiction | subst sk; reflexivity].
  - cbn [app splitlines_aux].
    assert (Hc : is_break c = false) by (apply Hb; left; reflexivity).
    assert (Hlf : N.eqb c LF = false).
    { destruct (N.eqb c LF) eqn:E; [|reflexivity]. apply N.eqb_eq in E. subst c. vm_compute in Hc. discriminate. }
    rewrite Hlf, andb_false_r, Hc. rewrite IH; [|intros x Hx; apply Hb; right; exact Hx | right; reflexivity].
    cbn [rev]. rewrite <- app_assoc. reflexivity.
Qed.

Lemma splitlines_aux_lf rest cur : splitlines_aux (LF :: rest) cur false = rev cur :: splitlines_aux rest [] false.
Proof. cbn [splitlines_aux andb]. reflexivity. Qed.

Lemma splitlines_aux_tail sp : breakfree sp ->
  splitlines_aux sp [] false = match sp with [] => [] | _ => [sp] end.
Proof.
  intro Hb. destruct sp as [|c sp']; [reflexivity|].
  rewrite <- (app_nil_r (c :: sp')) at 1. rewrite splitlines_aux_run; [|exact Hb | left; discriminate].
  cbn [splitlines_aux]. rewrite app_nil_r. destruct (rev (c :: sp')) eqn:E.
  - apply (f_equal (@rev N)) in E. rewrite rev_involutive in E. discriminate.
  - rewrite <- E, rev_involutive. reflexivity.
Qed.

Lemma splitlines_lines PL : PL <> [] -> Forall breakfree PL -> forall sp, breakfree sp ->
  splitlines_aux (join LF PL ++ LF :: sp) [] false = PL ++ match sp with [] => [] | _ => [sp] end.
Proof.
  induction PL as [|x PL IH]; intros Hne Hb sp Hsp; [contradiction|].
  inversion Hb as [|? ? Hx Hr]; subst. destruct PL as [|y PL'].
  - cbn [join app]. rewrite splitlines_aux_run; [|exact Hx | right; reflexivity]. rewrite app_nil_r, splitlines_aux_lf, rev_involutive.
    rewrite splitlines_aux_tail by exact Hsp. reflexivity.
  - rewrite join_cons by discriminate. rewrite <- app_assoc. cbn [app].
    rewrite splitlines_aux_run; [|exact Hx | right; reflexivity]. rewrite app_nil_r, splitlines_aux_lf, rev_involutive.
    rewrite IH; [reflexivity | discriminate | exact Hr | exact Hsp].
Qed.

(* ---- leading spaces and minima ---- *)
Lemma leading_spaces_pad k x : leading_spaces (spaces k ++ x) = k + leading_spaces x.
Proof. induction k as [|k IH]; [reflexivity|]. cbn [spaces repeat app leading_spaces]. rewrite N.eqb_refl. fold (spaces k). rewrite IH. reflexivity. Qed.

Lemma skipn_pad k x : skipn k (spaces k ++ x) = x.
Proof. induction k as [|k IH]; [reflexivity|]. cbn [spaces repeat app skipn]. exact IH. Qed.

Lemma leading_spaces_all k : leading_spaces (spaces k) = k.
Proof. rewrite <- (app_nil_r (spaces k)), leading_spaces_pad. cbn. lia. Qed.

Lemma fold_min_le l : forall a, fold_left Nat.min l a <= a /\ (forall x, In x l -> fold_left Nat.min l a <= x).
Proof.
  induction l as [|y l IH]; intro a; cbn [fold_left]; [split; [lia | intros x []]|].
  destruct (IH (Nat.min a y)) as [H1 H2]. split; [lia|]. intros x [<-|Hx]; [lia | apply H2; exact Hx].
Qed.

Lemma fold_min_ge l k : forall a, k <= a -> (forall x, In x l -> k <= x) -> k <= fold_left Nat.min l a.
Proof.
  induction l as [|y l IH]; intros a Ha Hl; cbn [fold_left]; [exact Ha|].
  apply IH; [pose proof (Hl y (or_introl eq_refl)); lia | intros x Hx; apply Hl; right; exact Hx].
Qed.

Lemma list_min_exact l k : l <> [] -> (forall x, In x l -> k <= x) -> In k l -> list_min l = k.
Proof.
  intros Hne Hall Hin. destruct l as [|a l]; [contradiction|]. unfold list_min.
  assert (Hge : k <= fold_left Nat.min l a) by (apply fold_min_ge; [apply Hall; left; reflexivity | intros x Hx; apply Hall; right; exact Hx]).
  destruct (fold_min_le l a) as [H1 H2]. destruct Hin as [<-|Hin]; [lia | specialize (H2 k Hin); lia].
Qed.

Lemma breakfree_spaces k : breakfree (spaces k).
Proof. intros c Hc. apply repeat_spec in Hc. subst c. reflexivity. Qed.

Lemma removelast_snoc' {A} (l : list A) x : removelast (l ++ [x]) = l.
Proof. apply removelast_last. Qed.

Lemma spaces_snoc n : spaces (S n) = spaces n ++ [SPC].
Proof. induction n as [|n IH]; [reflexivity|]. cbn [spaces repeat app] in *. f_equal. exact IH. Qed.

Lemma strip_delims (d b : text) : length d = 3 -> firstn (length (d ++ b ++ d) - 6) (skipn 3 (d ++ b ++ d)) = b.
Proof.
  intro Hd. rewrite skipn_app, Hd. rewrite (skipn_all2 d) by lia. cbn [app Nat.sub skipn].
  rewrite !app_length, Hd. replace (3 + (length b + 3) - 6) with (length b) by lia.
  rewrite firstn_app, Nat.sub_diag, firstn_all. cbn [firstn]. apply app_nil_r.
Qed.

Lemma parts_three (PL : list text) sp : PL <> [] -> parts ([] :: PL ++ [sp]) = ([], PL, sp).
Proof.
  intro H. destruct PL as [|p0 PL']; [contradiction|]. unfold parts. cbn [app].
  destruct (PL' ++ [sp]) eqn:E2; [destruct PL'; discriminate|].
  rewrite <- E2. replace (p0 :: PL' ++ [sp]) with ((p0 :: PL') ++ [sp]) by reflexivity. rewrite removelast_snoc', last_last. reflexivity.
Qed.

(* ---- the round trip ---- *)
Theorem multi_roundtrip q indent s : multi_exact s = true -> read_multi (print_multi q indent s) = s.
Proof.
  unfold multi_exact. intro H. apply andb_true_iff in H. destruct H as [Hbr Hex].
  set (L := split LF s) in *. set (k := 4 * indent + 4). set (sp := spaces (4 * indent)).
  set (PL := map (fun o => spaces k ++ o) L).
  assert (HLne : L <> []) by (unfold L, split; apply split_aux_nonempty).
  assert (HLb : Forall breakfree L).
  { unfold L, split. apply split_aux_breakfree; [|intros x Hx; destruct Hx].
    intros c Hc. rewrite forallb_forall in Hbr. specialize (Hbr c Hc). apply orb_true_iff in Hbr.
    destruct Hbr as [Hb|Hb]; [left; apply negb_true_iff; exact Hb | right; apply N.eqb_eq; exact Hb]. }
  assert (HPLne : PL <> []) by (unfold PL; destruct L; [contradiction | discriminate]).
  assert (HPLb : Forall breakfree PL).
  { unfold PL. apply Forall_forall. intros x Hx. apply in_map_iff in Hx. destruct Hx as [o [<- Ho]].
    intros c Hc. apply in_app_or in Hc. destruct Hc as [Hc|Hc]; [apply (breakfree_spaces k c Hc)|].
    rewrite Forall_forall in HLb. apply (HLb o Ho c Hc). }
  (* the body of the printed literal *)
  unfold read_multi, print_multi. fold k. fold sp. fold L. fold PL.
  assert (Hbody : firstn (length ([q; q; q] ++ LF :: join LF PL ++ LF :: sp ++ [q; q; q]) - 6)
                         (skipn 3 ([q; q; q] ++ LF :: join LF PL ++ LF :: sp ++ [q; q; q])) = LF :: join LF PL ++ LF :: sp).
  { replace (LF :: join LF PL ++ LF :: sp ++ [q; q; q]) with ((LF :: join LF PL ++ LF :: sp) ++ [q; q; q])
      by (cbn [app]; rewrite <- app_assoc; reflexivity).
    apply (strip_delims [q; q; q]). reflexivity. }
  rewrite Hbody. clear Hbody. unfold read_multi_body.
  assert (Hsl : splitlines (LF :: join LF PL ++ LF :: sp) = [] :: PL ++ match sp with [] => [] | _ => [sp] end).
  { unfold splitlines. rewrite splitlines_aux_lf. cbn [rev]. f_equal.
    apply splitlines_lines; [exact HPLne | exact HPLb | apply breakfree_spaces]. }
  assert (Hall : all_lines (LF :: join LF PL ++ LF :: sp) = [] :: PL ++ [sp]).
  { unfold all_lines. rewrite Hsl. cbv iota. unfold ends_with_break. destruct sp as [|c sp'] eqn:Esp.
    - replace (rev (LF :: join LF PL ++ [LF])) with (LF :: rev (LF :: join LF PL)) by (cbn [rev]; rewrite rev_app_distr; reflexivity).
      replace (is_break LF) with true by (vm_compute; reflexivity). cbn [app]. rewrite app_nil_r. reflexivity.
    - assert (Hlast : exists pre, LF :: join LF PL ++ LF :: c :: sp' = pre ++ [SPC]).
      { assert (Hs : exists n, c :: sp' = spaces (S n)).
        { unfold sp in Esp. destruct (4 * indent) as [|n]; [discriminate|]. exists n. symmetry. exact Esp. }
        destruct Hs as [n Hs]. rewrite Hs, spaces_snoc.
        exists (LF :: join LF PL ++ LF :: spaces n). cbn [app]. rewrite <- app_assoc. reflexivity. }
      destruct Hlast as [pre ->]. rewrite rev_app_distr. cbn [rev app]. replace (is_break SPC) with false by (vm_compute; reflexivity). reflexivity. }
  rewrite Hall. clear Hall Hsl.
  transitivity (finish ([], PL, sp)); [f_equal; apply parts_three; exact HPLne|]. unfold finish.
  assert (Hstrip : lstrip_spaces sp = []).
  { unfold lstrip_spaces, sp. rewrite leading_spaces_all. pose proof (skipn_pad (4 * indent) []) as Hp. rewrite app_nil_r in Hp. exact Hp. }
  rewrite Hstrip.
  assert (Hmin : list_min (map leading_spaces PL) = k).
  { apply list_min_exact.
    - destruct PL; [contradiction | discriminate].
    - intros x Hx. apply in_map_iff in Hx. destruct Hx as [pl [<- Hpl]]. unfold PL in Hpl. apply in_map_iff in Hpl.
      destruct Hpl as [o [<- _]]. rewrite leading_spaces_pad. lia.
    - apply existsb_exists in Hex. destruct Hex as [ln [Hln Hc]]. apply in_map_iff. exists (spaces k ++ ln). split.
      + rewrite leading_spaces_pad. destruct ln as [|c ln']; [cbn; lia|]. cbn [leading_spaces]. apply negb_true_iff in Hc. rewrite Hc. lia.
      + unfold PL. apply in_map. exact Hln. }
  rewrite Hmin. cbn [app].
  assert (Htr : map (skipn k) PL = L).
  { unfold PL. rewrite map_map. rewrite <- (map_id L) at 2. apply map_ext. intro o. apply skipn_pad. }
  rewrite Htr. unfold L. apply split_join.
Qed.
