(* Multi-line string literals: model of the printer (ssb_data_types._repr_multiline_string) and of the reader
   (compiler/utils.multiline_string_literal, with Python's str.splitlines).  Model file: definitions only. *)
From ES Require Import Base Text.Str.

Definition SPC : N := 32%N.
(* the characters at which str.splitlines breaks a line *)
Definition breaks : list N := [10; 13; 11; 12; 28; 29; 30; 133; 8232; 8233]%N.
Definition is_break (c : N) : bool := existsb (N.eqb c) breaks.

(* str.splitlines(): [cur] is the current line, reversed; [skiplf]: the last character was CR *)
Fixpoint splitlines_aux (s : text) (cur : text) (skiplf : bool) : list text :=
  match s with
  | [] => match cur with [] => [] | _ => [rev cur] end
  | c :: r =>
      if skiplf && N.eqb c LF then splitlines_aux r cur false
      else if is_break c then rev cur :: splitlines_aux r [] (N.eqb c CR)
      else splitlines_aux r (c :: cur) false
  end.
Definition splitlines (s : text) : list text := splitlines_aux s [] false.

Definition ends_with_break (s : text) : bool := match rev s with c :: _ => is_break c | [] => false end.

Fixpoint join (sep : N) (ls : list text) : text :=
  match ls with
  | [] => []
  | [x] => x
  | x :: r => x ++ sep :: join sep r
  end.

(* str.split("\n") *)
Fixpoint split_aux (sep : N) (s : text) (cur : text) : list text :=
  match s with
  | [] => [rev cur]
  | c :: r => if N.eqb c sep then rev cur :: split_aux sep r [] else split_aux sep r (c :: cur)
  end.
Definition split (sep : N) (s : text) : list text := split_aux sep s [].

Fixpoint leading_spaces (s : text) : nat :=
  match s with c :: r => if N.eqb c SPC then S (leading_spaces r) else 0 | [] => 0 end.
Definition lstrip_spaces (s : text) : text := skipn (leading_spaces s) s.

Definition list_min (l : list nat) : nat := match l with [] => 0 | x :: r => fold_left Nat.min r x end.

Definition spaces (n : nat) : text := repeat SPC n.

(* multiline_string_literal on the body (the literal without its three opening and closing quotes) *)
Definition all_lines (body : text) : list text :=
  let all0 := splitlines body in
  match all0 with [] => [] | _ => if ends_with_break body then all0 ++ [[]] else all0 end.

Definition parts (al : list text) : text * list text * text :=
  match al with
  | [] => ([], [], [])
  | [a] => (a, [], [])
  | [a; b] => (a, [], b)
  | a :: rest => (a, removelast rest, last rest [])
  end.

Definition finish (p : text * list text * text) : text :=
  let '(first_line, lines0, last_line) := p in
  let lines := match lstrip_spaces last_line with [] => lines0 | _ => lines0 ++ [last_line] end in
  let m := list_min (map leading_spaces lines) in
  let transformed := map (skipn m) lines in
  let nl := match first_line, transformed with _ :: _, _ :: _ => [LF] | _, _ => [] end in
  first_line ++ nl ++ join LF transformed.

Definition read_multi_body (body : text) : text := finish (parts (all_lines body)).

Definition read_multi (lit : text) : text := read_multi_body (firstn (length lit - 6) (skipn 3 lit)).

(* _repr_multiline_string(string, indent, delimiter) *)
Definition print_multi (q : N) (indent : nat) (s : text) : text :=
  let d := [q; q; q] in
  let pad := spaces (4 * indent + 4) in
  d ++ LF :: join LF (map (fun o => pad ++ o) (split LF s)) ++ LF :: spaces (4 * indent) ++ d.

(* _multiline_literal_is_exact (without the delimiter test, which concerns the lexer) *)
Definition multi_exact (s : text) : bool :=
  forallb (fun c => negb (is_break c) || N.eqb c LF) s &&
  existsb (fun ln => match ln with c :: _ => negb (N.eqb c SPC) | [] => true end) (split LF s).
