(* The line counter stays in step with the text, and an entry recorded before a statement points at it. *)
From ES Require Import Base Dec.Writer.

Lemma count_lf_app a b : count_lf (a ++ b) = count_lf a + count_lf b.
Proof. unfold count_lf. rewrite filter_app, app_length. reflexivity. Qed.

Lemma count_lf_spaces n : count_lf (spaces n) = 0.
Proof. induction n as [|n IH]; [reflexivity|]. unfold spaces, count_lf in *. cbn [repeat filter]. exact IH. Qed.

Definition winv (w : wstate) : Prop := line w = S (count_lf (out w)).

Lemma w_line_inv w : winv w -> winv (w_line w).
Proof.
  unfold winv, w_line. cbn [out line]. intro H. rewrite count_lf_app. unfold count_lf at 2. cbn [filter].
  rewrite N.eqb_refl. cbn [length]. fold (count_lf (spaces (ind w * INDENT_WIDTH))). rewrite count_lf_spaces. lia.
Qed.

Lemma wstep_inv w o : winv w -> winv (wstep w o).
Proof.
  intro H. destruct o as [|s nl| | |off cur]; cbn [wstep].
  - apply w_line_inv. exact H.
  - unfold winv. cbn [out line]. rewrite count_lf_app.
    assert (H1 : winv (if nl then w_line w else w)) by (destruct nl; [apply w_line_inv|]; exact H).
    unfold winv in H1. lia.
  - exact H.
  - exact H.
  - exact H.
Qed.

(* the line counter always equals 1 + the number of line feeds written, whatever is written *)
Theorem line_counter_in_step ops prefix : winv (wrun ops (winit prefix)).
Proof.
  unfold wrun. assert (H : winv (winit prefix)) by reflexivity. revert H. generalize (winit prefix).
  induction ops as [|o ops IH]; intros w H; [exact H|]. cbn [fold_left]. apply IH. apply wstep_inv. exact H.
Qed.

Lemma skip_lines_0 t : skip_lines t 0 = Some t.
Proof. destruct t; reflexivity. Qed.

Lemma skip_lines_app a : forall rest, skip_lines (a ++ LF :: rest) (S (count_lf a)) = Some rest.
Proof.
  induction a as [|c a IH]; intro rest.
  - cbn [app count_lf filter length skip_lines]. rewrite N.eqb_refl. apply skip_lines_0.
  - cbn [app]. unfold count_lf. cbn [filter]. destruct (N.eqb LF c) eqn:E.
    + cbn [length]. apply N.eqb_eq in E. subst c. cbn [skip_lines]. rewrite N.eqb_refl. apply IH.
    + cbn [skip_lines]. rewrite N.eqb_sym, E. apply IH.
Qed.

Lemma skip_cols_spaces n rest : skip_cols (spaces n ++ rest) n = Some rest.
Proof. induction n as [|n IH]; [reflexivity|]. cbn [spaces repeat app skip_cols]. exact IH. Qed.

(* an entry recorded (not "in the current line") directly before a statement written on a new line gives the
   0-based line and the column at which that statement begins - and whatever is written later stays behind it *)
Theorem entry_points_at_statement w off s later :
  winv w ->
  let w' := wstep (wstep w (WAdd off false)) (WStmnt s true) in
  exists ln col, last (entries w') (0%Z, 0, 0) = (off, ln, col) /\
                 locate (out w' ++ later) ln col = Some (s ++ later).
Proof.
  intro H. cbn [wstep w_line out line ind entries].
  exists (line w), (ind w * INDENT_WIDTH). split.
  - rewrite last_last. reflexivity.
  - unfold locate. rewrite H.
    replace (((out w ++ LF :: spaces (ind w * INDENT_WIDTH)) ++ s) ++ later)
      with (out w ++ LF :: (spaces (ind w * INDENT_WIDTH) ++ (s ++ later)))
      by (rewrite <- !app_assoc; reflexivity).
    rewrite skip_lines_app. apply skip_cols_spaces.
Qed.
