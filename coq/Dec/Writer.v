(* The text writer shared by both decompilers (write_stmnt, write_line, the indent of Blk,
   source_map_add_opcode): output text, line counter, indent, recorded source-map entries.
   Model file: definitions only. *)
From ES Require Import Base.

Definition LF : N := 10%N.
Definition SP : N := 32%N.
Definition INDENT_WIDTH : nat := 4.           (* NUMBER_OF_SPACES_PER_INDENT *)

Record wstate := mkW { out : text; line : nat; ind : nat; entries : list (Z * nat * nat) }.

Inductive wop :=
| WLine                                  (* write_line *)
| WStmnt (s : text) (newline : bool)     (* write_stmnt(s, line) *)
| WIndent | WDedent                      (* Blk enter / exit (indent only) *)
| WAdd (off : Z) (in_current_line : bool).   (* source_map_add_opcode *)

Definition count_lf (t : text) : nat := length (filter (N.eqb LF) t).
Definition spaces (n : nat) : text := repeat SP n.

(* length of the last line of the output *)
Fixpoint last_line_len (t : text) (acc : nat) : nat :=
  match t with
  | [] => acc
  | c :: r => if N.eqb c LF then last_line_len r 0 else last_line_len r (S acc)
  end.

Definition w_line (w : wstate) : wstate :=
  mkW (out w ++ LF :: spaces (ind w * INDENT_WIDTH)) (S (line w)) (ind w) (entries w).

Definition wstep (w : wstate) (o : wop) : wstate :=
  match o with
  | WLine => w_line w
  | WStmnt s nl =>
      let w1 := if nl then w_line w else w in
      mkW (out w1 ++ s) (line w1 + count_lf s) (ind w1) (entries w1)
  | WIndent => mkW (out w) (line w) (S (ind w)) (entries w)
  | WDedent => mkW (out w) (line w) (pred (ind w)) (entries w)
  | WAdd off cur =>
      let e := if cur then (off, pred (line w), S (last_line_len (out w) 0))
               else (off, line w, ind w * INDENT_WIDTH) in
      mkW (out w) (line w) (ind w) (entries w ++ [e])
  end.

Definition wrun (ops : list wop) (w : wstate) : wstate := fold_left wstep ops w.

(* start of convert(): the SsbScript decompiler starts after a prefix text *)
Definition winit (prefix : text) : wstate := mkW prefix (S (count_lf prefix)) 0 [].

(* the text that begins at 0-based line [ln], column [col] *)
Fixpoint skip_lines (t : text) (ln : nat) : option text :=
  match t with
  | [] => match ln with O => Some [] | S _ => None end
  | c :: r => match ln with
              | O => Some t
              | S k => if N.eqb c LF then skip_lines r k else skip_lines r ln
              end
  end.
Fixpoint skip_cols (t : text) (col : nat) {struct col} : option text :=
  match col with
  | O => Some t
  | S k => match t with
           | [] => None
           | c :: r => if N.eqb c LF then None else skip_cols r k
           end
  end.
Definition locate (t : text) (ln col : nat) : option text :=
  match skip_lines t ln with Some r => skip_cols r col | None => None end.
