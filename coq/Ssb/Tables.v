(* Hand-written specification tables of the SSB machine (which ops carry a jump target and where,
   which ops end the flow, which ops set a context).  [Props/TablesAgree.v] proves them equal to the
   tables regenerated from explorerscript/ssb_converting/ssb_special_ops.py on every run. *)
From ES Require Import Base.

(* op name -> index of the jump-target parameter (= number of ordinary parameters) *)
Definition jump_table : list (string * nat) :=
  [("Case", 1); ("CaseMenu", 1); ("CaseMenu2", 1); ("CaseScenario", 2); ("CaseValue", 2);
   ("CaseVariable", 2); ("Jump", 0); ("Call", 0);
   ("Branch", 2); ("BranchBit", 2); ("BranchDebug", 1); ("BranchEdit", 1); ("BranchExecuteSub", 1);
   ("BranchPerformance", 2); ("BranchScenarioNow", 3); ("BranchScenarioNowAfter", 3);
   ("BranchScenarioNowBefore", 3); ("BranchScenarioAfter", 3); ("BranchScenarioBefore", 3);
   ("BranchSum", 3); ("BranchValue", 3); ("BranchVariable", 3); ("BranchVariation", 1)]%string.

Definition branch_table : list (string * nat) :=
  [("Branch", 2); ("BranchBit", 2); ("BranchDebug", 1); ("BranchEdit", 1); ("BranchExecuteSub", 1);
   ("BranchPerformance", 2); ("BranchScenarioNow", 3); ("BranchScenarioNowAfter", 3);
   ("BranchScenarioNowBefore", 3); ("BranchScenarioAfter", 3); ("BranchScenarioBefore", 3);
   ("BranchSum", 3); ("BranchValue", 3); ("BranchVariable", 3); ("BranchVariation", 1)]%string.

Definition flow_end_ops : list string := ["Jump"; "JumpCommon"; "Return"; "End"; "Hold"; "Destroy"]%string.
Definition always_jump_ops : list string := ["Jump"; "JumpCommon"]%string.
Definition ctx_ops : list string := ["lives"; "object"; "performer"]%string.

Definition regular_cases : list string := ["Case"; "CaseValue"; "CaseVariable"; "CaseScenario"]%string.
Definition menu_cases : list string := ["CaseMenu"; "CaseMenu2"]%string.
Definition switch_case_map : list (string * list string) :=
  [("message_SwitchMenu", menu_cases); ("message_SwitchMenu2", menu_cases);
   ("Switch", regular_cases); ("SwitchSector", regular_cases); ("ProcessSpecial", regular_cases);
   ("message_Menu", regular_cases); ("SwitchScenario", regular_cases); ("SwitchRandom", regular_cases);
   ("SwitchScenarioLevel", regular_cases); ("SwitchDungeonMode", regular_cases);
   ("main_EnterAdventure", regular_cases); ("main_EnterRescueUser", regular_cases);
   ("main_EnterTraining", regular_cases); ("main_EnterTraining2", regular_cases)]%string.
Definition text_cases : list string := ["CaseText"; "DefaultText"]%string.
Definition switch_text_case_map : list (string * list string) :=
  [("message_SwitchTalk", text_cases); ("message_SwitchMonologue", text_cases)]%string.

Definition flag_ops : list string :=
  ["flag_CalcBit"; "flag_CalcValue"; "flag_CalcVariable"; "flag_Clear"; "flag_Initial"; "flag_Set";
   "flag_ResetDungeonResult"; "flag_ResetScenario"; "flag_SetAdventureLog"; "flag_SetDungeonMode";
   "flag_SetPerformance"; "flag_SetScenario"]%string.

Definition OP_JUMP : string := "Jump".
Definition OP_CALL : string := "Call".
Definition OP_RETURN : string := "Return".
