(* Executable bisimulation checker (model file: definitions only). *)
From ES Require Import Base Ssb.Param Ssb.Cfg.

Definition pp := (nat * nat)%type.
Definition pp_eqb (p q : pp) : bool := Nat.eqb (fst p) (fst q) && Nat.eqb (snd p) (snd q).
Definition pp_mem (p : pp) (l : list pp) : bool := existsb (pp_eqb p) l.

Definition succs (o1 o2 : obs) : option (list pp) :=
  match o1, o2 with
  | OStop, OStop => Some []
  | OEv e1 a, OEv e2 b => if event_eqb e1 e2 then Some [(a, b)] else None
  | OTst e1 t1 f1, OTst e2 t2 f2 => if event_eqb e1 e2 then Some [(t1, t2); (f1, f2)] else None
  | _, _ => None
  end.

Inductive eq_result :=
| EqOk (visited : list pp)
| EqFail (p : pp)
| EqFuel.

Fixpoint explore (fuel : nat) (g1 g2 : cfg) (todo visited : list pp) : eq_result :=
  match fuel with
  | O => EqFuel
  | S f =>
      match todo with
      | [] => EqOk visited
      | p :: todo' =>
          if pp_mem p visited then explore f g1 g2 todo' visited
          else match succs (observe g1 (fst p)) (observe g2 (snd p)) with
               | None => EqFail p
               | Some ss => explore f g1 g2 (ss ++ todo') (p :: visited)
               end
      end
  end.

Definition equiv_fuel (g1 g2 : cfg) (entries : list pp) : nat :=
  3 * ((S (length g1)) * (S (length g2))) + length entries + 1.

Definition equiv_run (g1 g2 : cfg) (entries : list pp) : eq_result :=
  explore (equiv_fuel g1 g2 entries) g1 g2 entries [].

Definition equiv_check (g1 g2 : cfg) (entries : list pp) : bool :=
  match equiv_run g1 g2 entries with EqOk _ => true | _ => false end.
