(* Operation parameters as a binary SSB reader / the compiler delivers them. *)
From ES Require Import Base.

Inductive param :=
| PInt (z : Z)
| PFixed (s : string)                 (* textual value of SsbOpParamFixedPoint *)
| PConst (s : string)                 (* SsbOpParamConstant name *)
| PStr (s : text)                     (* SsbOpParamConstString *)
| PLang (l : list (string * text))    (* SsbOpParamLanguageString, keys in order *)
| PPos (name : text) (xo yo xr yr : Z).

Definition lang_eqb : list (string * text) -> list (string * text) -> bool :=
  list_eqb (pair_eqb String.eqb text_eqb).

(* strict equality (names of position marks and key order of language strings included) *)
Definition param_eqb (a b : param) : bool :=
  match a, b with
  | PInt x, PInt y => Z.eqb x y
  | PFixed x, PFixed y => String.eqb x y
  | PConst x, PConst y => String.eqb x y
  | PStr x, PStr y => text_eqb x y
  | PLang x, PLang y => lang_eqb x y
  | PPos n xo yo xr yr, PPos n' xo' yo' xr' yr' =>
      text_eqb n n' && Z.eqb xo xo' && Z.eqb yo yo' && Z.eqb xr xr' && Z.eqb yr yr'
  | _, _ => false
  end.

Lemma lang_eqb_spec a b : lang_eqb a b = true <-> a = b.
Proof.
  apply list_eqb_spec. apply pair_eqb_spec; [apply string_eqb_spec | apply text_eqb_spec].
Qed.

Lemma param_eqb_spec a b : param_eqb a b = true <-> a = b.
Proof.
  destruct a, b; simpl; try (split; intro; discriminate).
  - rewrite Z.eqb_eq. split; congruence.
  - rewrite String.eqb_eq. split; congruence.
  - rewrite String.eqb_eq. split; congruence.
  - rewrite text_eqb_spec. split; congruence.
  - rewrite lang_eqb_spec. split; congruence.
  - rewrite !andb_true_iff, text_eqb_spec, !Z.eqb_eq. split.
    + intros [[[[? ?] ?] ?] ?]; congruence.
    + intro E; inversion E; auto.
Qed.

Definition params_eqb : list param -> list param -> bool := list_eqb param_eqb.
Lemma params_eqb_spec a b : params_eqb a b = true <-> a = b.
Proof. apply list_eqb_spec, param_eqb_spec. Qed.

(* Python's own __eq__ on position marks ignores the name; used only where a property grants it. *)
Definition param_eqb_py (a b : param) : bool :=
  match a, b with
  | PPos _ xo yo xr yr, PPos _ xo' yo' xr' yr' =>
      Z.eqb xo xo' && Z.eqb yo yo' && Z.eqb xr xr' && Z.eqb yr yr'
  | _, _ => param_eqb a b
  end.
