(* Control-flow graphs with observable events: the common semantic domain of SSB op lists and
   ExplorerScript routines.  Behavioural equivalence = bisimilarity of observations. *)
From ES Require Import Base Ssb.Param.

Definition event := (string * list param)%type.

Definition event_eqb (a b : event) : bool := String.eqb (fst a) (fst b) && params_eqb (snd a) (snd b).
Lemma event_eqb_spec a b : event_eqb a b = true <-> a = b.
Proof.
  destruct a as [c p], b as [c' p']; unfold event_eqb; simpl.
  rewrite andb_true_iff, String.eqb_eq, params_eqb_spec. split.
  - intros [? ?]; congruence.
  - intro E; inversion E; auto.
Qed.

Inductive node :=
| NOp (e : event) (next : nat)          (* perform an operation, continue *)
| NTest (e : event) (t f : nat)         (* perform a test: taken -> t, not taken -> f *)
| NGoto (n : nat)                       (* silent move (Jump) *)
| NStop                                 (* the routine stops *)
| NStuck.                               (* undefined behaviour (dangling target) *)

Definition cfg := list node.

Inductive obs :=
| OStop | OStuck | OFuel
| OEv (e : event) (n : nat)
| OTst (e : event) (t f : nat).

Fixpoint next_obs (fuel : nat) (g : cfg) (n : nat) : obs :=
  match fuel with
  | O => OFuel
  | S fuel' =>
      match nth_error g n with
      | None => OStuck
      | Some NStop => OStop
      | Some NStuck => OStuck
      | Some (NOp e n') => OEv e n'
      | Some (NTest e t f) => OTst e t f
      | Some (NGoto n') => next_obs fuel' g n'
      end
  end.

(* |g|+1 steps suffice unless there is a cycle of silent moves. *)
Definition observe (g : cfg) (n : nat) : obs := next_obs (S (length g)) g n.

Fixpoint beh_n (k : nat) (g1 g2 : cfg) (a b : nat) : Prop :=
  match k with
  | O => True
  | S k' =>
      match observe g1 a, observe g2 b with
      | OStop, OStop => True
      | OEv e1 a', OEv e2 b' => e1 = e2 /\ beh_n k' g1 g2 a' b'
      | OTst e1 t1 f1, OTst e2 t2 f2 => e1 = e2 /\ beh_n k' g1 g2 t1 t2 /\ beh_n k' g1 g2 f1 f2
      | _, _ => False
      end
  end.

(* Behavioural equivalence: equal observations to every depth. *)
Definition beh_eq (g1 g2 : cfg) (a b : nat) : Prop := forall k, beh_n k g1 g2 a b.

(* The same thing said with traces: for every oracle deciding the outcome of the i-th test and
   every length, the two sides perform the same sequence of operations and tests. *)
Inductive item :=
| IOp (e : event)
| ITest (e : event) (taken : bool)
| IStop
| IUndefined.

Fixpoint trace (steps : nat) (orc : nat -> bool) (i : nat) (g : cfg) (n : nat) : list item :=
  match steps with
  | O => []
  | S s =>
      match observe g n with
      | OStop => [IStop]
      | OStuck | OFuel => [IUndefined]
      | OEv e n' => IOp e :: trace s orc i g n'
      | OTst e t f => let b := orc i in ITest e b :: trace s orc (S i) g (if b then t else f)
      end
  end.

(* a cycle of silent moves (Jump ops only): excluded by the properties *)
Definition silent_cycle (g : cfg) : bool :=
  existsb (fun n => match observe g n with OFuel => true | _ => false end) (seq 0 (length g)).
